//! Family `cli`: the real `tarpc::client` (dispatch + call futures) over a `SimTransport`, every
//! future polled by hand under a paused tokio clock.  Mirrors `lean/TarpcModel/Client/Model.lean`.
use crate::rng::Rng;
use crate::simt::{self, flag_waker, log, FlagWaker, Inb, SimState, SimTransport};
use crate::Out;
use std::{
    cell::RefCell,
    collections::BTreeMap,
    future::Future,
    panic::{catch_unwind, AssertUnwindSafe},
    pin::Pin,
    rc::Rc,
    sync::{atomic::Ordering, Arc},
    task::{Context, Poll, Waker},
    time::{Duration, Instant},
};
use tarpc::{
    client::{self, RpcError},
    context, trace, ChannelError, ClientMessage, Response, ServerError,
};

pub type Req = u64;
pub type Resp = u64;
type CT = SimTransport<ClientMessage<Req>, Response<Resp>>;
type Dispatch = client::RequestDispatch<Req, Resp, CT>;

pub const KINDS: [std::io::ErrorKind; 19] = {
    use std::io::ErrorKind::*;
    [
        NotFound, PermissionDenied, ConnectionRefused, ConnectionReset, ConnectionAborted, NotConnected,
        AddrInUse, AddrNotAvailable, BrokenPipe, AlreadyExists, WouldBlock, InvalidInput, InvalidData,
        TimedOut, WriteZero, Interrupted, Other, UnexpectedEof, Unsupported,
    ]
};

pub fn kind_index(k: std::io::ErrorKind) -> usize {
    KINDS.iter().position(|x| *x == k).unwrap_or(16)
}

pub fn show_span(s: u64) -> String {
    // (script-chosen span ids are small or one of the two boundary values; ids drawn by the code under test are random)
    if s < (1 << 32) || s >= u64::MAX - 1 {
        format!("{s}")
    } else {
        format!("f{s:x}")
    }
}

pub fn show_trace(t: &trace::Context) -> String {
    format!(
        "{}/{}/{}",
        u128::from(t.trace_id),
        show_span(u64::from(t.span_id)),
        if t.sampling_decision == trace::SamplingDecision::Sampled { 1 } else { 0 }
    )
}

pub fn ns_since(base: Instant, t: Instant) -> u128 {
    t.saturating_duration_since(base).as_nanos()
}

thread_local! {
    pub static BASE: RefCell<Option<Instant>> = const { RefCell::new(None) };
}

pub fn base() -> Instant {
    BASE.with(|b| b.borrow().expect("base"))
}

pub fn show_client_msg(m: &ClientMessage<Req>) -> String {
    match m {
        ClientMessage::Request(r) => format!(
            "req:{}:{}:{}:{}",
            r.id,
            ns_since(base(), r.context.deadline),
            show_trace(&r.context.trace_context),
            r.message
        ),
        ClientMessage::Cancel { trace_context, request_id } => {
            format!("can:{}:{}", request_id, show_trace(trace_context))
        }
        _ => "unknown".into(),
    }
}

pub fn show_response(r: &Response<Resp>) -> String {
    match &r.message {
        Ok(b) => format!("resp:{}:ok:{}", r.request_id, b),
        Err(e) => format!("resp:{}:err:{}", r.request_id, kind_index(e.kind)),
    }
}

pub fn make_ctx(deadline_ns: u128, tid: u128, span: u64, sampled: bool) -> context::Context {
    let mut ctx = context::current();
    ctx.deadline = base() + Duration::new((deadline_ns / 1_000_000_000) as u64, (deadline_ns % 1_000_000_000) as u32);
    ctx.trace_context = trace::Context {
        trace_id: trace::TraceId::from(tid),
        span_id: trace::SpanId::from(span),
        sampling_decision: if sampled { trace::SamplingDecision::Sampled } else { trace::SamplingDecision::Unsampled },
    };
    ctx
}

pub fn activity<E: ?Sized>(e: &ChannelError<E>) -> &'static str {
    match e {
        ChannelError::Read(_) => "read",
        ChannelError::Ready(_) => "ready",
        ChannelError::Write(_) => "write",
        ChannelError::Flush(_) => "flush",
        ChannelError::Close(_) => "close",
    }
}

pub fn show_outcome(r: &Result<Resp, RpcError>) -> String {
    match r {
        Ok(b) => format!("ok:{b}"),
        Err(RpcError::Shutdown) => "shutdown".into(),
        Err(RpcError::Send(_)) => "send".into(),
        Err(RpcError::Channel(e)) => format!("channel:{}", activity(e)),
        Err(RpcError::DeadlineExceeded) => "deadline".into(),
        Err(RpcError::Server(e)) => format!("server:{}", kind_index(e.kind)),
    }
}

type CallFut = Pin<Box<dyn Future<Output = Result<Resp, RpcError>>>>;

struct CallSlot {
    fut: Option<CallFut>,
    fw: Arc<FlagWaker>,
    waker: Waker,
}

pub struct Client {
    pub name: String,
    pub sim: Rc<RefCell<SimState<ClientMessage<Req>, Response<Resp>>>>,
    dispatch: Option<Pin<Box<Dispatch>>>,
    dfw: Arc<FlagWaker>,
    dwaker: Waker,
    pub done: bool,
    pub poisoned: bool,
    handles: BTreeMap<u64, client::Channel<Req, Resp>>,
    next_handle: u64,
    calls: Vec<CallSlot>,
    call_bodies: Vec<u64>,
    max_in_flight: usize,
}

fn panic_site(p: &(dyn std::any::Any + Send)) -> String {
    let msg = p
        .downcast_ref::<String>()
        .cloned()
        .or_else(|| p.downcast_ref::<&str>().map(|s| s.to_string()))
        .unwrap_or_default();
    if msg.contains("verif-spin") {
        "spin".into()
    } else if msg.contains("invalid deadline") {
        "DelayQueue::insert: invalid deadline".into()
    } else if msg.contains("Request IDs should be unique") {
        "Request IDs should be unique".into()
    } else if msg.contains("invalid key") {
        "deadlines.remove: invalid key".into()
    } else if msg.contains("overflow when adding duration to instant") {
        "Instant + Duration overflow".into()
    } else if msg.contains("a formatting trait implementation returned an error") {
        "span field formatting failed".into()
    } else {
        format!("other: {}", msg.replace(' ', "_"))
    }
}

impl Client {
    pub fn new(name: &str, max_in_flight: usize, buf: usize, cap: usize, coupled: bool) -> Client {
        let sim = Rc::new(RefCell::new(SimState::new(name, cap, coupled, show_client_msg as fn(&_) -> String, show_response as fn(&_) -> String)));
        sim.borrow_mut().body_of = Some(|m: &ClientMessage<Req>| match m {
            ClientMessage::Request(r) => Some(r.message),
            _ => None,
        });
        let mut config = client::Config::default();
        config.max_in_flight_requests = max_in_flight;
        config.pending_request_buffer = buf;
        let nc = client::new(config, SimTransport(sim.clone()));
        let (dfw, dwaker) = flag_waker(name);
        let mut handles = BTreeMap::new();
        handles.insert(0, nc.client);
        Client {
            name: name.into(),
            sim,
            dispatch: Some(Box::pin(nc.dispatch)),
            dfw,
            dwaker,
            done: false,
            poisoned: false,
            handles,
            next_handle: 1,
            calls: vec![],
            call_bodies: vec![],
            max_in_flight,
        }
    }

    pub fn dispatch_woken(&self) -> bool {
        self.dispatch.is_some() && !self.done && !self.poisoned && self.dfw.flag.load(Ordering::SeqCst)
    }
    pub fn dispatch_alive(&self) -> bool {
        self.dispatch.is_some() && !self.done && !self.poisoned
    }
    pub fn call_live(&self, c: usize) -> bool {
        self.calls.get(c).map(|s| s.fut.is_some()).unwrap_or(false)
    }
    pub fn call_woken(&self, c: usize) -> bool {
        self.call_live(c) && self.calls[c].fw.flag.load(Ordering::SeqCst)
    }
    pub fn live_calls(&self) -> Vec<usize> {
        (0..self.calls.len()).filter(|c| self.call_live(*c)).collect()
    }
    pub fn handle_ids(&self) -> Vec<u64> {
        self.handles.keys().copied().collect()
    }
    pub fn n_calls(&self) -> usize {
        self.calls.len()
    }

    pub fn new_call(&mut self, h: u64, ctx: context::Context, body: u64) -> Option<usize> {
        let ch = match self.handles.get(&h) {
            Some(ch) => ch.clone(),
            None => {
                log("noop".into());
                return None;
            }
        };
        let cid = self.calls.len();
        let (fw, waker) = flag_waker(&format!("c{cid}"));
        let fut: CallFut = Box::pin(async move { ch.call(ctx, body).await });
        self.calls.push(CallSlot { fut: Some(fut), fw, waker });
        self.call_bodies.push(body);
        Some(cid)
    }

    pub fn poll_call(&mut self, c: usize) {
        if !self.call_live(c) {
            log("noop".into());
            return;
        }
        let slot = &mut self.calls[c];
        slot.fw.flag.store(false, Ordering::SeqCst);
        let waker = slot.waker.clone();
        let fut = slot.fut.as_mut().unwrap();
        let r = catch_unwind(AssertUnwindSafe(|| {
            let mut cx = Context::from_waker(&waker);
            fut.as_mut().poll(&mut cx)
        }));
        let r = match r {
            Ok(r) => r,
            Err(p) => {
                // the call panicked in the caller's task: the future is gone (leaked: its state may be inconsistent)
                log(format!("panic c{c} {}", panic_site(&*p)));
                slot.fw.live.store(false, Ordering::SeqCst);
                std::mem::forget(slot.fut.take());
                return;
            }
        };
        match r {
            Poll::Pending => log(format!("ret c{c} pending")),
            Poll::Ready(res) => {
                log(format!("resolved {c} {} at={}", show_outcome(&res), ns_since(base(), tarpc::verif_hooks::now())));
                slot.fw.live.store(false, Ordering::SeqCst);
                slot.fut = None; // an executor drops a completed future
            }
        }
    }

    /// Drops call `c`; if `site` is given the dispatch is polled at that yield point of the guard.
    pub fn drop_call(&mut self, c: usize, site: Option<&'static str>) {
        if !self.call_live(c) {
            log("noop".into());
            return;
        }
        self.calls[c].fw.live.store(false, Ordering::SeqCst);
        let fut = self.calls[c].fut.take();
        if let Some(site) = site {
            let me: *mut Client = self;
            tarpc::verif_hooks::set_yield_hook(Some(Box::new(move |s, _id| {
                if s == site {
                    // Safety: single-threaded; the call future being dropped is already detached
                    // from `self.calls`, and `poll_dispatch` does not touch it.
                    unsafe { (*me).poll_dispatch() };
                }
            })));
        }
        drop(fut);
        tarpc::verif_hooks::set_yield_hook(None);
    }

    pub fn clone_handle(&mut self, h: u64) {
        match self.handles.get(&h) {
            Some(ch) => {
                let c = ch.clone();
                self.handles.insert(self.next_handle, c);
                self.next_handle += 1;
            }
            None => log("noop".into()),
        }
    }
    pub fn drop_handle(&mut self, h: u64) {
        if self.handles.remove(&h).is_none() {
            log("noop".into());
        }
    }

    pub fn poll_dispatch(&mut self) {
        if !self.dispatch_alive() {
            log("noop".into());
            return;
        }
        self.dfw.flag.store(false, Ordering::SeqCst);
        self.sim.borrow_mut().calls_this_poll = 0;
        let mark = simt::LOG.lock().unwrap().len();
        let waker = self.dwaker.clone();
        let d = self.dispatch.as_mut().unwrap();
        let r = catch_unwind(AssertUnwindSafe(|| {
            let mut cx = Context::from_waker(&waker);
            d.as_mut().poll(&mut cx)
        }));
        let name = self.name.clone();
        match r {
            Err(p) => {
                let site = panic_site(&*p);
                self.poisoned = true;
                self.dfw.live.store(false, Ordering::SeqCst);
                if site == "spin" {
                    simt::LOG.lock().unwrap().truncate(mark);
                    log(format!("spin {name}"));
                } else {
                    log(format!("panic {name} {site}"));
                }
                // a poisoned dispatch is leaked rather than dropped (its state may be inconsistent)
                std::mem::forget(self.dispatch.take());
            }
            Ok(Poll::Pending) => {
                log(format!("ret {name} pending"));
                self.counts();
            }
            Ok(Poll::Ready(Ok(()))) => {
                log(format!("ret {name} ok"));
                self.counts();
                self.done = true;
                self.dfw.live.store(false, Ordering::SeqCst);
                self.dispatch = None; // an executor drops a completed future
            }
            Ok(Poll::Ready(Err(e))) => {
                log(format!("ret {name} err({})", activity(&e)));
                self.counts();
                self.done = true;
                self.dfw.live.store(false, Ordering::SeqCst);
                self.dispatch = None; // an executor drops a completed future
            }
        }
    }

    fn counts(&self) {
        if let Some(d) = &self.dispatch {
            let (a, b) = d.verif_counts();
            log(format!("counts {} {} {}", self.name, a, b));
        }
    }

    /// Polls woken tasks (dispatch first, then calls in creation order) until none is woken, then
    /// reports the calls that are stuck (mirrors `Client/Settle.lean`).
    pub fn settle(&mut self) {
        for _ in 0..400 {
            if self.dispatch_woken() {
                self.poll_dispatch();
            } else if let Some(c) = (0..self.calls.len()).find(|c| self.call_woken(*c)) {
                self.poll_call(c);
            } else {
                break;
            }
        }
        if self.dispatch_woken() || (0..self.calls.len()).any(|c| self.call_woken(c)) {
            log("settled ok".into());
            return;
        }
        let (ready_now, term) = {
            let s = self.sim.borrow();
            (if s.coupled { s.buffered.len() < s.cap } else { s.ready_open && s.buffered.len() < s.cap }, s.term_seen)
        };
        let inflight = self.dispatch.as_ref().map(|d| d.verif_counts().0).unwrap_or(0);
        let at_capacity = self.dispatch.is_some() && inflight >= self.max_in_flight;
        let mut stuck = vec![];
        for c in 0..self.calls.len() {
            if !self.call_live(c) {
                continue;
            }
            let written = self.sim.borrow().sent_bodies.contains(&self.call_bodies[c]);
            if !(written || !ready_now || at_capacity || term) {
                stuck.push(format!("c{c}"));
            }
        }
        let (unread, eof_read) = {
            let s = self.sim.borrow();
            (s.inbound.len(), s.eof_read)
        };
        if unread > 0 && self.dispatch_alive() && !term && !eof_read {
            stuck.push(format!("inbound-unread={unread}"));
        }
        if stuck.is_empty() {
            log("settled ok".into());
        } else {
            log(format!("settled stuck {}", stuck.join(" ")));
        }
    }

    pub fn drop_dispatch(&mut self) {
        if self.dispatch.is_none() {
            log("noop".into());
            return;
        }
        self.dfw.live.store(false, Ordering::SeqCst);
        self.dispatch = None;
    }
}

// ------------------------------------------------------------------------------------------------
// ops

#[derive(Clone, Debug)]
pub enum Op {
    Call { h: u64, d: u128, tid: u128, span: u64, sampled: bool, body: u64 },
    PollCall(usize),
    DropCall(usize, Option<&'static str>),
    Clone(u64),
    DropHandle(u64),
    PollDispatch,
    DropDispatch,
    InjectResp { id: u64, res: Result<u64, usize> },
    InjectErr,
    Eof,
    SetReady(bool),
    SetFlush(bool),
    Fault(&'static str),
    FaultSkip(u64),
    SelfWake(bool),
    Take(usize),
    Advance(u64),
    Settle,
}

fn site_of(s: &str) -> Option<&'static str> {
    match s {
        "enter" => Some("guard-drop-enter"),
        "mid" => Some("guard-drop-mid"),
        "exit" => Some("guard-drop-exit"),
        _ => None,
    }
}

fn site_name(s: Option<&'static str>) -> &'static str {
    match s {
        Some("guard-drop-enter") => " enter",
        Some("guard-drop-mid") => " mid",
        Some("guard-drop-exit") => " exit",
        _ => "",
    }
}

fn fault_kind(s: &str) -> Option<&'static str> {
    ["ready", "send", "flush", "close", "next"].into_iter().find(|k| *k == s)
}

fn kv<'a>(toks: &[&'a str], key: &str) -> Option<&'a str> {
    let pre = format!("{key}=");
    toks.iter().find_map(|t| t.strip_prefix(pre.as_str()))
}

impl Op {
    pub fn parse(toks: &[&str]) -> Option<Op> {
        match toks {
            ["call", rest @ ..] => {
                let t = kv(rest, "t")?;
                let mut parts = t.split('/');
                Some(Op::Call {
                    h: kv(rest, "h")?.parse().ok()?,
                    d: kv(rest, "d")?.parse().ok()?,
                    tid: parts.next()?.parse().ok()?,
                    span: parts.next()?.parse().ok()?,
                    sampled: parts.next()? == "1",
                    body: kv(rest, "b")?.parse().ok()?,
                })
            }
            ["poll-call", c] => Some(Op::PollCall(c.parse().ok()?)),
            ["drop-call", c] => Some(Op::DropCall(c.parse().ok()?, None)),
            ["drop-call", c, site] => Some(Op::DropCall(c.parse().ok()?, site_of(site))),
            ["clone", h] => Some(Op::Clone(h.parse().ok()?)),
            ["drop-handle", h] => Some(Op::DropHandle(h.parse().ok()?)),
            ["poll-dispatch"] => Some(Op::PollDispatch),
            ["drop-dispatch"] => Some(Op::DropDispatch),
            ["inject", "resp", rest @ ..] => {
                let id = kv(rest, "id")?.parse().ok()?;
                let res = match (kv(rest, "ok"), kv(rest, "err")) {
                    (Some(b), _) => Ok(b.parse().ok()?),
                    (_, Some(k)) => Err(k.parse().ok()?),
                    _ => return None,
                };
                Some(Op::InjectResp { id, res })
            }
            ["inject", "err"] => Some(Op::InjectErr),
            ["eof"] => Some(Op::Eof),
            ["set-ready", b] => Some(Op::SetReady(*b == "1")),
            ["set-flush", b] => Some(Op::SetFlush(*b == "1")),
            ["fault", k] => Some(Op::Fault(fault_kind(k)?)),
            ["fault-skip", n] => Some(Op::FaultSkip(n.parse().ok()?)),
            ["self-wake", b] => Some(Op::SelfWake(*b == "1")),
            ["take", n] => Some(Op::Take(n.parse().ok()?)),
            ["advance", n] => Some(Op::Advance(n.parse().ok()?)),
            ["settle"] => Some(Op::Settle),
            _ => None,
        }
    }
    pub fn render(&self) -> String {
        match self {
            Op::Settle => "settle".into(),
            Op::Call { h, d, tid, span, sampled, body } => {
                format!("call h={h} d={d} t={tid}/{span}/{} b={body}", if *sampled { 1 } else { 0 })
            }
            Op::PollCall(c) => format!("poll-call {c}"),
            Op::DropCall(c, s) => format!("drop-call {c}{}", site_name(*s)),
            Op::Clone(h) => format!("clone {h}"),
            Op::DropHandle(h) => format!("drop-handle {h}"),
            Op::PollDispatch => "poll-dispatch".into(),
            Op::DropDispatch => "drop-dispatch".into(),
            Op::InjectResp { id, res: Ok(b) } => format!("inject resp id={id} ok={b}"),
            Op::InjectResp { id, res: Err(k) } => format!("inject resp id={id} err={k}"),
            Op::InjectErr => "inject err".into(),
            Op::Eof => "eof".into(),
            Op::SetReady(b) => format!("set-ready {}", *b as u8),
            Op::SetFlush(b) => format!("set-flush {}", *b as u8),
            Op::Fault(k) => format!("fault {k}"),
            Op::FaultSkip(n) => format!("fault-skip {n}"),
            Op::SelfWake(b) => format!("self-wake {}", *b as u8),
            Op::Take(n) => format!("take {n}"),
            Op::Advance(n) => format!("advance {n}"),
        }
    }
}

pub fn make_response(id: u64, res: Result<u64, usize>) -> Response<Resp> {
    Response {
        request_id: id,
        message: res.map_err(|k| ServerError::new(KINDS[k % KINDS.len()], "e".into())),
    }
}

pub struct Params {
    pub max: usize,
    pub buf: usize,
    pub cap: usize,
    pub coupled: bool,
    /// woken-only scheduling: a task is polled only after its waker fired
    pub wo: bool,
    /// fault / failure ops allowed
    pub faults: bool,
    /// boundary-valued fields (deadlines decades away, extreme ids)
    pub extreme: bool,
    /// deadlines days to months away, with clock steps that reach them
    pub long: bool,
    /// tracing subscriber installed while the script runs: 0 none, 1 formatting, 2 OpenTelemetry
    pub sub: u8,
}

/// `--burst=1` of a generating run: large buffers / limits and bursts of calls.
pub static GEN_BURST: std::sync::atomic::AtomicU8 = std::sync::atomic::AtomicU8::new(0);

/// `--v2=1` of a generating run: fault countdowns (`fault-skip`) and transports that do not wake on the owner's own flush.
pub static GEN_V2: std::sync::atomic::AtomicU8 = std::sync::atomic::AtomicU8::new(0);

/// `--sub=` of a generating run (0 none, 1 formatting, 2 OpenTelemetry).
pub static GEN_SUB: std::sync::atomic::AtomicU8 = std::sync::atomic::AtomicU8::new(0);

/// Installs the tracing subscriber a script asks for (for the current thread, until the guard is dropped).
pub fn install_subscriber(sub: u8) -> Option<tracing::subscriber::DefaultGuard> {
    use opentelemetry::trace::TracerProvider as _;
    use tracing_subscriber::layer::SubscriberExt;
    match sub {
        1 => Some(tracing::subscriber::set_default(
            tracing_subscriber::fmt().with_max_level(tracing::Level::TRACE).with_writer(std::io::sink).finish(),
        )),
        2 => {
            let provider = opentelemetry_sdk::trace::TracerProvider::builder().build();
            let layer = tracing_opentelemetry::layer().with_tracer(provider.tracer("verif"));
            Some(tracing::subscriber::set_default(tracing_subscriber::Registry::default().with(layer)))
        }
        _ => None,
    }
}

impl Params {
    pub fn header(&self) -> String {
        format!(
            "max={} buf={} cap={} coupled={} wo={} faults={} extreme={} long={} sub={}",
            self.max, self.buf, self.cap, self.coupled as u8, self.wo as u8, self.faults as u8, self.extreme as u8, self.long as u8, self.sub
        )
    }
    pub fn from_header(h: &str) -> Params {
        let g = |k: &str, d: u64| crate::header_param(h, k).and_then(|v| v.parse().ok()).unwrap_or(d);
        Params {
            max: g("max", 1) as usize,
            buf: g("buf", 1) as usize,
            cap: g("cap", 1) as usize,
            coupled: g("coupled", 1) == 1,
            wo: g("wo", 0) == 1,
            faults: g("faults", 0) == 1,
            extreme: g("extreme", 0) == 1,
            long: g("long", 0) == 1,
            sub: g("sub", 0) as u8,
        }
    }
}

pub fn flush_log(out: &mut Out) {
    for l in simt::take_log() {
        out.line(&format!("obs {l}"));
    }
}

pub fn apply(out: &mut Out, rt: &tokio::runtime::Runtime, cl: &mut Client, op: &Op) {
    match op {
        Op::Call { h, d, tid, span, sampled, body } => {
            cl.new_call(*h, make_ctx(*d, *tid, *span, *sampled), *body);
        }
        Op::PollCall(c) => cl.poll_call(*c),
        Op::DropCall(c, s) => cl.drop_call(*c, *s),
        Op::Clone(h) => cl.clone_handle(*h),
        Op::DropHandle(h) => cl.drop_handle(*h),
        Op::PollDispatch => cl.poll_dispatch(),
        Op::DropDispatch => cl.drop_dispatch(),
        Op::InjectResp { id, res } => cl.sim.borrow_mut().inject(Inb::Msg(make_response(*id, *res))),
        Op::InjectErr => cl.sim.borrow_mut().inject(Inb::Err),
        Op::Eof => cl.sim.borrow_mut().set_eof(),
        Op::SetReady(b) => cl.sim.borrow_mut().set_ready(*b),
        Op::SetFlush(b) => cl.sim.borrow_mut().set_flush(*b),
        Op::FaultSkip(n) => cl.sim.borrow_mut().fault_skip = *n,
        Op::SelfWake(b) => cl.sim.borrow_mut().self_wake = *b,
        Op::Fault(k) => {
            let mut s = cl.sim.borrow_mut();
            match *k {
                "ready" => s.fault_ready = true,
                "send" => s.fault_send = true,
                "flush" => s.fault_flush = true,
                "close" => s.fault_close = true,
                _ => s.fault_next = true,
            }
        }
        Op::Take(n) => {
            let items = cl.sim.borrow_mut().take(*n);
            for m in items {
                log(format!("took {} {}", cl.name, show_client_msg(&m)));
            }
        }
        Op::Advance(n) => {
            rt.block_on(tokio::time::advance(Duration::from_nanos(*n)));
        }
        Op::Settle => cl.settle(),
    }
    flush_log(out);
}

pub fn new_runtime() -> tokio::runtime::Runtime {
    tokio::runtime::Builder::new_current_thread()
        .enable_time()
        .start_paused(true)
        .build()
        .unwrap()
}

/// Deadlines (ns from the start of the script) for `extreme=1`: 2.2, 10 and 100 years (beyond the timer wheel's
/// 2^36 ms), 2^38 s (~8700 years: past year 9999 on the wall clock), and 2^63 − 2^33 s (wall-clock arithmetic
/// on it overflows `SystemTime`).
pub const EXTREME_DEADLINES_NS: [u128; 5] = [
    70_000_000_000_000_000,
    315_360_000_000_000_000,
    3_153_600_000_000_000_000,
    (1u128 << 38) * 1_000_000_000,
    ((1u128 << 63) - (1u128 << 33)) * 1_000_000_000,
];

/// Generated scripts keep the virtual clock below this (390 days < 2^35 ms).
pub const MAX_VIRTUAL_NS: u64 = 390 * 86_400 * 1_000_000_000;

/// Generator state: what the "peer" knows (requests seen on the wire) and what exists.
struct Gen {
    sent_ids: Vec<u64>,
    answered: Vec<u64>,
    now: u64,
    deadlines: Vec<u64>,
    ncalls: u64,
    /// an op the generator has decided to emit next (targeted fault placement)
    forced: std::collections::VecDeque<Op>,
    v2_done: bool,
}

fn gen_op(rng: &mut Rng, cl: &Client, g: &mut Gen, p: &Params) -> Op {
    if let Some(op) = g.forced.pop_front() {
        return op;
    }
    if GEN_V2.load(Ordering::SeqCst) != 0 && !g.v2_done {
        g.v2_done = true;
        if rng.chance(1, 3) {
            return Op::SelfWake(false);
        }
    }
    // a burst: many calls queued and abandoned at once, then a live one (work bounds, batch limits)
    if GEN_BURST.load(Ordering::SeqCst) != 0 && g.ncalls + 40 < 120 && rng.chance(1, 12) && !cl.handle_ids().is_empty() {
        let h = *rng.pick(&cl.handle_ids());
        let n = 12 + rng.below(30);
        let abandon = rng.chance(1, 2);
        let first = cl.calls.len();
        let d = g.now + 1_000_000_000 + rng.below(3) * 500_000;
        for i in 0..n {
            g.ncalls += 1;
            g.forced.push_back(Op::Call { h, d: d as u128, tid: 100 + g.ncalls as u128, span: 7000 + g.ncalls, sampled: false, body: 500 + g.ncalls });
            g.forced.push_back(Op::PollCall(first + i as usize));
        }
        if abandon {
            for i in 0..n {
                g.forced.push_back(Op::DropCall(first + i as usize, None));
            }
        } else {
            g.deadlines.push(d);
        }
        g.ncalls += 1;
        g.forced.push_back(Op::Call { h, d: (g.now + 3_600_000_000_000) as u128, tid: 100 + g.ncalls as u128, span: 7000 + g.ncalls, sampled: false, body: 500 + g.ncalls });
        g.forced.push_back(Op::PollCall(first + n as usize));
        g.forced.push_back(Op::PollDispatch);
        return g.forced.pop_front().unwrap();
    }
    let live = cl.live_calls();
    let woken_calls: Vec<usize> = live.iter().copied().filter(|c| cl.call_woken(*c)).collect();
    let handles = cl.handle_ids();
    let wire_len = cl.sim.borrow().wire.len();
    let d_pollable = if p.wo { cl.dispatch_woken() } else { cl.dispatch_alive() };
    let pollable_calls = if p.wo { woken_calls.clone() } else { live.clone() };
    let w = [
        if handles.is_empty() || g.ncalls >= if GEN_BURST.load(Ordering::SeqCst) != 0 { 120 } else { 14 } { 0 } else { 14 },       // 0 call
        if pollable_calls.is_empty() { 0 } else { 16 },                    // 1 poll-call
        if live.is_empty() { 0 } else { 7 },                               // 2 drop-call
        if d_pollable { 24 } else { 0 },                                   // 3 poll-dispatch
        if wire_len > 0 { 8 } else { 0 },                                  // 4 take
        10,                                                                // 5 inject resp
        8,                                                                 // 6 advance
        if p.coupled { 0 } else { 3 },                                     // 7 set-ready
        if p.coupled { 3 } else { 0 },                                     // 8 set-flush
        if p.faults { if GEN_V2.load(Ordering::SeqCst) != 0 { 4 } else { 2 } } else { 0 },   // 9 fault
        if p.faults { 1 } else { 0 },                                      // 10 inject err / eof
        if handles.is_empty() { 0 } else { 2 },                            // 11 clone / drop handle
        if p.faults && cl.dispatch_alive() { 1 } else { 0 },               // 12 drop-dispatch
        if p.wo { 6 } else { 0 },                                          // 13 settle
    ];
    match rng.weighted(&w) {
        0 => {
            g.ncalls += 1;
            // deadlines: distinct milliseconds per call so armed timers never tie
            let rel = *rng.pick(&[0u64, 300_000, 2_000_000, 20_000_000, 500_000_000, 3_600_000_000_000]);
            let sub = *rng.pick(&[0u64, 1, 999_999, 400_000]);
            // far deadlines land on distinct milliseconds: (multiple of 16 ms) + (call number mod 16)
            let far = ((g.now + rel) / 32_000_000 + 1) * 32_000_000 + (g.ncalls % 16) * 2_000_000 + sub;
            let d = if rel == 0 && rng.chance(1, 2) { g.now / 2 } else if rel < 2_000_000 { g.now + rel } else { far };
            // days to months away: within what the timer supports; the clock may be stepped there
            let d = if p.long && rng.chance(1, 2) {
                let day = 86_400_000_000_000u64;
                g.now + *rng.pick(&[7 * day, 30 * day, 200 * day]) + (g.ncalls % 16) * 2_000_000 + 1_000_000
            } else {
                d
            };
            g.deadlines.push(d); // (clock steps aim at ordinary deadlines only: virtual time stays below a year)
            // decades away: beyond the timer wheel's range (2^36 ms) unless the armed timeout is clamped
            let d = if p.extreme && rng.chance(1, 3) {
                (g.now + g.ncalls * 2_000_000) as u128 + *rng.pick(&EXTREME_DEADLINES_NS)
            } else {
                d as u128
            };
            Op::Call {
                h: *rng.pick(&handles),
                d,
                tid: if p.extreme && rng.chance(1, 4) { u128::MAX - g.ncalls as u128 } else { 100 + g.ncalls as u128 },
                span: if p.extreme && rng.chance(1, 4) { u64::MAX - (g.ncalls % 2) } else { 7000 + g.ncalls },
                sampled: rng.chance(1, 2),
                body: 500 + g.ncalls,
            }
        }
        1 => Op::PollCall(*rng.pick(&pollable_calls)),
        2 => {
            let c = *rng.pick(&live);
            let site = match rng.below(6) {
                0 => Some("guard-drop-enter"),
                1 => Some("guard-drop-mid"),
                2 => Some("guard-drop-exit"),
                _ => None,
            };
            // a write fault aimed at the cancellation this drop is about to queue
            if p.faults && rng.chance(1, 4) {
                g.forced.push_back(Op::Fault("send"));
            }
            Op::DropCall(c, site)
        }
        3 => Op::PollDispatch,
        4 => Op::Take(1 + rng.below(3) as usize),
        5 => {
            // answer a request that was transmitted (mostly), or a duplicate / unknown id
            let id = match rng.below(10) {
                0 => 1000 + rng.below(5),
                1 if !g.answered.is_empty() => *rng.pick(&g.answered),
                _ if !g.sent_ids.is_empty() => *rng.pick(&g.sent_ids),
                _ => rng.below(4),
            };
            g.answered.push(id);
            let res = if rng.chance(1, 6) { Err(rng.below(19) as usize) } else { Ok(9000 + id) };
            Op::InjectResp { id, res }
        }
        6 => {
            // to just before / exactly / just after some call's deadline (in ms terms), or a small step
            let step = if !g.deadlines.is_empty() && rng.chance(2, 3) {
                let d = *rng.pick(&g.deadlines);
                let target_ms = (d + 999_999) / 1_000_000;
                let target = target_ms * 1_000_000;
                let t = match rng.below(4) {
                    0 => target.saturating_sub(1),
                    1 => target,
                    2 => target + 1,
                    _ => d,
                };
                t.saturating_sub(g.now)
            } else {
                *rng.pick(&[1u64, 250_000, 1_000_000, 7_500_000])
            };
            let step = step.max(1);
            // stay below 2^35 ms of virtual time: beyond it an idle timer wheel's range is exhausted (known finding)
            let step = if g.now + step > crate::cli::MAX_VIRTUAL_NS { 1_000_000 } else { step };
            g.now += step;
            Op::Advance(step)
        }
        7 => Op::SetReady(rng.chance(1, 2)),
        8 => Op::SetFlush(rng.chance(1, 2)),
        9 => {
            let f = Op::Fault(*rng.pick(&["ready", "send", "send", "send", "flush", "close", "next"]));
            // (not in woken-only scripts: a countdown turns the model's few spurious timer wakes into visible differences)
            if GEN_V2.load(Ordering::SeqCst) != 0 && !p.wo && rng.chance(1, 2) {
                g.forced.push_back(f);
                Op::FaultSkip(1 + rng.below(3))
            } else {
                f
            }
        }
        10 => {
            if rng.chance(1, 2) {
                Op::InjectErr
            } else {
                Op::Eof
            }
        }
        11 => {
            if rng.chance(1, 2) {
                Op::Clone(*rng.pick(&handles))
            } else {
                Op::DropHandle(*rng.pick(&handles))
            }
        }
        12 => Op::DropDispatch,
        _ => Op::Settle,
    }
}

pub fn run_script(out: &mut Out, idx: u64, p: &Params, rng: &mut Rng, script: Option<&[Op]>, len: usize) {
    out.line(&format!("script {idx} cli {}", p.header()));
    let rt = new_runtime();
    let _g = rt.enter();
    BASE.with(|b| *b.borrow_mut() = Some(tarpc::verif_hooks::now()));
    simt::take_log();
    let _sub = install_subscriber(p.sub);
    let mut cl = Client::new("d0", p.max, p.buf, p.cap, p.coupled);
    let mut g = Gen { sent_ids: vec![], answered: vec![], now: 0, deadlines: vec![], ncalls: 0, forced: Default::default(), v2_done: false };
    let mut i = 0usize;
    loop {
        let op = match script {
            Some(s) => {
                if i >= s.len() {
                    break;
                }
                s[i].clone()
            }
            None => {
                if i >= len {
                    break;
                }
                gen_op(rng, &cl, &mut g, p)
            }
        };
        i += 1;
        out.line(&format!("op {}", op.render()));
        // the generator's "peer" learns ids from what is flushed onto the wire
        apply(out, &rt, &mut cl, &op);
        for m in cl.sim.borrow().wire.iter() {
            if let ClientMessage::Request(r) = m {
                if !g.sent_ids.contains(&r.id) {
                    g.sent_ids.push(r.id);
                }
            }
        }
    }
    // tear down quietly
    for c in 0..cl.n_calls() {
        if cl.call_live(c) {
            cl.calls[c].fw.live.store(false, Ordering::SeqCst);
        }
    }
    cl.dfw.live.store(false, Ordering::SeqCst);
    drop(cl);
    simt::take_log();
}

pub fn generate(out: &mut Out, seed: u64, scripts: u64, len: usize, wo: bool, faults: bool, extreme: bool, long: bool) {
    for idx in 0..scripts {
        let mut rng = Rng::new(seed.wrapping_mul(1_000_003).wrapping_add(idx));
        let p = Params {
            max: if GEN_BURST.load(Ordering::SeqCst) != 0 { *rng.pick(&[1usize, 2, 64]) } else { 1 + rng.below(3) as usize },
            buf: if GEN_BURST.load(Ordering::SeqCst) != 0 { *rng.pick(&[24usize, 64]) } else { 1 + rng.below(2) as usize },
            cap: if GEN_BURST.load(Ordering::SeqCst) != 0 { *rng.pick(&[1usize, 3, 64]) } else { 1 + rng.below(3) as usize },
            coupled: rng.chance(2, 3),
            wo,
            faults,
            extreme,
            long,
            sub: GEN_SUB.load(Ordering::SeqCst),
        };
        run_script(out, idx, &p, &mut rng, None, len);
    }
}

//! C07: deadlines across hops.  Runs the real `Context` (de)serialisation and real client/server
//! chains under a paused tokio clock (tarpc built with `verif-hooks` reads that clock), and prints
//! the deadline every receiver observed.  All times are nanoseconds since the epoch `base` taken
//! when the script's runtime starts.
use crate::rng::Rng;
use crate::Out;
use bincode::Options as _;
use bytes::BytesMut;
use futures::{prelude::*, task::noop_waker_ref};
use std::{
    cell::RefCell,
    io,
    pin::Pin,
    rc::Rc,
    task::{Context as TaskCx, Poll},
    time::{Duration, Instant},
};
use tarpc::{
    client, context,
    server::{serve, BaseChannel, Channel as _},
    ClientMessage, Request, Response,
};
use tokio::io::{AsyncReadExt, AsyncWriteExt};
use tokio_serde::{
    formats::{Bincode, Json},
    Deserializer as _, Serializer as _,
};
use tokio_util::codec::{Framed, LengthDelimitedCodec};

#[derive(Clone, Copy, Debug, PartialEq, Eq)]
pub enum Codec {
    Json,
    Bincode,
    Mem,
}

impl Codec {
    fn name(self) -> &'static str {
        match self {
            Codec::Json => "json",
            Codec::Bincode => "bincode",
            Codec::Mem => "mem",
        }
    }
    fn parse(s: &str) -> Option<Codec> {
        match s {
            "json" => Some(Codec::Json),
            "bincode" => Some(Codec::Bincode),
            "mem" => Some(Codec::Mem),
            _ => None,
        }
    }
}

#[derive(Clone, Debug)]
pub enum Op {
    /// Encode at `send`, decode at `recv`.  `ctx_only`: bare `Context` through `serde_json` /
    /// `bincode::DefaultOptions` instead of a whole request through the transport codec object.
    Hop { codec: Codec, d: u64, send: u64, recv: u64, ctx_only: bool },
    /// JSON request with the `deadline` field deleted, decoded at `recv`.
    Default { recv: u64 },
    /// A chain of `hops` real client/server pairs; the scenario is re-run from these parameters.
    Chain { codec: Codec, d: u64, start: u64, hops: usize, inline: bool, pre: u64, transit: Vec<u64>, work: Vec<u64> },
}

fn kv<'a>(toks: &[&'a str], k: &str) -> Option<&'a str> {
    toks.iter().find_map(|t| t.strip_prefix(k).and_then(|r| r.strip_prefix('=')))
}

fn kv_u64(toks: &[&str], k: &str) -> Option<u64> {
    kv(toks, k)?.parse().ok()
}

fn csv(toks: &[&str], k: &str) -> Vec<u64> {
    match kv(toks, k) {
        None | Some("-") => Vec::new(),
        Some(v) => v.split(',').filter_map(|x| x.parse().ok()).collect(),
    }
}

fn show_csv(v: &[u64]) -> String {
    if v.is_empty() {
        "-".into()
    } else {
        v.iter().map(|x| x.to_string()).collect::<Vec<_>>().join(",")
    }
}

impl Op {
    pub fn parse(toks: &[&str]) -> Option<Op> {
        match toks.first()? {
            &"hop" => Some(Op::Hop {
                codec: Codec::parse(kv(toks, "codec")?)?,
                d: kv_u64(toks, "d")?,
                send: kv_u64(toks, "send")?,
                recv: kv_u64(toks, "recv")?,
                ctx_only: kv(toks, "what") == Some("ctx"),
            }),
            &"default" => Some(Op::Default { recv: kv_u64(toks, "recv")? }),
            &"chain" => {
                let transit = csv(toks, "transit");
                let hops = kv_u64(toks, "hops").map(|h| h as usize).unwrap_or(transit.len().max(1)).clamp(1, 8);
                let mut work = csv(toks, "work");
                let mut transit = transit;
                transit.resize(hops, 0);
                work.resize(hops, 0);
                Some(Op::Chain {
                    codec: Codec::parse(kv(toks, "codec")?)?,
                    d: kv_u64(toks, "d")?,
                    start: kv_u64(toks, "start").unwrap_or(0),
                    hops,
                    inline: kv_u64(toks, "inline").unwrap_or(0) != 0,
                    pre: kv_u64(toks, "pre").unwrap_or(0),
                    transit,
                    work,
                })
            }
            _ => None,
        }
    }
}

/// One paused runtime = one epoch of virtual time.
struct World {
    rt: tokio::runtime::Runtime,
}

impl World {
    fn new() -> World {
        let rt = tokio::runtime::Builder::new_current_thread().enable_time().start_paused(true).build().unwrap();
        World { rt }
    }
}

fn since(base: Instant, t: Instant) -> u64 {
    t.duration_since(base).as_nanos() as u64
}

fn request(deadline: Instant, id: u64) -> ClientMessage<String> {
    let mut ctx = context::current();
    ctx.deadline = deadline;
    ClientMessage::Request(Request { context: ctx, id, message: format!("m{id}") })
}

fn deadline_of(m: &ClientMessage<String>) -> Instant {
    match m {
        ClientMessage::Request(r) => r.context.deadline,
        _ => panic!("not a request"),
    }
}

type Msg = ClientMessage<String>;

/// Bytes produced at the current virtual time.
fn encode(codec: Codec, ctx_only: bool, msg: &Msg) -> Vec<u8> {
    let ctx = match msg {
        ClientMessage::Request(r) => r.context,
        _ => unreachable!(),
    };
    match (codec, ctx_only) {
        (Codec::Json, false) => Pin::new(&mut Json::<Msg, Msg>::default()).serialize(msg).unwrap().to_vec(),
        (Codec::Bincode, false) => Pin::new(&mut Bincode::<Msg, Msg>::default()).serialize(msg).unwrap().to_vec(),
        (Codec::Json, true) => serde_json::to_vec(&ctx).unwrap(),
        (Codec::Bincode, true) => bincode::DefaultOptions::new().serialize(&ctx).unwrap(),
        (Codec::Mem, _) => unreachable!(),
    }
}

/// Decoded at the current virtual time.
/// `None` = the real decoder rejected the bytes (reported as an observation, never a harness crash).
fn decode(codec: Codec, ctx_only: bool, bytes: &[u8]) -> Option<Instant> {
    match (codec, ctx_only) {
        (Codec::Json, false) => {
            Pin::new(&mut Json::<Msg, Msg>::default()).deserialize(&BytesMut::from(bytes)).ok().map(|m| deadline_of(&m))
        }
        (Codec::Bincode, false) => {
            Pin::new(&mut Bincode::<Msg, Msg>::default()).deserialize(&BytesMut::from(bytes)).ok().map(|m| deadline_of(&m))
        }
        (Codec::Json, true) => serde_json::from_slice::<context::Context>(bytes).ok().map(|c| c.deadline),
        (Codec::Bincode, true) => bincode::DefaultOptions::new().deserialize::<context::Context>(bytes).ok().map(|c| c.deadline),
        (Codec::Mem, _) => unreachable!(),
    }
}

// ------------------------------------------------------------------------------------------------
// Chains of real clients and servers.

trait Probe {
    fn is_request(&self) -> bool;
}
impl Probe for ClientMessage<String> {
    fn is_request(&self) -> bool {
        matches!(self, ClientMessage::Request(_))
    }
}
impl Probe for Response<String> {
    fn is_request(&self) -> bool {
        false
    }
}

type Log = Rc<RefCell<Option<u64>>>;

/// Transparent transport wrapper: notes the virtual time at which a request is handed to the
/// transport (`start_send`) and at which the transport yields a decoded request (`poll_next`).
#[pin_project::pin_project]
struct Tap<T> {
    #[pin]
    inner: T,
    base: Instant,
    sent: Log,
    received: Log,
}

fn to_io<E: Into<Box<dyn std::error::Error + Send + Sync>>>(e: E) -> io::Error {
    io::Error::new(io::ErrorKind::Other, e)
}

impl<T, Item, E> Stream for Tap<T>
where
    T: Stream<Item = Result<Item, E>>,
    Item: Probe,
    E: Into<Box<dyn std::error::Error + Send + Sync>>,
{
    type Item = io::Result<Item>;
    fn poll_next(self: Pin<&mut Self>, cx: &mut TaskCx<'_>) -> Poll<Option<Self::Item>> {
        let this = self.project();
        let r = this.inner.poll_next(cx);
        if let Poll::Ready(Some(Ok(item))) = &r {
            if item.is_request() {
                *this.received.borrow_mut() = Some(since(*this.base, tarpc::verif_hooks::now()));
            }
        }
        r.map(|o| o.map(|r| r.map_err(to_io)))
    }
}

impl<T, SinkItem> Sink<SinkItem> for Tap<T>
where
    T: Sink<SinkItem>,
    SinkItem: Probe,
    T::Error: Into<Box<dyn std::error::Error + Send + Sync>>,
{
    type Error = io::Error;
    fn poll_ready(self: Pin<&mut Self>, cx: &mut TaskCx<'_>) -> Poll<io::Result<()>> {
        self.project().inner.poll_ready(cx).map_err(to_io)
    }
    fn start_send(self: Pin<&mut Self>, item: SinkItem) -> io::Result<()> {
        let this = self.project();
        if item.is_request() {
            *this.sent.borrow_mut() = Some(since(*this.base, tarpc::verif_hooks::now()));
        }
        this.inner.start_send(item).map_err(to_io)
    }
    fn poll_flush(self: Pin<&mut Self>, cx: &mut TaskCx<'_>) -> Poll<io::Result<()>> {
        self.project().inner.poll_flush(cx).map_err(to_io)
    }
    fn poll_close(self: Pin<&mut Self>, cx: &mut TaskCx<'_>) -> Poll<io::Result<()>> {
        self.project().inner.poll_close(cx).map_err(to_io)
    }
}

/// Lets `ns` of virtual time pass.  Whole milliseconds go through a real tokio timer (the paused
/// runtime auto-advances to it when idle); anything else moves the clock by exactly `ns`.
async fn delay(ns: u64) {
    if ns == 0 {
        return;
    }
    if ns % 1_000_000 == 0 {
        tokio::time::sleep(Duration::from_nanos(ns)).await;
    } else {
        tokio::time::advance(Duration::from_nanos(ns)).await;
    }
}

#[derive(Default)]
struct HopRec {
    sent: Log,
    received: Log,
    /// deadline in the context the caller of this hop passed to `call`
    passed: Log,
    /// deadline of the request the server's `requests()` stream yielded
    yielded: Log,
    /// deadline in the context handed to the handler (if it ran)
    handler: Log,
}

/// Spawns the dispatch and the server loop of one hop and returns its client handle.
fn spawn_hop<CT, ST>(
    base: Instant,
    rec: &HopRec,
    next: Option<(client::Channel<String, String>, Log)>,
    work: u64,
    inline: bool,
    ct: CT,
    st: ST,
) -> client::Channel<String, String>
where
    CT: Stream<Item = Result<Response<String>, <CT as Sink<Msg>>::Error>> + Sink<Msg> + 'static,
    <CT as Sink<Msg>>::Error: Into<Box<dyn std::error::Error + Send + Sync>>,
    ST: Stream<Item = Result<Msg, <ST as Sink<Response<String>>>::Error>> + Sink<Response<String>> + 'static,
    <ST as Sink<Response<String>>>::Error: Into<Box<dyn std::error::Error + Send + Sync>>,
{
    let none = || Rc::new(RefCell::new(None));
    let ct = Tap { inner: ct, base, sent: rec.sent.clone(), received: none() };
    let st = Tap { inner: st, base, sent: none(), received: rec.received.clone() };
    let client::NewClient { client, dispatch } = client::new(client::Config::default(), ct);
    tokio::task::spawn_local(async move {
        let _ = dispatch.await;
    });
    let yielded = rec.yielded.clone();
    let handler = rec.handler.clone();
    tokio::task::spawn_local(async move {
        let requests = BaseChannel::with_defaults(st).requests();
        futures::pin_mut!(requests);
        while let Some(Ok(req)) = requests.next().await {
            *yielded.borrow_mut() = Some(since(base, req.get().context.deadline));
            let handler = handler.clone();
            let next = next.clone();
            let fut = req.execute(serve(move |ctx: context::Context, body: String| async move {
                *handler.borrow_mut() = Some(since(base, ctx.deadline));
                delay(work).await;
                if let Some((next, passed)) = next {
                    *passed.borrow_mut() = Some(since(base, ctx.deadline));
                    let _ = next.call(ctx, body.clone()).await;
                }
                Ok(body)
            }));
            if inline {
                fut.await;
            } else {
                tokio::task::spawn_local(fut);
            }
        }
    });
    client
}

/// A byte pipe with `transit` ns of delay in the request direction.
fn byte_link(transit: u64) -> (tokio::io::DuplexStream, tokio::io::DuplexStream) {
    let (client_end, a) = tokio::io::duplex(1 << 16);
    let (b, server_end) = tokio::io::duplex(1 << 16);
    let (mut a_r, mut a_w) = tokio::io::split(a);
    let (mut b_r, mut b_w) = tokio::io::split(b);
    tokio::task::spawn_local(async move {
        let mut buf = vec![0u8; 1 << 16];
        loop {
            match a_r.read(&mut buf).await {
                Ok(0) | Err(_) => break,
                Ok(n) => {
                    delay(transit).await;
                    if b_w.write_all(&buf[..n]).await.is_err() {
                        break;
                    }
                }
            }
        }
    });
    tokio::task::spawn_local(async move {
        let _ = tokio::io::copy(&mut b_r, &mut a_w).await;
    });
    (client_end, server_end)
}

struct ChainResult {
    hops: Vec<(u64, u64)>,
    lines: Vec<String>,
    fin: u64,
}

fn run_chain(
    w: &World,
    base: Instant,
    codec: Codec,
    d: u64,
    hops: usize,
    inline: bool,
    pre: u64,
    transit: &[u64],
    work: &[u64],
) -> ChainResult {
    let recs: Vec<HopRec> = (0..hops).map(|_| HopRec::default()).collect();
    let local = tokio::task::LocalSet::new();
    let settle = pre + transit.iter().sum::<u64>() + work.iter().sum::<u64>() + 1_000_000_000;
    local.block_on(&w.rt, async {
        let mut next: Option<(client::Channel<String, String>, Log)> = None;
        for k in (0..hops).rev() {
            let client = match codec {
                Codec::Mem => {
                    let (ct, a) = tarpc::transport::channel::unbounded::<Response<String>, Msg>();
                    let (b, st) = tarpc::transport::channel::unbounded::<Response<String>, Msg>();
                    let (mut a_tx, mut a_rx) = a.split::<Response<String>>();
                    let (mut b_tx, mut b_rx) = b.split::<Msg>();
                    let t = transit[k];
                    tokio::task::spawn_local(async move {
                        while let Some(Ok(m)) = a_rx.next().await {
                            delay(t).await;
                            if b_tx.send(m).await.is_err() {
                                break;
                            }
                        }
                    });
                    tokio::task::spawn_local(async move {
                        while let Some(Ok(m)) = b_rx.next().await {
                            if a_tx.send(m).await.is_err() {
                                break;
                            }
                        }
                    });
                    spawn_hop(base, &recs[k], next.take(), work[k], inline, ct, st)
                }
                Codec::Json => {
                    let (c, s) = byte_link(transit[k]);
                    let ct = tarpc::serde_transport::new(Framed::new(c, LengthDelimitedCodec::new()), Json::<Response<String>, Msg>::default());
                    let st = tarpc::serde_transport::new(Framed::new(s, LengthDelimitedCodec::new()), Json::<Msg, Response<String>>::default());
                    spawn_hop(base, &recs[k], next.take(), work[k], inline, ct, st)
                }
                Codec::Bincode => {
                    let (c, s) = byte_link(transit[k]);
                    let ct = tarpc::serde_transport::new(Framed::new(c, LengthDelimitedCodec::new()), Bincode::<Response<String>, Msg>::default());
                    let st = tarpc::serde_transport::new(Framed::new(s, LengthDelimitedCodec::new()), Bincode::<Msg, Response<String>>::default());
                    spawn_hop(base, &recs[k], next.take(), work[k], inline, ct, st)
                }
            };
            next = Some((client, recs[k].passed.clone()));
        }
        let (client0, passed0) = next.take().unwrap();
        delay(pre).await;
        let mut ctx = context::current();
        ctx.deadline = base + Duration::from_nanos(d);
        *passed0.borrow_mut() = Some(since(base, ctx.deadline));
        let _ = client0.call(ctx, "chain".to_string()).await;
        // let everything downstream finish (the caller may have timed out long before)
        tokio::time::sleep(Duration::from_nanos(settle)).await;
    });
    drop(local);
    let mut res = ChainResult { hops: Vec::new(), lines: Vec::new(), fin: d };
    for rec in &recs {
        let (Some(s), Some(r), Some(y)) = (*rec.sent.borrow(), *rec.received.borrow(), *rec.yielded.borrow()) else {
            break;
        };
        let p = rec.passed.borrow().unwrap_or(u64::MAX);
        res.hops.push((s, r));
        res.lines.push(format!("obs deadline {y} codec={} d={p} send={s} recv={r}", codec.name()));
        if let Some(h) = *rec.handler.borrow() {
            if h != y {
                // never produced by the model: the handler got a context other than the request's
                res.lines.push(format!("obs handler-saw {h} yielded={y}"));
            }
        }
        res.fin = y;
    }
    res
}

// ------------------------------------------------------------------------------------------------

fn gen_remaining(rng: &mut Rng) -> u64 {
    match rng.weighted(&[10, 10, 15, 15, 20, 15, 10, 5]) {
        0 => 0,
        1 => 1,
        2 => 1 + rng.below(1_000),
        3 => 1 + rng.below(1_000_000),
        4 => 1 + rng.below(10_000_000_000),
        5 => 10_000_000_000,
        6 => 1 + rng.below(86_400_000_000_000),
        _ => 1_000_000_000_000_000 + rng.below(2_000_000_000_000_000_000), // up to ~95 years
    }
}

fn gen_delay(rng: &mut Rng) -> u64 {
    match rng.weighted(&[20, 10, 15, 20, 20, 10, 5]) {
        0 => 0,
        1 => 1,
        2 => 1 + rng.below(1_000),
        3 => 1 + rng.below(1_000_000),
        4 => 1_000_000 * (1 + rng.below(50)),
        5 => 1 + rng.below(3_000_000_000),
        _ => 1_000_000_000 * (1 + rng.below(20)),
    }
}

fn gen_op(rng: &mut Rng, now: u64) -> Op {
    let codec = *rng.pick(&[Codec::Json, Codec::Bincode, Codec::Json, Codec::Bincode, Codec::Mem]);
    match rng.weighted(&[55, 12, 33]) {
        0 => {
            let send = now + gen_delay(rng);
            let recv = send + gen_delay(rng);
            let d = if rng.chance(1, 4) { send - rng.below(send + 1).min(gen_delay(rng) + 1) } else { send + gen_remaining(rng) };
            Op::Hop { codec, d, send, recv, ctx_only: rng.chance(1, 3) }
        }
        1 => Op::Default { recv: now + gen_delay(rng) },
        _ => {
            let hops = 1 + rng.below(3) as usize;
            let small = |rng: &mut Rng| match rng.weighted(&[25, 20, 25, 25, 5]) {
                0 => 0,
                1 => 1 + rng.below(1_000),
                2 => 1 + rng.below(1_000_000),
                3 => 1_000_000 * (1 + rng.below(30)),
                _ => 1 + rng.below(2_000_000_000),
            };
            let start = now + small(rng);
            let pre = small(rng);
            let transit: Vec<u64> = (0..hops).map(|_| small(rng)).collect();
            let work: Vec<u64> = (0..hops).map(|_| small(rng)).collect();
            let total: u64 = transit.iter().sum::<u64>() + work.iter().sum::<u64>();
            let t0 = start + pre;
            let d = match rng.weighted(&[15, 10, 25, 40, 10]) {
                0 => t0 - rng.below(t0 + 1).min(small(rng) + 1),        // already passed at the caller
                1 => t0,                                                // zero remaining
                2 => t0 + rng.below(total + 1),                         // runs out on the way
                3 => t0 + total + 1_000_000 * (1 + rng.below(10_000)),  // ample
                _ => t0 + 86_400_000_000_000 * (1 + rng.below(30)),     // days
            };
            Op::Chain { codec, d, start, hops, inline: rng.chance(1, 2), pre, transit, work }
        }
    }
}

/// Runs one script.  With `script = None` ops are generated from `rng`; otherwise replayed.
pub fn run_script(out: &mut Out, idx: u64, rng: &mut Rng, script: Option<&[Op]>, len: usize) {
    out.line(&format!("script {idx} c07"));
    let total = script.map(|s| s.len()).unwrap_or(len);
    let mut i = 0usize;
    let mut next_id = 0u64;
    while i < total {
        // one epoch: a fresh paused runtime whose clock starts at 0
        let w = World::new();
        let _guard = w.rt.enter();
        let base = tarpc::verif_hooks::now();
        let now_ns = || since(base, tarpc::verif_hooks::now());
        let goto = |t: u64| {
            let n = now_ns();
            assert!(t >= n);
            if t > n {
                w.rt.block_on(tokio::time::advance(Duration::from_nanos(t - n)));
            }
            assert_eq!(now_ns(), t, "virtual clock did not land on the requested instant");
        };
        while i < total {
            let op = match script {
                Some(s) => s[i].clone(),
                None => gen_op(rng, now_ns()),
            };
            // time only moves forward inside an epoch: an op that starts earlier opens a new one
            let starts = match &op {
                Op::Hop { send, .. } => *send,
                Op::Default { recv } => *recv,
                Op::Chain { start, .. } => *start,
            };
            if starts < now_ns() {
                break;
            }
            i += 1;
            next_id += 1;
            match op {
                Op::Hop { codec, d, send, recv, ctx_only } => {
                    let what = if ctx_only { "ctx" } else { "msg" };
                    out.line(&format!("op hop codec={} d={d} send={send} recv={recv} what={what}", codec.name()));
                    if recv < send {
                        out.line("obs noop");
                        continue;
                    }
                    let deadline = base + Duration::from_nanos(d);
                    goto(send);
                    let seen = if codec == Codec::Mem {
                        let (mut tx, mut rx) = tarpc::transport::channel::unbounded::<Response<String>, Msg>();
                        let mut cx = TaskCx::from_waker(noop_waker_ref());
                        assert!(matches!(Pin::new(&mut tx).poll_ready(&mut cx), Poll::Ready(Ok(()))));
                        Pin::new(&mut tx).start_send(request(deadline, next_id)).unwrap();
                        goto(recv);
                        match Pin::new(&mut rx).poll_next(&mut cx) {
                            Poll::Ready(Some(Ok(m))) => Some(deadline_of(&m)),
                            other => panic!("in-memory transport lost the request: {other:?}"),
                        }
                    } else {
                        let bytes = encode(codec, ctx_only, &request(deadline, next_id));
                        goto(recv);
                        decode(codec, ctx_only, &bytes)
                    };
                    match seen {
                        Some(seen) => out.line(&format!(
                            "obs deadline {} codec={} d={d} send={send} recv={recv}",
                            since(base, seen),
                            codec.name()
                        )),
                        // the monitor cannot parse this line and rejects the trace
                        None => out.line(&format!("obs deadline DECODE-ERROR codec={} d={d} send={send} recv={recv}", codec.name())),
                    }
                }
                Op::Default { recv } => {
                    out.line(&format!("op default recv={recv}"));
                    // a request as the JSON codec writes it, minus the deadline field
                    let msg = request(base + Duration::from_nanos(12_345), next_id);
                    let mut v: serde_json::Value = serde_json::to_value(&msg).unwrap();
                    let ctx = v.pointer_mut("/Request/context").and_then(|c| c.as_object_mut()).expect("request context");
                    assert!(ctx.remove("deadline").is_some(), "no deadline field to delete");
                    let bytes = serde_json::to_vec(&v).unwrap();
                    goto(recv);
                    match decode(Codec::Json, false, &bytes) {
                        Some(seen) => out.line(&format!("obs default {} recv={recv}", since(base, seen))),
                        None => out.line(&format!("obs default DECODE-ERROR recv={recv}")),
                    }
                }
                Op::Chain { codec, d, start, hops, inline, pre, transit, work } => {
                    goto(start);
                    let r = run_chain(&w, base, codec, d, hops, inline, pre, &transit, &work);
                    let sends: Vec<u64> = r.hops.iter().map(|h| h.0).collect();
                    let recvs: Vec<u64> = r.hops.iter().map(|h| h.1).collect();
                    out.line(&format!(
                        "op chain codec={} d={d} start={start} hops={hops} inline={} pre={pre} transit={} work={} send={} recv={}",
                        codec.name(),
                        inline as u8,
                        show_csv(&transit),
                        show_csv(&work),
                        show_csv(&sends),
                        show_csv(&recvs)
                    ));
                    for l in &r.lines {
                        out.line(l);
                    }
                    out.line(&format!(
                        "obs chain {} codec={} d={d} send={} recv={}",
                        r.fin,
                        codec.name(),
                        show_csv(&sends),
                        show_csv(&recvs)
                    ));
                }
            }
        }
    }
}

pub fn generate(out: &mut Out, seed: u64, scripts: u64, len: usize) {
    for idx in 0..scripts {
        let mut rng = Rng::new(seed.wrapping_mul(1_000_003).wrapping_add(idx) ^ 0xC07);
        run_script(out, idx, &mut rng, None, len);
    }
}

pub fn replay(out: &mut Out, scripts: &[(String, Vec<String>)]) {
    for (i, (_h, ops)) in scripts.iter().enumerate() {
        let ops: Vec<Op> = ops.iter().filter_map(|o| Op::parse(&o.split_whitespace().collect::<Vec<_>>())).collect();
        let mut rng = Rng::new(0);
        run_script(out, i as u64, &mut rng, Some(&ops), 0);
    }
}

//! Family `c16stub` (property C16, caller side of a macro-generated client): a peer answers a request with a
//! well-formed response of *another* method of the same service (or of the right one).  The generated stub must
//! report the mismatch as an error of that call; it must not panic the caller's task.
//!
//! Ops: `answer <called> <answered> <as>` with methods `a b c`, `as` = `ok` | `err` (the peer's response is
//! `Ok(variant)` or `Err(ServerError)`); obs: `obs stub ok` | `obs stub err:<kind>` | `obs stub panic <msg>`,
//! then `obs probe ok|…` for a follow-up well-formed exchange on the same connection.
use crate::rng::Rng;
use crate::Out;
use futures::{FutureExt, SinkExt, StreamExt};
use std::panic::AssertUnwindSafe;
use tarpc::{client, context, transport::channel, ClientMessage, Response, ServerError};

#[tarpc::service]
pub trait Probe {
    async fn a(x: u32) -> u32;
    async fn b(s: String) -> String;
    async fn c() -> ();
}

const METHODS: [&str; 3] = ["a", "b", "c"];

fn variant(m: &str) -> ProbeResponse {
    match m {
        "a" => ProbeResponse::A(7),
        "b" => ProbeResponse::B("seven".into()),
        _ => ProbeResponse::C(()),
    }
}

fn show<T>(r: Result<Result<T, client::RpcError>, Box<dyn std::any::Any + Send>>) -> String {
    match r {
        Ok(Ok(_)) => "ok".into(),
        Ok(Err(client::RpcError::Server(e))) => format!("err:{:?}", e.kind),
        Ok(Err(e)) => format!("rpc-error:{}", format!("{e:?}").replace(' ', "_")),
        Err(p) => {
            let msg = p
                .downcast_ref::<String>()
                .cloned()
                .or_else(|| p.downcast_ref::<&str>().map(|s| s.to_string()))
                .unwrap_or_default();
            format!("panic {}", msg.replace(' ', "_"))
        }
    }
}

async fn call(c: &ProbeClient, m: &str) -> String {
    let ctx = context::current();
    match m {
        "a" => show(AssertUnwindSafe(c.a(ctx, 1)).catch_unwind().await),
        "b" => show(AssertUnwindSafe(c.b(ctx, "x".into())).catch_unwind().await),
        _ => show(AssertUnwindSafe(c.c(ctx)).catch_unwind().await),
    }
}

fn run_op(out: &mut Out, called: &str, answered: &str, how: &str) {
    out.line(&format!("op answer {called} {answered} {how}"));
    let rt = tokio::runtime::Builder::new_current_thread().enable_time().build().unwrap();
    let (r1, r2) = rt.block_on(async {
        let (tx, mut rx) = channel::unbounded::<Response<ProbeResponse>, ClientMessage<ProbeRequest>>();
        let new = ProbeClient::new(client::Config::default(), tx);
        let c = new.client;
        let dispatch = tokio::spawn(new.dispatch);
        let (answered, how) = (answered.to_string(), how.to_string());
        let peer = tokio::spawn(async move {
            let mut first = true;
            while let Some(Ok(m)) = rx.next().await {
                if let ClientMessage::Request(r) = m {
                    let message = if first {
                        if how == "ok" {
                            Ok(variant(&answered))
                        } else {
                            Err(ServerError::new(std::io::ErrorKind::PermissionDenied, "no".into()))
                        }
                    } else {
                        // the probe: answered with its own method's variant
                        Ok(match &r.message {
                            ProbeRequest::A { .. } => variant("a"),
                            ProbeRequest::B { .. } => variant("b"),
                            ProbeRequest::C { .. } => variant("c"),
                        })
                    };
                    first = false;
                    let _ = rx.send(Response { request_id: r.id, message }).await;
                }
            }
        });
        let r1 = call(&c, called).await;
        let r2 = call(&c, "a").await;
        peer.abort();
        dispatch.abort();
        (r1, r2)
    });
    out.line(&format!("obs stub {r1}"));
    out.line(&format!("obs probe {r2}"));
}

pub fn generate(out: &mut Out, seed: u64, scripts: u64, len: usize) {
    std::panic::set_hook(Box::new(|_| {}));
    for idx in 0..scripts {
        let mut rng = Rng::new(seed.wrapping_mul(1_000_003).wrapping_add(idx));
        out.line(&format!("script {idx} c16stub"));
        for _ in 0..len {
            let called = *rng.pick(&METHODS);
            let answered = if rng.chance(1, 3) { called } else { *rng.pick(&METHODS) };
            let how = if rng.chance(1, 5) { "err" } else { "ok" };
            run_op(out, called, answered, how);
        }
    }
}

pub fn replay(out: &mut Out, scripts: &[(String, Vec<String>)]) {
    std::panic::set_hook(Box::new(|_| {}));
    for (i, (_h, ops)) in scripts.iter().enumerate() {
        out.line(&format!("script {i} c16stub"));
        for o in ops {
            let t: Vec<&str> = o.split_whitespace().collect();
            match t.as_slice() {
                ["answer", called, answered, how] if METHODS.contains(called) && METHODS.contains(answered) => run_op(out, called, answered, how),
                _ => {
                    out.line(&format!("op {o}"));
                    out.line("obs noop");
                }
            }
        }
    }
}

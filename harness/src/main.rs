//! Correspondence harness: runs the real tarpc code on generated or replayed operation
//! scripts and prints `script` / `op` / `obs` lines (see DESIGN.md, appendix A).
mod c07;
mod c13;
mod c15codec;
mod c15json;
mod c16stub;
mod c15stream;
mod c16;
mod c17;
mod c19;
mod c20;
mod c20mt;
mod chain;
mod cli;
mod srv;
mod rng;
mod simt;

use std::io::{BufRead, Write};

pub struct Out {
    w: std::io::BufWriter<Box<dyn Write>>,
}

impl Out {
    pub fn line(&mut self, s: &str) {
        writeln!(self.w, "{s}").unwrap();
    }
}

fn arg<T: std::str::FromStr>(args: &[String], name: &str, default: T) -> T {
    let pre = format!("--{name}=");
    args.iter()
        .find_map(|a| a.strip_prefix(&pre).and_then(|v| v.parse().ok()))
        .unwrap_or(default)
}

/// Reads a replay file: `script …` header lines and `op …` lines (anything else is ignored).
fn read_scripts(path: &str) -> Vec<(String, Vec<String>)> {
    let f = std::fs::File::open(path).expect("replay file");
    let mut scripts: Vec<(String, Vec<String>)> = Vec::new();
    for line in std::io::BufReader::new(f).lines() {
        let line = line.unwrap();
        if let Some(h) = line.strip_prefix("script ") {
            scripts.push((h.to_string(), Vec::new()));
        } else if let Some(o) = line.strip_prefix("op ") {
            if let Some(last) = scripts.last_mut() {
                last.1.push(o.to_string());
            }
        }
    }
    scripts
}

pub fn header_param(header: &str, name: &str) -> Option<String> {
    let pre = format!("{name}=");
    header.split_whitespace().find_map(|t| t.strip_prefix(&pre).map(|s| s.to_string()))
}

fn main() {
    let args: Vec<String> = std::env::args().collect();
    let family = args.get(1).cloned().unwrap_or_default();
    let seed: u64 = arg(&args, "seed", 1);
    let scripts: u64 = arg(&args, "scripts", 100);
    let len: usize = arg(&args, "len", 40);
    let replay: String = arg(&args, "replay", String::new());
    let outp: String = arg(&args, "out", String::new());
    let w: Box<dyn Write> = if outp.is_empty() {
        Box::new(std::io::stdout())
    } else {
        Box::new(std::fs::File::create(&outp).expect("out file"))
    };
    let mut out = Out { w: std::io::BufWriter::new(w) };
    match family.as_str() {
        "c13" => {
            if replay.is_empty() {
                c13::generate(&mut out, seed, scripts, len);
            } else {
                for (i, (h, ops)) in read_scripts(&replay).iter().enumerate() {
                    let n: u32 = header_param(h, "n").and_then(|v| v.parse().ok()).unwrap_or(1);
                    let ops: Vec<c13::Op> = ops
                        .iter()
                        .filter_map(|o| c13::Op::parse(&o.split_whitespace().collect::<Vec<_>>()))
                        .collect();
                    let mut rng = rng::Rng::new(0);
                    c13::run_script(&mut out, i as u64, n, &mut rng, Some(&ops), 0);
                }
            }
        }
        "cli" => {
            std::panic::set_hook(Box::new(|_| {}));
            if replay.is_empty() {
                let wo: u64 = arg(&args, "wo", 0);
                let faults: u64 = arg(&args, "faults", 0);
                let extreme: u64 = arg(&args, "extreme", 0);
                let long: u64 = arg(&args, "long", 0);
                cli::GEN_SUB.store(arg::<u64>(&args, "sub", 0) as u8, std::sync::atomic::Ordering::SeqCst);
                cli::GEN_V2.store(arg::<u64>(&args, "v2", 0) as u8, std::sync::atomic::Ordering::SeqCst);
                cli::GEN_BURST.store(arg::<u64>(&args, "burst", 0) as u8, std::sync::atomic::Ordering::SeqCst);
                cli::generate(&mut out, seed, scripts, len, wo == 1, faults == 1, extreme == 1, long == 1);
            } else {
                for (i, (h, ops)) in read_scripts(&replay).iter().enumerate() {
                    let p = cli::Params::from_header(h);
                    let ops: Vec<cli::Op> = ops
                        .iter()
                        .filter_map(|o| cli::Op::parse(&o.split_whitespace().collect::<Vec<_>>()))
                        .collect();
                    let mut rng = rng::Rng::new(0);
                    cli::run_script(&mut out, i as u64, &p, &mut rng, Some(&ops), 0);
                }
            }
        }
        "srv" => {
            std::panic::set_hook(Box::new(|_| {}));
            if replay.is_empty() {
                let wo: u64 = arg(&args, "wo", 0);
                let faults: u64 = arg(&args, "faults", 0);
                let extreme: u64 = arg(&args, "extreme", 0);
                let long: u64 = arg(&args, "long", 0);
                cli::GEN_SUB.store(arg::<u64>(&args, "sub", 0) as u8, std::sync::atomic::Ordering::SeqCst);
                cli::GEN_V2.store(arg::<u64>(&args, "v2", 0) as u8, std::sync::atomic::Ordering::SeqCst);
                cli::GEN_BURST.store(arg::<u64>(&args, "burst", 0) as u8, std::sync::atomic::Ordering::SeqCst);
                srv::generate(&mut out, seed, scripts, len, wo == 1, faults == 1, extreme == 1, long == 1);
            } else {
                for (i, (h, ops)) in read_scripts(&replay).iter().enumerate() {
                    let p = srv::Params::from_header(h);
                    let ops: Vec<srv::Op> = ops
                        .iter()
                        .filter_map(|o| srv::Op::parse(&o.split_whitespace().collect::<Vec<_>>()))
                        .collect();
                    let mut rng = rng::Rng::new(0);
                    srv::run_script(&mut out, i as u64, &p, &mut rng, Some(&ops), 0);
                }
            }
        }
        "c07" => {
            if replay.is_empty() {
                c07::generate(&mut out, seed, scripts, len);
            } else {
                c07::replay(&mut out, &read_scripts(&replay));
            }
        }
        "c15bin" => {
            if replay.is_empty() {
                c15codec::generate(&mut out, seed, scripts, len);
            } else {
                c15codec::replay(&mut out, &read_scripts(&replay));
            }
        }
        "c15json" => {
            if replay.is_empty() {
                c15json::generate(&mut out, seed, scripts, len);
            } else {
                c15json::replay(&mut out, &read_scripts(&replay));
            }
        }
        "c15frame" | "c15e2e" => {
            if replay.is_empty() {
                c15stream::generate(&mut out, &family, seed, scripts, len);
            } else {
                c15stream::replay(&mut out, &family, &read_scripts(&replay));
            }
        }
        "c16dec" => {
            std::panic::set_hook(Box::new(|_| {}));
            if replay.is_empty() {
                c16::generate(&mut out, seed, scripts, len);
            } else {
                c16::replay(&mut out, &read_scripts(&replay));
            }
        }
        "c16stub" => {
            if replay.is_empty() {
                c16stub::generate(&mut out, seed, scripts, len);
            } else {
                c16stub::replay(&mut out, &read_scripts(&replay));
            }
        }
        "c17camel" => {
            if replay.is_empty() {
                c17::generate(&mut out, seed, scripts, len);
            } else {
                for (i, (_h, ops)) in read_scripts(&replay).iter().enumerate() {
                    c17::replay_script(&mut out, i as u64, ops);
                }
            }
        }
        "chain" => {
            if replay.is_empty() {
                chain::generate(&mut out, seed, scripts, len);
            } else {
                chain::replay(&mut out, &read_scripts(&replay));
            }
        }
        "c19" => {
            if replay.is_empty() {
                c19::generate(&mut out, seed, scripts, len);
            } else {
                for (i, (_h, ops)) in read_scripts(&replay).iter().enumerate() {
                    let ops: Vec<c19::Op> = ops
                        .iter()
                        .filter_map(|o| c19::Op::parse(&o.split_whitespace().collect::<Vec<_>>()))
                        .collect();
                    let mut rng = rng::Rng::new(0);
                    c19::run_script(&mut out, i as u64, &mut rng, Some(&ops), 0);
                }
            }
        }
        "c20mt" => {
            if replay.is_empty() {
                c20mt::generate(&mut out, seed, scripts, len);
            } else {
                c20mt::replay(&mut out, &read_scripts(&replay));
            }
        }
        "c20rr" | "c20hash" | "c20retry" => {
            if replay.is_empty() {
                c20::generate(&mut out, &family, seed, scripts, len);
            } else {
                c20::replay(&mut out, &family, &read_scripts(&replay));
            }
        }
        other => {
            eprintln!("unknown family {other:?}");
            std::process::exit(2);
        }
    }
    out.w.flush().unwrap();
}

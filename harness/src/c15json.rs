//! C15 (value level, JSON): run the real `tokio_serde::formats::Json` codec — the other codec of
//! tarpc's serde transport — on the real protocol types `ClientMessage<String>` / `Response<String>`.
//!
//! Family `c15json` (no header parameters; the body type is `String`).  Message text form and ops are
//! those of `c15bin` (see `c15codec.rs`):
//!   `enc <msg>` → `obs bytes <hex>` + `obs roundtrip <msg> <msg'|error|panic>`;
//!   `dec cm <hex|->` / `dec rsp <hex|->` → `obs msg <msg>` | `obs error` | `obs panic`
//!   `dec-must cm|rsp <hex> [<msg>]` → as `dec`; the document is one the property obliges the reader to
//!   understand (a real encoding with optional members — a cancellation's `trace_context`, a context's
//!   `deadline` — possibly left out, members reordered, insignificant whitespace added) and `<msg>` is the
//!   message it stands for; the monitor rejects `obs error` / `obs panic` / another message here
//! where `<hex>` is the JSON text.
//!
//! Generation: real encodings; hand-assembled documents that vary what a conforming peer may vary
//! (member order, whitespace, omitted defaulted members, unknown members with arbitrary values, `\u`
//! escapes, structs as arrays, `{"Sampled":null}`) and what it may get wrong (missing / repeated
//! members, wrong types, out-of-range numbers, non-integer numbers, bad variant names, wrong array
//! lengths); byte-level mutations of both; the other type's reader; random bytes.
//!
//! Not generated (the model's `Instant` arithmetic takes `now.tv_sec = 0`): documents containing a
//! digit run whose value lies in `[2^63 - 2^40 - 8, 2^63)`.
use crate::c15codec::{all_kinds, hex, parse_msg, render_cm, render_rsp, unhex, Msg};
use crate::rng::Rng;
use crate::Out;
use bytes::BytesMut;
use serde::{de::DeserializeOwned, Serialize};
use std::panic::AssertUnwindSafe;
use tarpc::{ClientMessage, Response};
use tokio_serde::{formats::Json, Deserializer as _, Serializer as _};

type Cm = ClientMessage<String>;
type Rsp = Response<String>;

const MAX_ENC_SECS: u64 = 1 << 62;

/// The codec of `tarpc::serde_transport` with `Json::default()`.
fn encode<I: DeserializeOwned, S: Serialize>(item: &S) -> Vec<u8> {
    let codec = std::pin::pin!(Json::<I, S>::default());
    codec.serialize(item).expect("json serialize").to_vec()
}

/// `Some(Ok)` decoded, `Some(Err)` codec error, `None` the reader panicked.
fn decode<I: DeserializeOwned>(bytes: &[u8]) -> Option<Result<I, serde_json::Error>> {
    let buf = BytesMut::from(bytes);
    std::panic::catch_unwind(AssertUnwindSafe(|| {
        let codec = std::pin::pin!(Json::<I, ()>::default());
        codec.deserialize(&buf)
    }))
    .ok()
}

fn decode_cm_text(bytes: &[u8]) -> String {
    match decode::<Cm>(bytes) {
        None => "panic".into(),
        Some(Err(_)) => "error".into(),
        Some(Ok(m)) => render_cm(&m),
    }
}

fn decode_rsp_text(bytes: &[u8]) -> String {
    match decode::<Rsp>(bytes) {
        None => "panic".into(),
        Some(Err(_)) => "error".into(),
        Some(Ok(m)) => render_rsp(&m),
    }
}

fn hex_tok(b: &[u8]) -> String {
    if b.is_empty() {
        "-".into()
    } else {
        hex(b)
    }
}

#[derive(Clone, Debug)]
pub enum Op {
    Enc(String),
    DecCm(Vec<u8>),
    DecRsp(Vec<u8>),
    /// `cm`, document, the message it stands for
    DecMust(bool, Vec<u8>, Option<String>),
}

impl Op {
    pub fn parse(toks: &[&str]) -> Option<Op> {
        let bytes = |h: &str| if h == "-" { Some(Vec::new()) } else { unhex(h) };
        match toks {
            ["enc", m] => Some(Op::Enc(m.to_string())),
            ["dec", "cm", h] => Some(Op::DecCm(bytes(h)?)),
            ["dec", "rsp", h] => Some(Op::DecRsp(bytes(h)?)),
            ["dec-must", k @ ("cm" | "rsp"), h] => Some(Op::DecMust(*k == "cm", bytes(h)?, None)),
            ["dec-must", k @ ("cm" | "rsp"), h, e] => Some(Op::DecMust(*k == "cm", bytes(h)?, Some(e.to_string()))),
            _ => None,
        }
    }
    pub fn render(&self) -> String {
        match self {
            Op::Enc(m) => format!("enc {m}"),
            Op::DecCm(b) => format!("dec cm {}", hex_tok(b)),
            Op::DecRsp(b) => format!("dec rsp {}", hex_tok(b)),
            Op::DecMust(cm, b, e) => format!(
                "dec-must {} {}{}",
                if *cm { "cm" } else { "rsp" },
                hex_tok(b),
                e.as_ref().map(|e| format!(" {e}")).unwrap_or_default()
            ),
        }
    }
}

fn exec(out: &mut Out, op: &Op) {
    match op {
        Op::Enc(tok) => match parse_msg::<String>(tok) {
            None => out.line("obs bad-op"),
            Some(Msg::Cm(m)) => {
                let b = encode::<Cm, _>(&m);
                out.line(&format!("obs bytes {}", hex(&b)));
                out.line(&format!("obs roundtrip {tok} {}", decode_cm_text(&b)));
            }
            Some(Msg::Rsp(m)) => {
                let b = encode::<Rsp, _>(&m);
                out.line(&format!("obs bytes {}", hex(&b)));
                out.line(&format!("obs roundtrip {tok} {}", decode_rsp_text(&b)));
            }
        },
        Op::DecCm(b) | Op::DecMust(true, b, _) => match decode_cm_text(b).as_str() {
            t @ ("panic" | "error") => out.line(&format!("obs {t}")),
            t => out.line(&format!("obs msg {t}")),
        },
        Op::DecRsp(b) | Op::DecMust(false, b, _) => match decode_rsp_text(b).as_str() {
            t @ ("panic" | "error") => out.line(&format!("obs {t}")),
            t => out.line(&format!("obs msg {t}")),
        },
    }
}

// ---------------------------------------------------------------------------------------------
// Random messages (structured)
// ---------------------------------------------------------------------------------------------

const BOUNDARY: [u64; 14] = [
    0, 1, 9, 10, 255, 256, 65535, (1 << 32) - 1, 1 << 32, (1 << 53) + 1, (1 << 63) - 1, 1 << 63,
    u64::MAX - 1, u64::MAX,
];

fn random_u64(rng: &mut Rng) -> u64 {
    match rng.below(4) {
        0 | 1 => *rng.pick(&BOUNDARY),
        2 => rng.next() >> rng.below(64),
        _ => rng.next(),
    }
}

fn random_u128(rng: &mut Rng) -> u128 {
    match rng.below(6) {
        0 => 0,
        1 => u128::MAX,
        2 => 1u128 << 64,
        3 => random_u64(rng) as u128,
        _ => ((rng.next() as u128) << 64) | rng.next() as u128,
    }
}

fn random_nanos(rng: &mut Rng) -> u32 {
    match rng.below(3) {
        0 => *rng.pick(&[0u32, 1, 9, 10, 999_999_999]),
        _ => rng.below(1_000_000_000) as u32,
    }
}

fn random_secs(rng: &mut Rng) -> u64 {
    match rng.below(4) {
        0 => *rng.pick(&[0u64, 1, 10, 99, 100, (1 << 32) - 1, 1 << 32, MAX_ENC_SECS]),
        1 => rng.below(MAX_ENC_SECS + 1),
        _ => rng.below(100),
    }
}

/// Bodies and details: every escape class of `serde_json` (quote, backslash, the five named control
/// escapes, `\u00xx` controls, DEL and `/` which are *not* escaped), multi-byte UTF-8 of every length,
/// text that looks like an escape.
fn random_string(rng: &mut Rng) -> String {
    const PIECES: [&str; 30] = [
        "", "x", "tarpc", "a:b c", "\"", "\\", "/", "\u{8}", "\u{c}", "\n", "\r", "\t", "\0", "\u{1}",
        "\u{1f}", "\u{7f}", "\u{80}", "é", "ÿ", "日本語", "\u{2028}", "\u{ffff}", "\u{10000}", "🦀",
        "\u{10ffff}", "\\u0041", "\\\"", "{\"a\":[1,2]}", " ", "\u{d7ff}\u{e000}",
    ];
    match rng.below(20_000) {
        0 => return "c".repeat(65536),
        1 => return "\n".repeat(20_000),
        _ => {}
    }
    match rng.below(100) {
        0 => "é\"".repeat(200),
        1 => (0u8..0x80).map(|b| b as char).collect(),
        2 => "日本語\\".repeat(rng.below(60) as usize),
        3 => (0..rng.below(40)).map(|_| char::from_u32(rng.below(0x20) as u32).unwrap()).collect(),
        _ => {
            let n = rng.below(5);
            (0..n).map(|_| *rng.pick(&PIECES)).collect()
        }
    }
}

/// A message as a value the document builder can take apart.
#[derive(Clone, Debug)]
enum M {
    Req { secs: u64, nanos: u32, trace: (u128, u64, bool), id: u64, body: String },
    Cancel { trace: (u128, u64, bool), id: u64 },
    Ok { id: u64, body: String },
    Err { id: u64, kind: String, detail: String },
}

impl M {
    fn text(&self) -> String {
        let tr = |t: &(u128, u64, bool)| format!("{}:{}:{}", t.0, t.1, if t.2 { "S" } else { "U" });
        match self {
            M::Req { secs, nanos, trace, id, body } => {
                format!("req:{secs}:{nanos}:{}:{id}:{}", tr(trace), hex(body.as_bytes()))
            }
            M::Cancel { trace, id } => format!("cancel:{}:{id}", tr(trace)),
            M::Ok { id, body } => format!("ok:{id}:{}", hex(body.as_bytes())),
            M::Err { id, kind, detail } => format!("err:{id}:{kind}:{}", hex(detail.as_bytes())),
        }
    }
    /// The real encoding.
    fn real(&self) -> Vec<u8> {
        match parse_msg::<String>(&self.text()).expect("generated message parses") {
            Msg::Cm(m) => encode::<Cm, _>(&m),
            Msg::Rsp(m) => encode::<Rsp, _>(&m),
        }
    }
}

fn random_trace(rng: &mut Rng) -> (u128, u64, bool) {
    (random_u128(rng), random_u64(rng), rng.chance(1, 2))
}

fn random_m(rng: &mut Rng, cm: bool) -> M {
    if cm {
        if rng.chance(3, 4) {
            M::Req {
                secs: random_secs(rng),
                nanos: random_nanos(rng),
                trace: random_trace(rng),
                id: random_u64(rng),
                body: random_string(rng),
            }
        } else {
            M::Cancel { trace: random_trace(rng), id: random_u64(rng) }
        }
    } else if rng.chance(2, 5) {
        M::Ok { id: random_u64(rng), body: random_string(rng) }
    } else {
        let kinds = all_kinds();
        M::Err { id: random_u64(rng), kind: format!("{:?}", rng.pick(&kinds)), detail: random_string(rng) }
    }
}

// ---------------------------------------------------------------------------------------------
// Hand-assembled documents
// ---------------------------------------------------------------------------------------------

/// A document under construction: scalar tokens are already text.
#[derive(Clone, Debug)]
enum J {
    Tok(Vec<u8>),
    Arr(Vec<J>),
    Obj(Vec<(Vec<u8>, J)>),
}

fn tok(s: &str) -> J {
    J::Tok(s.as_bytes().to_vec())
}

fn ws(rng: &mut Rng, on: bool, out: &mut Vec<u8>) {
    if on && rng.chance(1, 3) {
        for _ in 0..1 + rng.below(3) {
            out.push(*rng.pick(b" \n\t\r"));
        }
    }
}

fn write(rng: &mut Rng, j: &J, w: bool, out: &mut Vec<u8>) {
    match j {
        J::Tok(t) => out.extend_from_slice(t),
        J::Arr(xs) => {
            out.push(b'[');
            for (i, x) in xs.iter().enumerate() {
                if i > 0 {
                    out.push(b',');
                }
                ws(rng, w, out);
                write(rng, x, w, out);
                ws(rng, w, out);
            }
            if xs.is_empty() {
                ws(rng, w, out);
            }
            out.push(b']');
        }
        J::Obj(kvs) => {
            out.push(b'{');
            for (i, (k, v)) in kvs.iter().enumerate() {
                if i > 0 {
                    out.push(b',');
                }
                ws(rng, w, out);
                out.extend_from_slice(k);
                ws(rng, w, out);
                out.push(b':');
                ws(rng, w, out);
                write(rng, v, w, out);
                ws(rng, w, out);
            }
            if kvs.is_empty() {
                ws(rng, w, out);
            }
            out.push(b'}');
        }
    }
}

/// A string token for `s`.  `fancy`: each character may be written as a `\uXXXX` escape (surrogate
/// pair above the BMP, either hex case) and `/` as `\/`.
fn jstr(rng: &mut Rng, s: &str, fancy: bool) -> Vec<u8> {
    if !fancy {
        return serde_json::to_vec(s).unwrap();
    }
    let mut o = vec![b'"'];
    for c in s.chars() {
        let esc = rng.chance(1, 3);
        let upper = rng.chance(1, 2);
        let u = |o: &mut Vec<u8>, n: u16| {
            let t = if upper { format!("\\u{n:04X}") } else { format!("\\u{n:04x}") };
            o.extend_from_slice(t.as_bytes());
        };
        if esc {
            let mut buf = [0u16; 2];
            for n in c.encode_utf16(&mut buf) {
                u(&mut o, *n);
            }
        } else if c == '/' && rng.chance(1, 2) {
            o.extend_from_slice(b"\\/");
        } else {
            let t = serde_json::to_string(&c.to_string()).unwrap();
            o.extend_from_slice(&t.as_bytes()[1..t.len() - 1]);
        }
    }
    o.push(b'"');
    o
}

/// A value for an unknown member: anything `serde_json` can skip, including tokens no typed visitor
/// would take (non-integer numbers, strings that are not Unicode) and deep nesting.
fn junk(rng: &mut Rng, depth: u32) -> J {
    const SCALARS: [&[u8]; 34] = [
        b"null", b"true", b"false", b"0", b"7", b"-0", b"-1", b"1.5", b"0.0", b"1e3", b"1E+400", b"2e-7",
        b"-1.25e+2", b"18446744073709551615", b"18446744073709551616", b"123456789012345678901234567890",
        b"0.000000000000000000000000000001", b"\"\"", b"\"x\"", b"\"\\n\\t\\\\\\\"\\/\\b\\f\\r\"",
        b"\"\\u00e9\\u65E5\"", b"\"\\ud83e\\udd80\"", b"\"\\ud800\"", b"\"\\udc00x\"", b"\"\\ud800\\n\"",
        b"\"\\ud800\\ud800\\udc00\"", b"\"\\ud800\\u0041\"", b"\"\xff\"", b"\"\xc3\"", b"\"\xed\xa0\x80\"",
        b"\"\xc0\xaf\"", b"\"\xf4\x90\x80\x80\"", b"\"\x7f\"", b"\"\xe6\x97\xa5\"",
    ];
    if depth == 0 || rng.chance(3, 5) {
        return J::Tok(rng.pick(&SCALARS).to_vec());
    }
    match rng.below(8) {
        0 => {
            // far beyond the typed recursion limit of 128
            let n = 130 + rng.below(200) as usize;
            let mut j = J::Arr(vec![]);
            for _ in 0..n {
                j = if rng.chance(1, 2) { J::Arr(vec![j]) } else { J::Obj(vec![(b"\"k\"".to_vec(), j)]) };
            }
            j
        }
        1..=3 => J::Arr((0..rng.below(4)).map(|_| junk(rng, depth - 1)).collect()),
        _ => J::Obj(
            (0..rng.below(4))
                .map(|_| {
                    let k: &[u8] = *rng.pick(&[
                        &b"\"k\""[..], b"\"\"", b"\"id\"", b"\"secs\"", b"\"\\ud800\"", b"\"\xff\"", b"\"k\"",
                        b"\"\\u006b\"",
                    ]);
                    (k.to_vec(), junk(rng, depth - 1))
                })
                .collect(),
        ),
    }
}

/// Ways a document may deviate; each is drawn independently per site.
struct Vary {
    /// escapes in strings and keys, shuffles, unknown members, omitted defaulted members, array form
    benign: bool,
    /// mistakes: missing / repeated members, wrong types, out-of-range or non-integer numbers …
    faulty: bool,
}

fn num(rng: &mut Rng, v: &Vary, n: u128, bound: u128) -> J {
    if v.faulty && rng.chance(1, 12) {
        let alts = [
            format!("{n}.0"),
            format!("{n}e0"),
            format!("-{n}"),
            format!("0{n}"),
            format!("\"{n}\""),
            format!("{bound}"),
            format!("{}", bound + n),
            "null".into(),
            "true".into(),
            format!("[{n}]"),
            format!("+{n}"),
            format!("{n}."),
            format!(".{n}"),
            format!("{n}E"),
            format!("0x{n:x}"),
            "1e999".into(),
            "-".into(),
            "NaN".into(),
        ];
        let a = rng.pick(&alts[..]).clone();
        return tok(&a);
    }
    tok(&n.to_string())
}

fn key(rng: &mut Rng, v: &Vary, name: &str) -> Vec<u8> {
    if v.faulty && rng.chance(1, 60) {
        let alts = [name.to_uppercase(), format!("{name} "), format!("{name}\\u0000"), String::new()];
        let a = rng.pick(&alts[..]).clone();
        return jstr(rng, &a, false);
    }
    {
        let f = v.benign && rng.chance(1, 6);
        jstr(rng, name, f)
    }
}

/// Assemble a struct from its members `(name, value, has_default)`.
fn strukt(rng: &mut Rng, v: &Vary, fields: Vec<(&str, J, bool)>, strict_keys: bool) -> J {
    if v.benign && rng.chance(1, 14) {
        // positional form
        let mut xs: Vec<J> = fields.into_iter().map(|f| f.1).collect();
        if v.faulty && rng.chance(1, 6) {
            if rng.chance(1, 2) {
                xs.pop();
            } else {
                xs.push(junk(rng, 1));
            }
        }
        return J::Arr(xs);
    }
    let mut kvs: Vec<(Vec<u8>, J)> = Vec::new();
    for (name, val, has_default) in fields {
        if has_default && v.benign && rng.chance(1, 3) {
            continue;
        }
        if v.faulty && rng.chance(1, 40) {
            continue; // a required member is missing
        }
        let k = key(rng, v, name);
        if v.faulty && rng.chance(1, 40) {
            kvs.push((k.clone(), val.clone())); // repeated member
        }
        kvs.push((k, val));
    }
    if v.benign && !strict_keys || v.faulty && rng.chance(1, 20) {
        for _ in 0..rng.weighted(&[6, 3, 1]) {
            let name = *rng.pick(&["x", "extra", "", "Id", "deadline ", "日本", "\u{1}", "unknown_field"]);
            let k = if rng.chance(1, 20) {
                rng.pick(&[&b"\"\\ud800\""[..], b"\"\xff\""]).to_vec() // makes a typed object unreadable
            } else {
                {
                    let f = rng.chance(1, 4);
                    jstr(rng, name, f)
                }
            };
            let at = rng.below(kvs.len() as u64 + 1) as usize;
            let val = junk(rng, 3);
            kvs.insert(at, (k, val));
        }
    }
    if v.benign && rng.chance(1, 3) {
        // Fisher–Yates
        for i in (1..kvs.len()).rev() {
            let j = rng.below(i as u64 + 1) as usize;
            kvs.swap(i, j);
        }
    }
    J::Obj(kvs)
}

fn enum1(rng: &mut Rng, v: &Vary, variant: &str, val: J) -> J {
    let name = if v.faulty && rng.chance(1, 40) {
        rng.pick(&["request", "Ok ", "Error", "", "0"]).to_string()
    } else {
        variant.to_string()
    };
    let f = v.benign && rng.chance(1, 6);
    let mut kvs = vec![(jstr(rng, &name, f), val)];
    if v.faulty && rng.chance(1, 40) {
        kvs.push((jstr(rng, "x", false), tok("1")));
    }
    if v.faulty && rng.chance(1, 60) {
        return J::Tok(jstr(rng, &name, false));
    }
    J::Obj(kvs)
}

fn duration(rng: &mut Rng, v: &Vary, secs: u64, nanos: u32) -> J {
    let (mut s, mut n) = (secs as u128, nanos as u128);
    if v.benign && rng.chance(1, 8) {
        // un-normalised nanos, carried into secs by the reader
        let k = rng.below(5).min(secs) as u128;
        if (n + k * 1_000_000_000) <= u32::MAX as u128 {
            s -= k;
            n += k * 1_000_000_000;
        }
    }
    if v.faulty && rng.chance(1, 10) {
        s = *rng.pick(&[u64::MAX as u128, u64::MAX as u128 - 3, 1u128 << 63, (1u128 << 63) + 5, 1u128 << 64]);
        n = *rng.pick(&[0u128, 999_999_999, 1_000_000_000, u32::MAX as u128, 1u128 << 32]);
    }
    let fields = vec![("secs", num(rng, v, s, 1 << 64), false), ("nanos", num(rng, v, n, 1 << 32), false)];
    strukt(rng, v, fields, true)
}

fn trace(rng: &mut Rng, v: &Vary, t: &(u128, u64, bool)) -> J {
    let mut bytes: Vec<J> = t.0.to_le_bytes().iter().map(|b| num(rng, v, *b as u128, 256)).collect();
    if v.faulty && rng.chance(1, 30) {
        match rng.below(3) {
            0 => {
                bytes.pop();
            }
            1 => bytes.push(tok("0")),
            _ => bytes.clear(),
        }
    }
    let tid = if v.faulty && rng.chance(1, 60) { tok(&t.0.to_string()) } else { J::Arr(bytes) };
    let name = if t.2 { "Sampled" } else { "Unsampled" };
    let sd = if v.benign && rng.chance(1, 8) {
        J::Obj(vec![(jstr(rng, name, false), tok(if v.faulty && rng.chance(1, 8) { "0" } else { "null" }))])
    } else if v.faulty && rng.chance(1, 30) {
        tok(*rng.pick(&["\"sampled\"", "0", "true", "null", "\"\"", "{\"Sampled\":null,\"Unsampled\":null}"]))
    } else {
        {
            let f = v.benign && rng.chance(1, 6);
            J::Tok(jstr(rng, name, f))
        }
    };
    let fields =
        vec![("trace_id", tid, false), ("span_id", num(rng, v, t.1 as u128, 1 << 64), false), ("sampling_decision", sd, false)];
    strukt(rng, v, fields, false)
}

fn string(rng: &mut Rng, v: &Vary, s: &str) -> J {
    if v.faulty && rng.chance(1, 40) {
        // not UTF-8: surrogate, overlong forms, beyond U+10FFFF, truncated, stray continuation
        const BAD: [&[u8]; 9] = [
            b"\"\xed\xa0\x80\"", b"\"\xc0\xaf\"", b"\"\xe0\x80\x80\"", b"\"\xf0\x80\x80\x80\"",
            b"\"\xf4\x90\x80\x80\"", b"\"\xf8\x88\x80\x80\x80\"", b"\"a\xc3\"", b"\"\x80\"", b"\"\xed\xbf\xbf\"",
        ];
        return J::Tok(rng.pick(&BAD).to_vec());
    }
    if v.faulty && rng.chance(1, 30) {
        return tok(*rng.pick(&["null", "0", "[]", "{}", "\"\\ud800\"", "\"\\udc00\"", "\"\\ud800\\u0041\"", "\"\\x41\"", "\"\\u12\"", "\"\\u00zz\"", "'a'"]));
    }
    {
        let f = v.benign && rng.chance(1, 2);
        J::Tok(jstr(rng, s, f))
    }
}

fn doc(rng: &mut Rng, v: &Vary, m: &M) -> J {
    let kinds = all_kinds();
    match m {
        M::Req { secs, nanos, trace: t, id, body } => {
            let ctx = vec![("deadline", duration(rng, v, *secs, *nanos), true), ("trace_context", trace(rng, v, t), false)];
            let ctx = strukt(rng, v, ctx, false);
            let req = vec![("context", ctx, false), ("id", num(rng, v, *id as u128, 1 << 64), false), ("message", string(rng, v, body), false)];
            let req = strukt(rng, v, req, false);
            enum1(rng, v, "Request", req)
        }
        M::Cancel { trace: t, id } => {
            let c = vec![("trace_context", trace(rng, v, t), true), ("request_id", num(rng, v, *id as u128, 1 << 64), false)];
            let c = strukt(rng, v, c, false);
            enum1(rng, v, "Cancel", c)
        }
        M::Ok { id, body } => {
            let b = string(rng, v, body);
            let r = enum1(rng, v, "Ok", b);
            let f = vec![("request_id", num(rng, v, *id as u128, 1 << 64), false), ("message", r, false)];
            strukt(rng, v, f, false)
        }
        M::Err { id, kind, detail } => {
            // the number the real writer produces for this kind, or any other number
            let real = String::from_utf8(
                M::Err { id: 0, kind: kind.clone(), detail: String::new() }.real(),
            )
            .unwrap();
            let k: u128 = real.split("\"kind\":").nth(1).unwrap().split(',').next().unwrap().parse().unwrap();
            let k = match rng.below(8) {
                0 => rng.below(kinds.len() as u64 + 3) as u128,
                1 => *rng.pick(&[17u128, 18, 19, 255, 256, 65535, 65536, (1 << 31) - 1, 1 << 31, (1 << 32) - 1]),
                _ => k,
            };
            let e = vec![("kind", num(rng, v, k, 1 << 32), false), ("detail", string(rng, v, detail), false)];
            let e = strukt(rng, v, e, false);
            let r = enum1(rng, v, "Err", e);
            let f = vec![("request_id", num(rng, v, *id as u128, 1 << 64), false), ("message", r, false)];
            strukt(rng, v, f, false)
        }
    }
}

fn variant_doc(rng: &mut Rng, m: &M, faulty: bool) -> Vec<u8> {
    let v = Vary { benign: true, faulty };
    let j = doc(rng, &v, m);
    let mut out = Vec::new();
    let w = rng.chance(1, 2);
    ws(rng, w, &mut out);
    write(rng, &j, w, &mut out);
    ws(rng, w, &mut out);
    out
}

/// A document the reader is obliged to understand, and the message it stands for: the real schema with
/// the real member names and value forms, where a peer may leave out the members that have a default
/// (`Cancel.trace_context` → all-zero unsampled, `Context.deadline` → 10 s), write the members of any
/// object in any order and put whitespace between tokens.  Nothing else is varied.
fn must_doc(rng: &mut Rng, m: &M) -> (Vec<u8>, Option<String>) {
    fn key(name: &str) -> Vec<u8> {
        serde_json::to_vec(name).unwrap()
    }
    fn obj(rng: &mut Rng, fields: Vec<(&str, J)>) -> J {
        let mut kvs: Vec<(Vec<u8>, J)> = fields.into_iter().map(|(k, v)| (key(k), v)).collect();
        if rng.chance(1, 2) {
            for i in (1..kvs.len()).rev() {
                let j = rng.below(i as u64 + 1) as usize;
                kvs.swap(i, j);
            }
        }
        J::Obj(kvs)
    }
    fn n(x: u128) -> J {
        tok(&x.to_string())
    }
    fn st(x: &str) -> J {
        J::Tok(serde_json::to_vec(x).unwrap())
    }
    fn tr(rng: &mut Rng, t: &(u128, u64, bool)) -> J {
        let bytes = J::Arr(t.0.to_le_bytes().iter().map(|b| n(*b as u128)).collect());
        let fields = vec![
            ("trace_id", bytes),
            ("span_id", n(t.1 as u128)),
            ("sampling_decision", st(if t.2 { "Sampled" } else { "Unsampled" })),
        ];
        obj(rng, fields)
    }
    let (j, stands_for) = match m {
        M::Req { secs, nanos, trace: t, id, body } => {
            let omit = rng.chance(1, 2);
            let mut ctx = Vec::new();
            if !omit {
                let d = obj(rng, vec![("secs", n(*secs as u128)), ("nanos", n(*nanos as u128))]);
                ctx.push(("deadline", d));
            }
            ctx.push(("trace_context", tr(rng, t)));
            let ctx = obj(rng, ctx);
            let req = obj(rng, vec![("context", ctx), ("id", n(*id as u128)), ("message", st(body))]);
            let m2 = if omit {
                M::Req { secs: 10, nanos: 0, trace: *t, id: *id, body: body.clone() }
            } else {
                m.clone()
            };
            (J::Obj(vec![(key("Request"), req)]), Some(m2.text()))
        }
        M::Cancel { trace: t, id } => {
            let omit = rng.chance(1, 2);
            let mut c = Vec::new();
            if !omit {
                c.push(("trace_context", tr(rng, t)));
            }
            c.push(("request_id", n(*id as u128)));
            let c = obj(rng, c);
            let m2 = if omit { M::Cancel { trace: (0, 0, false), id: *id } } else { m.clone() };
            (J::Obj(vec![(key("Cancel"), c)]), Some(m2.text()))
        }
        M::Ok { id, body } => {
            let r = J::Obj(vec![(key("Ok"), st(body))]);
            (obj(rng, vec![("request_id", n(*id as u128)), ("message", r)]), Some(m.text()))
        }
        M::Err { id, kind, detail } => {
            // the number the real writer produces for this kind (what it is read back as is the error-kind
            // table's business: no expected message here)
            let real = String::from_utf8(M::Err { id: 0, kind: kind.clone(), detail: String::new() }.real()).unwrap();
            let k: u128 = real.split("\"kind\":").nth(1).unwrap().split(',').next().unwrap().parse().unwrap();
            let e = obj(rng, vec![("kind", n(k)), ("detail", st(detail))]);
            let r = J::Obj(vec![(key("Err"), e)]);
            (obj(rng, vec![("request_id", n(*id as u128)), ("message", r)]), None)
        }
    };
    let mut out = Vec::new();
    let w = rng.chance(1, 2);
    ws(rng, w, &mut out);
    write(rng, &j, w, &mut out);
    ws(rng, w, &mut out);
    (out, stands_for)
}

/// A structure-unaware mutation of a byte string.
fn mutate(rng: &mut Rng, mut b: Vec<u8>) -> Vec<u8> {
    const INTERESTING: &[u8] = b"\"\\{}[],: \n-+.eE0123456789u/ntrfbx\x00\x1f\x7f\x80\xc3\xff";
    let n = 1 + rng.below(2);
    for _ in 0..n {
        let len = b.len() as u64;
        match rng.below(8) {
            0 => b.truncate(rng.below(len + 1) as usize),
            1 => {
                b.pop();
            }
            2 => b.push(*rng.pick(INTERESTING)),
            3 | 4 => {
                if !b.is_empty() {
                    let i = rng.below(len) as usize;
                    b[i] = if rng.chance(3, 4) { *rng.pick(INTERESTING) } else { rng.next() as u8 };
                }
            }
            5 => {
                let i = rng.below(len + 1) as usize;
                b.insert(i, *rng.pick(INTERESTING));
            }
            6 => {
                if !b.is_empty() {
                    b.remove(rng.below(len) as usize);
                }
            }
            _ => {
                // swap two bytes
                if b.len() >= 2 {
                    let i = rng.below(len) as usize;
                    let j = rng.below(len) as usize;
                    b.swap(i, j);
                }
            }
        }
    }
    b
}

/// See the module comment: the model converts a deadline with `now.tv_sec = 0`.
fn in_band(b: &[u8]) -> bool {
    let lo = (1u128 << 63) - (1u128 << 40) - 8;
    let hi = 1u128 << 63;
    let mut i = 0;
    while i < b.len() {
        if b[i].is_ascii_digit() {
            let s = i;
            while i < b.len() && b[i].is_ascii_digit() {
                i += 1;
            }
            if i - s <= 30 {
                if let Ok(v) = std::str::from_utf8(&b[s..i]).unwrap().parse::<u128>() {
                    if v >= lo && v < hi {
                        return true;
                    }
                }
            }
        } else {
            i += 1;
        }
    }
    false
}

fn gen_op(rng: &mut Rng) -> Op {
    loop {
        let cm = rng.chance(1, 2);
        let m = random_m(rng, cm);
        let dec = |cm: bool, b: Vec<u8>| if cm { Op::DecCm(b) } else { Op::DecRsp(b) };
        let op = match rng.weighted(&[30, 10, 22, 12, 16, 5, 3, 2, 14]) {
            0 => Op::Enc(m.text()),
            8 => {
                let (b, e) = must_doc(rng, &m);
                Op::DecMust(cm, b, e)
            }
            1 => dec(cm, m.real()),
            2 => dec(cm, variant_doc(rng, &m, false)),
            3 => dec(cm, variant_doc(rng, &m, true)),
            4 => {
                let b = if rng.chance(1, 2) { m.real() } else { variant_doc(rng, &m, false) };
                dec(cm, mutate(rng, b))
            }
            5 => dec(!cm, if rng.chance(1, 2) { m.real() } else { variant_doc(rng, &m, false) }),
            6 => {
                // any JSON value at all
                let j = junk(rng, 3);
                let mut b = Vec::new();
                write(rng, &j, true, &mut b);
                dec(cm, b)
            }
            _ => {
                let n = rng.below(12);
                let b: Vec<u8> = (0..n).map(|_| rng.next() as u8).collect();
                dec(cm, b)
            }
        };
        match &op {
            Op::DecCm(b) | Op::DecRsp(b) | Op::DecMust(_, b, _) if in_band(b) => continue,
            _ => return op,
        }
    }
}

pub fn run_script(out: &mut Out, idx: u64, rng: &mut Rng, script: Option<&[Op]>, len: usize) {
    out.line(&format!("script {idx} c15json"));
    let n = script.map(|s| s.len()).unwrap_or(len);
    for i in 0..n {
        let op = match script {
            Some(s) => s[i].clone(),
            None => gen_op(rng),
        };
        out.line(&format!("op {}", op.render()));
        exec(out, &op);
    }
}

/// tarpc (feature `verif-hooks`) reads tokio's clock: everything runs inside a paused
/// current-thread runtime so that `deadline - now` is exact.
fn in_runtime(f: impl FnOnce()) {
    let rt = tokio::runtime::Builder::new_current_thread()
        .enable_time()
        .start_paused(true)
        .build()
        .expect("runtime");
    let _guard = rt.enter();
    let hook = std::panic::take_hook();
    std::panic::set_hook(Box::new(|_| {}));
    let r = std::panic::catch_unwind(AssertUnwindSafe(f));
    std::panic::set_hook(hook);
    if let Err(e) = r {
        std::panic::resume_unwind(e);
    }
}

/// A fixed script: boundary ids, every `ErrorKind`, every ASCII byte in a body, and hand-written
/// documents for each reader rule (each line below was checked against the real codec once and is
/// compared with the model on every run).
fn boundary_ops() -> Vec<Op> {
    let mut ops = Vec::new();
    for id in BOUNDARY {
        ops.push(Op::Enc(format!("cancel:{id}:{id}:U:{id}")));
        ops.push(Op::Enc(format!("ok:{id}:")));
    }
    for k in all_kinds() {
        ops.push(Op::Enc(format!("err:1:{k:?}:78")));
    }
    for secs in [0u64, 9, 10, (1 << 32) - 1, 1 << 32, MAX_ENC_SECS] {
        for nanos in [0u32, 1, 999_999_999] {
            ops.push(Op::Enc(format!("req:{secs}:{nanos}:{}:1:S:2:{}", u128::MAX, hex("abc".as_bytes()))));
        }
    }
    let ascii: String = (0u8..0x80).map(|b| b as char).collect();
    ops.push(Op::Enc(format!("ok:0:{}", hex(ascii.as_bytes()))));
    ops.push(Op::Enc(format!("err:0:Other:{}", hex("é日🦀\u{7f}\u{80}\u{2028}\u{10ffff}/\\\"".as_bytes()))));
    ops.push(Op::Enc(format!("req:1:2:3:4:S:5:{}", hex("\u{0}\u{1f} \"\\/\u{8}\u{c}\n\r\t".as_bytes()))));
    const TR: &str = r#"{"trace_id":[1,0,0,0,0,0,0,0,0,0,0,0,0,0,0,255],"span_id":3,"sampling_decision":"Sampled"}"#;
    let cm: Vec<String> = vec![
        // canonical, reordered, whitespace, escapes in keys and values
        format!(r#"{{"Request":{{"context":{{"deadline":{{"secs":5,"nanos":7}},"trace_context":{TR}}},"id":9,"message":"hi"}}}}"#),
        format!(r#"{{"Request":{{"message":"hi","id":9,"context":{{"trace_context":{TR},"deadline":{{"nanos":7,"secs":5}}}}}}}}"#),
        format!(" {{ \"Request\" :\t{{ \"context\" : {{ \"deadline\" : {{ \"secs\" : 5 , \"nanos\" : 7 }} , \"trace_context\" : {TR} }} , \"id\" : 9 , \"message\" : \"hi\" }} }}\r\n"),
        format!(r#"{{"\u0052equest":{{"context":{{"trace_context":{TR}}},"\u0069d":9,"message":"\u0068\u00e9\ud83e\udd80\/\u0000"}}}}"#),
        // defaulted members omitted; unknown members skipped whatever their value
        format!(r#"{{"Request":{{"context":{{"trace_context":{TR}}},"id":9,"message":""}}}}"#),
        r#"{"Cancel":{"request_id":7}}"#.into(),
        format!(r#"{{"Cancel":{{"request_id":7,"trace_context":{TR},"x":[1.5,-0,"\ud800",{{"\udc00":null}},[[[[]]]]],"y":1e999}}}}"#),
        format!(r#"{{"Cancel":{{"x":"{}","request_id":7}}}}"#, "\u{ff}"),
        // structs as arrays, unit variant as a map
        format!(r#"{{"Request":[[[5,7],[[1,0,0,0,0,0,0,0,0,0,0,0,0,0,0,255],3,{{"Unsampled":null}}]],9,"hi"]}}"#),
        format!(r#"{{"Cancel":[{TR},7]}}"#),
        format!(r#"{{"Cancel":[{TR}]}}"#),
        r#"{"Cancel":[]}"#.into(),
        // the Duration reader: carry, overflow, unknown member, deadline beyond Instant
        format!(r#"{{"Request":{{"context":{{"deadline":{{"secs":5,"nanos":4294967295}},"trace_context":{TR}}},"id":9,"message":"hi"}}}}"#),
        format!(r#"{{"Request":{{"context":{{"deadline":{{"secs":18446744073709551615,"nanos":1000000000}},"trace_context":{TR}}},"id":9,"message":"hi"}}}}"#),
        format!(r#"{{"Request":{{"context":{{"deadline":{{"secs":18446744073709551615,"nanos":999999999}},"trace_context":{TR}}},"id":9,"message":"hi"}}}}"#),
        format!(r#"{{"Request":{{"context":{{"deadline":{{"secs":9223372036854775808,"nanos":0}},"trace_context":{TR}}},"id":9,"message":"hi"}}}}"#),
        format!(r#"{{"Request":{{"context":{{"deadline":{{"secs":5,"nanos":7,"x":0}},"trace_context":{TR}}},"id":9,"message":"hi"}}}}"#),
        format!(r#"{{"Request":{{"context":{{"deadline":{{"secs":5,"nanos":4294967296}},"trace_context":{TR}}},"id":9,"message":"hi"}}}}"#),
        // mistakes
        format!(r#"{{"Request":{{"context":{{"trace_context":{TR}}},"id":9,"id":9,"message":"hi"}}}}"#),
        format!(r#"{{"Request":{{"context":{{"trace_context":{TR}}},"message":"hi"}}}}"#),
        format!(r#"{{"Request":{{"context":{{"trace_context":{TR}}},"id":18446744073709551616,"message":"hi"}}}}"#),
        format!(r#"{{"Request":{{"context":{{"trace_context":{TR}}},"id":9.0,"message":"hi"}}}}"#),
        format!(r#"{{"Request":{{"context":{{"trace_context":{TR}}},"id":-0,"message":"hi"}}}}"#),
        format!(r#"{{"Request":{{"context":{{"trace_context":{TR}}},"id":09,"message":"hi"}}}}"#),
        format!(r#"{{"Request":{{"context":{{"trace_context":{TR}}},"id":9,"message":"\ud800"}}}}"#),
        format!(r#"{{"Request":{{"context":{{"trace_context":{TR}}},"id":9,"message":"{}"}}}}"#, "\u{1}"),
        format!(r#"{{"Request":{{"context":{{"trace_context":{TR}}},"id":9,"message":"hi"}},"x":1}}"#),
        format!(r#"{{"Request":{{"context":{{"trace_context":{TR}}},"id":9,"message":"hi"}}}} x"#),
        format!(r#"{{"Request":{{"context":{{"trace_context":{TR}}},"id":9,"message":"hi",}}}}"#),
        r#"{"Cancel":{"request_id":7,"trace_context":{"trace_id":[1,0,0,0,0,0,0,0,0,0,0,0,0,0,0],"span_id":3,"sampling_decision":"Sampled"}}}"#.into(),
        r#"{"Cancel":{"request_id":7,"trace_context":{"trace_id":[1,0,0,0,0,0,0,0,0,0,0,0,0,0,0,256],"span_id":3,"sampling_decision":"Sampled"}}}"#.into(),
        r#"{"Cancel":{"request_id":7,"trace_context":{"trace_id":1,"span_id":3,"sampling_decision":"Sampled"}}}"#.into(),
        r#"{"Cancel":{"request_id":7,"trace_context":{"trace_id":[1,0,0,0,0,0,0,0,0,0,0,0,0,0,0,2],"span_id":3,"sampling_decision":"sampled"}}}"#.into(),
        r#"{"Cancel":{"request_id":7,"trace_context":{"trace_id":[1,0,0,0,0,0,0,0,0,0,0,0,0,0,0,2],"span_id":3,"sampling_decision":{"Sampled":0}}}}"#.into(),
        r#""Cancel""#.into(),
        r#"{"cancel":{"request_id":7}}"#.into(),
        r#"{}"#.into(),
        r#"[]"#.into(),
        r#"null"#.into(),
        r#"{"Cancel":{"request_id":7}"#.into(),
        "{\"Cancel\":{\"request_id\":7}}\u{feff}".into(),
    ];
    for d in cm {
        ops.push(Op::DecCm(d.into_bytes()));
    }
    // long strings (the model's string reader recurses once per byte)
    ops.push(Op::Enc(format!("ok:1:{}", hex("c".repeat(65536).as_bytes()))));
    ops.push(Op::Enc(format!("ok:1:{}", hex("\n\u{1}".repeat(20000).as_bytes()))));
    // the documents of the `example`s in lean/TarpcModel/Props/C15Json.lean
    const TA: &str = r#"[[1,0,0,0,0,0,0,0,0,0,0,0,0,0,0,0],2,"Sampled"]"#;
    let props: Vec<String> = vec![
        r#"{"Request":{"context":{"deadline":{"secs":5,"nanos":7},"trace_context":{"trace_id":[16,15,14,13,12,11,10,9,8,7,6,5,4,3,2,1],"span_id":300,"sampling_decision":"Unsampled"}},"id":251,"message":"hé\"\\\n\u0001/🦀"}}"#.into(),
        " { \"Request\" : {\"message\":\"h\\u00E9\\\"\\\\\\n\\u0001\\/\\ud83e\\udd80\", \"x\":[1.5e3,\"\\ud800\",{}],\n\"id\":251,\"context\":{\"trace_context\":{\"sampling_decision\":{\"Unsampled\":null},\"span_id\":300,\"trace_id\":[16,15,14,13,12,11,10,9,8,7,6,5,4,3,2,1]},\"deadline\":{\"nanos\":7,\"secs\":5}}}}\r\n".into(),
        format!(r#"{{"Request":{{"context":{{"trace_context":{TA}}},"id":3,"message":""}}}}"#),
        format!(r#"{{"Cancel":[{TA},7]}}"#),
        r#"{"Cancel":{"request_id":7,"request_id":7}}"#.into(),
        r#"{"Cancel":{"request_id":18446744073709551616}}"#.into(),
        r#"{"Cancel":{"request_id":18446744073709551615}}"#.into(),
        r#"{"Cancel":{"request_id":7.0}}"#.into(),
        r#"{"Cancel":{"request_id":-0}}"#.into(),
        r#"{"Cancel":{"request_id":07}}"#.into(),
        r#"{"Cancel":{"request_id":7,}}"#.into(),
        r#"{"Cancel":{"request_id":7},"x":1}"#.into(),
        r#"{"Cancel":{"request_id":7}} x"#.into(),
        r#"{"Cancel":{"request_id":7,"x":"\ud800"}}"#.into(),
        r#"{"Cancel":{"request_id":7,"\ud800":0}}"#.into(),
        r#"{"Cancel":{"request_id":7,"trace_context":{"trace_id":[1,0,0,0,0,0,0,0,0,0,0,0,0,0,0],"span_id":2,"sampling_decision":"Sampled"}}}"#.into(),
        format!(r#"{{"Request":{{"context":{{"deadline":{{"secs":1,"nanos":2,"x":0}},"trace_context":{TA}}},"id":3,"message":""}}}}"#),
        format!(r#"{{"Request":{{"context":{{"deadline":{{"secs":9223372036854775808,"nanos":0}},"trace_context":{TA}}},"id":3,"message":""}}}}"#),
    ];
    for d in props {
        ops.push(Op::DecCm(d.into_bytes()));
    }
    ops.push(Op::DecCm(b"{\"Cancel\":{\"request_id\":7,\"\xff\":0}}".to_vec()));
    for d in [
        r#"[1,{"Err":[4294967295,"d"]}]"#,
        r#"{"request_id":1,"message":{"Err":{"kind":4294967296,"detail":"d"}}}"#,
        r#"{"request_id":1,"message":"Ok"}"#,
    ] {
        ops.push(Op::DecRsp(d.as_bytes().to_vec()));
    }
    ops.push(Op::Enc("err:1:PermissionDenied:78".into()));
    ops.push(Op::Enc(format!("ok:18446744073709551615:{}", hex("é".as_bytes()))));
    ops.push(Op::Enc("err:1:OutOfMemory:".into()));
    ops.push(Op::DecCm(b"{\"Cancel\":{\"request_id\":7,\"\xff\":1}}".to_vec()));
    ops.push(Op::DecCm(b"{\"Cancel\":{\"request_id\":7,\"x\":\"\xff\"}}".to_vec()));
    ops.push(Op::DecCm(b"{\"Cancel\":{\"request_id\":7,\"x\":{\"\xff\":1}}}".to_vec()));
    let rsp: Vec<&str> = vec![
        r#"{"request_id":1,"message":{"Ok":"body"}}"#,
        r#"{"message":{"Ok":"body"},"request_id":1}"#,
        r#"[1,{"Ok":"body"}]"#,
        r#"{"request_id":1,"message":{"Err":{"kind":1,"detail":"d"}}}"#,
        r#"{"request_id":1,"message":{"Err":{"detail":"d","kind":17,"more":[]}}}"#,
        r#"{"request_id":1,"message":{"Err":[3,"d"]}}"#,
        r#"{"request_id":1,"message":{"Err":{"kind":18,"detail":"d"}}}"#,
        r#"{"request_id":1,"message":{"Err":{"kind":4294967295,"detail":"d"}}}"#,
        r#"{"request_id":1,"message":{"Err":{"kind":4294967296,"detail":"d"}}}"#,
        r#"{"request_id":1,"message":{"Err":{"kind":-1,"detail":"d"}}}"#,
        r#"{"request_id":1,"message":{"Err":{"kind":"NotFound","detail":"d"}}}"#,
        r#"{"request_id":1,"message":{"Err":{"kind":1}}}"#,
        r#"{"request_id":1,"message":{"Ok":"a","Err":{"kind":1,"detail":"d"}}}"#,
        r#"{"request_id":1,"message":"Ok"}"#,
        r#"{"request_id":1,"message":{"ok":"body"}}"#,
        r#"{"request_id":1,"message":{"Ok":5}}"#,
        r#"{"request_id":1,"message":{"Ok":null}}"#,
        r#"{"request_id":1}"#,
        r#"{"request_id":"1","message":{"Ok":"body"}}"#,
        r#"{"request_id":1,"message":{"Ok":"body"}}{"#,
        r#"{"request_id":1,"message":{"Ok":"\u00"}}"#,
        r#"{"request_id":1,"message":{"Ok":"\q"}}"#,
        r#"{"request_id":1,"message":{"Ok":"\uD83E\uDD80 \ud83e"}}"#,
        r#"{"request_id":1,"message":{"Ok":"\udd80\ud83e"}}"#,
        r#"{"request_id":1,"message":{"Ok":"\ud83e\ud83e\udd80"}}"#,
        "",
        " ",
    ];
    for d in rsp {
        ops.push(Op::DecRsp(d.as_bytes().to_vec()));
    }
    // documents the property obliges the reader to understand, with the message each stands for
    let tr_text = format!("{}:3:S", 1u128 | (255u128 << 120));
    let hi = hex("hi".as_bytes());
    let must_cm: Vec<(String, String)> = vec![
        (r#"{"Cancel":{"request_id":7}}"#.into(), "cancel:0:0:U:7".into()),
        (" {\"Cancel\" :\t{ \"request_id\" : 18446744073709551615 } }\r\n".into(), format!("cancel:0:0:U:{}", u64::MAX)),
        (format!(r#"{{"Cancel":{{"request_id":7,"trace_context":{TR}}}}}"#), format!("cancel:{tr_text}:7")),
        (format!(r#"{{"Request":{{"context":{{"trace_context":{TR}}},"id":9,"message":"hi"}}}}"#), format!("req:10:0:{tr_text}:9:{hi}")),
        (format!(r#"{{"Request":{{"message":"hi","id":9,"context":{{"trace_context":{TR}}}}}}}"#), format!("req:10:0:{tr_text}:9:{hi}")),
        (format!(r#"{{"Request":{{"message":"hi","id":9,"context":{{"trace_context":{TR},"deadline":{{"nanos":7,"secs":5}}}}}}}}"#), format!("req:5:7:{tr_text}:9:{hi}")),
        (format!("\n{{ \"Request\" : {{ \"context\" : {{ \"trace_context\" : {TR} }} , \"id\" : 9 , \"message\" : \"hi\" }} }} "), format!("req:10:0:{tr_text}:9:{hi}")),
    ];
    for (d, e) in must_cm {
        ops.push(Op::DecMust(true, d.into_bytes(), Some(e)));
    }
    let must_rsp: Vec<(&str, &str)> = vec![
        (r#"{"message":{"Ok":"body"},"request_id":1}"#, "ok:1:626f6479"),
        ("\t{ \"request_id\" : 1 , \"message\" : { \"Ok\" : \"body\" } }\n", "ok:1:626f6479"),
        (r#"{"message":{"Err":{"detail":"d","kind":1}},"request_id":1}"#, "err:1:PermissionDenied:64"),
    ];
    for (d, e) in must_rsp {
        ops.push(Op::DecMust(false, d.as_bytes().to_vec(), Some(e.to_string())));
    }
    // deeper than serde_json's recursion limit, inside a skipped member
    let deep = format!(r#"{{"request_id":1,"x":{}{},"message":{{"Ok":""}}}}"#, "[".repeat(1000), "]".repeat(1000));
    ops.push(Op::DecRsp(deep.into_bytes()));
    let deep = format!(r#"{{"request_id":1,"x":{}1{},"message":{{"Ok":""}}}}"#, "{\"a\":".repeat(300), "}".repeat(300));
    ops.push(Op::DecRsp(deep.into_bytes()));
    ops
}

pub fn generate(out: &mut Out, seed: u64, scripts: u64, len: usize) {
    in_runtime(|| {
        for idx in 0..scripts {
            let mut rng = Rng::new(seed.wrapping_mul(1_000_003).wrapping_add(idx) ^ 0xC15_150);
            if idx == 0 {
                let ops = boundary_ops();
                run_script(out, idx, &mut rng, Some(&ops), 0);
                continue;
            }
            run_script(out, idx, &mut rng, None, len);
        }
    });
}

/// Replays `(header, op lines)` scripts as read by `main::read_scripts`.
pub fn replay(out: &mut Out, scripts: &[(String, Vec<String>)]) {
    in_runtime(|| {
        for (i, (_h, ops)) in scripts.iter().enumerate() {
            let ops: Vec<Op> = ops
                .iter()
                .filter_map(|o| Op::parse(&o.split_whitespace().collect::<Vec<_>>()))
                .collect();
            let mut rng = Rng::new(0);
            run_script(out, i as u64, &mut rng, Some(&ops), 0);
        }
    });
}

//! C15 (stream level): the real framing and the real transports under adversarial fragmentation.
//!
//! Family `c15frame`: the real `tokio_util::codec::FramedRead<_, LengthDelimitedCodec>` (the read half of
//! what `tarpc::serde_transport` builds) over a scripted `AsyncRead` that hands out exactly the chunks of
//! the script, with zero-progress `Pending`s in between.  `encode` ops run the real encoder.
//!
//! Family `c15e2e`: a pair of real transports — `tarpc::serde_transport::new(Framed::new(io,
//! LengthDelimitedCodec::new()), Bincode|Json)` over an in-process duplex whose `poll_write` accepts
//! PRNG-chosen partial lengths or returns `Pending` and whose `poll_read` returns partial reads, or
//! `tarpc::transport::channel::{unbounded, bounded}` — one side writing `ClientMessage<String>` /
//! `Response<String>` values, the other reading them, both polled by hand with flag wakers.
use crate::rng::Rng;
use crate::Out;
use bytes::{Bytes, BytesMut};
use futures::{prelude::*, task::ArcWake};
use std::{
    cell::RefCell,
    collections::VecDeque,
    fmt::Debug,
    io,
    pin::Pin,
    rc::Rc,
    sync::{
        atomic::{AtomicBool, Ordering},
        Arc,
    },
    task::{Context, Poll, Waker},
    time::Duration,
};
use tarpc::{context, trace, ClientMessage, Request, Response, ServerError};
use tokio::io::{AsyncRead, AsyncWrite, ReadBuf};
use tokio_serde::formats::{Bincode, Json};
use tokio_util::codec::{Encoder, Framed, FramedRead, LengthDelimitedCodec};

const DEFAULT_MAX: usize = 8 * 1024 * 1024;

// ---------------------------------------------------------------------------------------------
// helpers

struct Flag(AtomicBool);

impl ArcWake for Flag {
    fn wake_by_ref(a: &Arc<Self>) {
        a.0.store(true, Ordering::SeqCst);
    }
}

impl Flag {
    fn new() -> Arc<Flag> {
        Arc::new(Flag(AtomicBool::new(false)))
    }
    fn take(&self) -> bool {
        self.0.swap(false, Ordering::SeqCst)
    }
}

pub fn hex(bs: &[u8]) -> String {
    if bs.is_empty() {
        return "-".into();
    }
    let mut s = String::with_capacity(bs.len() * 2);
    for b in bs {
        s.push_str(&format!("{b:02x}"));
    }
    s
}

pub fn unhex(s: &str) -> Option<Vec<u8>> {
    if s == "-" {
        return Some(Vec::new());
    }
    if s.len() % 2 != 0 {
        return None;
    }
    (0..s.len() / 2).map(|i| u8::from_str_radix(s.get(2 * i..2 * i + 2)?, 16).ok()).collect()
}

// ---------------------------------------------------------------------------------------------
// c15frame

#[derive(Clone, Debug)]
pub enum FOp {
    Chunk(Vec<u8>),
    Eof,
    Encode(Vec<u8>),
}

impl FOp {
    pub fn parse(toks: &[&str]) -> Option<FOp> {
        match toks {
            ["chunk", h] => Some(FOp::Chunk(unhex(h)?)),
            ["eof"] => Some(FOp::Eof),
            ["encode", h] => Some(FOp::Encode(unhex(h)?)),
            _ => None,
        }
    }
    pub fn render(&self) -> String {
        match self {
            FOp::Chunk(b) => format!("chunk {}", hex(b)),
            FOp::Eof => "eof".into(),
            FOp::Encode(b) => format!("encode {}", hex(b)),
        }
    }
}

#[derive(Default)]
struct Feeder {
    avail: VecDeque<u8>,
    eof: bool,
    /// the next `poll_read` makes no progress (and wakes, as a well-behaved reader must)
    stutter: bool,
}

struct ScriptedRead(Rc<RefCell<Feeder>>);

impl AsyncRead for ScriptedRead {
    fn poll_read(self: Pin<&mut Self>, cx: &mut Context<'_>, buf: &mut ReadBuf<'_>) -> Poll<io::Result<()>> {
        let mut f = self.0.borrow_mut();
        if f.stutter {
            f.stutter = false;
            cx.waker().wake_by_ref();
            return Poll::Pending;
        }
        if f.avail.is_empty() {
            // EOF is a successful read of zero bytes; otherwise the harness knows when it adds bytes.
            return if f.eof { Poll::Ready(Ok(())) } else { Poll::Pending };
        }
        let n = f.avail.len().min(buf.remaining());
        let bytes: Vec<u8> = f.avail.drain(..n).collect();
        buf.put_slice(&bytes);
        Poll::Ready(Ok(()))
    }
}

fn codec(max: usize) -> LengthDelimitedCodec {
    if max == DEFAULT_MAX {
        // exactly what `serde_transport` uses
        LengthDelimitedCodec::new()
    } else {
        LengthDelimitedCodec::builder().max_frame_length(max).new_codec()
    }
}

fn classify(e: &io::Error) -> String {
    if e.kind() == io::ErrorKind::InvalidData {
        "oversize".into()
    } else if e.to_string().contains("bytes remaining on stream") {
        "truncated".into()
    } else {
        format!("other:{}", e.to_string().replace(' ', "_"))
    }
}

pub fn run_frame_script(out: &mut Out, idx: u64, max: usize, rng: &mut Rng, ops: &[FOp]) {
    out.line(&format!("script {idx} c15frame max={max}"));
    let feeder = Rc::new(RefCell::new(Feeder::default()));
    let mut framed = FramedRead::new(ScriptedRead(feeder.clone()), codec(max));
    let mut enc = codec(max);
    let flag = Flag::new();
    let waker: Waker = futures::task::waker(flag.clone());
    let mut cx = Context::from_waker(&waker);
    let mut done = false; // an error or EOF was observed: the stream is never polled again
    for op in ops {
        out.line(&format!("op {}", op.render()));
        match op {
            FOp::Encode(p) => {
                let mut dst = BytesMut::new();
                match enc.encode(Bytes::from(p.clone()), &mut dst) {
                    Ok(()) => out.line(&format!("obs wire {}", hex(&dst))),
                    Err(_) => out.line(&format!("obs error toolong {}", p.len())),
                }
            }
            FOp::Chunk(_) | FOp::Eof if done => out.line("obs noop"),
            FOp::Chunk(bs) => {
                out.line(&format!("obs fed {}", hex(bs)));
                {
                    let mut f = feeder.borrow_mut();
                    f.avail.extend(bs.iter().copied());
                    f.stutter = rng.chance(1, 4);
                }
                let mut guard = 0u64;
                loop {
                    guard += 1;
                    assert!(guard < 10_000_000, "c15frame: poll loop does not terminate");
                    flag.take();
                    match Pin::new(&mut framed).poll_next(&mut cx) {
                        Poll::Ready(Some(Ok(frame))) => {
                            out.line(&format!("obs frame {}", hex(&frame)));
                            if rng.chance(1, 5) {
                                feeder.borrow_mut().stutter = true;
                            }
                        }
                        Poll::Ready(Some(Err(e))) => {
                            out.line(&format!("obs error {}", classify(&e)));
                            done = true;
                            break;
                        }
                        Poll::Ready(None) => {
                            out.line("obs eof");
                            done = true;
                            break;
                        }
                        Poll::Pending => {
                            let woken = flag.take();
                            if woken || !feeder.borrow().avail.is_empty() {
                                continue;
                            }
                            break;
                        }
                    }
                }
            }
            FOp::Eof => {
                feeder.borrow_mut().eof = true;
                let mut guard = 0u64;
                loop {
                    guard += 1;
                    assert!(guard < 10_000_000, "c15frame: eof loop does not terminate");
                    match Pin::new(&mut framed).poll_next(&mut cx) {
                        Poll::Ready(Some(Ok(frame))) => out.line(&format!("obs frame {}", hex(&frame))),
                        Poll::Ready(Some(Err(e))) => {
                            out.line(&format!("obs error {}", classify(&e)));
                            break;
                        }
                        Poll::Ready(None) => {
                            out.line("obs eof");
                            break;
                        }
                        Poll::Pending => panic!("c15frame: Pending at EOF"),
                    }
                }
                done = true;
            }
        }
    }
}

fn be32(n: u32) -> [u8; 4] {
    n.to_be_bytes()
}

fn random_bytes(rng: &mut Rng, n: usize) -> Vec<u8> {
    (0..n)
        .map(|_| match rng.below(6) {
            0 => 0x00,
            1 => 0xff,
            _ => rng.below(256) as u8,
        })
        .collect()
}

fn gen_frame_script(rng: &mut Rng, len: usize) -> (usize, Vec<FOp>) {
    let max: usize = match rng.weighted(&[60, 25, 5, 10]) {
        0 => DEFAULT_MAX,
        1 => 1 + rng.below(16) as usize,
        2 => 0,
        _ => 200 + rng.below(100) as usize,
    };
    let big = max == DEFAULT_MAX && rng.chance(1, 40);
    let nframes = if big {
        1 + rng.below(3) as usize
    } else if rng.chance(1, 8) {
        rng.below(2) as usize
    } else {
        2 + rng.below((len / 5 + 1) as u64) as usize
    };
    let mut stream: Vec<u8> = Vec::new();
    for i in 0..nframes {
        let plen = if big && i == 0 {
            8000 + rng.below(12000) as usize
        } else if max < 300 {
            rng.below(max as u64 + 1) as usize
        } else {
            match rng.weighted(&[15, 15, 30, 28, 12]) {
                0 => 0,
                1 => 1,
                2 => 2 + rng.below(7) as usize,
                3 => 9 + rng.below(32) as usize,
                _ => 41 + rng.below(260) as usize,
            }
        };
        stream.extend_from_slice(&be32(plen as u32));
        stream.extend(random_bytes(rng, plen));
    }
    // how the stream ends
    let ending = rng.weighted(&[50, 25, 15, 10]);
    let mut send_eof = true;
    match ending {
        0 => {}
        1 => {
            // one more frame, cut strictly inside it
            let plen = if max < 300 { rng.below(max as u64 + 1) as usize } else { rng.below(12) as usize };
            let mut f = be32(plen as u32).to_vec();
            f.extend(random_bytes(rng, plen));
            let k = match rng.weighted(&[3, 3, 4]) {
                0 => 1 + rng.below(3) as usize,
                1 => 4.min(f.len() - 1).max(1),
                _ => 1 + rng.below(f.len() as u64 - 1) as usize,
            };
            stream.extend_from_slice(&f[..k]);
        }
        2 => {
            // a length prefix above the maximum, then whatever
            let n: u32 = match rng.below(3) {
                0 => max as u32 + 1,
                1 => u32::MAX,
                _ => (max as u64 + 1 + rng.below(1 << 20)).min(u32::MAX as u64) as u32,
            };
            stream.extend_from_slice(&be32(n));
            let junk = rng.below(12) as usize;
            stream.extend(random_bytes(rng, junk));
        }
        _ => send_eof = false,
    }
    // cut it up
    let mut ops = Vec::new();
    let mut pos = 0usize;
    while pos < stream.len() {
        let left = stream.len() - pos;
        let n = if left > 2000 {
            512 + rng.below(4096) as usize
        } else {
            match rng.weighted(&[10, 35, 25, 20, 10]) {
                0 => 0,
                1 => 1,
                2 => 2 + rng.below(4) as usize,
                3 => 6 + rng.below(27) as usize,
                _ => 33 + rng.below(600) as usize,
            }
        }
        .min(left);
        ops.push(FOp::Chunk(stream[pos..pos + n].to_vec()));
        pos += n;
        if rng.chance(1, 20) {
            let plen = if max < 300 { rng.below(max as u64 + 3) as usize } else { rng.below(40) as usize };
            ops.push(FOp::Encode(random_bytes(rng, plen)));
        }
    }
    if rng.chance(1, 4) {
        ops.push(FOp::Chunk(Vec::new()));
    }
    if send_eof {
        ops.push(FOp::Eof);
        for _ in 0..rng.below(3) {
            ops.push(if rng.chance(1, 2) { FOp::Eof } else { FOp::Chunk(random_bytes(rng, 3)) });
        }
    }
    (max, ops)
}

fn generate_frame(out: &mut Out, seed: u64, scripts: u64, len: usize) {
    for idx in 0..scripts {
        let mut rng = Rng::new(seed.wrapping_mul(1_000_003).wrapping_add(idx) ^ 0xC15F);
        let (max, ops) = gen_frame_script(&mut rng, len);
        run_frame_script(out, idx, max, &mut rng, &ops);
    }
}

// ---------------------------------------------------------------------------------------------
// c15e2e: the byte pipe

struct PipeState {
    buf: VecDeque<u8>,
    /// bytes written but not yet flushed: a buffering byte stream (like `BufWriter`, TLS or compression layers) hands
    /// them to the peer only when its own `poll_flush` / `poll_shutdown` completes; they are lost if the writer is dropped
    held: Vec<u8>,
    /// the writing end was shut down or dropped
    write_closed: bool,
    read_waker: Option<Waker>,
    rng: Rng,
    last_write_pending: bool,
    last_read_pending: bool,
}

impl PipeState {
    fn new(seed: u64) -> Rc<RefCell<PipeState>> {
        Rc::new(RefCell::new(PipeState {
            buf: VecDeque::new(),
            held: Vec::new(),
            write_closed: false,
            read_waker: None,
            rng: Rng::new(seed),
            last_write_pending: false,
            last_read_pending: false,
        }))
    }
}

/// One end of an in-process duplex byte stream: writes go to `tx`, reads come from `rx`.
struct Endpoint {
    tx: Rc<RefCell<PipeState>>,
    rx: Rc<RefCell<PipeState>>,
}

fn duplex(seed: u64) -> (Endpoint, Endpoint) {
    let ab = PipeState::new(seed);
    let ba = PipeState::new(seed ^ 0x5555);
    (Endpoint { tx: ab.clone(), rx: ba.clone() }, Endpoint { tx: ba, rx: ab })
}

impl Drop for Endpoint {
    fn drop(&mut self) {
        let mut p = self.tx.borrow_mut();
        p.write_closed = true;
        if let Some(w) = p.read_waker.take() {
            w.wake();
        }
    }
}

fn pick_len(rng: &mut Rng, avail: usize) -> usize {
    let n = match rng.weighted(&[30, 25, 25, 20]) {
        0 => 1,
        1 => 1 + rng.below(4) as usize,
        2 => 1 + rng.below(64) as usize,
        _ => avail,
    };
    n.min(avail).max(1)
}

impl AsyncWrite for Endpoint {
    fn poll_write(self: Pin<&mut Self>, cx: &mut Context<'_>, data: &[u8]) -> Poll<io::Result<usize>> {
        let mut p = self.tx.borrow_mut();
        if p.write_closed {
            return Poll::Ready(Err(io::Error::new(io::ErrorKind::BrokenPipe, "write after shutdown")));
        }
        if data.is_empty() {
            return Poll::Ready(Ok(0));
        }
        if !p.last_write_pending && p.rng.chance(1, 3) {
            p.last_write_pending = true;
            cx.waker().wake_by_ref();
            return Poll::Pending;
        }
        p.last_write_pending = false;
        let n = pick_len(&mut p.rng, data.len());
        p.held.extend_from_slice(&data[..n]);
        Poll::Ready(Ok(n))
    }
    fn poll_flush(self: Pin<&mut Self>, cx: &mut Context<'_>) -> Poll<io::Result<()>> {
        let mut p = self.tx.borrow_mut();
        if !p.last_write_pending && p.rng.chance(1, 4) {
            p.last_write_pending = true;
            cx.waker().wake_by_ref();
            return Poll::Pending;
        }
        p.last_write_pending = false;
        let held = std::mem::take(&mut p.held);
        p.buf.extend(held);
        if let Some(w) = p.read_waker.take() {
            w.wake();
        }
        Poll::Ready(Ok(()))
    }
    fn poll_shutdown(self: Pin<&mut Self>, cx: &mut Context<'_>) -> Poll<io::Result<()>> {
        let mut p = self.tx.borrow_mut();
        if !p.last_write_pending && p.rng.chance(1, 3) {
            p.last_write_pending = true;
            cx.waker().wake_by_ref();
            return Poll::Pending;
        }
        p.last_write_pending = false;
        let held = std::mem::take(&mut p.held);
        p.buf.extend(held);
        p.write_closed = true;
        if let Some(w) = p.read_waker.take() {
            w.wake();
        }
        Poll::Ready(Ok(()))
    }
}

impl AsyncRead for Endpoint {
    fn poll_read(self: Pin<&mut Self>, cx: &mut Context<'_>, buf: &mut ReadBuf<'_>) -> Poll<io::Result<()>> {
        let mut p = self.rx.borrow_mut();
        if p.buf.is_empty() {
            if p.write_closed {
                return Poll::Ready(Ok(())); // EOF
            }
            p.read_waker = Some(cx.waker().clone());
            return Poll::Pending;
        }
        if !p.last_read_pending && p.rng.chance(1, 3) {
            p.last_read_pending = true;
            cx.waker().wake_by_ref();
            return Poll::Pending;
        }
        p.last_read_pending = false;
        let avail = p.buf.len().min(buf.remaining());
        let n = pick_len(&mut p.rng, avail);
        let bytes: Vec<u8> = p.buf.drain(..n).collect();
        buf.put_slice(&bytes);
        Poll::Ready(Ok(()))
    }
}

// ---------------------------------------------------------------------------------------------
// c15e2e: messages and their canonical text

const KINDS: [io::ErrorKind; 18] = [
    io::ErrorKind::NotFound,
    io::ErrorKind::PermissionDenied,
    io::ErrorKind::ConnectionRefused,
    io::ErrorKind::ConnectionReset,
    io::ErrorKind::ConnectionAborted,
    io::ErrorKind::NotConnected,
    io::ErrorKind::AddrInUse,
    io::ErrorKind::AddrNotAvailable,
    io::ErrorKind::BrokenPipe,
    io::ErrorKind::AlreadyExists,
    io::ErrorKind::WouldBlock,
    io::ErrorKind::InvalidInput,
    io::ErrorKind::InvalidData,
    io::ErrorKind::TimedOut,
    io::ErrorKind::WriteZero,
    io::ErrorKind::Interrupted,
    io::ErrorKind::Other,
    io::ErrorKind::UnexpectedEof,
];

fn now() -> std::time::Instant {
    tarpc::verif_hooks::now()
}

fn random_string(rng: &mut Rng, big: bool) -> String {
    const ALPHABET: [&str; 24] = [
        "a", "b", "z", "0", "9", " ", "\"", "\\", "/", "\n", "\r", "\t", "\0", "\u{1}", "\u{7f}", "\u{80}", "é", "ß",
        "漢", "\u{ffff}", "😀", "{", "}", ":",
    ];
    let n = if big {
        let span = if rng.chance(1, 4) { 6000 } else { 900 };
        300 + rng.below(span) as usize
    } else {
        match rng.weighted(&[2, 3, 5]) {
            0 => 0,
            1 => 1 + rng.below(3) as usize,
            _ => 4 + rng.below(21) as usize,
        }
    };
    let mut s = String::new();
    for _ in 0..n {
        s.push_str(ALPHABET[rng.below(ALPHABET.len() as u64) as usize]);
    }
    s
}

fn random_u64(rng: &mut Rng) -> u64 {
    match rng.below(5) {
        0 => 0,
        1 => rng.below(300),
        2 => u64::MAX,
        _ => rng.next(),
    }
}

fn random_trace(rng: &mut Rng) -> trace::Context {
    let trace_id: u128 = match rng.below(4) {
        0 => 0,
        1 => u128::MAX,
        _ => ((rng.next() as u128) << 64) | rng.next() as u128,
    };
    trace::Context {
        trace_id: trace::TraceId::from(trace_id),
        span_id: trace::SpanId::from(random_u64(rng)),
        sampling_decision: if rng.chance(1, 2) {
            trace::SamplingDecision::Sampled
        } else {
            trace::SamplingDecision::Unsampled
        },
    }
}

fn trace_text(t: &trace::Context) -> String {
    format!(
        "{:x}:{:x}:{}",
        u128::from(t.trace_id),
        u64::from(t.span_id),
        match t.sampling_decision {
            trace::SamplingDecision::Sampled => "s",
            trace::SamplingDecision::Unsampled => "u",
        }
    )
}

fn parse_trace(t: &str, s: &str, d: &str) -> Option<trace::Context> {
    Some(trace::Context {
        trace_id: trace::TraceId::from(u128::from_str_radix(t, 16).ok()?),
        span_id: trace::SpanId::from(u64::from_str_radix(s, 16).ok()?),
        sampling_decision: match d {
            "s" => trace::SamplingDecision::Sampled,
            "u" => trace::SamplingDecision::Unsampled,
            _ => return None,
        },
    })
}

/// A protocol message with a canonical, whitespace-free, parseable text.
pub trait Msg: Sized {
    fn random(rng: &mut Rng, big: bool) -> Self;
    fn text(&self) -> String;
    fn parse(text: &str) -> Option<Self>;
}

impl Msg for ClientMessage<String> {
    fn random(rng: &mut Rng, big: bool) -> Self {
        if big || rng.chance(3, 4) {
            let mut ctx = context::current();
            let ns = match rng.below(4) {
                0 => 0,
                1 => 10_000_000_000,
                2 => rng.below(1_000_000_000_000),
                _ => rng.below(3_000_000_000_000_000),
            };
            ctx.deadline = now() + Duration::from_nanos(ns);
            ctx.trace_context = random_trace(rng);
            ClientMessage::Request(Request { context: ctx, id: random_u64(rng), message: random_string(rng, big) })
        } else {
            ClientMessage::Cancel { trace_context: random_trace(rng), request_id: random_u64(rng) }
        }
    }
    /// The deadline is printed as the time remaining now (the clock is paused and never advanced, so
    /// this is the same number on the sending and on the receiving side).
    fn text(&self) -> String {
        match self {
            ClientMessage::Request(r) => format!(
                "req:{}:{}:{}:{}",
                r.id,
                trace_text(&r.context.trace_context),
                r.context.deadline.saturating_duration_since(now()).as_nanos(),
                hex(r.message.as_bytes())
            ),
            ClientMessage::Cancel { trace_context, request_id } => {
                format!("cancel:{}:{}", request_id, trace_text(trace_context))
            }
            _ => "unknown-client-message".into(),
        }
    }
    fn parse(text: &str) -> Option<Self> {
        let f: Vec<&str> = text.split(':').collect();
        match f.as_slice() {
            ["req", id, t, s, d, ns, payload] => {
                let mut ctx = context::current();
                ctx.deadline = now() + Duration::from_nanos(ns.parse().ok()?);
                ctx.trace_context = parse_trace(t, s, d)?;
                Some(ClientMessage::Request(Request {
                    context: ctx,
                    id: id.parse().ok()?,
                    message: String::from_utf8(unhex(payload)?).ok()?,
                }))
            }
            ["cancel", id, t, s, d] => {
                Some(ClientMessage::Cancel { trace_context: parse_trace(t, s, d)?, request_id: id.parse().ok()? })
            }
            _ => None,
        }
    }
}

impl Msg for Response<String> {
    fn random(rng: &mut Rng, big: bool) -> Self {
        let request_id = random_u64(rng);
        if big || rng.chance(2, 3) {
            Response { request_id, message: Ok(random_string(rng, big)) }
        } else {
            let kind = KINDS[rng.below(KINDS.len() as u64) as usize];
            Response { request_id, message: Err(ServerError::new(kind, random_string(rng, false))) }
        }
    }
    fn text(&self) -> String {
        match &self.message {
            Ok(s) => format!("ok:{}:{}", self.request_id, hex(s.as_bytes())),
            Err(e) => format!("err:{}:{:?}:{}", self.request_id, e.kind, hex(e.detail.as_bytes())),
        }
    }
    fn parse(text: &str) -> Option<Self> {
        let f: Vec<&str> = text.split(':').collect();
        match f.as_slice() {
            ["ok", id, payload] => {
                Some(Response { request_id: id.parse().ok()?, message: Ok(String::from_utf8(unhex(payload)?).ok()?) })
            }
            ["err", id, kind, detail] => {
                let kind = *KINDS.iter().find(|k| format!("{k:?}") == *kind)?;
                Some(Response {
                    request_id: id.parse().ok()?,
                    message: Err(ServerError::new(kind, String::from_utf8(unhex(detail)?).ok()?)),
                })
            }
            _ => None,
        }
    }
}

// ---------------------------------------------------------------------------------------------
// c15e2e: ops and the runner

#[derive(Clone, Debug)]
pub enum EOp {
    /// `SinkExt::feed`
    Send(String),
    /// `SinkExt::flush`
    Flush,
    Recv,
    /// `SinkExt::close`
    Close,
    Drop,
}

impl EOp {
    pub fn parse(toks: &[&str]) -> Option<EOp> {
        match toks {
            ["send", t] => Some(EOp::Send(t.to_string())),
            ["flush"] => Some(EOp::Flush),
            ["recv"] => Some(EOp::Recv),
            ["close"] => Some(EOp::Close),
            ["drop"] => Some(EOp::Drop),
            _ => None,
        }
    }
    pub fn render(&self) -> String {
        match self {
            EOp::Send(t) => format!("send {t}"),
            EOp::Flush => "flush".into(),
            EOp::Recv => "recv".into(),
            EOp::Close => "close".into(),
            EOp::Drop => "drop".into(),
        }
    }
}

#[derive(Clone, Debug)]
pub struct E2eParams {
    pub kind: String, // bincode | json | unbounded | bounded
    pub dir: String,  // c2s | s2c
    pub cap: usize,
    pub stage: usize,
    pub pipe_seed: u64,
}

impl E2eParams {
    fn header(&self, idx: u64) -> String {
        format!(
            "script {idx} c15e2e kind={} dir={} cap={} stage={} seed={}",
            self.kind, self.dir, self.cap, self.stage, self.pipe_seed
        )
    }
    fn buffered(&self) -> bool {
        self.kind == "bincode" || self.kind == "json"
    }
}

#[derive(PartialEq, Clone, Copy)]
enum WriterState {
    Open,
    Closed,
    Dropped,
}

struct Runner<'a, W, R> {
    out: &'a mut Out,
    p: E2eParams,
    writer: Option<W>,
    reader: R,
    wstate: WriterState,
    staged: usize,
    wflag: Arc<Flag>,
    rflag: Arc<Flag>,
    rng: Rng,
    /// observed by the generator
    saw_eof: bool,
    saw_pending: bool,
}

const GUARD: u64 = 50_000_000;

impl<'a, W, R, M, E> Runner<'a, W, R>
where
    M: Msg,
    W: Sink<M> + Unpin,
    W::Error: Debug,
    R: Stream<Item = Result<M, E>> + Unpin,
    E: Debug,
{
    /// `poll_flush` until it is done.  `false` = stuck (`Pending` without a wake-up).
    fn pump_flush(&mut self) -> bool {
        let waker = futures::task::waker(self.wflag.clone());
        let mut cx = Context::from_waker(&waker);
        let w = self.writer.as_mut().unwrap();
        let mut guard = 0;
        loop {
            guard += 1;
            assert!(guard < GUARD, "c15e2e: flush does not terminate");
            self.wflag.take();
            let mut fut = w.flush();
            match Pin::new(&mut fut).poll(&mut cx) {
                Poll::Ready(Ok(())) => {
                    self.staged = 0;
                    return true;
                }
                Poll::Ready(Err(e)) => {
                    self.out.line(&format!("obs error flush:{}", format!("{e:?}").replace(' ', "_")));
                    self.staged = 0;
                    return true;
                }
                Poll::Pending => {
                    if self.wflag.take() {
                        continue;
                    }
                    return false;
                }
            }
        }
    }

    fn op_flush(&mut self) {
        if self.wstate != WriterState::Open {
            self.out.line("obs noop");
            return;
        }
        let done = self.pump_flush();
        if !done && self.p.buffered() {
            self.out.line("obs error flush-stuck");
        } else {
            // (a parked bounded sender reports `Pending` from `poll_flush`; nothing is buffered there)
            self.out.line("obs flushed");
        }
    }

    fn op_send(&mut self, text: &str) {
        if self.wstate != WriterState::Open {
            self.out.line("obs noop");
            return;
        }
        let Some(msg) = M::parse(text) else {
            self.out.line("obs error unparsable-item");
            return;
        };
        if self.p.buffered() && self.staged >= self.p.stage {
            // harness convention (mirrored by the model): keep the write buffer small
            if !self.pump_flush() {
                self.out.line("obs error flush-stuck");
                return;
            }
        }
        let canonical = msg.text();
        let waker = futures::task::waker(self.wflag.clone());
        let mut cx = Context::from_waker(&waker);
        let w = self.writer.as_mut().unwrap();
        let mut fut = w.feed(msg);
        let mut guard = 0;
        loop {
            guard += 1;
            assert!(guard < GUARD, "c15e2e: feed does not terminate");
            self.wflag.take();
            match Pin::new(&mut fut).poll(&mut cx) {
                Poll::Ready(Ok(())) => {
                    self.out.line(&format!("obs sent {canonical}"));
                    if self.p.buffered() {
                        self.staged += 1;
                    }
                    return;
                }
                Poll::Ready(Err(e)) => {
                    self.out.line(&format!("obs error send:{}", format!("{e:?}").replace(' ', "_")));
                    return;
                }
                Poll::Pending => {
                    if self.wflag.take() {
                        continue;
                    }
                    self.out.line("obs full");
                    return;
                }
            }
        }
    }

    fn op_recv(&mut self) {
        let wwaker = futures::task::waker(self.wflag.clone());
        let rwaker = futures::task::waker(self.rflag.clone());
        let mut result: Option<String> = None;
        let mut guard = 0;
        loop {
            guard += 1;
            assert!(guard < GUARD, "c15e2e: recv pump does not terminate");
            let writer_busy = self.wstate == WriterState::Open && self.p.buffered() && self.staged > 0;
            if writer_busy && (result.is_some() || self.rng.chance(1, 2)) {
                // one step of the writer's flush
                let mut cx = Context::from_waker(&wwaker);
                self.wflag.take();
                match Pin::new(self.writer.as_mut().unwrap()).poll_flush(&mut cx) {
                    Poll::Ready(Ok(())) => self.staged = 0,
                    Poll::Ready(Err(e)) => {
                        self.out.line(&format!("obs error flush:{}", format!("{e:?}").replace(' ', "_")));
                        self.staged = 0;
                    }
                    Poll::Pending => {
                        if !self.wflag.take() {
                            self.out.line("obs error flush-stuck");
                            self.staged = 0;
                        }
                    }
                }
                continue;
            }
            if result.is_some() {
                break;
            }
            let mut cx = Context::from_waker(&rwaker);
            self.rflag.take();
            match Pin::new(&mut self.reader).poll_next(&mut cx) {
                Poll::Ready(Some(Ok(m))) => result = Some(format!("obs recv {}", m.text())),
                Poll::Ready(Some(Err(e))) => {
                    result = Some(format!("obs error recv:{}", format!("{e:?}").replace(' ', "_")))
                }
                Poll::Ready(None) => {
                    self.saw_eof = true;
                    result = Some("obs eof".into());
                }
                Poll::Pending => {
                    if self.rflag.take() || writer_busy {
                        continue;
                    }
                    self.saw_pending = true;
                    result = Some("obs pending".into());
                }
            }
        }
        self.out.line(&result.unwrap());
    }

    fn op_close(&mut self) {
        if self.wstate != WriterState::Open {
            self.out.line("obs noop");
            return;
        }
        let waker = futures::task::waker(self.wflag.clone());
        let mut cx = Context::from_waker(&waker);
        let w = self.writer.as_mut().unwrap();
        let mut guard = 0;
        loop {
            guard += 1;
            assert!(guard < GUARD, "c15e2e: close does not terminate");
            self.wflag.take();
            let mut fut = w.close();
            match Pin::new(&mut fut).poll(&mut cx) {
                Poll::Ready(Ok(())) => {
                    self.out.line("obs closed");
                    break;
                }
                Poll::Ready(Err(e)) => {
                    self.out.line(&format!("obs error close:{}", format!("{e:?}").replace(' ', "_")));
                    break;
                }
                Poll::Pending => {
                    if self.wflag.take() {
                        continue;
                    }
                    self.out.line("obs error close-stuck");
                    break;
                }
            }
        }
        self.staged = 0;
        self.wstate = WriterState::Closed;
    }

    fn op_drop(&mut self) {
        if self.wstate == WriterState::Dropped {
            self.out.line("obs noop");
            return;
        }
        let lost = if self.wstate == WriterState::Open { self.staged } else { 0 };
        self.writer = None;
        self.staged = 0;
        self.wstate = WriterState::Dropped;
        self.out.line(&format!("obs dropped {lost}"));
    }

    fn apply(&mut self, op: &EOp) {
        self.out.line(&format!("op {}", op.render()));
        match op {
            EOp::Send(t) => self.op_send(t),
            EOp::Flush => self.op_flush(),
            EOp::Recv => self.op_recv(),
            EOp::Close => self.op_close(),
            EOp::Drop => self.op_drop(),
        }
    }

    fn run(&mut self, script: Option<&[EOp]>, len: usize) {
        if let Some(ops) = script {
            for op in ops {
                self.apply(op);
            }
            return;
        }
        let mut gen = Rng::new(self.p.pipe_seed ^ 0xE2E);
        let mut outstanding = 0usize; // rough count, only steers the generator
        for _ in 0..len {
            let open = self.wstate == WriterState::Open;
            let op = match gen.weighted(&[if open { 42 } else { 6 }, 8, 36, 1, 1]) {
                0 => {
                    let big = self.p.buffered() && gen.chance(1, 25);
                    let m = M::random(&mut gen, big);
                    let op = EOp::Send(m.text());
                    if big || gen.chance(1, 3) {
                        // `SinkExt::send` = feed, then flush
                        self.apply(&op);
                        outstanding += 1;
                        EOp::Flush
                    } else {
                        op
                    }
                }
                1 => EOp::Flush,
                2 => EOp::Recv,
                3 => EOp::Close,
                _ => EOp::Drop,
            };
            if matches!(op, EOp::Send(_)) {
                outstanding += 1;
            }
            self.apply(&op);
        }
        // most scripts finish the conversation: the writer goes away, the reader drains to end-of-stream
        if gen.chance(4, 5) {
            if self.wstate == WriterState::Open {
                if gen.chance(1, 2) {
                    self.apply(&EOp::Flush);
                }
                let op = if gen.chance(1, 2) { EOp::Close } else { EOp::Drop };
                self.apply(&op);
            }
            if self.wstate == WriterState::Closed && gen.chance(1, 2) {
                self.apply(&EOp::Drop);
            }
            self.saw_eof = false;
            self.saw_pending = false;
            let mut n = 0;
            while !self.saw_eof && !self.saw_pending && n < outstanding + 4 {
                self.apply(&EOp::Recv);
                n += 1;
            }
            if gen.chance(1, 3) {
                self.apply(&EOp::Recv);
            }
        }
    }
}

fn run_with<W, R, M, E>(out: &mut Out, p: &E2eParams, writer: W, reader: R, script: Option<&[EOp]>, len: usize)
where
    M: Msg,
    W: Sink<M> + Unpin,
    W::Error: Debug,
    R: Stream<Item = Result<M, E>> + Unpin,
    E: Debug,
{
    let mut r = Runner {
        out,
        p: p.clone(),
        writer: Some(writer),
        reader,
        wstate: WriterState::Open,
        staged: 0,
        wflag: Flag::new(),
        rflag: Flag::new(),
        rng: Rng::new(p.pipe_seed ^ 0xABCD),
        saw_eof: false,
        saw_pending: false,
    };
    r.run(script, len);
}

type Req = ClientMessage<String>;
type Resp = Response<String>;

pub fn run_e2e_script(out: &mut Out, idx: u64, p: &E2eParams, script: Option<&[EOp]>, len: usize) {
    out.line(&p.header(idx));
    let c2s = p.dir != "s2c";
    match p.kind.as_str() {
        "bincode" => {
            let (a, b) = duplex(p.pipe_seed);
            let client = tarpc::serde_transport::new(
                Framed::new(a, LengthDelimitedCodec::new()),
                Bincode::<Resp, Req>::default(),
            );
            let server = tarpc::serde_transport::new(
                Framed::new(b, LengthDelimitedCodec::new()),
                Bincode::<Req, Resp>::default(),
            );
            if c2s {
                run_with::<_, _, Req, _>(out, p, client, server, script, len)
            } else {
                run_with::<_, _, Resp, _>(out, p, server, client, script, len)
            }
        }
        "json" => {
            let (a, b) = duplex(p.pipe_seed);
            let client =
                tarpc::serde_transport::new(Framed::new(a, LengthDelimitedCodec::new()), Json::<Resp, Req>::default());
            let server =
                tarpc::serde_transport::new(Framed::new(b, LengthDelimitedCodec::new()), Json::<Req, Resp>::default());
            if c2s {
                run_with::<_, _, Req, _>(out, p, client, server, script, len)
            } else {
                run_with::<_, _, Resp, _>(out, p, server, client, script, len)
            }
        }
        "bounded" => {
            // client: sink of requests, stream of responses; server: the mirror image
            let (server, client) = tarpc::transport::channel::bounded::<Req, Resp>(p.cap);
            if c2s {
                run_with::<_, _, Req, _>(out, p, client, server, script, len)
            } else {
                run_with::<_, _, Resp, _>(out, p, server, client, script, len)
            }
        }
        _ => {
            let (server, client) = tarpc::transport::channel::unbounded::<Req, Resp>();
            if c2s {
                run_with::<_, _, Req, _>(out, p, client, server, script, len)
            } else {
                run_with::<_, _, Resp, _>(out, p, server, client, script, len)
            }
        }
    }
}

/// tarpc (built with `verif-hooks`) reads tokio's clock: run under a paused current-thread runtime.
fn paused_runtime() -> tokio::runtime::Runtime {
    tokio::runtime::Builder::new_current_thread().enable_time().start_paused(true).build().unwrap()
}

fn generate_e2e(out: &mut Out, seed: u64, scripts: u64, len: usize) {
    let rt = paused_runtime();
    let _g = rt.enter();
    for idx in 0..scripts {
        let mut rng = Rng::new(seed.wrapping_mul(1_000_003).wrapping_add(idx) ^ 0xC15E);
        let kind = *rng.pick(&["bincode", "json", "bincode", "json", "unbounded", "bounded"]);
        let p = E2eParams {
            kind: kind.into(),
            dir: (*rng.pick(&["c2s", "s2c"])).into(),
            cap: rng.below(4) as usize,
            stage: *rng.pick(&[2usize, 8]),
            pipe_seed: rng.next() >> 16,
        };
        run_e2e_script(out, idx, &p, None, len);
    }
}

fn replay_e2e(out: &mut Out, idx: u64, header: &str, ops: &[String]) {
    let get = |k: &str| crate::header_param(header, k);
    let p = E2eParams {
        kind: get("kind").unwrap_or_else(|| "unbounded".into()),
        dir: get("dir").unwrap_or_else(|| "c2s".into()),
        cap: get("cap").and_then(|v| v.parse().ok()).unwrap_or(1),
        stage: get("stage").and_then(|v| v.parse().ok()).unwrap_or(16),
        pipe_seed: get("seed").and_then(|v| v.parse().ok()).unwrap_or(0),
    };
    let ops: Vec<EOp> = ops.iter().filter_map(|o| EOp::parse(&o.split_whitespace().collect::<Vec<_>>())).collect();
    run_e2e_script(out, idx, &p, Some(&ops), 0);
}

fn replay_frame(out: &mut Out, idx: u64, header: &str, ops: &[String]) {
    let max = crate::header_param(header, "max").and_then(|v| v.parse().ok()).unwrap_or(DEFAULT_MAX);
    let ops: Vec<FOp> = ops.iter().filter_map(|o| FOp::parse(&o.split_whitespace().collect::<Vec<_>>())).collect();
    let mut rng = Rng::new(0);
    run_frame_script(out, idx, max, &mut rng, &ops);
}

/// Entry points used by `main.rs`; `family` is `c15frame` or `c15e2e`.
pub fn generate(out: &mut Out, family: &str, seed: u64, scripts: u64, len: usize) {
    match family {
        "c15frame" => generate_frame(out, seed, scripts, len),
        _ => generate_e2e(out, seed, scripts, len),
    }
}

pub fn replay(out: &mut Out, family: &str, scripts: &[(String, Vec<String>)]) {
    let rt = paused_runtime();
    let _g = rt.enter();
    for (i, (header, ops)) in scripts.iter().enumerate() {
        match family {
            "c15frame" => replay_frame(out, i as u64, header, ops),
            _ => replay_e2e(out, i as u64, header, ops),
        }
    }
}

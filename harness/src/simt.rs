//! `SimTransport`: the instrumented transport, mirrored line for line by
//! `lean/TarpcModel/Sim/Transport.lean`.  Also the shared observation log and flag wakers.
use futures::{Sink, Stream};
use std::{
    cell::RefCell,
    collections::VecDeque,
    pin::Pin,
    rc::Rc,
    sync::{
        atomic::{AtomicBool, Ordering},
        Arc, Mutex,
    },
    task::{Context, Poll, Wake, Waker},
};

/// Observation lines of the script being run (wakers may be invoked from anywhere).
pub static LOG: Mutex<Vec<String>> = Mutex::new(Vec::new());

pub fn log(s: String) {
    LOG.lock().unwrap().push(s);
}

pub fn take_log() -> Vec<String> {
    std::mem::take(&mut *LOG.lock().unwrap())
}

/// A waker that sets a flag and records the wake.
pub struct FlagWaker {
    pub name: String,
    pub flag: AtomicBool,
    pub live: AtomicBool,
}

impl Wake for FlagWaker {
    fn wake(self: Arc<Self>) {
        self.wake_by_ref()
    }
    fn wake_by_ref(self: &Arc<Self>) {
        self.flag.store(true, Ordering::SeqCst);
        if self.live.load(Ordering::SeqCst) {
            log(format!("wake {}", self.name));
        }
    }
}

pub fn flag_waker(name: &str) -> (Arc<FlagWaker>, Waker) {
    let fw = Arc::new(FlagWaker {
        name: name.to_string(),
        flag: AtomicBool::new(true),
        live: AtomicBool::new(true),
    });
    (fw.clone(), Waker::from(fw))
}

#[derive(Debug)]
pub struct SimError(pub &'static str);
impl std::fmt::Display for SimError {
    fn fmt(&self, f: &mut std::fmt::Formatter<'_>) -> std::fmt::Result {
        write!(f, "sim fault: {}", self.0)
    }
}
impl std::error::Error for SimError {}

pub enum Inb<I> {
    Msg(I),
    Err,
}

pub struct SimState<O, I> {
    pub name: String,
    pub cap: usize,
    pub coupled: bool,
    pub buffered: Vec<O>,
    pub wire: VecDeque<O>,
    pub inbound: VecDeque<Inb<I>>,
    pub eof: bool,
    pub ready_open: bool,
    pub flush_open: bool,
    pub fault_ready: bool,
    pub fault_send: bool,
    pub fault_flush: bool,
    pub fault_close: bool,
    pub fault_next: bool,
    /// calls of an armed kind still to be let through before it fails
    pub fault_skip: u64,
    /// the owner's own flush wakes a waker registered by `poll_ready` (staging sinks do not)
    pub self_wake: bool,
    pub closed: bool,
    pub failed: bool,
    pub got_ready: bool,
    pub read_waker: Option<Waker>,
    pub write_waker: Option<Waker>,
    pub calls_this_poll: usize,
    /// bookkeeping for `settle`: a connection-ending failure was reported; bodies of requests written
    pub term_seen: bool,
    pub eof_read: bool,
    pub sent_bodies: Vec<u64>,
    pub body_of: Option<fn(&O) -> Option<u64>>,
    pub show_out: fn(&O) -> String,
    pub show_in: fn(&I) -> String,
}

pub const SPIN_LIMIT: usize = 400;

impl<O, I> SimState<O, I> {
    pub fn new(name: &str, cap: usize, coupled: bool, show_out: fn(&O) -> String, show_in: fn(&I) -> String) -> Self {
        SimState {
            name: name.into(),
            cap,
            coupled,
            buffered: vec![],
            wire: VecDeque::new(),
            inbound: VecDeque::new(),
            eof: false,
            ready_open: true,
            flush_open: true,
            fault_ready: false,
            fault_send: false,
            fault_flush: false,
            fault_close: false,
            fault_next: false,
            fault_skip: 0,
            self_wake: true,
            closed: false,
            failed: false,
            got_ready: false,
            read_waker: None,
            write_waker: None,
            calls_this_poll: 0,
            term_seen: false,
            eof_read: false,
            sent_bodies: vec![],
            body_of: None,
            show_out,
            show_in,
        }
    }
    fn is_ready_now(&self) -> bool {
        if self.coupled {
            self.buffered.len() < self.cap
        } else {
            self.ready_open && self.buffered.len() < self.cap
        }
    }
    fn violate(&self, what: &str) {
        log(format!("T {} violation {}", self.name, what));
    }
    fn use_after(&self, what: &str) {
        if self.failed {
            self.violate(&format!("{what}-after-failure"));
        } else if self.closed {
            self.violate(&format!("{what}-after-close"));
        }
    }
    fn count(&mut self) {
        self.calls_this_poll += 1;
        if self.calls_this_poll > SPIN_LIMIT {
            panic!("verif-spin");
        }
    }
    /// An armed fault fires at this call iff no calls remain to be let through; otherwise one skip is used up.
    fn fires(&mut self, armed: bool) -> bool {
        if armed && self.fault_skip == 0 {
            return true;
        }
        if armed {
            self.fault_skip -= 1;
        }
        false
    }
    fn drain(&mut self) {
        let items: Vec<O> = self.buffered.drain(..).collect();
        self.wire.extend(items);
        if self.write_waker.is_some() && self.is_ready_now() && self.self_wake {
            self.write_waker.take().unwrap().wake();
        }
    }
    fn wake_if_ready(&mut self) {
        if self.write_waker.is_some() && (self.is_ready_now() || (self.coupled && self.flush_open)) {
            self.write_waker.take().unwrap().wake();
        }
    }
    // ---- external events
    pub fn inject(&mut self, i: Inb<I>) {
        self.inbound.push_back(i);
        if let Some(w) = self.read_waker.take() {
            w.wake();
        }
    }
    pub fn set_eof(&mut self) {
        self.eof = true;
        if let Some(w) = self.read_waker.take() {
            w.wake();
        }
    }
    pub fn set_ready(&mut self, b: bool) {
        self.ready_open = b;
        self.wake_if_ready();
    }
    pub fn set_flush(&mut self, b: bool) {
        self.flush_open = b;
        self.wake_if_ready();
    }
    pub fn take(&mut self, n: usize) -> Vec<O> {
        let n = n.min(self.wire.len());
        self.wire.drain(..n).collect()
    }
}

pub struct SimTransport<O, I>(pub Rc<RefCell<SimState<O, I>>>);

fn pr(p: &Poll<Result<(), SimError>>) -> &'static str {
    match p {
        Poll::Pending => "P",
        Poll::Ready(Ok(())) => "R",
        Poll::Ready(Err(_)) => "E",
    }
}

impl<O, I> Stream for SimTransport<O, I> {
    type Item = Result<I, SimError>;
    fn poll_next(self: Pin<&mut Self>, cx: &mut Context<'_>) -> Poll<Option<Self::Item>> {
        let mut s = self.0.borrow_mut();
        s.count();
        let armed = s.fault_next;
        if s.fires(armed) {
            s.fault_next = false;
            s.term_seen = true;
            log(format!("T {} next E", s.name));
            return Poll::Ready(Some(Err(SimError("next"))));
        }
        match s.inbound.pop_front() {
            Some(Inb::Msg(m)) => {
                log(format!("T {} next {}", s.name, (s.show_in)(&m)));
                Poll::Ready(Some(Ok(m)))
            }
            Some(Inb::Err) => {
                s.term_seen = true;
                log(format!("T {} next E", s.name));
                Poll::Ready(Some(Err(SimError("next"))))
            }
            None => {
                if s.eof {
                    s.eof_read = true;
                    log(format!("T {} next EOF", s.name));
                    Poll::Ready(None)
                } else {
                    s.read_waker = Some(cx.waker().clone());
                    log(format!("T {} next P", s.name));
                    Poll::Pending
                }
            }
        }
    }
}

impl<O, I> Sink<O> for SimTransport<O, I> {
    type Error = SimError;
    fn poll_ready(self: Pin<&mut Self>, cx: &mut Context<'_>) -> Poll<Result<(), SimError>> {
        let mut s = self.0.borrow_mut();
        s.count();
        s.use_after("ready");
        let armed = s.fault_ready;
        let r = if s.fires(armed) {
            s.fault_ready = false;
            s.failed = true;
            s.term_seen = true;
            Poll::Ready(Err(SimError("ready")))
        } else if s.is_ready_now() {
            s.got_ready = true;
            Poll::Ready(Ok(()))
        } else {
            s.write_waker = Some(cx.waker().clone());
            Poll::Pending
        };
        log(format!("T {} ready {}", s.name, pr(&r)));
        r
    }
    fn start_send(self: Pin<&mut Self>, item: O) -> Result<(), SimError> {
        let mut s = self.0.borrow_mut();
        s.count();
        s.use_after("send");
        if !s.got_ready {
            s.violate("send-without-ready");
        }
        let text = (s.show_out)(&item);
        s.got_ready = false;
        let body = s.body_of.and_then(|f| f(&item));
        let armed = s.fault_send;
        if s.fires(armed) {
            s.fault_send = false;
            if body.is_none() {
                s.term_seen = true; // a failed cancel / response write ends the connection
            }
            log(format!("T {} send {} E", s.name, text));
            return Err(SimError("send"));
        }
        if let Some(b) = body {
            s.sent_bodies.push(b);
        }
        s.buffered.push(item);
        log(format!("T {} send {} ok", s.name, text));
        Ok(())
    }
    fn poll_flush(self: Pin<&mut Self>, cx: &mut Context<'_>) -> Poll<Result<(), SimError>> {
        let mut s = self.0.borrow_mut();
        s.count();
        s.use_after("flush");
        let armed = s.fault_flush;
        let r = if s.fires(armed) {
            s.fault_flush = false;
            s.failed = true;
            s.term_seen = true;
            Poll::Ready(Err(SimError("flush")))
        } else if s.coupled && !s.flush_open && !s.buffered.is_empty() {
            s.write_waker = Some(cx.waker().clone());
            Poll::Pending
        } else {
            Poll::Ready(Ok(()))
        };
        log(format!("T {} flush {}", s.name, pr(&r)));
        if let Poll::Ready(Ok(())) = r {
            s.drain();
        }
        r
    }
    fn poll_close(self: Pin<&mut Self>, cx: &mut Context<'_>) -> Poll<Result<(), SimError>> {
        let mut s = self.0.borrow_mut();
        s.count();
        s.use_after("close");
        let armed = s.fault_close;
        let r = if s.fires(armed) {
            s.fault_close = false;
            s.failed = true;
            s.term_seen = true;
            Poll::Ready(Err(SimError("close")))
        } else if s.coupled && !s.flush_open && !s.buffered.is_empty() {
            s.write_waker = Some(cx.waker().clone());
            Poll::Pending
        } else {
            Poll::Ready(Ok(()))
        };
        log(format!("T {} close {}", s.name, pr(&r)));
        if let Poll::Ready(Ok(())) = r {
            s.drain();
            s.closed = true;
        }
        r
    }
}

//! Family `c20mt` (C20, "even when calls are issued concurrently"): the real `RoundRobin` stub is
//! shared by several OS threads that issue calls truly in parallel.  Because every call takes one
//! ticket from one atomic fetch-add, the per-backend counts are a function of the number of calls
//! alone, whatever the interleaving: backend j gets N / n + [j < N % n].  That is what the model
//! predicts, so a cursor update that is not one atomic step shows up as a divergence.
//!
//! Op: `burst threads=<t> calls=<k>` → `obs counts <c_0> … <c_{n-1}>`.
use crate::rng::Rng;
use crate::Out;
use std::sync::{
    atomic::{AtomicU64, Ordering},
    Arc,
};
use tarpc::client::{stub::load_balance::RoundRobin, stub::Stub, RpcError};
use tarpc::context;

#[derive(Clone)]
struct Counting {
    hits: Arc<AtomicU64>,
}

impl Stub for Counting {
    type Req = u64;
    type Resp = u64;
    async fn call(&self, _: context::Context, req: u64) -> Result<u64, RpcError> {
        self.hits.fetch_add(1, Ordering::SeqCst);
        Ok(req)
    }
}

pub fn run_script(out: &mut Out, idx: u64, n: usize, ops: &[(usize, usize)]) {
    out.line(&format!("script {idx} c20mt n={n}"));
    let hits: Vec<Arc<AtomicU64>> = (0..n).map(|_| Arc::new(AtomicU64::new(0))).collect();
    let rr = RoundRobin::new(hits.iter().map(|h| Counting { hits: h.clone() }).collect());
    for (threads, calls) in ops {
        out.line(&format!("op burst threads={threads} calls={calls}"));
        let mut hs = vec![];
        for t in 0..*threads {
            let rr = rr.clone();
            let calls = *calls;
            hs.push(std::thread::spawn(move || {
                for i in 0..calls {
                    futures::executor::block_on(rr.call(context::current(), (t * calls + i) as u64)).unwrap();
                }
            }));
        }
        for h in hs {
            h.join().unwrap();
        }
        let cs: Vec<String> = hits.iter().map(|h| h.load(Ordering::SeqCst).to_string()).collect();
        out.line(&format!("obs counts {}", cs.join(" ")));
    }
}

pub fn generate(out: &mut Out, seed: u64, scripts: u64, len: usize) {
    for idx in 0..scripts {
        let mut rng = Rng::new(seed.wrapping_mul(1_000_003).wrapping_add(idx));
        let n = *rng.pick(&[1usize, 2, 3, 5, 7]);
        let ops: Vec<(usize, usize)> =
            (0..len.max(1)).map(|_| (2 + rng.below(7) as usize, *rng.pick(&[1usize, 17, 500, 4000]))).collect();
        run_script(out, idx, n, &ops);
    }
}

pub fn replay(out: &mut Out, scripts: &[(String, Vec<String>)]) {
    for (i, (h, ops)) in scripts.iter().enumerate() {
        let n = crate::header_param(h, "n").and_then(|v| v.parse().ok()).unwrap_or(1);
        let ops: Vec<(usize, usize)> = ops
            .iter()
            .filter_map(|o| {
                let t: Vec<&str> = o.split_whitespace().collect();
                match t.as_slice() {
                    ["burst", a, b] => Some((a.strip_prefix("threads=")?.parse().ok()?, b.strip_prefix("calls=")?.parse().ok()?)),
                    _ => None,
                }
            })
            .collect();
        run_script(out, i as u64, n, &ops);
    }
}

//! C19: build stacks of the real request-hook combinators (`HookThenServe`, `ServeThenHook`,
//! `HookThenServeThenHook`, `BeforeRequestCons`/`Nil` via `before().then(..).serving(..)`) around a
//! scripted handler, call `Serve::serve` once and print every hook / handler invocation with the
//! context (`ctx.trace_context.span_id`) and response it saw, then the final response.
//!
//! Op grammar (one token, no spaces): `hooks <tree> c=<ctx> req=<req>` where `<tree>` is the wrapper
//! stack outermost first, `/`-separated, ending with the handler:
//!   `B<hook>`  inner.before(hook)            `A<hook>`  inner.after(hook)
//!   `W<hook>`  inner.before_and_after(hook)  `H<tag>:<res>`  handler returning `<res>`
//!   `L<hook>+<hook>…`  before().then(h1).then(h2)….serving(inner)   (0..4 hooks; `L` = empty list)
//!   `M<hook>+<hook>…`  inner.before(before().then(h1)…)              (0..4 hooks)
//!   `<hook>` = `<tag>:<f|p>:<ctx-edit>:<res-edit>:<after-ctx-edit>`,
//!   ctx edits `k` | `a<n>` | `s<n>` (keep / add / set), res edits `k` | `o<v>` | `e<e>`, `<res>` = `o<v>` | `e<e>`.
use crate::rng::Rng;
use crate::Out;
use std::{cell::RefCell, future::Future, io, pin::Pin, rc::Rc};
use tarpc::{
    context::Context,
    server::{
        request_hook::{
            self, AfterRequest, BeforeRequest, BeforeRequestCons, BeforeRequestList,
            BeforeRequestNil, HookThenServe, HookThenServeThenHook, RequestHook, ServeThenHook,
        },
        Serve,
    },
    trace::SpanId,
    RequestName, ServerError,
};

type Log = Rc<RefCell<Vec<String>>>;
type Resp = Result<u64, ServerError>;

#[derive(Clone, Debug)]
pub struct Req(u64);

impl RequestName for Req {
    fn name(&self) -> &str {
        "c19"
    }
}

#[derive(Clone, Copy, Debug, PartialEq)]
pub enum CEdit {
    Keep,
    Add(u64),
    Set(u64),
}

#[derive(Clone, Copy, Debug, PartialEq)]
pub enum REdit {
    Keep,
    Ok(u64),
    Err(u64),
}

#[derive(Clone, Copy, Debug, PartialEq)]
pub struct HookSpec {
    tag: u64,
    fail: bool,
    edit: CEdit,
    redit: REdit,
    aedit: CEdit,
}

#[derive(Clone, Debug, PartialEq)]
pub enum Wrap {
    Before(HookSpec),
    After(HookSpec),
    Both(HookSpec),
    /// `before().then(..)….serving(inner)`
    Serving(Vec<HookSpec>),
    /// `inner.before(before().then(..)…)`
    BeforeList(Vec<HookSpec>),
}

/// The wrapper stack, outermost first, and the handler `(tag, result)`.
#[derive(Clone, Debug, PartialEq)]
pub struct Tree {
    wraps: Vec<Wrap>,
    handler: (u64, Result<u64, u64>),
}

#[derive(Clone, Debug)]
pub struct Op {
    tree: Tree,
    ctx: u64,
    req: u64,
}

// ---------------------------------------------------------------- text encoding

fn num(s: &str) -> Option<u64> {
    if s.is_empty() || !s.bytes().all(|b| b.is_ascii_digit()) {
        return None;
    }
    s.parse().ok()
}

impl CEdit {
    fn parse(s: &str) -> Option<CEdit> {
        match s.split_at_checked(1)? {
            ("k", "") => Some(CEdit::Keep),
            ("a", n) => Some(CEdit::Add(num(n)?)),
            ("s", n) => Some(CEdit::Set(num(n)?)),
            _ => None,
        }
    }
    fn render(&self) -> String {
        match self {
            CEdit::Keep => "k".into(),
            CEdit::Add(n) => format!("a{n}"),
            CEdit::Set(n) => format!("s{n}"),
        }
    }
    fn apply(&self, ctx: &mut Context) {
        let c = u64::from(ctx.trace_context.span_id);
        match self {
            CEdit::Keep => {}
            CEdit::Add(k) => set_ctx(ctx, c + k),
            CEdit::Set(v) => set_ctx(ctx, *v),
        }
    }
}

impl REdit {
    fn parse(s: &str) -> Option<REdit> {
        match s.split_at_checked(1)? {
            ("k", "") => Some(REdit::Keep),
            ("o", n) => Some(REdit::Ok(num(n)?)),
            ("e", n) => Some(REdit::Err(num(n)?)),
            _ => None,
        }
    }
    fn render(&self) -> String {
        match self {
            REdit::Keep => "k".into(),
            REdit::Ok(n) => format!("o{n}"),
            REdit::Err(n) => format!("e{n}"),
        }
    }
}

impl HookSpec {
    fn parse(s: &str) -> Option<HookSpec> {
        let p: Vec<&str> = s.split(':').collect();
        if p.len() != 5 {
            return None;
        }
        Some(HookSpec {
            tag: num(p[0])?,
            fail: match p[1] {
                "f" => true,
                "p" => false,
                _ => return None,
            },
            edit: CEdit::parse(p[2])?,
            redit: REdit::parse(p[3])?,
            aedit: CEdit::parse(p[4])?,
        })
    }
    fn render(&self) -> String {
        format!(
            "{}:{}:{}:{}:{}",
            self.tag,
            if self.fail { "f" } else { "p" },
            self.edit.render(),
            self.redit.render(),
            self.aedit.render()
        )
    }
}

fn parse_list(s: &str) -> Option<Vec<HookSpec>> {
    if s.is_empty() {
        return Some(Vec::new());
    }
    let v: Option<Vec<HookSpec>> = s.split('+').map(HookSpec::parse).collect();
    let v = v?;
    if v.len() > 4 {
        return None;
    }
    Some(v)
}

fn render_list(hs: &[HookSpec]) -> String {
    hs.iter().map(|h| h.render()).collect::<Vec<_>>().join("+")
}

fn render_res(r: &Result<u64, u64>) -> String {
    match r {
        Ok(v) => format!("o{v}"),
        Err(e) => format!("e{e}"),
    }
}

impl Tree {
    fn parse(s: &str) -> Option<Tree> {
        let parts: Vec<&str> = s.split('/').collect();
        let (last, init) = parts.split_last()?;
        let (kind, body) = last.split_at_checked(1)?;
        if kind != "H" {
            return None;
        }
        let hp: Vec<&str> = body.split(':').collect();
        if hp.len() != 2 {
            return None;
        }
        let res = match hp[1].split_at_checked(1)? {
            ("o", n) => Ok(num(n)?),
            ("e", n) => Err(num(n)?),
            _ => return None,
        };
        let mut wraps = Vec::new();
        for w in init {
            let (kind, body) = w.split_at_checked(1)?;
            wraps.push(match kind {
                "B" => Wrap::Before(HookSpec::parse(body)?),
                "A" => Wrap::After(HookSpec::parse(body)?),
                "W" => Wrap::Both(HookSpec::parse(body)?),
                "L" => Wrap::Serving(parse_list(body)?),
                "M" => Wrap::BeforeList(parse_list(body)?),
                _ => return None,
            });
        }
        Some(Tree { wraps, handler: (num(hp[0])?, res) })
    }
    fn render(&self) -> String {
        let mut parts: Vec<String> = self
            .wraps
            .iter()
            .map(|w| match w {
                Wrap::Before(h) => format!("B{}", h.render()),
                Wrap::After(h) => format!("A{}", h.render()),
                Wrap::Both(h) => format!("W{}", h.render()),
                Wrap::Serving(hs) => format!("L{}", render_list(hs)),
                Wrap::BeforeList(hs) => format!("M{}", render_list(hs)),
            })
            .collect();
        parts.push(format!("H{}:{}", self.handler.0, render_res(&self.handler.1)));
        parts.join("/")
    }
}

impl Op {
    pub fn parse(toks: &[&str]) -> Option<Op> {
        match toks {
            ["hooks", tree, c, q] => Some(Op {
                tree: Tree::parse(tree)?,
                ctx: num(c.strip_prefix("c=")?)?,
                req: num(q.strip_prefix("req=")?)?,
            }),
            _ => None,
        }
    }
    pub fn render(&self) -> String {
        format!("hooks {} c={} req={}", self.tree.render(), self.ctx, self.req)
    }
}

// ---------------------------------------------------------------- scripted hooks over the real traits

fn server_error(code: u64) -> ServerError {
    ServerError::new(io::ErrorKind::Other, code.to_string())
}

fn show_resp(r: &Resp) -> String {
    match r {
        Ok(v) => format!("ok:{v}"),
        Err(e) => format!("err:{}", e.detail),
    }
}

thread_local! {
    static BASE: std::time::Instant = std::time::Instant::now();
}

/// The context value `v` is written into every field a hook may change — the span id, the trace id and the
/// deadline (`BASE + 1 h + v s`, so that edits move it both earlier and later).
fn set_ctx(ctx: &mut Context, v: u64) {
    ctx.trace_context.span_id = SpanId::from(v);
    ctx.trace_context.trace_id = tarpc::trace::TraceId::from(v as u128 + 1);
    ctx.deadline = BASE.with(|b| *b) + std::time::Duration::from_secs(3600 + v);
}

/// … and read back from all of them: a field that does not carry the value shows up as a different number.
fn ctx_val(ctx: &Context) -> u64 {
    let v = u64::from(ctx.trace_context.span_id);
    let d = ctx.deadline.duration_since(BASE.with(|b| *b)).as_secs();
    let t = u128::from(ctx.trace_context.trace_id);
    if d != 3600 + v {
        return 1_000_000_000 + d;
    }
    if t != v as u128 + 1 {
        return 2_000_000_000 + t as u64;
    }
    v
}

#[derive(Clone)]
struct Scripted {
    spec: HookSpec,
    log: Log,
}

impl BeforeRequest<Req> for Scripted {
    async fn before(&mut self, ctx: &mut Context, req: &Req) -> Result<(), ServerError> {
        let s = self.spec;
        self.log.borrow_mut().push(format!(
            "before {} {} {} {}",
            s.tag,
            ctx_val(ctx),
            req.0,
            if s.fail { "fail" } else { "ok" }
        ));
        // A failing hook edits the context too; nobody can see that (the model ignores it).
        s.edit.apply(ctx);
        if s.fail {
            Err(server_error(s.tag))
        } else {
            Ok(())
        }
    }
}

impl AfterRequest<u64> for Scripted {
    async fn after(&mut self, ctx: &mut Context, resp: &mut Resp) {
        let s = self.spec;
        self.log.borrow_mut().push(format!("after {} {} {}", s.tag, ctx_val(ctx), show_resp(resp)));
        match s.redit {
            REdit::Keep => {}
            REdit::Ok(v) => *resp = Ok(v),
            REdit::Err(e) => *resp = Err(server_error(e)),
        }
        s.aedit.apply(ctx);
    }
}

type Nil = BeforeRequestNil;
type L1 = BeforeRequestCons<Scripted, Nil>;
type L2 = BeforeRequestCons<Scripted, L1>;
type L3 = BeforeRequestCons<Scripted, L2>;
type L4 = BeforeRequestCons<Scripted, L3>;

/// A dynamically shaped stack of the real combinators.
#[derive(Clone)]
enum Dyn {
    Handler { tag: u64, res: Result<u64, u64>, log: Log },
    Before(Box<HookThenServe<Dyn, Scripted>>),
    After(Box<ServeThenHook<Dyn, Scripted>>),
    Both(Box<HookThenServeThenHook<Req, u64, Dyn, Scripted>>),
    List0(Box<HookThenServe<Dyn, Nil>>),
    List1(Box<HookThenServe<Dyn, L1>>),
    List2(Box<HookThenServe<Dyn, L2>>),
    List3(Box<HookThenServe<Dyn, L3>>),
    List4(Box<HookThenServe<Dyn, L4>>),
}

impl Serve for Dyn {
    type Req = Req;
    type Resp = u64;

    // The trait's `async fn` is refined to a boxed future so that the recursion through the
    // generic combinators (whose futures contain this one) has a finite type.
    #[allow(refining_impl_trait)]
    fn serve(self, ctx: Context, req: Req) -> Pin<Box<dyn Future<Output = Resp>>> {
        match self {
            Dyn::Handler { tag, res, log } => Box::pin(async move {
                log.borrow_mut().push(format!("handler {} {} {}", tag, ctx_val(&ctx), req.0));
                res.map_err(server_error)
            }),
            Dyn::Before(s) => Box::pin((*s).serve(ctx, req)),
            Dyn::After(s) => Box::pin((*s).serve(ctx, req)),
            Dyn::Both(s) => Box::pin((*s).serve(ctx, req)),
            Dyn::List0(s) => Box::pin((*s).serve(ctx, req)),
            Dyn::List1(s) => Box::pin((*s).serve(ctx, req)),
            Dyn::List2(s) => Box::pin((*s).serve(ctx, req)),
            Dyn::List3(s) => Box::pin((*s).serve(ctx, req)),
            Dyn::List4(s) => Box::pin((*s).serve(ctx, req)),
        }
    }
}

fn build(tree: &Tree, log: &Log) -> Dyn {
    let mut cur = Dyn::Handler { tag: tree.handler.0, res: tree.handler.1, log: log.clone() };
    let hook = |spec: &HookSpec| Scripted { spec: *spec, log: log.clone() };
    for w in tree.wraps.iter().rev() {
        cur = match w {
            Wrap::Before(h) => Dyn::Before(Box::new(cur.before(hook(h)))),
            Wrap::After(h) => Dyn::After(Box::new(cur.after(hook(h)))),
            Wrap::Both(h) => Dyn::Both(Box::new(cur.before_and_after(hook(h)))),
            Wrap::Serving(hs) => match hs.as_slice() {
                // `BeforeRequestNil::serving` returns the serve fn itself.
                [] => request_hook::before().serving(cur),
                [a] => Dyn::List1(Box::new(request_hook::before().then(hook(a)).serving(cur))),
                [a, b] => Dyn::List2(Box::new(
                    request_hook::before().then(hook(a)).then(hook(b)).serving(cur),
                )),
                [a, b, c] => Dyn::List3(Box::new(
                    request_hook::before().then(hook(a)).then(hook(b)).then(hook(c)).serving(cur),
                )),
                [a, b, c, d] => Dyn::List4(Box::new(
                    request_hook::before()
                        .then(hook(a))
                        .then(hook(b))
                        .then(hook(c))
                        .then(hook(d))
                        .serving(cur),
                )),
                _ => unreachable!("lists longer than 4 are rejected by the parser"),
            },
            Wrap::BeforeList(hs) => match hs.as_slice() {
                [] => Dyn::List0(Box::new(cur.before(request_hook::before()))),
                [a] => Dyn::List1(Box::new(cur.before(request_hook::before().then(hook(a))))),
                [a, b] => Dyn::List2(Box::new(
                    cur.before(request_hook::before().then(hook(a)).then(hook(b))),
                )),
                [a, b, c] => Dyn::List3(Box::new(
                    cur.before(request_hook::before().then(hook(a)).then(hook(b)).then(hook(c))),
                )),
                [a, b, c, d] => Dyn::List4(Box::new(cur.before(
                    request_hook::before()
                        .then(hook(a))
                        .then(hook(b))
                        .then(hook(c))
                        .then(hook(d)),
                ))),
                _ => unreachable!("lists longer than 4 are rejected by the parser"),
            },
        };
    }
    cur
}

fn run_op(out: &mut Out, op: &Op) {
    out.line(&format!("op {}", op.render()));
    out.line(&format!("obs call {} {} {}", op.tree.render(), op.ctx, op.req));
    let log: Log = Rc::new(RefCell::new(Vec::new()));
    let serve = build(&op.tree, &log);
    let mut ctx = tarpc::context::current();
    set_ctx(&mut ctx, op.ctx);
    // Exercise `Clone` of the combinators as the server does (one clone per request).
    let resp = futures::executor::block_on(serve.clone().serve(ctx, Req(op.req)));
    for l in log.borrow().iter() {
        out.line(&format!("obs {l}"));
    }
    out.line(&format!("obs result {}", show_resp(&resp)));
}

// ---------------------------------------------------------------- generation

fn gen_cedit(rng: &mut Rng) -> CEdit {
    match rng.weighted(&[3, 5, 2]) {
        0 => CEdit::Keep,
        1 => CEdit::Add(1 + rng.below(9)),
        _ => CEdit::Set(rng.below(1000)),
    }
}

fn gen_hook(rng: &mut Rng, fail_num: u64) -> HookSpec {
    HookSpec {
        tag: rng.below(20),
        fail: rng.chance(fail_num, 10),
        edit: gen_cedit(rng),
        redit: match rng.weighted(&[5, 2, 2]) {
            0 => REdit::Keep,
            1 => REdit::Ok(rng.below(100)),
            _ => REdit::Err(100 + rng.below(100)),
        },
        aedit: gen_cedit(rng),
    }
}

fn gen_op(rng: &mut Rng) -> Op {
    let depth = rng.below(6) as usize; // 0..=5 wrappers
    // Per-tree failure rate so that deep all-pass trees and early failures both occur.
    let fail_num = *rng.pick(&[0, 1, 2, 4]);
    let mut wraps = Vec::new();
    for _ in 0..depth {
        wraps.push(match rng.weighted(&[3, 4, 3, 3, 1]) {
            0 => Wrap::Before(gen_hook(rng, fail_num)),
            1 => Wrap::After(gen_hook(rng, fail_num)),
            2 => Wrap::Both(gen_hook(rng, fail_num)),
            3 => {
                let n = rng.below(5);
                Wrap::Serving((0..n).map(|_| gen_hook(rng, fail_num)).collect())
            }
            _ => {
                let n = rng.below(5);
                Wrap::BeforeList((0..n).map(|_| gen_hook(rng, fail_num)).collect())
            }
        });
    }
    let handler = (
        rng.below(20),
        if rng.chance(1, 4) { Err(200 + rng.below(100)) } else { Ok(rng.below(100)) },
    );
    Op { tree: Tree { wraps, handler }, ctx: rng.below(1000), req: rng.below(1000) }
}

/// Runs one script.  With `script = None` ops are generated from `rng`; otherwise replayed.
pub fn run_script(out: &mut Out, idx: u64, rng: &mut Rng, script: Option<&[Op]>, len: usize) {
    out.line(&format!("script {idx} c19"));
    match script {
        Some(ops) => {
            for op in ops {
                run_op(out, op);
            }
        }
        None => {
            for _ in 0..len {
                let op = gen_op(rng);
                debug_assert_eq!(Tree::parse(&op.tree.render()).as_ref(), Some(&op.tree));
                run_op(out, &op);
            }
        }
    }
}

pub fn generate(out: &mut Out, seed: u64, scripts: u64, len: usize) {
    for idx in 0..scripts {
        let mut rng = Rng::new(seed.wrapping_mul(1_000_003).wrapping_add(idx));
        run_script(out, idx, &mut rng, None, len);
    }
}

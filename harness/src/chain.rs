//! Family `chain` (service-chain parts of C04 and C18).
//!
//! A script builds a chain of `depth` hops.  Hop i is a real `tarpc::client::new` dispatch plus a
//! real `BaseChannel[.max_concurrent_requests(n)].requests()` loop whose `InFlightRequest::execute`
//! futures are spawned locally; the two ends are joined by `tarpc::transport::channel::unbounded()`
//! or `bounded(1)`.  The handler of hop i < depth calls hop i+1 *with the context it was given*
//! and awaits the answer; the handler of hop `stop` (per call, `stop = depth` unless the script
//! says otherwise) first waits on the call's gate, which `finish c` opens.
//!
//! Everything runs on one paused current-thread runtime inside one `LocalSet::block_on`; `run`
//! yields until a whole yield passes in which no spawned task was polled (the tasks are wrapped
//! in a poll counter), so "idle" is exact and the paused clock never auto-advances (the script
//! future never parks).  Events are recorded as they happen and printed at `run`, stably sorted by
//! call (in `start` order); within one call the recorded order is kept.
//!
//! header  depth=<1..3> limit=<none|n> calls=<k> tr=<unbounded|bounded>
//! ops     start <c> t=<trace id>/<span>/<0|1> d=<deadline ns> stop=<h>
//!         run | abandon <c> | finish <c> | advance <ns>
//! obs     wire hop=<i> req call=<c> t=<tid>/<span>/<s> d=<deadline ns>
//!         wire hop=<i> cancel call=<c> t=<tid>/<span>/<s>
//!         handler hop=<i> call=<c> t=<tid>/<span>/<s> deadline=<ns>
//!         handler hop=<i> call=<c> dropped | completed
//!         outcome <c> ok:<v> | err:<kind>
//!         now <ns> | noop
//! Request ids are mapped to calls through the payload (`c*100 + hop`); a cancel is attributed to
//! the call whose request carried that id on that hop.  Random span ids print as `f<hex>`.
use crate::rng::Rng;
use crate::Out;
use futures::prelude::*;
use std::{
    cell::{Cell, RefCell},
    collections::HashMap,
    io,
    pin::Pin,
    rc::Rc,
    task::{Context as TaskCx, Poll},
    time::{Duration, Instant},
};
use tarpc::{
    client, context,
    server::{serve, BaseChannel, Channel as _},
    trace, ClientMessage, Response, ServerError,
};

/// Deadlines must stay this far away from the virtual clock (timers fire at millisecond
/// granularity; an expiry would race the handlers and is the business of other families).
pub const MARGIN: u64 = 10_000_000;

#[derive(Clone, Debug)]
pub enum Op {
    Start { c: u64, tid: u128, span: u64, sampled: bool, d: u64, stop: usize },
    Run,
    Abandon(u64),
    Finish(u64),
    Advance(u64),
}

fn show_span(s: u64) -> String {
    if s < (1 << 32) {
        format!("{s}")
    } else {
        format!("f{s:x}")
    }
}

fn show_trace(t: &trace::Context) -> String {
    format!(
        "{}/{}/{}",
        u128::from(t.trace_id),
        show_span(u64::from(t.span_id)),
        if t.sampling_decision == trace::SamplingDecision::Sampled { 1 } else { 0 }
    )
}

impl Op {
    pub fn parse(toks: &[&str]) -> Option<Op> {
        match toks {
            ["start", c, rest @ ..] => {
                let kv = |k: &str| rest.iter().find_map(|t| t.strip_prefix(k).and_then(|r| r.strip_prefix('=')));
                let t: Vec<&str> = kv("t")?.split('/').collect();
                if t.len() != 3 {
                    return None;
                }
                Some(Op::Start {
                    c: c.parse().ok()?,
                    tid: t[0].parse().ok()?,
                    span: t[1].parse().ok()?,
                    sampled: t[2] == "1",
                    d: kv("d")?.parse().ok()?,
                    stop: kv("stop")?.parse().ok()?,
                })
            }
            ["run"] => Some(Op::Run),
            ["abandon", c] => Some(Op::Abandon(c.parse().ok()?)),
            ["finish", c] => Some(Op::Finish(c.parse().ok()?)),
            ["advance", n] => Some(Op::Advance(n.parse().ok()?)),
            _ => None,
        }
    }
    fn show(&self) -> String {
        match self {
            Op::Start { c, tid, span, sampled, d, stop } => {
                format!("start {c} t={tid}/{span}/{} d={d} stop={stop}", *sampled as u8)
            }
            Op::Run => "run".into(),
            Op::Abandon(c) => format!("abandon {c}"),
            Op::Finish(c) => format!("finish {c}"),
            Op::Advance(n) => format!("advance {n}"),
        }
    }
}

#[derive(Clone, Debug)]
pub struct Params {
    pub depth: usize,
    pub limit: Option<usize>,
    pub calls: u64,
    pub bounded: bool,
}

impl Params {
    pub fn from_header(h: &str) -> Params {
        let p = |k: &str| crate::header_param(h, k);
        Params {
            depth: p("depth").and_then(|v| v.parse().ok()).unwrap_or(1).clamp(1, 8),
            limit: p("limit").and_then(|v| v.parse().ok()),
            calls: p("calls").and_then(|v| v.parse().ok()).unwrap_or(3),
            bounded: p("tr").as_deref() == Some("bounded"),
        }
    }
    fn header(&self, idx: u64) -> String {
        format!(
            "script {idx} chain depth={} limit={} calls={} tr={}",
            self.depth,
            self.limit.map(|n| n.to_string()).unwrap_or_else(|| "none".into()),
            self.calls,
            if self.bounded { "bounded" } else { "unbounded" }
        )
    }
}

// ------------------------------------------------------------------------------------------------
// Event log shared by the recorders and the handlers.

#[derive(Default)]
struct Log {
    /// (call, line)
    events: Vec<(u64, String)>,
    /// set when the script is over: what the teardown drops is not part of the trace
    closed: bool,
}

type SharedLog = Rc<RefCell<Log>>;

fn record(log: &SharedLog, call: u64, line: String) {
    let mut l = log.borrow_mut();
    if !l.closed {
        l.events.push((call, line));
    }
}

thread_local! {
    /// polls of spawned tasks (all of them are wrapped in `Counted`)
    static POLLS: Cell<u64> = const { Cell::new(0) };
}

#[pin_project::pin_project]
struct Counted<F>(#[pin] F);

impl<F: Future> Future for Counted<F> {
    type Output = F::Output;
    fn poll(self: Pin<&mut Self>, cx: &mut TaskCx<'_>) -> Poll<F::Output> {
        POLLS.with(|p| p.set(p.get() + 1));
        self.project().0.poll(cx)
    }
}

fn spawn<F: Future + 'static>(f: F) -> tokio::task::JoinHandle<F::Output> {
    tokio::task::spawn_local(Counted(f))
}

type Msg = ClientMessage<u64>;
type Resp = Response<u64>;

/// Pass-through recorder around the client-side transport of one hop: logs every `ClientMessage`
/// handed to `start_send`.
#[pin_project::pin_project]
struct Recorder<T> {
    #[pin]
    inner: T,
    hop: usize,
    base: Instant,
    log: SharedLog,
    /// request id -> call, from the payload of the request that carried the id
    ids: HashMap<u64, u64>,
}

fn to_io<E: Into<Box<dyn std::error::Error + Send + Sync>>>(e: E) -> io::Error {
    io::Error::new(io::ErrorKind::Other, e)
}

impl<T, E> Stream for Recorder<T>
where
    T: Stream<Item = Result<Resp, E>>,
    E: Into<Box<dyn std::error::Error + Send + Sync>>,
{
    type Item = io::Result<Resp>;
    fn poll_next(self: Pin<&mut Self>, cx: &mut TaskCx<'_>) -> Poll<Option<Self::Item>> {
        self.project().inner.poll_next(cx).map(|o| o.map(|r| r.map_err(to_io)))
    }
}

impl<T> Sink<Msg> for Recorder<T>
where
    T: Sink<Msg>,
    T::Error: Into<Box<dyn std::error::Error + Send + Sync>>,
{
    type Error = io::Error;
    fn poll_ready(self: Pin<&mut Self>, cx: &mut TaskCx<'_>) -> Poll<io::Result<()>> {
        self.project().inner.poll_ready(cx).map_err(to_io)
    }
    fn start_send(self: Pin<&mut Self>, item: Msg) -> io::Result<()> {
        let this = self.project();
        match &item {
            ClientMessage::Request(r) => {
                let call = r.message / 100;
                let line = if r.message % 100 != *this.hop as u64 {
                    format!("wire hop={} req call={call} MISROUTED payload={}", this.hop, r.message)
                } else if this.ids.insert(r.id, call).is_some() {
                    format!("wire hop={} req call={call} DUPLICATE-ID id={}", this.hop, r.id)
                } else {
                    format!(
                        "wire hop={} req call={call} t={} d={}",
                        this.hop,
                        show_trace(&r.context.trace_context),
                        r.context.deadline.saturating_duration_since(*this.base).as_nanos()
                    )
                };
                record(this.log, call, line);
            }
            ClientMessage::Cancel { trace_context, request_id } => match this.ids.get(request_id) {
                Some(call) => record(
                    this.log,
                    *call,
                    format!("wire hop={} cancel call={call} t={}", this.hop, show_trace(trace_context)),
                ),
                None => record(
                    this.log,
                    u64::MAX,
                    format!("wire hop={} cancel UNKNOWN-ID id={request_id} t={}", this.hop, show_trace(trace_context)),
                ),
            },
            _ => record(this.log, u64::MAX, format!("wire hop={} unknown-message", this.hop)),
        }
        this.inner.start_send(item).map_err(to_io)
    }
    fn poll_flush(self: Pin<&mut Self>, cx: &mut TaskCx<'_>) -> Poll<io::Result<()>> {
        self.project().inner.poll_flush(cx).map_err(to_io)
    }
    fn poll_close(self: Pin<&mut Self>, cx: &mut TaskCx<'_>) -> Poll<io::Result<()>> {
        self.project().inner.poll_close(cx).map_err(to_io)
    }
}

/// Per-call switches the handlers look at.
#[derive(Default)]
struct CallCtl {
    stop: usize,
    gate_open: bool,
    gate_waker: Option<std::task::Waker>,
}

type Ctl = Rc<RefCell<HashMap<u64, CallCtl>>>;

/// Resolves once the gate of `call` is open.  Never sleeps.
struct Gate {
    ctl: Ctl,
    call: u64,
}

impl Future for Gate {
    type Output = ();
    fn poll(self: Pin<&mut Self>, cx: &mut TaskCx<'_>) -> Poll<()> {
        let mut ctl = self.ctl.borrow_mut();
        let e = ctl.entry(self.call).or_default();
        if e.gate_open {
            Poll::Ready(())
        } else {
            e.gate_waker = Some(cx.waker().clone());
            Poll::Pending
        }
    }
}

/// Logs `dropped` unless the handler ran to completion.
struct HandlerGuard {
    log: SharedLog,
    hop: usize,
    call: u64,
    completed: bool,
}

impl Drop for HandlerGuard {
    fn drop(&mut self) {
        let what = if self.completed { "completed" } else { "dropped" };
        record(&self.log, self.call, format!("handler hop={} call={} {what}", self.hop, self.call));
    }
}

struct HopEnv {
    hop: usize,
    depth: usize,
    base: Instant,
    log: SharedLog,
    ctl: Ctl,
    next: Option<client::Channel<u64, u64>>,
}

async fn handle(env: Rc<HopEnv>, ctx: context::Context, body: u64) -> Result<u64, ServerError> {
    let call = body / 100;
    record(
        &env.log,
        call,
        format!(
            "handler hop={} call={call} t={} deadline={}",
            env.hop,
            show_trace(&ctx.trace_context),
            ctx.deadline.saturating_duration_since(env.base).as_nanos()
        ),
    );
    let mut guard = HandlerGuard { log: env.log.clone(), hop: env.hop, call, completed: false };
    let stop = env.ctl.borrow().get(&call).map(|c| c.stop).unwrap_or(env.depth);
    if env.hop == stop {
        Gate { ctl: env.ctl.clone(), call }.await;
    }
    let res = match &env.next {
        Some(next) => match next.call(ctx, call * 100 + env.hop as u64 + 1).await {
            Ok(v) => Ok(v + 1000),
            Err(client::RpcError::Server(e)) => Err(e),
            Err(e) => Err(ServerError::new(io::ErrorKind::Other, format!("{e}"))),
        },
        None => Ok(body),
    };
    guard.completed = true;
    res
}

fn spawn_hop<CT, ST>(env: HopEnv, limit: Option<usize>, ct: CT, st: ST) -> client::Channel<u64, u64>
where
    CT: Stream<Item = Result<Resp, <CT as Sink<Msg>>::Error>> + Sink<Msg> + 'static,
    <CT as Sink<Msg>>::Error: Into<Box<dyn std::error::Error + Send + Sync>>,
    ST: tarpc::Transport<Resp, Msg> + 'static,
    <ST as Sink<Resp>>::Error: std::error::Error + Send + Sync + 'static,
{
    let ct = Recorder { inner: ct, hop: env.hop, base: env.base, log: env.log.clone(), ids: HashMap::new() };
    let client::NewClient { client, dispatch } = client::new(client::Config::default(), ct);
    spawn(async move {
        let _ = dispatch.await;
    });
    let env = Rc::new(env);
    let mk = move |env: Rc<HopEnv>| serve(move |ctx: context::Context, body: u64| handle(env.clone(), ctx, body));
    match limit {
        None => {
            spawn(async move {
                let requests = BaseChannel::with_defaults(st).requests();
                futures::pin_mut!(requests);
                while let Some(Ok(req)) = requests.next().await {
                    spawn(req.execute(mk(env.clone())));
                }
            });
        }
        Some(n) => {
            spawn(async move {
                let requests = BaseChannel::with_defaults(st).max_concurrent_requests(n).requests();
                futures::pin_mut!(requests);
                while let Some(Ok(req)) = requests.next().await {
                    spawn(req.execute(mk(env.clone())));
                }
            });
        }
    }
    client
}

/// Lets the spawned tasks run until a whole yield goes by without any of them being polled.
async fn settle() {
    let mut quiet = 0;
    for _ in 0..100_000 {
        let before = POLLS.with(|p| p.get());
        tokio::task::yield_now().await;
        if POLLS.with(|p| p.get()) == before {
            quiet += 1;
            if quiet >= 2 {
                return;
            }
        } else {
            quiet = 0;
        }
    }
    panic!("chain: the tasks never went idle");
}

#[derive(Clone, Copy, PartialEq, Eq, Debug)]
enum Phase {
    Fresh,
    Waiting,
    Finishing,
    Abandoning,
    Dead,
    Done,
}

struct CallRec {
    c: u64,
    phase: Phase,
    d: u64,
}

/// The head call futures are polled by one task each, through this slot, so that the script can
/// drop the future synchronously.
type Slot = Rc<RefCell<Option<Pin<Box<dyn Future<Output = Result<u64, client::RpcError>>>>>>>;

fn err_kind(e: &client::RpcError) -> String {
    match e {
        client::RpcError::Shutdown => "Shutdown".into(),
        client::RpcError::Send(_) => "Send".into(),
        client::RpcError::Channel(_) => "Channel".into(),
        client::RpcError::DeadlineExceeded => "DeadlineExceeded".into(),
        client::RpcError::Server(s) => format!("{:?}", s.kind),
    }
}

pub fn run_script(out: &mut Out, idx: u64, p: &Params, rng: &mut Rng, script: Option<&[Op]>, len: usize) {
    out.line(&p.header(idx));
    let rt = tokio::runtime::Builder::new_current_thread().enable_time().start_paused(true).build().unwrap();
    let local = tokio::task::LocalSet::new();
    let log: SharedLog = Rc::new(RefCell::new(Log::default()));
    let ctl: Ctl = Rc::new(RefCell::new(HashMap::new()));
    let lines: Rc<RefCell<Vec<String>>> = Rc::new(RefCell::new(Vec::new()));
    let total = script.map(|s| s.len()).unwrap_or(len);
    local.block_on(&rt, async {
        let base = tarpc::verif_hooks::now();
        let now_ns = || tarpc::verif_hooks::now().duration_since(base).as_nanos() as u64;
        // build the chain back to front
        let mut next: Option<client::Channel<u64, u64>> = None;
        for hop in (1..=p.depth).rev() {
            let env = HopEnv { hop, depth: p.depth, base, log: log.clone(), ctl: ctl.clone(), next: next.take() };
            let client = if p.bounded {
                let (ct, st) = tarpc::transport::channel::bounded(1);
                spawn_hop(env, p.limit, ct, st)
            } else {
                let (ct, st) = tarpc::transport::channel::unbounded();
                spawn_hop(env, p.limit, ct, st)
            };
            next = Some(client);
        }
        let head = next.take().unwrap();
        settle().await;

        let mut calls: Vec<CallRec> = Vec::new();
        let mut slots: Vec<Slot> = Vec::new();
        let emit = |s: String| lines.borrow_mut().push(s);
        for i in 0..total {
            let op = match script {
                Some(s) => s[i].clone(),
                None => gen_op(rng, p, now_ns(), &calls.iter().map(|c| (c.c, c.phase)).collect::<Vec<_>>()),
            };
            emit(format!("op {}", op.show()));
            let pending_start = calls.iter().any(|c| c.phase == Phase::Fresh);
            let pending_free = calls.iter().any(|c| matches!(c.phase, Phase::Finishing | Phase::Abandoning));
            match op {
                Op::Start { c, tid, span, sampled, d, stop } => {
                    let bad = calls.iter().any(|x| x.c == c)
                        || c >= 1_000_000
                        || span >= (1 << 32)
                        || stop < 1
                        || stop > p.depth
                        || d < now_ns() + MARGIN
                        || (p.limit.is_some() && pending_free);
                    if bad {
                        emit("obs noop".into());
                        continue;
                    }
                    ctl.borrow_mut().insert(c, CallCtl { stop, gate_open: false, gate_waker: None });
                    let mut ctx = context::current();
                    ctx.deadline = base + Duration::from_nanos(d);
                    ctx.trace_context = trace::Context {
                        trace_id: trace::TraceId::from(tid),
                        span_id: trace::SpanId::from(span),
                        sampling_decision: if sampled {
                            trace::SamplingDecision::Sampled
                        } else {
                            trace::SamplingDecision::Unsampled
                        },
                    };
                    let head = head.clone();
                    let fut: Pin<Box<dyn Future<Output = Result<u64, client::RpcError>>>> =
                        Box::pin(async move { head.call(ctx, c * 100 + 1).await });
                    let slot: Slot = Rc::new(RefCell::new(Some(fut)));
                    let log2 = log.clone();
                    let slot2 = slot.clone();
                    spawn(futures::future::poll_fn(move |cx| {
                        let mut s = slot2.borrow_mut();
                        match s.as_mut() {
                            None => Poll::Ready(()), // abandoned
                            Some(f) => match f.as_mut().poll(cx) {
                                Poll::Pending => Poll::Pending,
                                Poll::Ready(r) => {
                                    *s = None;
                                    let line = match &r {
                                        Ok(v) => format!("outcome {c} ok:{v}"),
                                        Err(e) => format!("outcome {c} err:{}", err_kind(e)),
                                    };
                                    record(&log2, c, line);
                                    Poll::Ready(())
                                }
                            },
                        }
                    }));
                    slots.push(slot);
                    calls.push(CallRec { c, phase: Phase::Fresh, d });
                }
                Op::Abandon(c) => {
                    let Some(k) = calls.iter().position(|x| x.c == c) else {
                        emit("obs noop".into());
                        continue;
                    };
                    match calls[k].phase {
                        Phase::Fresh => {
                            // never polled: dropping the future does nothing at all
                            drop(slots[k].borrow_mut().take());
                            calls[k].phase = Phase::Dead;
                        }
                        Phase::Waiting if !(p.limit.is_some() && pending_start) => {
                            drop(slots[k].borrow_mut().take());
                            calls[k].phase = Phase::Abandoning;
                        }
                        _ => emit("obs noop".into()),
                    }
                }
                Op::Finish(c) => {
                    let Some(k) = calls.iter().position(|x| x.c == c) else {
                        emit("obs noop".into());
                        continue;
                    };
                    if calls[k].phase == Phase::Waiting && !(p.limit.is_some() && pending_start) {
                        let mut ctl = ctl.borrow_mut();
                        let e = ctl.get_mut(&c).unwrap();
                        e.gate_open = true;
                        if let Some(w) = e.gate_waker.take() {
                            w.wake();
                        }
                        calls[k].phase = Phase::Finishing;
                    } else {
                        emit("obs noop".into());
                    }
                }
                Op::Advance(ns) => {
                    let min_d = calls.iter().map(|c| c.d).min();
                    // `tokio::time::advance` yields to the tasks: with anything un-run it would act as a partial `run`
                    if ns == 0
                        || min_d.is_some_and(|m| now_ns() + ns + MARGIN > m)
                        || ns > 1_000_000_000_000
                        || pending_start
                        || pending_free
                    {
                        emit("obs noop".into());
                        continue;
                    }
                    tokio::time::advance(Duration::from_nanos(ns)).await;
                    emit(format!("obs now {}", now_ns()));
                }
                Op::Run => {
                    settle().await;
                    let mut evs = std::mem::take(&mut log.borrow_mut().events);
                    let pos = |c: u64| calls.iter().position(|x| x.c == c).unwrap_or(usize::MAX);
                    evs.sort_by_key(|(c, _)| pos(*c)); // stable
                    for (c, l) in &evs {
                        if l.starts_with("outcome ") {
                            if let Some(k) = calls.iter().position(|x| x.c == *c) {
                                calls[k].phase = Phase::Done;
                            }
                        }
                        emit(format!("obs {l}"));
                    }
                    for x in calls.iter_mut() {
                        x.phase = match x.phase {
                            Phase::Fresh => Phase::Waiting,
                            Phase::Abandoning => Phase::Dead,
                            // a finishing call that produced no outcome stays visible as such
                            ph => ph,
                        };
                    }
                }
            }
        }
        log.borrow_mut().closed = true;
    });
    log.borrow_mut().closed = true;
    drop(local);
    drop(rt);
    for l in lines.borrow().iter() {
        out.line(l);
    }
}

// ------------------------------------------------------------------------------------------------

fn gen_op(rng: &mut Rng, p: &Params, now: u64, calls: &[(u64, Phase)]) -> Op {
    let known = |rng: &mut Rng, want: &[Phase]| -> Option<u64> {
        let c: Vec<u64> = calls.iter().filter(|(_, ph)| want.contains(ph)).map(|(c, _)| *c).collect();
        if c.is_empty() {
            None
        } else {
            Some(*rng.pick(&c))
        }
    };
    let any_call = |rng: &mut Rng| rng.below(p.calls + 1);
    let used: Vec<u64> = calls.iter().map(|(c, _)| *c).collect();
    let unused = (0..p.calls).find(|c| !used.contains(c));
    // once every call id is taken a `start` can only be a duplicate: make it rare
    let w_start = if unused.is_some() { 28 } else { 3 };
    match rng.weighted(&[w_start, 30, 16, 16, 5, 5]) {
        0 => {
            let c = unused.unwrap_or_else(|| any_call(rng));
            // distinct trace ids per call, occasionally a deliberate collision / zero
            let tid = match rng.weighted(&[70, 10, 10, 10]) {
                0 => 1000 + c as u128 * 17 + rng.below(16) as u128,
                1 => (rng.next() as u128) << 64 | rng.next() as u128,
                2 => 0,
                _ => 7,
            };
            let span = match rng.weighted(&[60, 20, 20]) {
                0 => 1 + rng.below(1000),
                1 => 0,
                _ => (1 << 32) - 1 - rng.below(5),
            };
            let stop = if rng.chance(1, 2) { p.depth } else { 1 + rng.below(p.depth as u64) as usize };
            let d = now
                + match rng.weighted(&[10, 60, 30]) {
                    0 => rng.below(2 * MARGIN),
                    1 => 1_000_000_000 * (1 + rng.below(100)),
                    _ => 86_400_000_000_000 * (1 + rng.below(20)),
                };
            Op::Start { c, tid, span, sampled: rng.chance(1, 2), d, stop }
        }
        1 => Op::Run,
        2 => Op::Abandon(known(rng, &[Phase::Waiting, Phase::Fresh]).unwrap_or_else(|| any_call(rng))),
        3 => Op::Finish(known(rng, &[Phase::Waiting]).unwrap_or_else(|| any_call(rng))),
        4 => {
            if rng.chance(1, 2) {
                Op::Abandon(any_call(rng))
            } else {
                Op::Finish(any_call(rng))
            }
        }
        _ => Op::Advance(match rng.weighted(&[40, 40, 20]) {
            0 => 1 + rng.below(1_000_000),
            1 => 1_000_000 * (1 + rng.below(2_000)),
            _ => 1_000_000_000 * (1 + rng.below(50)),
        }),
    }
}

pub fn generate(out: &mut Out, seed: u64, scripts: u64, len: usize) {
    for idx in 0..scripts {
        let mut rng = Rng::new(seed.wrapping_mul(1_000_003).wrapping_add(idx) ^ 0xC4A1);
        let depth = 1 + rng.below(3) as usize;
        let limit = if rng.chance(1, 2) { None } else { Some(1 + rng.below(3) as usize) };
        let p = Params { depth, limit, calls: 2 + rng.below(7), bounded: rng.chance(1, 2) };
        run_script(out, idx, &p, &mut rng, None, len);
    }
}

pub fn replay(out: &mut Out, scripts: &[(String, Vec<String>)]) {
    for (i, (h, ops)) in scripts.iter().enumerate() {
        // the header given to `read_scripts` is everything after `script `
        let p = Params::from_header(h);
        let ops: Vec<Op> = ops.iter().filter_map(|o| Op::parse(&o.split_whitespace().collect::<Vec<_>>())).collect();
        let mut rng = Rng::new(0);
        run_script(out, i as u64, &p, &mut rng, Some(&ops), 0);
    }
}

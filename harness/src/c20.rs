//! C20: drive the real `RoundRobin`, `ConsistentHash::with_hasher` and `Retry` stubs over recording
//! mock backends.
//!
//! Families (same line grammar as `lean/TarpcModel/Driver/C20.lean`):
//! * `c20rr`    `n=<backends>`             ops `call <req>` | `poll <id>` | `drop <id>` |
//!                                              `set-result <backend> ok|shutdown|deadline|server`
//! * `c20hash`  `n=<backends> seed=<u64>`  same ops
//! * `c20retry` `pk=<policy kind> max=<m>` ops `result ok|err|send <v> [<delay ns>]` | `decide <0|1>` |
//!                                              `call <req> [d=<ns> trace=<trace id>:<span id>:<S|U>]`
//!
//! `set-result` switches what one mock backend answers from then on (`Ok(req)`, `RpcError::Shutdown`,
//! `DeadlineExceeded`, `Server`); every dispatch is followed by `obs answered <id> <kind>`, what the caller
//! got.  Neither load balancer may let a backend's earlier answers influence where a request goes.
//!
//! `c20retry` runs under a paused tokio clock (tarpc's `verif_hooks::now()`): a scripted backend answer
//! may take `<delay ns>` of virtual time, the caller's context has deadline `now + d` and the given trace
//! context, and the mock backend records the `context::Context` of every call
//! (`obs attempt <i> at=<ns> deadline=<ns> trace=…`, ns after the script's base instant).
//!
//! A `call` only *creates* the call future (an `async fn` body does not run before its first poll);
//! `poll` is the first poll of one of the outstanding futures, chosen by the PRNG, so the order in
//! which concurrent calls take their round-robin ticket is an arbitrary interleaving.  Calls are
//! issued alternately through two clones of the stub (the cursor is shared by clones).
use crate::rng::Rng;
use crate::Out;
use futures::task::noop_waker_ref;
use std::{
    cell::{Cell, RefCell},
    collections::{BTreeMap, VecDeque},
    future::Future,
    hash::{BuildHasher, Hasher},
    panic::{catch_unwind, AssertUnwindSafe},
    pin::Pin,
    rc::Rc,
    sync::Arc,
    task::{Context, Poll},
    time::{Duration, Instant},
};
use tarpc::{
    client::{
        stub::{
            load_balance::{ConsistentHash, RoundRobin},
            retry::Retry,
            Stub,
        },
        RpcError,
    },
    context, trace, ServerError,
};

// ---------------------------------------------------------------------------------------------
// Load balancing
// ---------------------------------------------------------------------------------------------

/// Mock backend: records `(its own index, the request it received)` and answers at once with whatever
/// `results[index]` currently says (0 `Ok(req)`, 1 `Shutdown`, 2 `DeadlineExceeded`, 3 `Server`).
#[derive(Clone)]
struct LbMock {
    index: usize,
    log: Rc<RefCell<Vec<(usize, u64)>>>,
    results: Rc<RefCell<Vec<u8>>>,
}

const RESULT_KINDS: [&str; 4] = ["ok", "shutdown", "deadline", "server"];

impl Stub for LbMock {
    type Req = u64;
    type Resp = u64;
    async fn call(&self, _: context::Context, req: u64) -> Result<u64, RpcError> {
        self.log.borrow_mut().push((self.index, req));
        match self.results.borrow()[self.index] {
            0 => Ok(req),
            1 => Err(RpcError::Shutdown),
            2 => Err(RpcError::DeadlineExceeded),
            _ => Err(RpcError::Server(ServerError::new(std::io::ErrorKind::Other, "scripted".into()))),
        }
    }
}

/// Deterministic hasher mirrored by `TarpcModel.Stubs.verifHash`: `u64::hash` is one `write_u64`;
/// `finish() = (x ^ seed).wrapping_mul(0x9E3779B97F4A7C15)`.
#[derive(Clone)]
struct VerifBuildHasher(u64);

struct VerifHasher {
    seed: u64,
    x: u64,
}

impl BuildHasher for VerifBuildHasher {
    type Hasher = VerifHasher;
    fn build_hasher(&self) -> VerifHasher {
        VerifHasher { seed: self.0, x: 0 }
    }
}

impl Hasher for VerifHasher {
    fn write(&mut self, bytes: &[u8]) {
        // not used by `u64` requests; kept total
        for b in bytes {
            self.x = self.x.rotate_left(8) ^ u64::from(*b);
        }
    }
    fn write_u64(&mut self, i: u64) {
        self.x = i;
    }
    fn finish(&self) -> u64 {
        (self.x ^ self.seed).wrapping_mul(0x9E37_79B9_7F4A_7C15)
    }
}

#[derive(Clone, Copy, PartialEq, Eq, Debug)]
pub enum Kind {
    Rr,
    Hash,
}

impl Kind {
    fn family(self) -> &'static str {
        match self {
            Kind::Rr => "c20rr",
            Kind::Hash => "c20hash",
        }
    }
}

#[derive(Clone, Debug)]
pub enum LbOp {
    Call(u64),
    Poll(u64),
    Drop(u64),
    SetResult(u64, u8),
}

impl LbOp {
    pub fn parse(toks: &[&str]) -> Option<LbOp> {
        match toks {
            ["call", r] => Some(LbOp::Call(r.parse().ok()?)),
            ["poll", i] => Some(LbOp::Poll(i.parse().ok()?)),
            ["drop", i] => Some(LbOp::Drop(i.parse().ok()?)),
            ["set-result", b, k] => {
                Some(LbOp::SetResult(b.parse().ok()?, RESULT_KINDS.iter().position(|x| x == k)? as u8))
            }
            _ => None,
        }
    }
    pub fn render(&self) -> String {
        match self {
            LbOp::Call(r) => format!("call {r}"),
            LbOp::Poll(i) => format!("poll {i}"),
            LbOp::Drop(i) => format!("drop {i}"),
            LbOp::SetResult(b, k) => format!("set-result {b} {}", RESULT_KINDS[*k as usize]),
        }
    }
}

type CallFut<'a> = Pin<Box<dyn Future<Output = Result<u64, RpcError>> + 'a>>;

/// Runs the ops against two clones of one real load-balancing stub.
fn drive_lb<S>(
    out: &mut Out,
    stubs: &[S; 2],
    log: &Rc<RefCell<Vec<(usize, u64)>>>,
    results: &Rc<RefCell<Vec<u8>>>,
    kind: Kind,
    rng: &mut Rng,
    script: Option<&[LbOp]>,
    len: usize,
) where
    S: Stub<Req = u64, Resp = u64>,
{
    let mut live: BTreeMap<u64, CallFut<'_>> = BTreeMap::new();
    let mut next_id = 0u64;
    let mut cx = Context::from_waker(noop_waker_ref());
    let pool = 2 + rng.below(5);
    let mut i = 0usize;
    loop {
        let op = match script {
            Some(s) => {
                if i >= s.len() {
                    break;
                }
                s[i].clone()
            }
            None => {
                if i >= len {
                    break;
                }
                let ids: Vec<u64> = live.keys().copied().collect();
                let some = !ids.is_empty();
                match rng.weighted(&[42, if some { 44 } else { 0 }, if some { 8 } else { 0 }, 3, 9]) {
                    0 => {
                        let req = match kind {
                            // equal requests must recur for the stability half of the property
                            Kind::Hash if rng.chance(1, 8) => rng.next(),
                            _ => rng.below(pool),
                        };
                        LbOp::Call(req)
                    }
                    1 => LbOp::Poll(*rng.pick(&ids)),
                    2 => LbOp::Drop(*rng.pick(&ids)),
                    // a backend starts failing (mostly the way a dead channel does) or recovers;
                    // now and then a backend that does not exist
                    4 => {
                        let n = results.borrow().len() as u64;
                        let b = if rng.chance(1, 12) { n } else { rng.below(n) };
                        LbOp::SetResult(b, [1u8, 1, 1, 0, 0, 2, 3][rng.below(7) as usize])
                    }
                    // an id that may be dead or not yet created
                    _ => {
                        if rng.chance(1, 2) {
                            LbOp::Poll(rng.below(next_id + 2))
                        } else {
                            LbOp::Drop(rng.below(next_id + 2))
                        }
                    }
                }
            }
        };
        i += 1;
        out.line(&format!("op {}", op.render()));
        match op {
            LbOp::Call(req) => {
                let id = next_id;
                next_id += 1;
                // alternate between the two clones: they share one cursor
                let fut: CallFut<'_> = Box::pin(stubs[(id % 2) as usize].call(context::current(), req));
                live.insert(id, fut);
                out.line(&format!("obs created {id} {req}"));
            }
            LbOp::Drop(id) => match live.remove(&id) {
                None => out.line("obs noop"),
                Some(fut) => {
                    drop(fut);
                    out.line(&format!("obs dropped {id}"));
                }
            },
            LbOp::Poll(id) => match live.remove(&id) {
                None => out.line("obs noop"),
                Some(mut fut) => {
                    let r = catch_unwind(AssertUnwindSafe(|| fut.as_mut().poll(&mut cx)));
                    let recs: Vec<(usize, u64)> = log.borrow_mut().drain(..).collect();
                    for (b, req) in &recs {
                        out.line(&format!("obs picked {id} {b} {req}"));
                    }
                    match r {
                        Err(_) => out.line(&format!("obs panicked {id}")),
                        Ok(Poll::Ready(Ok(resp))) => {
                            // the mock echoes the request; anything else means the answer was altered
                            if recs.len() != 1 || recs[0].1 != resp {
                                out.line(&format!("obs wrong-response {id} {resp}"));
                            } else {
                                out.line(&format!("obs answered {id} ok"));
                            }
                        }
                        Ok(Poll::Ready(Err(RpcError::Shutdown))) => out.line(&format!("obs answered {id} shutdown")),
                        Ok(Poll::Ready(Err(RpcError::DeadlineExceeded))) => out.line(&format!("obs answered {id} deadline")),
                        Ok(Poll::Ready(Err(RpcError::Server(_)))) => out.line(&format!("obs answered {id} server")),
                        Ok(Poll::Ready(Err(e))) => out.line(&format!("obs wrong-error {id} {e:?}")),
                        Ok(Poll::Pending) => out.line(&format!("obs wrong-pending {id}")),
                    }
                    // the future is finished (or poisoned by the panic): never poll it again
                    drop(fut);
                }
            },
            LbOp::SetResult(b, k) => {
                let mut rs = results.borrow_mut();
                match rs.get_mut(b as usize) {
                    None => out.line("obs noop"),
                    Some(slot) => {
                        *slot = k;
                        out.line(&format!("obs result-set {b} {}", RESULT_KINDS[k as usize]));
                    }
                }
            }
        }
    }
}

pub fn run_lb_script(
    out: &mut Out,
    idx: u64,
    kind: Kind,
    n: usize,
    hseed: u64,
    rng: &mut Rng,
    script: Option<&[LbOp]>,
    len: usize,
) {
    match kind {
        Kind::Rr => out.line(&format!("script {idx} {} n={n}", kind.family())),
        Kind::Hash => out.line(&format!("script {idx} {} n={n} seed={hseed}", kind.family())),
    }
    let log = Rc::new(RefCell::new(Vec::new()));
    let results = Rc::new(RefCell::new(vec![0u8; n]));
    let mocks: Vec<LbMock> =
        (0..n).map(|index| LbMock { index, log: log.clone(), results: results.clone() }).collect();
    // n = 0 is outside the property; the first poll panics (remainder by zero). Keep stderr quiet.
    let prev_hook = if n == 0 {
        let h = std::panic::take_hook();
        std::panic::set_hook(Box::new(|_| {}));
        Some(h)
    } else {
        None
    };
    match kind {
        Kind::Rr => {
            let a = RoundRobin::new(mocks);
            let stubs = [a.clone(), a];
            drive_lb(out, &stubs, &log, &results, kind, rng, script, len);
        }
        Kind::Hash => {
            let a = ConsistentHash::with_hasher(mocks, VerifBuildHasher(hseed)).expect("len fits u64");
            let stubs = [a.clone(), a];
            drive_lb(out, &stubs, &log, &results, kind, rng, script, len);
        }
    }
    if let Some(h) = prev_hook {
        std::panic::set_hook(h);
    }
}

// ---------------------------------------------------------------------------------------------
// Retry
// ---------------------------------------------------------------------------------------------

/// Scripted backend answer: `Ok(v)`, the `k`-th error value, or `RpcError::Send(<boxed error k>)`.
#[derive(Clone, Copy, Debug, PartialEq, Eq)]
pub enum Res {
    Ok(u64),
    Err(u64),
    Send(u64),
}

/// The boxed error inside a scripted `RpcError::Send`.
#[derive(Debug)]
struct SendFailure(u64);

impl std::fmt::Display for SendFailure {
    fn fmt(&self, f: &mut std::fmt::Formatter<'_>) -> std::fmt::Result {
        write!(f, "s{}", self.0)
    }
}

impl std::error::Error for SendFailure {}

impl Res {
    fn into_result(self) -> Result<u64, RpcError> {
        match self {
            Res::Ok(v) => Ok(v),
            Res::Err(0) => Err(RpcError::Shutdown),
            Res::Err(1) => Err(RpcError::DeadlineExceeded),
            Res::Err(k) => Err(RpcError::Server(ServerError::new(std::io::ErrorKind::Other, format!("e{k}")))),
            Res::Send(k) => Err(RpcError::Send(Box::new(SendFailure(k)))),
        }
    }
    fn render(self) -> String {
        match self {
            Res::Ok(v) => format!("ok {v}"),
            Res::Err(k) => format!("err {k}"),
            Res::Send(k) => format!("send {k}"),
        }
    }
}

/// What the caller / the policy actually sees, rendered back into the script vocabulary.
fn render_result(r: &Result<u64, RpcError>) -> String {
    match r {
        Ok(v) => format!("ok {v}"),
        Err(RpcError::Shutdown) => "err 0".into(),
        Err(RpcError::DeadlineExceeded) => "err 1".into(),
        Err(RpcError::Server(e)) => match e.detail.strip_prefix('e').and_then(|k| k.parse::<u64>().ok()) {
            Some(k) if e.kind == std::io::ErrorKind::Other => format!("err {k}"),
            _ => format!("err ?{e:?}"),
        },
        Err(RpcError::Send(e)) => match e.to_string().strip_prefix('s').and_then(|k| k.parse::<u64>().ok()) {
            Some(k) => format!("send {k}"),
            None => format!("send ?{e:?}"),
        },
        Err(e) => format!("err ?{e:?}"),
    }
}

/// `<ns after base>`, or `-<ns before base>`.
fn rel_ns(t: Instant, base: Instant) -> String {
    match t.checked_duration_since(base) {
        Some(d) => d.as_nanos().to_string(),
        None => format!("-{}", base.duration_since(t).as_nanos()),
    }
}

fn render_ctx(ctx: &context::Context, base: Instant) -> String {
    let tc = &ctx.trace_context;
    format!(
        "deadline={} trace={}:{}:{}",
        rel_ns(ctx.deadline, base),
        u128::from(tc.trace_id),
        u64::from(tc.span_id),
        if tc.sampling_decision == trace::SamplingDecision::Sampled { "S" } else { "U" }
    )
}

/// Mock backend for `Retry`: records the request and the context it is given (numbering its calls
/// within one `Retry::call` 1, 2, 3, …), lets the scripted amount of virtual time pass, then answers
/// with the next scripted result — or never, if the script is exhausted.
struct RtMock {
    results: Rc<RefCell<VecDeque<(Res, u64)>>>,
    events: Rc<RefCell<Vec<String>>>,
    calls: Rc<Cell<u64>>,
    stuck: Rc<Cell<bool>>,
    base: Instant,
}

impl Stub for RtMock {
    type Req = Arc<u64>;
    type Resp = u64;
    async fn call(&self, ctx: context::Context, req: Arc<u64>) -> Result<u64, RpcError> {
        self.calls.set(self.calls.get() + 1);
        self.events.borrow_mut().push(format!("backend {}", *req));
        self.events.borrow_mut().push(format!(
            "attempt {} at={} {}",
            self.calls.get(),
            rel_ns(tarpc::verif_hooks::now(), self.base),
            render_ctx(&ctx, self.base)
        ));
        let next = self.results.borrow_mut().pop_front();
        match next {
            Some((r, delay)) => {
                if delay > 0 {
                    // moves the paused clock (the one tarpc reads) and yields once
                    tokio::time::advance(Duration::from_nanos(delay)).await;
                }
                r.into_result()
            }
            None => {
                self.stuck.set(true);
                futures::future::pending().await
            }
        }
    }
}

#[derive(Clone, Debug)]
pub enum RtOp {
    Result(Res, u64),
    Decide(bool),
    Call { req: u64, d: u64, trace_id: u128, span_id: u64, sampled: bool },
}

impl RtOp {
    pub fn parse(toks: &[&str]) -> Option<RtOp> {
        let res = |t: &str, v: &str| -> Option<Res> {
            match t {
                "ok" => Some(Res::Ok(v.parse().ok()?)),
                "err" => Some(Res::Err(v.parse().ok()?)),
                "send" => Some(Res::Send(v.parse().ok()?)),
                _ => None,
            }
        };
        match toks {
            ["result", t, v] => Some(RtOp::Result(res(t, v)?, 0)),
            ["result", t, v, d] => Some(RtOp::Result(res(t, v)?, d.parse().ok()?)),
            ["decide", "0"] => Some(RtOp::Decide(false)),
            ["decide", "1"] => Some(RtOp::Decide(true)),
            ["call", r] => {
                Some(RtOp::Call { req: r.parse().ok()?, d: 10_000_000_000, trace_id: 0, span_id: 0, sampled: false })
            }
            ["call", r, d, tr] => {
                let d = d.strip_prefix("d=")?.parse().ok()?;
                let parts: Vec<&str> = tr.strip_prefix("trace=")?.split(':').collect();
                let sampled = match parts.get(2) {
                    Some(&"S") if parts.len() == 3 => true,
                    Some(&"U") if parts.len() == 3 => false,
                    _ => return None,
                };
                Some(RtOp::Call {
                    req: r.parse().ok()?,
                    d,
                    trace_id: parts[0].parse().ok()?,
                    span_id: parts[1].parse().ok()?,
                    sampled,
                })
            }
            _ => None,
        }
    }
    pub fn render(&self) -> String {
        match self {
            RtOp::Result(r, d) => format!("result {} {d}", r.render()),
            RtOp::Decide(b) => format!("decide {}", *b as u8),
            RtOp::Call { req, d, trace_id, span_id, sampled } => {
                format!("call {req} d={d} trace={trace_id}:{span_id}:{}", if *sampled { "S" } else { "U" })
            }
        }
    }
}

fn random_delay(rng: &mut Rng) -> u64 {
    match rng.below(8) {
        0..=2 => 0,
        3 => 1,
        4 => *rng.pick(&[999u64, 1_000_000, 150_000_000, 1_000_000_000]),
        5 => rng.below(1_000_000),
        _ => rng.below(3_000_000_000),
    }
}

fn random_call(rng: &mut Rng) -> RtOp {
    let d = match rng.below(6) {
        0 => 0,
        1 => 1 + rng.below(1000),
        2 => 10_000_000_000,
        3 => 30 * 86_400 * 1_000_000_000,
        _ => rng.below(5_000_000_000),
    };
    let trace_id = match rng.below(4) {
        0 => 0,
        1 => u128::MAX,
        2 => rng.below(100) as u128,
        _ => ((rng.next() as u128) << 64) | rng.next() as u128,
    };
    let span_id = if rng.chance(1, 4) { *rng.pick(&[0, 1, u64::MAX]) } else { rng.next() };
    RtOp::Call { req: rng.below(20), d, trace_id, span_id, sampled: rng.chance(1, 2) }
}

pub fn run_retry_script(
    out: &mut Out,
    idx: u64,
    pk: u64,
    max: u64,
    rng: &mut Rng,
    script: Option<&[RtOp]>,
    len: usize,
) {
    out.line(&format!("script {idx} c20retry pk={pk} max={max}"));
    let base = tarpc::verif_hooks::now();
    let results = Rc::new(RefCell::new(VecDeque::new()));
    let events = Rc::new(RefCell::new(Vec::<String>::new()));
    let table = Rc::new(RefCell::new(Vec::<bool>::new()));
    let calls = Rc::new(Cell::new(0u64));
    let stuck = Rc::new(Cell::new(false));
    let mock =
        RtMock { results: results.clone(), events: events.clone(), calls: calls.clone(), stuck: stuck.clone(), base };
    // The policy under test is a function of (result, attempt): kind 0 reads a decision table indexed
    // by the attempt number (declines beyond it), any other kind retries errors while attempt < max.
    // It records every consultation.
    let policy = {
        let table = table.clone();
        let events = events.clone();
        move |r: &Result<u64, RpcError>, attempt: u32| -> bool {
            let d = if pk == 0 {
                table.borrow().get((attempt as usize).wrapping_sub(1)).copied().unwrap_or(false)
            } else {
                r.is_err() && u64::from(attempt) < max
            };
            events.borrow_mut().push(format!("policy {attempt} {} {}", render_result(r), d as u8));
            d
        }
    };
    let retry = Retry::new(mock, policy);
    let mut cx = Context::from_waker(noop_waker_ref());
    let mut i = 0usize;
    loop {
        let op = match script {
            Some(s) => {
                if i >= s.len() {
                    break;
                }
                s[i].clone()
            }
            None => {
                if i >= len {
                    break;
                }
                match rng.weighted(&[58, if pk == 0 { 14 } else { 0 }, 20]) {
                    0 => {
                        let r = match rng.below(20) {
                            0..=6 => Res::Ok(rng.below(10)),
                            7..=14 => Res::Err(rng.below(5)),
                            _ => Res::Send(rng.below(3)),
                        };
                        RtOp::Result(r, random_delay(rng))
                    }
                    1 => RtOp::Decide(rng.chance(2, 3)),
                    _ => random_call(rng),
                }
            }
        };
        i += 1;
        out.line(&format!("op {}", op.render()));
        match op {
            RtOp::Result(r, d) => results.borrow_mut().push_back((r, d)),
            RtOp::Decide(b) => table.borrow_mut().push(b),
            RtOp::Call { req, d, trace_id, span_id, sampled } => {
                let now = tarpc::verif_hooks::now();
                let mut ctx = context::current();
                ctx.deadline = now + Duration::from_nanos(d);
                ctx.trace_context.trace_id = trace::TraceId::from(trace_id);
                ctx.trace_context.span_id = trace::SpanId::from(span_id);
                ctx.trace_context.sampling_decision =
                    if sampled { trace::SamplingDecision::Sampled } else { trace::SamplingDecision::Unsampled };
                out.line(&format!("obs start {req} at={} {}", rel_ns(now, base), render_ctx(&ctx, base)));
                calls.set(0);
                stuck.set(false);
                let mut fut = Box::pin(retry.call(ctx, req));
                // the mock answers at once, after moving the clock (one extra poll), or never
                let mut polls = 0u32;
                let r = loop {
                    match fut.as_mut().poll(&mut cx) {
                        Poll::Ready(res) => break Some(res),
                        Poll::Pending if stuck.get() => break None,
                        Poll::Pending => {
                            polls += 1;
                            if polls > 100_000 {
                                events.borrow_mut().push("wrong-pending".into());
                                break None;
                            }
                        }
                    }
                };
                for e in events.borrow_mut().drain(..) {
                    out.line(&format!("obs {e}"));
                }
                match r {
                    Some(res) => out.line(&format!("obs ret {}", render_result(&res))),
                    None => out.line("obs stuck"),
                }
            }
        }
    }
}

/// tarpc (feature `verif-hooks`) reads tokio's clock: everything runs inside a paused current-thread
/// runtime, so that time only moves when a scripted backend answer says so.
fn in_runtime(f: impl FnOnce()) {
    let rt = tokio::runtime::Builder::new_current_thread()
        .enable_time()
        .start_paused(true)
        .build()
        .expect("runtime");
    let _guard = rt.enter();
    f();
}

// ---------------------------------------------------------------------------------------------
// Entry points
// ---------------------------------------------------------------------------------------------

pub fn generate(out: &mut Out, family: &str, seed: u64, scripts: u64, len: usize) {
    for idx in 0..scripts {
        let mut rng = Rng::new(seed.wrapping_mul(1_000_003).wrapping_add(idx));
        match family {
            "c20rr" | "c20hash" => {
                let kind = if family == "c20rr" { Kind::Rr } else { Kind::Hash };
                // mostly 1..=5 backends; now and then the empty list (recorded, outside the property)
                let n = if rng.chance(1, 50) { 0 } else { 1 + rng.below(5) as usize };
                let hseed = rng.next();
                run_lb_script(out, idx, kind, n, hseed, &mut rng, None, len);
            }
            _ => {
                let pk = rng.below(2);
                let max = 1 + rng.below(6);
                in_runtime(|| run_retry_script(out, idx, pk, max, &mut rng, None, len));
            }
        }
    }
}

pub fn replay(out: &mut Out, family: &str, scripts: &[(String, Vec<String>)]) {
    let num = |h: &str, name: &str, dflt: u64| -> u64 {
        crate::header_param(h, name).and_then(|v| v.parse().ok()).unwrap_or(dflt)
    };
    for (i, (h, ops)) in scripts.iter().enumerate() {
        let mut rng = Rng::new(0);
        let toks: Vec<Vec<&str>> = ops.iter().map(|o| o.split_whitespace().collect()).collect();
        match family {
            "c20rr" | "c20hash" => {
                let kind = if family == "c20rr" { Kind::Rr } else { Kind::Hash };
                let ops: Vec<LbOp> = toks.iter().filter_map(|t| LbOp::parse(t)).collect();
                run_lb_script(out, i as u64, kind, num(h, "n", 1) as usize, num(h, "seed", 0), &mut rng, Some(&ops), 0);
            }
            _ => {
                let ops: Vec<RtOp> = toks.iter().filter_map(|t| RtOp::parse(t)).collect();
                in_runtime(|| run_retry_script(out, i as u64, num(h, "pk", 0), num(h, "max", 0), &mut rng, Some(&ops), 0));
            }
        }
    }
}

//! Deterministic PRNG: every random choice of a run derives from one state (splitmix64).
#[derive(Clone)]
pub struct Rng(pub u64);

impl Rng {
    pub fn new(seed: u64) -> Self {
        Rng(seed.wrapping_mul(0x9E37_79B9_7F4A_7C15) ^ 0xD1B5_4A32_D192_ED03)
    }
    pub fn next(&mut self) -> u64 {
        self.0 = self.0.wrapping_add(0x9E37_79B9_7F4A_7C15);
        let mut z = self.0;
        z = (z ^ (z >> 30)).wrapping_mul(0xBF58_476D_1CE4_E5B9);
        z = (z ^ (z >> 27)).wrapping_mul(0x94D0_49BB_1331_11EB);
        z ^ (z >> 31)
    }
    pub fn below(&mut self, n: u64) -> u64 {
        if n == 0 {
            0
        } else {
            self.next() % n
        }
    }
    pub fn chance(&mut self, num: u64, den: u64) -> bool {
        self.below(den) < num
    }
    pub fn pick<'a, T>(&mut self, xs: &'a [T]) -> &'a T {
        &xs[self.below(xs.len() as u64) as usize]
    }
    /// Weighted choice: returns the index of the chosen weight.
    pub fn weighted(&mut self, ws: &[u64]) -> usize {
        let total: u64 = ws.iter().sum();
        let mut x = self.below(total.max(1));
        for (i, w) in ws.iter().enumerate() {
            if x < *w {
                return i;
            }
            x -= w;
        }
        ws.len() - 1
    }
}

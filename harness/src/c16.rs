//! Family `c16dec` (property C16, decoder robustness): arbitrary byte strings — random, and mutated
//! from valid encodings — are presented to the real decoders of tarpc's serde transport
//! (`LengthDelimitedCodec` framing + `tokio_serde` JSON / bincode for the protocol types) under
//! `catch_unwind`.  The only thing judged is that nothing panics: malformed input must surface as an
//! error item or a clean end of stream.  The model side of this family is empty (its decoders are
//! total functions); the outcome lines are informational (`obs outcome …`, ignored by the projection).
//!
//! Ops: `stream <json|bincode> <cm|rsp> <hex>` — the whole byte stream a peer sent before closing.
use crate::c15codec::{hex, unhex};
use crate::rng::Rng;
use crate::Out;
use futures::StreamExt;
use std::{
    io,
    panic::AssertUnwindSafe,
    pin::Pin,
    task::{Context, Poll},
    time::Duration,
};
use tarpc::{context, trace, ClientMessage, Request, Response, ServerError};
use tokio::io::{AsyncRead, AsyncWrite, ReadBuf};
use tokio_serde::formats::{Bincode, Json};
use tokio_util::codec::{Framed, LengthDelimitedCodec};

/// A read-only in-memory byte stream that hands out PRNG-free fixed-size chunks and then EOF.
struct Bytes {
    data: Vec<u8>,
    pos: usize,
    chunk: usize,
}

impl AsyncRead for Bytes {
    fn poll_read(mut self: Pin<&mut Self>, _: &mut Context<'_>, buf: &mut ReadBuf<'_>) -> Poll<io::Result<()>> {
        let n = self.chunk.min(self.data.len() - self.pos).min(buf.remaining());
        let (a, b) = (self.pos, self.pos + n);
        buf.put_slice(&self.data[a..b]);
        self.pos = b;
        Poll::Ready(Ok(()))
    }
}

impl AsyncWrite for Bytes {
    fn poll_write(self: Pin<&mut Self>, _: &mut Context<'_>, b: &[u8]) -> Poll<io::Result<usize>> {
        Poll::Ready(Ok(b.len()))
    }
    fn poll_flush(self: Pin<&mut Self>, _: &mut Context<'_>) -> Poll<io::Result<()>> {
        Poll::Ready(Ok(()))
    }
    fn poll_shutdown(self: Pin<&mut Self>, _: &mut Context<'_>) -> Poll<io::Result<()>> {
        Poll::Ready(Ok(()))
    }
}

fn drain<T>(mut t: impl futures::Stream<Item = io::Result<T>> + Unpin) -> String {
    let mut cx = Context::from_waker(futures::task::noop_waker_ref());
    let mut items = 0usize;
    for _ in 0..10_000 {
        match t.poll_next_unpin(&mut cx) {
            Poll::Ready(Some(Ok(_))) => items += 1,
            Poll::Ready(Some(Err(_))) => return format!("items={items} end=error"),
            Poll::Ready(None) => return format!("items={items} end=eof"),
            Poll::Pending => return format!("items={items} end=pending"),
        }
    }
    format!("items={items} end=runaway")
}

fn run_stream(codec: &str, kind: &str, data: Vec<u8>, chunk: usize) -> String {
    let io = Bytes { data, pos: 0, chunk: chunk.max(1) };
    let framed = Framed::new(io, LengthDelimitedCodec::new());
    match (codec, kind) {
        ("json", "cm") => drain(tarpc::serde_transport::new::<_, ClientMessage<String>, Response<String>, _>(framed, Json::default())),
        ("json", _) => drain(tarpc::serde_transport::new::<_, Response<String>, ClientMessage<String>, _>(framed, Json::default())),
        (_, "cm") => drain(tarpc::serde_transport::new::<_, ClientMessage<String>, Response<String>, _>(framed, Bincode::default())),
        (_, _) => drain(tarpc::serde_transport::new::<_, Response<String>, ClientMessage<String>, _>(framed, Bincode::default())),
    }
}

#[derive(Clone, Debug)]
pub struct Op {
    codec: String,
    kind: String,
    chunk: usize,
    data: Vec<u8>,
}

impl Op {
    pub fn parse(toks: &[&str]) -> Option<Op> {
        match toks {
            ["stream", codec, kind, chunk, h] => Some(Op {
                codec: codec.to_string(),
                kind: kind.to_string(),
                chunk: chunk.strip_prefix("chunk=")?.parse().ok()?,
                data: if *h == "-" { vec![] } else { unhex(h)? },
            }),
            _ => None,
        }
    }
    pub fn render(&self) -> String {
        format!(
            "stream {} {} chunk={} {}",
            self.codec,
            self.kind,
            self.chunk,
            if self.data.is_empty() { "-".into() } else { hex(&self.data) }
        )
    }
}

fn frame(p: &[u8]) -> Vec<u8> {
    let mut v = (p.len() as u32).to_be_bytes().to_vec();
    v.extend_from_slice(p);
    v
}

fn valid_payload(rng: &mut Rng, codec: &str, kind: &str) -> Vec<u8> {
    use bincode::Options;
    let body: String = match rng.below(4) {
        0 => String::new(),
        1 => "x".repeat(rng.below(300) as usize),
        2 => "ünï©ødé \"quoted\" \\ \u{1F600}".into(),
        _ => format!("b{}", rng.next()),
    };
    let id = *rng.pick(&[0u64, 1, 250, 251, 65535, 65536, u32::MAX as u64, u64::MAX]);
    if kind == "cm" {
        let msg: ClientMessage<String> = if rng.chance(1, 4) {
            ClientMessage::Cancel { trace_context: trace::Context::default(), request_id: id }
        } else {
            let mut ctx = context::current();
            ctx.deadline = tarpc::verif_hooks::now() + Duration::from_secs(*rng.pick(&[0u64, 1, 10, 86_400 * 365 * 80]));
            ClientMessage::Request(Request { context: ctx, id, message: body })
        };
        if codec == "json" {
            serde_json::to_vec(&msg).unwrap()
        } else {
            bincode::DefaultOptions::new().serialize(&msg).unwrap()
        }
    } else {
        let msg: Response<String> = Response {
            request_id: id,
            message: if rng.chance(1, 3) { Err(ServerError::new(io::ErrorKind::Other, body)) } else { Ok(body) },
        };
        if codec == "json" {
            serde_json::to_vec(&msg).unwrap()
        } else {
            bincode::DefaultOptions::new().serialize(&msg).unwrap()
        }
    }
}

/// Well-formed JSON with boundary-valued fields, written by hand (a peer can send these).
fn extreme_json(rng: &mut Rng) -> Vec<u8> {
    let secs = *rng.pick(&["18446744073709551615", "9223372036854775807", "9223372036854775808", "4611686018427387904", "0"]);
    let nanos = *rng.pick(&["0", "999999999", "4294967295", "1000000000"]);
    let id = *rng.pick(&["0", "18446744073709551615"]);
    let trace = "[255,255,255,255,255,255,255,255,255,255,255,255,255,255,255,255]";
    match rng.below(4) {
        0 => format!(r#"{{"Request":{{"context":{{"deadline":{{"secs":{secs},"nanos":{nanos}}},"trace_context":{{"trace_id":{trace},"span_id":18446744073709551615,"sampling_decision":"Sampled"}}}},"id":{id},"message":"m"}}}}"#),
        1 => format!(r#"{{"Request":{{"context":{{"trace_context":{{"trace_id":{trace},"span_id":1,"sampling_decision":"Unsampled"}}}},"id":{id},"message":"no deadline"}}}}"#),
        2 => format!(r#"{{"Cancel":{{"request_id":{id}}}}}"#),
        _ => format!(r#"{{"Request":{{"context":{{"deadline":{{"secs":{secs},"nanos":{nanos}}},"trace_context":{{"trace_id":{trace},"span_id":0,"sampling_decision":"Sampled"}}}},"id":{id},"message":{}}}}}"#, "[".repeat(200)),
    }
    .into_bytes()
}

fn mutate(rng: &mut Rng, mut v: Vec<u8>) -> Vec<u8> {
    for _ in 0..1 + rng.below(4) {
        if v.is_empty() {
            v.push(rng.next() as u8);
            continue;
        }
        let i = rng.below(v.len() as u64) as usize;
        match rng.below(6) {
            0 => v[i] ^= 1 << rng.below(8),
            1 => v[i] = *rng.pick(&[0u8, 0xff, 0xfb, 0xfc, 0xfd, 0xfe, 0x7f, 0x80, b'"', b'{', b'}']),
            2 => v.truncate(i),
            3 => v.insert(i, rng.next() as u8),
            4 => {
                v.remove(i);
            }
            _ => {
                let tail: Vec<u8> = v[i..].to_vec();
                v.extend(tail);
            }
        }
    }
    v
}

fn gen_op(rng: &mut Rng) -> Op {
    let codec = if rng.chance(1, 2) { "json" } else { "bincode" };
    let kind = if rng.chance(2, 3) { "cm" } else { "rsp" };
    let mut data = Vec::new();
    let n = 1 + rng.below(3);
    for _ in 0..n {
        let p = match rng.below(10) {
            0 => (0..rng.below(40)).map(|_| rng.next() as u8).collect(),
            1 | 2 if codec == "json" && kind == "cm" => extreme_json(rng),
            3 | 4 | 5 => {
                let v = valid_payload(rng, codec, kind);
                mutate(rng, v)
            }
            _ => valid_payload(rng, codec, kind),
        };
        data.extend(frame(&p));
    }
    // sometimes damage the framing itself
    match rng.below(8) {
        0 => data = mutate(rng, data),
        1 => data.extend([0xff, 0xff, 0xff, 0xff, 1, 2, 3]),
        2 => {
            let k = rng.below(data.len() as u64 + 1) as usize;
            data.truncate(k)
        }
        _ => {}
    }
    Op { codec: codec.into(), kind: kind.into(), chunk: *rng.pick(&[1usize, 2, 3, 7, 64, 4096]), data }
}

pub fn run_script(out: &mut Out, idx: u64, rng: &mut Rng, script: Option<&[Op]>, len: usize) {
    out.line(&format!("script {idx} c16dec"));
    let rt = crate::cli::new_runtime();
    let _g = rt.enter();
    let n = script.map(|s| s.len()).unwrap_or(len);
    for i in 0..n {
        let op = match script {
            Some(s) => s[i].clone(),
            None => gen_op(rng),
        };
        out.line(&format!("op {}", op.render()));
        let (codec, kind, data, chunk) = (op.codec.clone(), op.kind.clone(), op.data.clone(), op.chunk);
        match std::panic::catch_unwind(AssertUnwindSafe(|| run_stream(&codec, &kind, data, chunk))) {
            Ok(outcome) => out.line(&format!("obs outcome {outcome}")),
            Err(p) => {
                let msg = p
                    .downcast_ref::<String>()
                    .cloned()
                    .or_else(|| p.downcast_ref::<&str>().map(|s| s.to_string()))
                    .unwrap_or_default();
                out.line(&format!("obs panic decoder {}", msg.replace(' ', "_")));
            }
        }
    }
}

pub fn generate(out: &mut Out, seed: u64, scripts: u64, len: usize) {
    for idx in 0..scripts {
        let mut rng = Rng::new(seed.wrapping_mul(1_000_003).wrapping_add(idx));
        run_script(out, idx, &mut rng, None, len);
    }
}

pub fn replay(out: &mut Out, scripts: &[(String, Vec<String>)]) {
    for (i, (_h, ops)) in scripts.iter().enumerate() {
        let ops: Vec<Op> = ops.iter().filter_map(|o| Op::parse(&o.split_whitespace().collect::<Vec<_>>())).collect();
        let mut rng = Rng::new(0);
        run_script(out, i as u64, &mut rng, Some(&ops), 0);
    }
}

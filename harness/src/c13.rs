//! C13: drive the real `MaxChannelsPerKey` with arrivals, closes and polls.
use crate::rng::Rng;
use crate::Out;
use futures::{channel::mpsc, prelude::*, task::noop_waker_ref};
use std::{
    cell::RefCell,
    collections::BTreeMap,
    pin::Pin,
    rc::Rc,
    task::{Context, Poll},
};
use tarpc::{
    server::{incoming::Incoming, BaseChannel, Channel},
    ClientMessage, Response,
};

/// A do-nothing transport that knows its key and id and reports its own drop.
pub struct KeyedTransport {
    id: u64,
    key: u64,
    drops: Rc<RefCell<Vec<(u64, u64)>>>,
}

impl Drop for KeyedTransport {
    fn drop(&mut self) {
        self.drops.borrow_mut().push((self.id, self.key));
    }
}

impl Stream for KeyedTransport {
    type Item = Result<ClientMessage<()>, std::io::Error>;
    fn poll_next(self: Pin<&mut Self>, _: &mut Context<'_>) -> Poll<Option<Self::Item>> {
        Poll::Pending
    }
}

impl Sink<Response<()>> for KeyedTransport {
    type Error = std::io::Error;
    fn poll_ready(self: Pin<&mut Self>, _: &mut Context<'_>) -> Poll<Result<(), Self::Error>> {
        Poll::Ready(Ok(()))
    }
    fn start_send(self: Pin<&mut Self>, _: Response<()>) -> Result<(), Self::Error> {
        Ok(())
    }
    fn poll_flush(self: Pin<&mut Self>, _: &mut Context<'_>) -> Poll<Result<(), Self::Error>> {
        Poll::Ready(Ok(()))
    }
    fn poll_close(self: Pin<&mut Self>, _: &mut Context<'_>) -> Poll<Result<(), Self::Error>> {
        Poll::Ready(Ok(()))
    }
}

type Chan = BaseChannel<(), (), KeyedTransport>;

#[derive(Clone, Debug)]
pub enum Op {
    Arrive(u64),
    Poll,
    Close(u64),
    End,
}

impl Op {
    pub fn parse(toks: &[&str]) -> Option<Op> {
        match toks {
            ["arrive", k] => Some(Op::Arrive(k.parse().ok()?)),
            ["poll"] => Some(Op::Poll),
            ["close", c] => Some(Op::Close(c.parse().ok()?)),
            ["end"] => Some(Op::End),
            _ => None,
        }
    }
    pub fn render(&self) -> String {
        match self {
            Op::Arrive(k) => format!("arrive {k}"),
            Op::Poll => "poll".into(),
            Op::Close(c) => format!("close {c}"),
            Op::End => "end".into(),
        }
    }
}

/// Runs one script.  With `script = None` ops are generated from `rng`; otherwise replayed.
pub fn run_script(out: &mut Out, idx: u64, n: u32, rng: &mut Rng, script: Option<&[Op]>, len: usize) {
    out.line(&format!("script {idx} c13 n={n}"));
    let drops = Rc::new(RefCell::new(Vec::new()));
    let (tx, rx) = mpsc::unbounded::<Chan>();
    let mut tx = Some(tx);
    let filter = rx.max_channels_per_key(n, |c: &Chan| c.transport().key);
    futures::pin_mut!(filter);
    let mut live = BTreeMap::new(); // chan id -> TrackedChannel
    let mut next_chan = 0u64;
    let mut ended = false;
    let mut stream_done = false;
    let keys = 1 + rng.below(3);
    let mut cx = Context::from_waker(noop_waker_ref());
    let mut i = 0usize;
    loop {
        let op = match script {
            Some(s) => {
                if i >= s.len() {
                    break;
                }
                s[i].clone()
            }
            None => {
                if i >= len {
                    break;
                }
                let live_ids: Vec<u64> = live.keys().copied().collect();
                match rng.weighted(&[40, 35, if live_ids.is_empty() { 0 } else { 22 }, 1]) {
                    0 => Op::Arrive(rng.below(keys)),
                    1 => Op::Poll,
                    2 => Op::Close(*rng.pick(&live_ids)),
                    _ => Op::End,
                }
            }
        };
        i += 1;
        out.line(&format!("op {}", op.render()));
        match op {
            Op::Arrive(k) => {
                if ended {
                    out.line("obs noop");
                } else {
                    let id = next_chan;
                    next_chan += 1;
                    let t = KeyedTransport { id, key: k, drops: drops.clone() };
                    tx.as_ref().unwrap().unbounded_send(BaseChannel::with_defaults(t)).unwrap();
                    out.line(&format!("obs arrived {id} {k}"));
                }
            }
            Op::End => {
                ended = true;
                tx = None;
            }
            Op::Close(c) => match live.remove(&c) {
                None => out.line("obs noop"),
                Some(ch) => {
                    drop(ch);
                    let d: Vec<_> = drops.borrow_mut().drain(..).collect();
                    assert_eq!(d.len(), 1);
                    out.line(&format!("obs closed {c}"));
                }
            },
            Op::Poll => {
                if stream_done {
                    // The model's listener is fused; polling a finished stream again is outside
                    // the Stream contract, so the harness does not do it.
                    out.line("obs ended");
                    continue;
                }
                let r = filter.as_mut().poll_next(&mut cx);
                for (id, key) in drops.borrow_mut().drain(..) {
                    out.line(&format!("obs shed {id} {key}"));
                }
                match r {
                    Poll::Ready(Some(ch)) => {
                        let (id, key) = { let t = ch.get_ref().transport(); (t.id, t.key) };
                        out.line(&format!("obs yielded {id} {key}"));
                        live.insert(id, ch);
                    }
                    Poll::Ready(None) => {
                        stream_done = true;
                        out.line("obs ended");
                    }
                    Poll::Pending => out.line("obs pending"),
                }
            }
        }
    }
    // Keep drop bookkeeping from leaking into the next script.
    live.clear();
    drops.borrow_mut().clear();
}

pub fn generate(out: &mut Out, seed: u64, scripts: u64, len: usize) {
    for idx in 0..scripts {
        let mut rng = Rng::new(seed.wrapping_mul(1_000_003).wrapping_add(idx));
        let n = 1 + rng.below(3) as u32;
        run_script(out, idx, n, &mut rng, None, len);
    }
}

//! C15 (value level, bincode): run the real `tokio_serde::formats::Bincode` codec — the codec of
//! tarpc's serde transport — on the real protocol types `ClientMessage<T>` / `Response<T>`.
//!
//! Family `c15bin`, header `body=str|u64` (`T = String` or `u64`).  Message text form (one token):
//!   `req:<secs>:<nanos>:<trace_id>:<span_id>:<S|U>:<request_id>:<body>`
//!   `cancel:<trace_id>:<span_id>:<S|U>:<request_id>`
//!   `ok:<request_id>:<body>`   `err:<request_id>:<Kind>:<detail>`
//! numbers decimal, strings as hex of their UTF-8 bytes (possibly empty), `<Kind>` = `{:?}` of the
//! `io::ErrorKind`.  `secs`/`nanos` is the remaining deadline relative to the paused clock.
//!
//! Ops: `enc <msg>` → `obs bytes <hex>` + `obs roundtrip <msg> <msg'|error|panic>`;
//!      `dec cm <hex|->` / `dec rsp <hex|->` → `obs msg <msg>` | `obs error` | `obs panic`.
use crate::rng::Rng;
use crate::Out;
use bincode::Options;
use bytes::BytesMut;
use serde::{de::DeserializeOwned, Serialize};
use std::{io::ErrorKind, panic::AssertUnwindSafe, time::Duration};
use tarpc::{
    trace::{self, SamplingDecision, SpanId, TraceId},
    ClientMessage, Request, Response, ServerError,
};
use tokio_serde::{formats::Bincode, Deserializer as _, Serializer as _};

/// Largest `secs` an `enc req` may carry (an `Instant` can hold `now + 2^62 s` on any machine).
const MAX_ENC_SECS: u64 = 1 << 62;

pub trait Body: Serialize + DeserializeOwned + Clone + 'static {
    fn parse(s: &str) -> Option<Self>;
    fn render(&self) -> String;
    fn random(rng: &mut Rng) -> Self;
}

impl Body for String {
    fn parse(s: &str) -> Option<Self> {
        String::from_utf8(unhex(s)?).ok()
    }
    fn render(&self) -> String {
        hex(self.as_bytes())
    }
    fn random(rng: &mut Rng) -> Self {
        random_string(rng)
    }
}

impl Body for u64 {
    fn parse(s: &str) -> Option<Self> {
        parse_dec(s)
    }
    fn render(&self) -> String {
        self.to_string()
    }
    fn random(rng: &mut Rng) -> Self {
        random_u64(rng)
    }
}

pub fn hex(b: &[u8]) -> String {
    let mut s = String::with_capacity(b.len() * 2);
    for x in b {
        s.push_str(&format!("{x:02x}"));
    }
    s
}

pub fn unhex(s: &str) -> Option<Vec<u8>> {
    let b = s.as_bytes();
    if b.len() % 2 != 0 {
        return None;
    }
    let d = |c: u8| match c {
        b'0'..=b'9' => Some(c - b'0'),
        b'a'..=b'f' => Some(c - b'a' + 10),
        _ => None,
    };
    b.chunks(2).map(|p| Some(d(p[0])? * 16 + d(p[1])?)).collect()
}

fn hex_tok(b: &[u8]) -> String {
    if b.is_empty() {
        "-".into()
    } else {
        hex(b)
    }
}

/// Decimal without sign / `+` (the model's `String.toNat?` accepts digits only).
fn parse_dec<N: std::str::FromStr>(s: &str) -> Option<N> {
    if s.is_empty() || !s.bytes().all(|c| c.is_ascii_digit()) {
        return None;
    }
    s.parse().ok()
}

/// Every `io::ErrorKind` variant that is stable in this toolchain.
pub fn all_kinds() -> Vec<ErrorKind> {
    use ErrorKind::*;
    vec![
        NotFound, PermissionDenied, ConnectionRefused, ConnectionReset, HostUnreachable,
        NetworkUnreachable, ConnectionAborted, NotConnected, AddrInUse, AddrNotAvailable,
        NetworkDown, BrokenPipe, AlreadyExists, WouldBlock, NotADirectory, IsADirectory,
        DirectoryNotEmpty, ReadOnlyFilesystem, StaleNetworkFileHandle, InvalidInput, InvalidData,
        TimedOut, WriteZero, StorageFull, NotSeekable, QuotaExceeded, FileTooLarge, ResourceBusy,
        ExecutableFileBusy, Deadlock, CrossesDevices, TooManyLinks, InvalidFilename,
        ArgumentListTooLong, Interrupted, Unsupported, UnexpectedEof, OutOfMemory, Other,
    ]
}

fn kind_by_name(name: &str) -> Option<ErrorKind> {
    all_kinds().into_iter().find(|k| format!("{k:?}") == name)
}

pub enum Msg<T> {
    Cm(ClientMessage<T>),
    Rsp(Response<T>),
}

fn parse_trace(t: &str, s: &str, d: &str) -> Option<trace::Context> {
    Some(trace::Context {
        trace_id: TraceId::from(parse_dec::<u128>(t)?),
        span_id: SpanId::from(parse_dec::<u64>(s)?),
        sampling_decision: match d {
            "S" => SamplingDecision::Sampled,
            "U" => SamplingDecision::Unsampled,
            _ => return None,
        },
    })
}

fn render_trace(t: &trace::Context) -> String {
    format!(
        "{}:{}:{}",
        u128::from(t.trace_id),
        u64::from(t.span_id),
        match t.sampling_decision {
            SamplingDecision::Sampled => "S",
            SamplingDecision::Unsampled => "U",
        }
    )
}

/// Text form → the real message.  Deadlines are built as `now + d` on the paused clock.
pub fn parse_msg<T: Body>(tok: &str) -> Option<Msg<T>> {
    let f: Vec<&str> = tok.split(':').collect();
    match f.as_slice() {
        ["req", secs, nanos, t, s, d, id, body] => {
            let secs: u64 = parse_dec(secs)?;
            let nanos: u32 = parse_dec(nanos)?;
            if secs > MAX_ENC_SECS || nanos >= 1_000_000_000 {
                return None;
            }
            let mut context = tarpc::context::current();
            context.deadline = tarpc::verif_hooks::now().checked_add(Duration::new(secs, nanos))?;
            context.trace_context = parse_trace(t, s, d)?;
            Some(Msg::Cm(ClientMessage::Request(Request {
                context,
                id: parse_dec(id)?,
                message: T::parse(body)?,
            })))
        }
        ["cancel", t, s, d, id] => Some(Msg::Cm(ClientMessage::Cancel {
            trace_context: parse_trace(t, s, d)?,
            request_id: parse_dec(id)?,
        })),
        ["ok", id, body] => Some(Msg::Rsp(Response {
            request_id: parse_dec(id)?,
            message: Ok(T::parse(body)?),
        })),
        ["err", id, kind, detail] => Some(Msg::Rsp(Response {
            request_id: parse_dec(id)?,
            message: Err(ServerError::new(
                kind_by_name(kind)?,
                String::from_utf8(unhex(detail)?).ok()?,
            )),
        })),
        _ => None,
    }
}

pub fn render_cm<T: Body>(m: &ClientMessage<T>) -> String {
    match m {
        ClientMessage::Request(r) => {
            // Deterministic: the remaining time relative to the paused clock.
            let d = r.context.deadline.duration_since(tarpc::verif_hooks::now());
            format!(
                "req:{}:{}:{}:{}:{}",
                d.as_secs(),
                d.subsec_nanos(),
                render_trace(&r.context.trace_context),
                r.id,
                r.message.render()
            )
        }
        ClientMessage::Cancel { trace_context, request_id } => {
            format!("cancel:{}:{}", render_trace(trace_context), request_id)
        }
        _ => "unknown-variant".into(),
    }
}

pub fn render_rsp<T: Body>(r: &Response<T>) -> String {
    match &r.message {
        Ok(b) => format!("ok:{}:{}", r.request_id, b.render()),
        Err(e) => format!("err:{}:{:?}:{}", r.request_id, e.kind, hex(e.detail.as_bytes())),
    }
}

/// The codec of `tarpc::serde_transport` with `Bincode::default()`.
fn encode<I, S: Serialize>(item: &S) -> Vec<u8>
where
    I: DeserializeOwned,
{
    let codec = std::pin::pin!(Bincode::<I, S>::default());
    codec.serialize(item).expect("bincode serialize").to_vec()
}

/// `Some(Ok)` decoded, `Some(Err)` codec error, `None` the reader panicked.
fn decode<I: DeserializeOwned>(bytes: &[u8]) -> Option<Result<I, std::io::Error>> {
    let buf = BytesMut::from(bytes);
    std::panic::catch_unwind(AssertUnwindSafe(|| {
        let codec = std::pin::pin!(Bincode::<I, ()>::default());
        codec.deserialize(&buf)
    }))
    .ok()
}

fn decode_cm_text<T: Body>(bytes: &[u8]) -> String {
    match decode::<ClientMessage<T>>(bytes) {
        None => "panic".into(),
        Some(Err(_)) => "error".into(),
        Some(Ok(m)) => render_cm(&m),
    }
}

fn decode_rsp_text<T: Body>(bytes: &[u8]) -> String {
    match decode::<Response<T>>(bytes) {
        None => "panic".into(),
        Some(Err(_)) => "error".into(),
        Some(Ok(m)) => render_rsp(&m),
    }
}

#[derive(Clone, Debug)]
pub enum Op {
    Enc(String),
    DecCm(Vec<u8>),
    DecRsp(Vec<u8>),
}

impl Op {
    pub fn parse(toks: &[&str]) -> Option<Op> {
        let bytes = |h: &str| if h == "-" { Some(Vec::new()) } else { unhex(h) };
        match toks {
            ["enc", m] => Some(Op::Enc(m.to_string())),
            ["dec", "cm", h] => Some(Op::DecCm(bytes(h)?)),
            ["dec", "rsp", h] => Some(Op::DecRsp(bytes(h)?)),
            _ => None,
        }
    }
    pub fn render(&self) -> String {
        match self {
            Op::Enc(m) => format!("enc {m}"),
            Op::DecCm(b) => format!("dec cm {}", hex_tok(b)),
            Op::DecRsp(b) => format!("dec rsp {}", hex_tok(b)),
        }
    }
}

fn exec<T: Body>(out: &mut Out, op: &Op) {
    match op {
        Op::Enc(tok) => match parse_msg::<T>(tok) {
            None => out.line("obs bad-op"),
            Some(Msg::Cm(m)) => {
                let b = encode::<ClientMessage<T>, _>(&m);
                out.line(&format!("obs bytes {}", hex(&b)));
                out.line(&format!("obs roundtrip {tok} {}", decode_cm_text::<T>(&b)));
            }
            Some(Msg::Rsp(m)) => {
                let b = encode::<Response<T>, _>(&m);
                out.line(&format!("obs bytes {}", hex(&b)));
                out.line(&format!("obs roundtrip {tok} {}", decode_rsp_text::<T>(&b)));
            }
        },
        Op::DecCm(b) => match decode_cm_text::<T>(b).as_str() {
            t @ ("panic" | "error") => out.line(&format!("obs {t}")),
            t => out.line(&format!("obs msg {t}")),
        },
        Op::DecRsp(b) => match decode_rsp_text::<T>(b).as_str() {
            t @ ("panic" | "error") => out.line(&format!("obs {t}")),
            t => out.line(&format!("obs msg {t}")),
        },
    }
}

// ---------------------------------------------------------------------------------------------
// Generation
// ---------------------------------------------------------------------------------------------

const BOUNDARY: [u64; 14] = [
    0, 1, 250, 251, 252, 65535, 65536, (1 << 32) - 1, 1 << 32, (1 << 32) + 1, (1 << 63) - 1, 1 << 63,
    u64::MAX - 1, u64::MAX,
];

fn random_u64(rng: &mut Rng) -> u64 {
    match rng.below(4) {
        0 | 1 => *rng.pick(&BOUNDARY),
        2 => rng.next() >> rng.below(64),
        _ => rng.next(),
    }
}

fn random_u128(rng: &mut Rng) -> u128 {
    match rng.below(6) {
        0 => 0,
        1 => u128::MAX,
        2 => 1u128 << 64,
        3 => random_u64(rng) as u128,
        _ => ((rng.next() as u128) << 64) | rng.next() as u128,
    }
}

fn random_nanos(rng: &mut Rng) -> u32 {
    match rng.below(3) {
        0 => *rng.pick(&[0u32, 1, 250, 251, 65535, 65536, 999_999_999]),
        _ => rng.below(1_000_000_000) as u32,
    }
}

fn random_string(rng: &mut Rng) -> String {
    const PIECES: [&str; 12] =
        ["", "x", "hé", "日本語", "🦀", "a:b c", "\0", "\n", "ÿ", "\u{10ffff}", "tarpc", "%20"];
    // Long strings exercise the 3- and 5-byte length prefixes; the very long ones are rare because
    // every byte costs six characters of trace.
    match rng.below(20_000) {
        0 => return "c".repeat(65536), // first 5-byte length prefix
        1 => return "d".repeat(65535),
        _ => {}
    }
    match rng.below(120) {
        0 => "é".repeat(126), // 252 bytes
        1 => "a".repeat(250), // last 1-byte length prefix
        2 => "b".repeat(251), // first 3-byte length prefix
        3 => "日本語".repeat(rng.below(60) as usize),
        _ => {
            let n = rng.below(4);
            (0..n).map(|_| *rng.pick(&PIECES)).collect()
        }
    }
}

fn random_trace(rng: &mut Rng) -> String {
    format!(
        "{}:{}:{}",
        random_u128(rng),
        random_u64(rng),
        if rng.chance(1, 2) { "S" } else { "U" }
    )
}

/// A random message in text form. `cm`: client message, else response.
fn random_msg<T: Body>(rng: &mut Rng, cm: bool) -> String {
    if cm {
        if rng.chance(3, 4) {
            let secs = match rng.below(4) {
                0 => *rng.pick(&[0u64, 1, 10, 250, 251, 65535, 65536, (1 << 32) - 1, 1 << 32, MAX_ENC_SECS]),
                1 => rng.below(MAX_ENC_SECS + 1),
                _ => rng.below(100),
            };
            format!(
                "req:{}:{}:{}:{}:{}",
                secs,
                random_nanos(rng),
                random_trace(rng),
                random_u64(rng),
                T::random(rng).render()
            )
        } else {
            format!("cancel:{}:{}", random_trace(rng), random_u64(rng))
        }
    } else if rng.chance(2, 5) {
        format!("ok:{}:{}", random_u64(rng), T::random(rng).render())
    } else {
        let kinds = all_kinds();
        format!(
            "err:{}:{:?}:{}",
            random_u64(rng),
            rng.pick(&kinds),
            hex(random_string(rng).as_bytes())
        )
    }
}

fn opts() -> impl bincode::Options + Copy {
    bincode::DefaultOptions::new()
}

fn ser<S: Serialize>(v: &S) -> Vec<u8> {
    opts().serialize(v).unwrap()
}

/// Bytes of a request assembled field by field with the real serializer, so that durations no
/// `Instant` can represent (and un-normalised `nanos`) reach the reader.
fn raw_request<T: Body>(rng: &mut Rng) -> Vec<u8> {
    let secs = match rng.below(5) {
        0 => u64::MAX - rng.below(3),
        1 => (1u64 << 63) + rng.below(3),
        2 => (1u64 << 63) | rng.next(),
        3 => rng.next() >> 2,
        _ => random_u64(rng),
    };
    let nanos = match rng.below(4) {
        0 => u32::MAX - rng.below(3) as u32,
        1 => 1_000_000_000 + rng.below(3) as u32,
        2 => rng.next() as u32,
        _ => random_nanos(rng),
    };
    let mut b = ser(&0u32);
    b.extend(ser(&(secs, nanos)));
    let t: Msg<T> = parse_msg(&format!("cancel:{}:0", random_trace(rng))).unwrap();
    if let Msg::Cm(ClientMessage::Cancel { trace_context, .. }) = t {
        b.extend(ser(&trace_context));
    }
    b.extend(ser(&random_u64(rng)));
    b.extend(ser(&T::random(rng)));
    b
}

/// A structure-unaware mutation of a byte string.
fn mutate(rng: &mut Rng, mut b: Vec<u8>) -> Vec<u8> {
    const INTERESTING: [u8; 12] = [0, 1, 2, 3, 0x7f, 0x80, 250, 251, 252, 253, 254, 255];
    let n = 1 + rng.below(2);
    for _ in 0..n {
        let len = b.len() as u64;
        match rng.below(8) {
            0 => b.truncate(rng.below(len + 1) as usize),
            1 => {
                if !b.is_empty() {
                    b.pop();
                }
            }
            2 => b.push(*rng.pick(&INTERESTING)),
            3 | 4 => {
                if !b.is_empty() {
                    let i = rng.below(len) as usize;
                    b[i] = if rng.chance(1, 2) { *rng.pick(&INTERESTING) } else { rng.next() as u8 };
                }
            }
            5 => {
                let i = rng.below(len + 1) as usize;
                b.insert(i, *rng.pick(&INTERESTING));
            }
            6 => {
                if !b.is_empty() {
                    b.remove(rng.below(len) as usize);
                }
            }
            _ => {
                // widen a single-byte varint in place (non-canonical but accepted)
                if !b.is_empty() {
                    let i = rng.below(len) as usize;
                    if b[i] <= 250 {
                        let v = b[i];
                        let (p, w) = *rng.pick(&[(251u8, 2usize), (252, 4), (253, 8), (254, 16)]);
                        let mut ins = vec![p, v];
                        ins.extend(std::iter::repeat(0).take(w - 1));
                        b.splice(i..=i, ins);
                    }
                }
            }
        }
    }
    b
}

/// `now + d` overflows iff `now.tv_sec + d.secs ≥ 2^63`; the model takes `now.tv_sec = 0`, so inputs
/// whose deadline lies in `[2^63 - 2^40, 2^63)` are not generated.
fn in_band(b: &[u8]) -> bool {
    match opts().allow_trailing_bytes().deserialize::<(u32, (u64, u32))>(b) {
        Ok((0, (s, n))) => {
            let s = s as u128 + (n / 1_000_000_000) as u128;
            s >= (1u128 << 63) - (1u128 << 40) && s < (1u128 << 63)
        }
        _ => false,
    }
}

fn gen_op<T: Body>(rng: &mut Rng) -> Op {
    loop {
        let cm = rng.chance(1, 2);
        let valid = |rng: &mut Rng, cm: bool| -> Vec<u8> {
            if cm && rng.chance(1, 4) {
                return raw_request::<T>(rng);
            }
            match parse_msg::<T>(&random_msg::<T>(rng, cm)).expect("generated message parses") {
                Msg::Cm(m) => encode::<ClientMessage<T>, _>(&m),
                Msg::Rsp(m) => encode::<Response<T>, _>(&m),
            }
        };
        let op = match rng.weighted(&[40, 20, 34, 4, 2]) {
            0 => Op::Enc(random_msg::<T>(rng, cm)),
            1 => {
                let b = valid(rng, cm);
                if cm { Op::DecCm(b) } else { Op::DecRsp(b) }
            }
            2 => {
                let b = valid(rng, cm);
                let b = mutate(rng, b);
                if cm { Op::DecCm(b) } else { Op::DecRsp(b) }
            }
            3 => {
                // the other type's reader
                let b = valid(rng, cm);
                if cm { Op::DecRsp(b) } else { Op::DecCm(b) }
            }
            _ => {
                let n = rng.below(12);
                let b: Vec<u8> = (0..n).map(|_| rng.next() as u8).collect();
                if cm { Op::DecCm(b) } else { Op::DecRsp(b) }
            }
        };
        if let Op::DecCm(b) = &op {
            if in_band(b) {
                continue;
            }
        }
        return op;
    }
}

pub fn run_script(out: &mut Out, idx: u64, body_u64: bool, rng: &mut Rng, script: Option<&[Op]>, len: usize) {
    out.line(&format!("script {idx} c15bin body={}", if body_u64 { "u64" } else { "str" }));
    let n = script.map(|s| s.len()).unwrap_or(len);
    for i in 0..n {
        let op = match script {
            Some(s) => s[i].clone(),
            None => {
                if body_u64 {
                    gen_op::<u64>(rng)
                } else {
                    gen_op::<String>(rng)
                }
            }
        };
        out.line(&format!("op {}", op.render()));
        if body_u64 {
            exec::<u64>(out, &op);
        } else {
            exec::<String>(out, &op);
        }
    }
}

/// tarpc (feature `verif-hooks`) reads tokio's clock: everything runs inside a paused
/// current-thread runtime so that `deadline - now` is exact.  Reader panics are caught and reported
/// as `obs panic`; the default hook's stderr noise is silenced meanwhile.
fn in_runtime(f: impl FnOnce()) {
    let rt = tokio::runtime::Builder::new_current_thread()
        .enable_time()
        .start_paused(true)
        .build()
        .expect("runtime");
    let _guard = rt.enter();
    let hook = std::panic::take_hook();
    std::panic::set_hook(Box::new(|_| {}));
    let r = std::panic::catch_unwind(AssertUnwindSafe(f));
    std::panic::set_hook(hook);
    if let Err(e) = r {
        std::panic::resume_unwind(e);
    }
}

/// A fixed script visiting every boundary once (ids, durations, every `ErrorKind`, length-prefix
/// widths, non-canonical varints, reader errors and the deadline panic).
fn boundary_ops(body_u64: bool) -> Vec<Op> {
    let mut ops = Vec::new();
    let body = |n: usize| if body_u64 { n.to_string() } else { hex("c".repeat(n).as_bytes()) };
    for id in BOUNDARY {
        ops.push(Op::Enc(format!("cancel:{id}:{id}:U:{id}")));
        ops.push(Op::Enc(format!("ok:{id}:{}", body(0))));
    }
    for k in all_kinds() {
        ops.push(Op::Enc(format!("err:1:{k:?}:78")));
    }
    for secs in [0u64, 250, 251, 65535, 65536, (1 << 32) - 1, 1 << 32, MAX_ENC_SECS] {
        for nanos in [0u32, 251, 65536, 999_999_999] {
            ops.push(Op::Enc(format!("req:{secs}:{nanos}:{}:1:S:2:{}", u128::MAX, body(3))));
        }
    }
    for n in [250usize, 251, 65535, 65536] {
        ops.push(Op::Enc(format!("ok:0:{}", body(n))));
        ops.push(Op::Enc(format!("err:0:Other:{}", hex("d".repeat(n).as_bytes()))));
    }
    let tail: &[u8] = if body_u64 { &[0, 7] } else { &[0, 0] };
    let rsp = |id: &[u8]| Op::DecRsp([id, tail].concat());
    ops.push(rsp(&[0xfb, 5, 0]));
    ops.push(rsp(&[0xfc, 5, 0, 0, 0]));
    ops.push(rsp(&[0xfd, 5, 0, 0, 0, 0, 0, 0, 0]));
    ops.push(rsp(&[0xfe, 5, 0, 0, 0, 0, 0, 0, 0, 0, 0, 0, 0, 0, 0, 0, 0]));
    ops.push(rsp(&[0xff]));
    ops.push(Op::DecRsp(vec![1, 0xfd, 0, 0, 0, 0, 0, 0, 0, 0, 7])); // variant index, widest prefix
    ops.push(Op::DecRsp(vec![1, 0xfd, 0, 0, 0, 0, 1, 0, 0, 0, 7])); // variant index ≥ 2^32
    ops.push(Op::DecRsp(vec![1, 2, 7])); // variant 2
    ops.push(Op::DecRsp(vec![1, 1, 0xfd, 0, 0, 0, 0, 1, 0, 0, 0, 0])); // kind ≥ 2^32
    ops.push(Op::DecRsp(vec![1, 1, 0xfc, 0xff, 0xff, 0xff, 0xff, 0])); // kind u32::MAX
    ops.push(Op::DecRsp(vec![1, 1, 17, 2, 0xff, 0xfe])); // invalid UTF-8 detail
    ops.push(Op::DecRsp(vec![1, 1, 17, 0xfd, 255, 255, 255, 255, 255, 255, 255, 255, 1])); // huge length
    let mut cm = |dur: &[u8], sampling: u8, extra: &[u8]| {
        let mut b = vec![0u8];
        b.extend_from_slice(dur);
        b.extend_from_slice(&[9u8; 16]);
        b.extend_from_slice(&[3, sampling, 4]);
        b.extend_from_slice(if body_u64 { &[7] } else { &[1, 0x41] });
        b.extend_from_slice(extra);
        ops.push(Op::DecCm(b));
    };
    cm(&[1, 2], 0, &[]);
    cm(&[1, 2], 1, &[0]); // trailing byte
    cm(&[1, 2], 2, &[]); // sampling variant 2
    cm(&[1, 0xfc, 0xff, 0xff, 0xff, 0xff], 0, &[]); // nanos carried into secs
    cm(&[0xfd, 255, 255, 255, 255, 255, 255, 255, 255, 0xfc, 0, 0xca, 0x9a, 0x3b], 0, &[]); // secs overflow
    cm(&[0xfd, 255, 255, 255, 255, 255, 255, 255, 255, 0], 0, &[]); // Instant overflow
    cm(&[0xfd, 0, 0, 0, 0, 0, 0, 0, 0x80, 0], 0, &[]);
    cm(&[0xfd, 0, 0, 0, 0, 0, 0, 0, 0x80, 0], 0, &[0]); // panics before the trailing byte matters
    cm(&[0xfd, 0, 0, 0, 0, 0, 0, 0, 0x40, 0], 0, &[]); // 2^62 s: fine
    ops.push(Op::DecCm(vec![0, 0xfd, 0, 0, 0, 0, 0, 0, 0, 0x80, 0])); // panics although truncated
    ops.push(Op::DecCm(vec![]));
    ops.push(Op::DecRsp(vec![]));
    ops
}

pub fn generate(out: &mut Out, seed: u64, scripts: u64, len: usize) {
    in_runtime(|| {
        for idx in 0..scripts {
            let mut rng = Rng::new(seed.wrapping_mul(1_000_003).wrapping_add(idx) ^ 0xC15B);
            if idx < 2 {
                // scripts 0 and 1: the fixed boundary suite for each body type
                let ops = boundary_ops(idx == 1);
                run_script(out, idx, idx == 1, &mut rng, Some(&ops), 0);
                continue;
            }
            let body_u64 = rng.chance(1, 3);
            run_script(out, idx, body_u64, &mut rng, None, len);
        }
    });
}

/// Replays `(header, op lines)` scripts as read by `main::read_scripts`.
pub fn replay(out: &mut Out, scripts: &[(String, Vec<String>)]) {
    in_runtime(|| {
        for (i, (h, ops)) in scripts.iter().enumerate() {
            let body_u64 = h.split_whitespace().any(|t| t == "body=u64");
            let ops: Vec<Op> = ops
                .iter()
                .filter_map(|o| Op::parse(&o.split_whitespace().collect::<Vec<_>>()))
                .collect();
            let mut rng = Rng::new(0);
            run_script(out, i as u64, body_u64, &mut rng, Some(&ops), 0);
        }
    });
}

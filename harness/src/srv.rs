//! Family `srv`: the real server side of one connection — `BaseChannel` (optionally wrapped in
//! `MaxRequests`) → `requests()` → `InFlightRequest::execute` with a scripted handler — over a
//! `SimTransport`, polled by hand under a paused tokio clock.  Mirrors
//! `lean/TarpcModel/Server/Model.lean`.
use crate::cli::{base, kind_index, ns_since, show_client_msg, show_response, show_trace, KINDS};
use crate::rng::Rng;
use crate::simt::{self, flag_waker, log, FlagWaker, Inb, SimState, SimTransport};
use crate::Out;
use futures::Stream;
use std::{
    cell::RefCell,
    future::Future,
    panic::{catch_unwind, AssertUnwindSafe},
    pin::Pin,
    rc::Rc,
    sync::{atomic::Ordering, Arc},
    task::{Context, Poll, Waker},
    time::Duration,
};
use tarpc::{
    context,
    server::{self, limits::requests_per_channel::MaxRequests, BaseChannel, Channel, InFlightRequest, Requests, Serve},
    trace, ClientMessage, Request, Response, ServerError,
};

type Req = u64;
type Resp = u64;
type ST = SimTransport<Response<Resp>, ClientMessage<Req>>;
type Base = BaseChannel<Req, Resp, ST>;

enum Reqs {
    Base(Pin<Box<Requests<Base>>>),
    Lim(Pin<Box<Requests<MaxRequests<Base>>>>),
}

/// Shared between the script and one handler.
#[derive(Default)]
pub struct HCell {
    finish: Option<Result<u64, usize>>,
    waker: Option<Waker>,
    done: bool,
}

struct HGuard {
    rid: usize,
    cell: Rc<RefCell<HCell>>,
}

impl Drop for HGuard {
    fn drop(&mut self) {
        if !self.cell.borrow().done {
            log(format!("handler {} dropped at={}", self.rid, ns_since(base(), tarpc::verif_hooks::now())));
        }
    }
}

struct HandlerFut {
    g: HGuard,
}

impl Future for HandlerFut {
    type Output = Result<Resp, ServerError>;
    fn poll(self: Pin<&mut Self>, cx: &mut Context<'_>) -> Poll<Self::Output> {
        let rid = self.g.rid;
        let now = ns_since(base(), tarpc::verif_hooks::now());
        log(format!("handler {rid} polled at={now}"));
        let mut c = self.g.cell.borrow_mut();
        match c.finish.take() {
            Some(r) => {
                c.done = true;
                log(format!("handler {rid} completed at={now}"));
                Poll::Ready(r.map_err(|k| ServerError::new(KINDS[k % KINDS.len()], "h".into())))
            }
            None => {
                c.waker = Some(cx.waker().clone());
                Poll::Pending
            }
        }
    }
}

struct Scripted {
    g: HGuard,
}

impl Serve for Scripted {
    type Req = Req;
    type Resp = Resp;
    async fn serve(self, _ctx: context::Context, _req: Req) -> Result<Resp, ServerError> {
        HandlerFut { g: self.g }.await
    }
}

enum Slot {
    Offered(InFlightRequest<Req, Resp>),
    Running(Pin<Box<dyn Future<Output = ()>>>),
    Done,
}

struct ExecSlot {
    id: u64,
    deadline_ns: u128,
    slot: Slot,
    cell: Rc<RefCell<HCell>>,
    fw: Arc<FlagWaker>,
    waker: Waker,
}

pub struct Server {
    pub name: String,
    pub sim: Rc<RefCell<SimState<Response<Resp>, ClientMessage<Req>>>>,
    reqs: Option<Reqs>,
    fw: Arc<FlagWaker>,
    waker: Waker,
    pub done: bool,
    pub poisoned: bool,
    execs: Vec<ExecSlot>,
}

fn panic_site(p: &(dyn std::any::Any + Send)) -> String {
    let msg = p
        .downcast_ref::<String>()
        .cloned()
        .or_else(|| p.downcast_ref::<&str>().map(|s| s.to_string()))
        .unwrap_or_default();
    if msg.contains("verif-spin") {
        "spin".into()
    } else if msg.contains("invalid deadline") {
        "DelayQueue::insert: invalid deadline".into()
    } else if msg.contains("invalid key") {
        "deadlines.remove: invalid key".into()
    } else if msg.contains("overflow when adding duration to instant") {
        "Instant + Duration overflow".into()
    } else if msg.contains("a formatting trait implementation returned an error") {
        "span field formatting failed".into()
    } else {
        format!("other: {}", msg.replace(' ', "_"))
    }
}

impl Server {
    pub fn new(name: &str, limit: Option<usize>, resp_buf: usize, cap: usize, coupled: bool) -> Server {
        let sim = Rc::new(RefCell::new(SimState::new(
            name,
            cap,
            coupled,
            show_response as fn(&_) -> String,
            show_client_msg as fn(&_) -> String,
        )));
        let config = server::Config { pending_response_buffer: resp_buf };
        let chan: Base = BaseChannel::new(config, SimTransport(sim.clone()));
        let reqs = match limit {
            None => Reqs::Base(Box::pin(chan.requests())),
            Some(l) => Reqs::Lim(Box::pin(chan.max_concurrent_requests(l).requests())),
        };
        let (fw, waker) = flag_waker(name);
        Server { name: name.into(), sim, reqs: Some(reqs), fw, waker, done: false, poisoned: false, execs: vec![] }
    }

    pub fn alive(&self) -> bool {
        self.reqs.is_some() && !self.done && !self.poisoned
    }
    pub fn woken(&self) -> bool {
        self.alive() && self.fw.flag.load(Ordering::SeqCst)
    }
    pub fn exec_live(&self, r: usize) -> bool {
        self.execs.get(r).map(|e| !matches!(e.slot, Slot::Done)).unwrap_or(false)
    }
    pub fn exec_woken(&self, r: usize) -> bool {
        self.exec_live(r) && self.execs[r].fw.flag.load(Ordering::SeqCst)
    }
    pub fn live_execs(&self) -> Vec<usize> {
        (0..self.execs.len()).filter(|r| self.exec_live(*r)).collect()
    }
    /// ids of requests that are certainly still in flight for the rest of the script: live, not told to
    /// finish, deadline at least an hour away
    pub fn stable_ids(&self, now: u64) -> Vec<u64> {
        (0..self.execs.len())
            .filter(|r| {
                self.exec_live(*r)
                    && !self.execs[*r].cell.borrow().done
                    && self.execs[*r].cell.borrow().finish.is_none()
                    && self.execs[*r].deadline_ns >= now as u128 + 3_000_000_000_000
            })
            .map(|r| self.execs[r].id)
            .collect()
    }
    pub fn deadline_of_live(&self, id: u64) -> Option<u128> {
        (0..self.execs.len()).filter(|r| self.exec_live(*r) && self.execs[*r].id == id).map(|r| self.execs[r].deadline_ns).min()
    }
    pub fn live_ids(&self) -> Vec<u64> {
        (0..self.execs.len()).filter(|r| self.exec_live(*r)).map(|r| self.execs[r].id).collect()
    }
    pub fn unfinished_handlers(&self) -> Vec<usize> {
        (0..self.execs.len())
            .filter(|r| self.exec_live(*r) && !self.execs[*r].cell.borrow().done && self.execs[*r].cell.borrow().finish.is_none())
            .collect()
    }

    fn counts(&self) {
        let c = match self.reqs.as_ref() {
            Some(Reqs::Base(r)) => r.channel().verif_counts(),
            Some(Reqs::Lim(r)) => r.channel().get_ref().verif_counts(),
            None => return,
        };
        log(format!("counts {} {} {}", self.name, c.0, c.1));
    }

    pub fn poll_server(&mut self) {
        if !self.alive() {
            log("noop".into());
            return;
        }
        self.fw.flag.store(false, Ordering::SeqCst);
        self.sim.borrow_mut().calls_this_poll = 0;
        let mark = simt::LOG.lock().unwrap().len();
        let waker = self.waker.clone();
        let reqs = self.reqs.as_mut().unwrap();
        let r = catch_unwind(AssertUnwindSafe(|| {
            let mut cx = Context::from_waker(&waker);
            match reqs {
                Reqs::Base(r) => r.as_mut().poll_next(&mut cx).map(|o| o.map(|r| r.map_err(|e| crate::cli::activity(&e)))),
                Reqs::Lim(r) => r.as_mut().poll_next(&mut cx).map(|o| o.map(|r| r.map_err(|e| crate::cli::activity(&e)))),
            }
        }));
        let name = self.name.clone();
        match r {
            Err(p) => {
                let site = panic_site(&*p);
                self.poisoned = true;
                self.fw.live.store(false, Ordering::SeqCst);
                if site == "spin" {
                    simt::LOG.lock().unwrap().truncate(mark);
                    log(format!("spin {name}"));
                } else {
                    log(format!("panic {name} {site}"));
                }
                std::mem::forget(self.reqs.take());
            }
            Ok(Poll::Pending) => {
                log(format!("ret {name} pending"));
                self.counts();
            }
            Ok(Poll::Ready(None)) => {
                log(format!("ret {name} none"));
                self.counts();
                self.done = true;
                self.fw.live.store(false, Ordering::SeqCst);
                self.reqs = None; // the application drops a finished stream
            }
            Ok(Poll::Ready(Some(Err(a)))) => {
                // like `Requests::execute`: the first error item ends serving; the stream is dropped
                log(format!("ret {name} itemerr({a})"));
                self.counts();
                self.done = true;
                self.fw.live.store(false, Ordering::SeqCst);
                self.reqs = None;
            }
            Ok(Poll::Ready(Some(Ok(req)))) => {
                let rid = self.execs.len();
                let (rq_id, rq_deadline) = (req.get().id, ns_since(base(), req.get().context.deadline));
                {
                    let r: &Request<Req> = req.get();
                    log(format!(
                        "yielded {rid} id={} d={} t={}",
                        r.id,
                        ns_since(base(), r.context.deadline),
                        show_trace(&r.context.trace_context)
                    ));
                }
                let (fw, waker) = flag_waker(&format!("r{rid}"));
                self.execs.push(ExecSlot { id: rq_id, deadline_ns: rq_deadline, slot: Slot::Offered(req), cell: Rc::new(RefCell::new(HCell::default())), fw, waker });
                log(format!("ret {name} item"));
                self.counts();
                // a stream that yielded an item has not parked: its consumer polls it again
                self.fw.flag.store(true, Ordering::SeqCst);
            }
        }
    }

    pub fn poll_exec(&mut self, r: usize) {
        if !self.exec_live(r) {
            log("noop".into());
            return;
        }
        let e = &mut self.execs[r];
        e.fw.flag.store(false, Ordering::SeqCst);
        if let Slot::Offered(_) = e.slot {
            let Slot::Offered(req) = std::mem::replace(&mut e.slot, Slot::Done) else { unreachable!() };
            let serve = Scripted { g: HGuard { rid: r, cell: e.cell.clone() } };
            e.slot = Slot::Running(Box::pin(req.execute(serve)));
        }
        let Slot::Running(fut) = &mut e.slot else { unreachable!() };
        let mut cx = Context::from_waker(&e.waker);
        match fut.as_mut().poll(&mut cx) {
            Poll::Pending => log(format!("ret r{r} pending")),
            Poll::Ready(()) => {
                log(format!("ret r{r} ok"));
                e.fw.live.store(false, Ordering::SeqCst);
                e.slot = Slot::Done;
            }
        }
    }

    pub fn drop_exec(&mut self, r: usize) {
        if !self.exec_live(r) {
            log("noop".into());
            return;
        }
        let e = &mut self.execs[r];
        e.fw.live.store(false, Ordering::SeqCst);
        e.slot = Slot::Done;
    }

    pub fn finish(&mut self, r: usize, res: Result<u64, usize>) {
        if !self.exec_live(r) || self.execs[r].cell.borrow().done {
            log("noop".into());
            return;
        }
        let w = {
            let mut c = self.execs[r].cell.borrow_mut();
            c.finish = Some(res);
            c.waker.take()
        };
        if let Some(w) = w {
            w.wake();
        }
    }

    /// Polls woken tasks (the request stream first, then executions in order) until none is woken,
    /// then reports what is stuck (mirrors `Server/Settle.lean`).
    pub fn settle(&mut self) {
        for _ in 0..400 {
            if self.woken() {
                self.poll_server();
            } else if let Some(r) = (0..self.execs.len()).find(|r| self.exec_woken(*r)) {
                self.poll_exec(r);
            } else {
                break;
            }
        }
        if self.woken() || (0..self.execs.len()).any(|r| self.exec_woken(r)) || !self.alive() {
            log("settled ok".into());
            return;
        }
        let (ready_now, failed, inbound, eof_read) = {
            let s = self.sim.borrow();
            (
                if s.coupled { s.buffered.len() < s.cap } else { s.ready_open && s.buffered.len() < s.cap },
                s.failed,
                s.inbound.len(),
                s.eof_read,
            )
        };
        let _ = eof_read;
        if !ready_now || failed {
            log("settled ok".into());
            return;
        }
        let mut stuck = vec![];
        let queued = self.queued_responses();
        if queued > 0 {
            stuck.push(format!("responses-queued={queued}"));
        }
        if inbound > 0 && !eof_read {
            stuck.push(format!("inbound-unread={inbound}"));
        }
        if stuck.is_empty() {
            log("settled ok".into());
        } else {
            log(format!("settled stuck {}", stuck.join(" ")));
        }
    }

    /// Responses handlers have queued that the request stream has not taken yet.
    fn queued_responses(&self) -> usize {
        match self.reqs.as_ref() {
            Some(Reqs::Base(r)) => r.verif_pending_responses(),
            Some(Reqs::Lim(r)) => r.verif_pending_responses(),
            None => 0,
        }
    }

    pub fn drop_server(&mut self) {
        if self.reqs.is_none() {
            log("noop".into());
            return;
        }
        self.fw.live.store(false, Ordering::SeqCst);
        self.reqs = None;
    }
}

// ------------------------------------------------------------------------------------------------

#[derive(Clone, Debug)]
pub enum Op {
    PollServer,
    DropServer,
    PollExec(usize),
    DropExec(usize),
    Finish(usize, Result<u64, usize>),
    InjectReq { id: u64, d: u128, tid: u128, span: u64, sampled: bool, body: u64 },
    InjectCancel { id: u64, tid: u128, span: u64, sampled: bool },
    InjectErr,
    Eof,
    SetReady(bool),
    SetFlush(bool),
    Fault(&'static str),
    FaultSkip(u64),
    SelfWake(bool),
    Take(usize),
    Advance(u64),
    Settle,
}

fn kv<'a>(toks: &[&'a str], key: &str) -> Option<&'a str> {
    let pre = format!("{key}=");
    toks.iter().find_map(|t| t.strip_prefix(pre.as_str()))
}

fn parse_trace(t: &str) -> Option<(u128, u64, bool)> {
    let mut p = t.split('/');
    Some((p.next()?.parse().ok()?, p.next()?.parse().ok()?, p.next()? == "1"))
}

impl Op {
    pub fn parse(toks: &[&str]) -> Option<Op> {
        match toks {
            ["poll-server"] => Some(Op::PollServer),
            ["drop-server"] => Some(Op::DropServer),
            ["poll-exec", r] => Some(Op::PollExec(r.parse().ok()?)),
            ["drop-exec", r] => Some(Op::DropExec(r.parse().ok()?)),
            ["finish", r, rest @ ..] => {
                let res = match (kv(rest, "ok"), kv(rest, "err")) {
                    (Some(b), _) => Ok(b.parse().ok()?),
                    (_, Some(k)) => Err(k.parse().ok()?),
                    _ => return None,
                };
                Some(Op::Finish(r.parse().ok()?, res))
            }
            ["inject", "req", rest @ ..] => {
                let (tid, span, sampled) = parse_trace(kv(rest, "t")?)?;
                Some(Op::InjectReq {
                    id: kv(rest, "id")?.parse().ok()?,
                    d: kv(rest, "d")?.parse().ok()?,
                    tid,
                    span,
                    sampled,
                    body: kv(rest, "b")?.parse().ok()?,
                })
            }
            ["inject", "cancel", rest @ ..] => {
                let (tid, span, sampled) = parse_trace(kv(rest, "t")?)?;
                Some(Op::InjectCancel { id: kv(rest, "id")?.parse().ok()?, tid, span, sampled })
            }
            ["inject", "err"] => Some(Op::InjectErr),
            ["eof"] => Some(Op::Eof),
            ["set-ready", b] => Some(Op::SetReady(*b == "1")),
            ["set-flush", b] => Some(Op::SetFlush(*b == "1")),
            ["fault", k] => ["ready", "send", "flush", "close", "next"].into_iter().find(|x| x == k).map(Op::Fault),
            ["fault-skip", n] => Some(Op::FaultSkip(n.parse().ok()?)),
            ["self-wake", b] => Some(Op::SelfWake(*b == "1")),
            ["take", n] => Some(Op::Take(n.parse().ok()?)),
            ["advance", n] => Some(Op::Advance(n.parse().ok()?)),
            ["settle"] => Some(Op::Settle),
            _ => None,
        }
    }
    pub fn render(&self) -> String {
        match self {
            Op::Settle => "settle".into(),
            Op::PollServer => "poll-server".into(),
            Op::DropServer => "drop-server".into(),
            Op::PollExec(r) => format!("poll-exec {r}"),
            Op::DropExec(r) => format!("drop-exec {r}"),
            Op::Finish(r, Ok(b)) => format!("finish {r} ok={b}"),
            Op::Finish(r, Err(k)) => format!("finish {r} err={k}"),
            Op::InjectReq { id, d, tid, span, sampled, body } => {
                format!("inject req id={id} d={d} t={tid}/{span}/{} b={body}", *sampled as u8)
            }
            Op::InjectCancel { id, tid, span, sampled } => format!("inject cancel id={id} t={tid}/{span}/{}", *sampled as u8),
            Op::InjectErr => "inject err".into(),
            Op::Eof => "eof".into(),
            Op::SetReady(b) => format!("set-ready {}", *b as u8),
            Op::SetFlush(b) => format!("set-flush {}", *b as u8),
            Op::Fault(k) => format!("fault {k}"),
            Op::FaultSkip(n) => format!("fault-skip {n}"),
            Op::SelfWake(b) => format!("self-wake {}", *b as u8),
            Op::Take(n) => format!("take {n}"),
            Op::Advance(n) => format!("advance {n}"),
        }
    }
}

fn trace_ctx(tid: u128, span: u64, sampled: bool) -> trace::Context {
    trace::Context {
        trace_id: trace::TraceId::from(tid),
        span_id: trace::SpanId::from(span),
        sampling_decision: if sampled { trace::SamplingDecision::Sampled } else { trace::SamplingDecision::Unsampled },
    }
}

pub fn apply(out: &mut Out, rt: &tokio::runtime::Runtime, sv: &mut Server, op: &Op) {
    match op {
        Op::PollServer => sv.poll_server(),
        Op::DropServer => sv.drop_server(),
        Op::PollExec(r) => sv.poll_exec(*r),
        Op::DropExec(r) => sv.drop_exec(*r),
        Op::Finish(r, res) => sv.finish(*r, *res),
        Op::InjectReq { id, d, tid, span, sampled, body } => {
            let ctx = crate::cli::make_ctx(*d, *tid, *span, *sampled);
            sv.sim.borrow_mut().inject(Inb::Msg(ClientMessage::Request(Request { context: ctx, id: *id, message: *body })));
        }
        Op::InjectCancel { id, tid, span, sampled } => {
            sv.sim.borrow_mut().inject(Inb::Msg(ClientMessage::Cancel {
                trace_context: trace_ctx(*tid, *span, *sampled),
                request_id: *id,
            }));
        }
        Op::InjectErr => sv.sim.borrow_mut().inject(Inb::Err),
        Op::Eof => sv.sim.borrow_mut().set_eof(),
        Op::SetReady(b) => sv.sim.borrow_mut().set_ready(*b),
        Op::SetFlush(b) => sv.sim.borrow_mut().set_flush(*b),
        Op::FaultSkip(n) => sv.sim.borrow_mut().fault_skip = *n,
        Op::SelfWake(b) => sv.sim.borrow_mut().self_wake = *b,
        Op::Fault(k) => {
            let mut s = sv.sim.borrow_mut();
            match *k {
                "ready" => s.fault_ready = true,
                "send" => s.fault_send = true,
                "flush" => s.fault_flush = true,
                "close" => s.fault_close = true,
                _ => s.fault_next = true,
            }
        }
        Op::Take(n) => {
            let items = sv.sim.borrow_mut().take(*n);
            for m in items {
                log(format!("took {} {}", sv.name, show_response(&m)));
            }
        }
        Op::Advance(n) => {
            rt.block_on(tokio::time::advance(Duration::from_nanos(*n)));
        }
        Op::Settle => sv.settle(),
    }
    crate::cli::flush_log(out);
}

pub struct Params {
    pub limit: Option<usize>,
    pub resp: usize,
    pub cap: usize,
    pub coupled: bool,
    pub wo: bool,
    pub faults: bool,
    pub extreme: bool,
    pub long: bool,
    pub sub: u8,
}

impl Params {
    pub fn header(&self) -> String {
        format!(
            "limit={} resp={} cap={} coupled={} wo={} faults={} extreme={} long={} sub={}",
            self.limit.map(|l| l.to_string()).unwrap_or("none".into()),
            self.resp,
            self.cap,
            self.coupled as u8,
            self.wo as u8,
            self.faults as u8,
            self.extreme as u8,
            self.long as u8,
            self.sub
        )
    }
    pub fn from_header(h: &str) -> Params {
        let g = |k: &str, d: u64| crate::header_param(h, k).and_then(|v| v.parse().ok()).unwrap_or(d);
        Params {
            limit: crate::header_param(h, "limit").and_then(|v| v.parse().ok()),
            resp: g("resp", 1) as usize,
            cap: g("cap", 1) as usize,
            coupled: g("coupled", 1) == 1,
            wo: g("wo", 0) == 1,
            faults: g("faults", 0) == 1,
            extreme: g("extreme", 0) == 1,
            long: g("long", 0) == 1,
            sub: g("sub", 0) as u8,
        }
    }
}

struct Gen {
    now: u64,
    nreq: u64,
    ids: Vec<u64>,
    deadlines: Vec<u64>,
    /// ids whose response was seen on the wire (request completed)
    answered: Vec<u64>,
    /// ids a cancel was injected for (never re-used: the cancel may be read just before the new request)
    cancelled: Vec<u64>,
    forced: std::collections::VecDeque<Op>,
    v2_done: bool,
    /// the clock stays below this (ns): earliest deadline of a request a duplicate was injected for
    pin: u128,
    /// answered ids that were re-used already
    reused: Vec<u64>,
}

fn gen_op(rng: &mut Rng, sv: &Server, g: &mut Gen, p: &Params) -> Op {
    if let Some(op) = g.forced.pop_front() {
        return op;
    }
    // a burst: dozens of requests readable in one poll (refusal budgets, batch limits)
    if crate::cli::GEN_BURST.load(std::sync::atomic::Ordering::SeqCst) != 0 && g.nreq < 200 && rng.chance(1, 10) {
        let n = 30 + rng.below(40);
        for _ in 0..n {
            g.nreq += 1;
            let id = g.nreq * 3;
            g.ids.push(id);
            let d = g.now + 3_600_000_000_000 + (g.nreq % 16) * 2_000_000;
            g.forced.push_back(Op::InjectReq { id, d: d as u128, tid: 200 + g.nreq as u128, span: 8000 + g.nreq, sampled: false, body: 600 + g.nreq });
        }
        g.forced.push_back(Op::PollServer);
        return g.forced.pop_front().unwrap();
    }
    if crate::cli::GEN_V2.load(std::sync::atomic::Ordering::SeqCst) != 0 && !g.v2_done {
        g.v2_done = true;
        // (only without a request limit: `MaxRequests` returns `Pending` on `poll_ready -> Pending` without flushing
        // and so relies on the sink to wake it; see DESIGN.md, finding F7 and the note on staging sinks)
        if p.limit.is_none() && rng.chance(1, 3) {
            return Op::SelfWake(false);
        }
    }
    let live = sv.live_execs();
    let woken: Vec<usize> = live.iter().copied().filter(|r| sv.exec_woken(*r)).collect();
    let pollable = if p.wo { woken } else { live.clone() };
    let unfinished = sv.unfinished_handlers();
    let wire_len = sv.sim.borrow().wire.len();
    let s_pollable = if p.wo { sv.woken() } else { sv.alive() };
    let w = [
        if g.nreq >= 14 { 0 } else { 13 },                 // 0 inject req
        if g.ids.is_empty() { 0 } else { 5 },              // 1 inject cancel
        if s_pollable { 24 } else { 0 },                   // 2 poll-server
        if pollable.is_empty() { 0 } else { 16 },          // 3 poll-exec
        if unfinished.is_empty() { 0 } else { 9 },         // 4 finish
        if live.is_empty() { 0 } else { 3 },               // 5 drop-exec
        if wire_len > 0 { 6 } else { 0 },                  // 6 take
        8,                                                 // 7 advance
        if p.coupled { 0 } else { 3 },                     // 8 set-ready
        if p.coupled { 3 } else { 0 },                     // 9 set-flush
        if p.faults { 2 } else { 0 },                      // 10 fault
        if p.faults { 1 } else { 0 },                      // 11 inject err
        1,                                                 // 12 eof
        if p.faults && sv.alive() { 1 } else { 0 },        // 13 drop-server
        if p.wo { 6 } else { 0 },                          // 14 settle
    ];
    match rng.weighted(&w) {
        0 => {
            g.nreq += 1;
            // mostly fresh ids; sometimes a duplicate of a request certainly still in flight, or the id
            // of a completed (answered) request.  An id is not re-used after its request was cancelled,
            // expired or abandoned: a stale buffered response could then answer the new request, which
            // is outside the properties' quantifiers (DESIGN.md, C04 scope note).
            let stable: Vec<u64> = sv.stable_ids(g.now).into_iter().filter(|i| !g.cancelled.contains(i)).collect();
            let mut reuse = stable.clone();
            reuse.extend(g.answered.iter().copied().filter(|i| !sv.live_ids().contains(i) && !g.cancelled.contains(i)));
            let id = if !reuse.is_empty() && rng.chance(1, 5) { *rng.pick(&reuse) } else { g.nreq * 3 };
            if stable.contains(&id) {
                // a duplicate of an in-flight request: the clock must not pass the original's deadline while the
                // duplicate may still be unread (it would then be accepted as a new request: re-use after expiry)
                if let Some(d) = sv.deadline_of_live(id) {
                    g.pin = g.pin.min(d);
                }
            } else {
                // an answered id is re-used once per script
                g.answered.retain(|i| *i != id);
                g.reused.push(id);
            }
            g.ids.push(id);
            let rel = *rng.pick(&[0u64, 300_000, 2_000_000, 20_000_000, 500_000_000, 3_600_000_000_000]);
            let sub = *rng.pick(&[0u64, 1, 999_999, 400_000]);
            let far = ((g.now + rel) / 32_000_000 + 1) * 32_000_000 + (g.nreq % 16) * 2_000_000 + sub;
            let d = if rel == 0 && rng.chance(1, 2) { g.now / 2 } else if rel < 2_000_000 { g.now + rel } else { far };
            let d = if p.long && rng.chance(1, 2) {
                let day = 86_400_000_000_000u64;
                g.now + *rng.pick(&[7 * day, 30 * day, 200 * day]) + (g.nreq % 16) * 2_000_000 + 1_000_000
            } else {
                d
            };
            g.deadlines.push(d);
            let d = if p.extreme && rng.chance(1, 3) {
                (g.now + g.nreq * 2_000_000) as u128 + *rng.pick(&crate::cli::EXTREME_DEADLINES_NS)
            } else {
                d as u128
            };
            let id = if p.extreme && rng.chance(1, 4) { u64::MAX - g.nreq } else { id };
            // boundary-valued trace fields too (a child span id is derived from the peer's)
            let (tid, span) = if p.extreme && rng.chance(1, 4) {
                (u128::MAX - g.nreq as u128, u64::MAX - rng.below(2))
            } else {
                (200 + g.nreq as u128, 8000 + g.nreq)
            };
            Op::InjectReq { id, d, tid, span, sampled: rng.chance(1, 2), body: 600 + g.nreq }
        }
        1 => {
            let id = if rng.chance(1, 8) { 999 } else { *rng.pick(&g.ids) };
            g.cancelled.push(id);
            Op::InjectCancel { id, tid: 300, span: 8500, sampled: false }
        }
        2 => Op::PollServer,
        3 => Op::PollExec(*rng.pick(&pollable)),
        4 => {
            let r = *rng.pick(&unfinished);
            Op::Finish(r, if rng.chance(1, 6) { Err(rng.below(19) as usize) } else { Ok(7000 + r as u64) })
        }
        5 => Op::DropExec(*rng.pick(&live)),
        6 => Op::Take(1 + rng.below(3) as usize),
        7 => {
            let step = if !g.deadlines.is_empty() && rng.chance(2, 3) {
                let d = *rng.pick(&g.deadlines);
                let target = ((d + 999_999) / 1_000_000) * 1_000_000;
                let t = match rng.below(4) {
                    0 => target.saturating_sub(1),
                    1 => target,
                    2 => target + 1,
                    _ => d,
                };
                t.saturating_sub(g.now)
            } else {
                *rng.pick(&[1u64, 250_000, 1_000_000, 7_500_000])
            };
            let step = step.max(1);
            // stay below 2^35 ms of virtual time: beyond it an idle timer wheel's range is exhausted (known finding)
            let step = if g.now + step > crate::cli::MAX_VIRTUAL_NS { 1_000_000 } else { step };
            // … and a second short of the deadline of a request a duplicate was injected for
            let step = if (g.now + step) as u128 + 1_000_000_000 > g.pin { 1 } else { step };
            g.now += step;
            Op::Advance(step)
        }
        8 => Op::SetReady(rng.chance(1, 2)),
        9 => Op::SetFlush(rng.chance(1, 2)),
        10 => {
            let f = Op::Fault(*rng.pick(&["ready", "send", "flush", "next"]));
            if crate::cli::GEN_V2.load(std::sync::atomic::Ordering::SeqCst) != 0 && !p.wo && rng.chance(1, 2) {
                g.forced.push_back(f);
                Op::FaultSkip(1 + rng.below(3))
            } else {
                f
            }
        }
        11 => Op::InjectErr,
        12 => Op::Eof,
        13 => Op::DropServer,
        _ => Op::Settle,
    }
}

pub fn run_script(out: &mut Out, idx: u64, p: &Params, rng: &mut Rng, script: Option<&[Op]>, len: usize) {
    out.line(&format!("script {idx} srv {}", p.header()));
    let rt = crate::cli::new_runtime();
    let _g = rt.enter();
    crate::cli::BASE.with(|b| *b.borrow_mut() = Some(tarpc::verif_hooks::now()));
    simt::take_log();
    let _sub = crate::cli::install_subscriber(p.sub);
    let mut sv = Server::new("s0", p.limit, p.resp, p.cap, p.coupled);
    let mut g = Gen { now: 0, nreq: 0, ids: vec![], deadlines: vec![], answered: vec![], cancelled: vec![], forced: Default::default(), v2_done: false, pin: u128::MAX, reused: vec![] };
    let mut i = 0usize;
    loop {
        let op = match script {
            Some(s) => {
                if i >= s.len() {
                    break;
                }
                s[i].clone()
            }
            None => {
                if i >= len {
                    break;
                }
                gen_op(rng, &sv, &mut g, p)
            }
        };
        i += 1;
        out.line(&format!("op {}", op.render()));
        apply(out, &rt, &mut sv, &op);
        for m in sv.sim.borrow().wire.iter() {
            if m.message.is_ok() && !g.answered.contains(&m.request_id) && !g.reused.contains(&m.request_id) {
                g.answered.push(m.request_id);
            }
        }
    }
    for e in sv.execs.iter() {
        e.fw.live.store(false, Ordering::SeqCst);
    }
    sv.fw.live.store(false, Ordering::SeqCst);
    // handler drop events during teardown are not part of the script
    for e in sv.execs.iter() {
        e.cell.borrow_mut().done = true;
    }
    drop(sv);
    simt::take_log();
}

pub fn generate(out: &mut Out, seed: u64, scripts: u64, len: usize, wo: bool, faults: bool, extreme: bool, long: bool) {
    for idx in 0..scripts {
        let mut rng = Rng::new(seed.wrapping_mul(1_000_003).wrapping_add(idx));
        let p = Params {
            limit: match rng.below(4) {
                0 => None,
                k => Some(k as usize - 1),
            },
            resp: if crate::cli::GEN_BURST.load(std::sync::atomic::Ordering::SeqCst) != 0 { *rng.pick(&[2usize, 64]) } else { 1 + rng.below(2) as usize },
            cap: if crate::cli::GEN_BURST.load(std::sync::atomic::Ordering::SeqCst) != 0 { *rng.pick(&[2usize, 128]) } else { 1 + rng.below(3) as usize },
            coupled: rng.chance(2, 3),
            wo,
            faults,
            extreme,
            long,
            sub: crate::cli::GEN_SUB.load(std::sync::atomic::Ordering::SeqCst),
        };
        run_script(out, idx, &p, &mut rng, None, len);
    }
}

#[allow(dead_code)]
fn _unused(_: usize) -> usize {
    kind_index(std::io::ErrorKind::Other)
}

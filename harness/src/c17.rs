//! C17, family `c17camel`: differential test of the real `snake_to_camel` of the attribute macro.
//! `build.rs` copies the function's text verbatim out of `/repo/plugins/src/lib.rs`.
//! (Family `c17svc` — real macro expansions — is compiled and run by `tools/c17_gen.py` /
//! `tools/vlib/c17_extra.py`, because every service definition is a separate program.)
use crate::rng::Rng;
use crate::Out;

include!(concat!(env!("OUT_DIR"), "/snake_to_camel.rs"));

const LOWER: &[u8] = b"abcdefghijklmnopqrstuvwxyz";
const UPPER: &[u8] = b"ABCDEFGHIJKLMNOPQRSTUVWXYZ";
const DIGIT: &[u8] = b"0123456789";

/// An identifier-like string over `[A-Za-z0-9_]` (the character set the Lean model covers): leading,
/// trailing and repeated underscores, mixed case, digits (also right after an underscore), single
/// characters.
pub fn gen_ident(rng: &mut Rng) -> String {
    let mut s = String::new();
    // style: 0 snake, 1 mixed, 2 SCREAMING, 3 camelCase-ish, 4 anything
    let style = rng.weighted(&[30, 25, 10, 15, 20]);
    let len = match rng.weighted(&[15, 60, 25]) {
        0 => 1,
        1 => 2 + rng.below(8),
        _ => 8 + rng.below(10),
    };
    for _ in 0..rng.weighted(&[70, 20, 10]) {
        s.push('_');
    }
    for i in 0..len {
        let us_w = if len == 1 { 5 } else { 18 };
        let (lw, uw, dw) = match style {
            0 => (70, 0, 8),
            1 => (40, 35, 8),
            2 => (0, 70, 8),
            3 => (60, if i > 0 { 20 } else { 0 }, 5),
            _ => (30, 30, 22),
        };
        match rng.weighted(&[lw, uw, dw, us_w]) {
            0 => s.push(*rng.pick(LOWER) as char),
            1 => s.push(*rng.pick(UPPER) as char),
            2 => s.push(*rng.pick(DIGIT) as char),
            _ => {
                s.push('_');
                if rng.chance(1, 4) {
                    s.push('_');
                }
            }
        }
    }
    for _ in 0..rng.weighted(&[75, 18, 7]) {
        s.push('_');
    }
    if s.is_empty() {
        s.push('_');
    }
    s
}

fn run_op(out: &mut Out, ident: &str) {
    out.line(&format!("op camel {ident}"));
    let r = snake_to_camel(ident);
    if r.is_empty() {
        out.line("obs camel");
    } else {
        out.line(&format!("obs camel {r}"));
    }
}

pub fn generate(out: &mut Out, seed: u64, scripts: u64, len: usize) {
    for idx in 0..scripts {
        let mut rng = Rng::new(seed.wrapping_mul(1_000_003).wrapping_add(idx) ^ 0xC17);
        out.line(&format!("script {idx} c17camel"));
        for _ in 0..len {
            let id = gen_ident(&mut rng);
            run_op(out, &id);
        }
    }
}

/// Replays the `op camel <ident>` lines of one script (anything else is `obs bad-op`, as in the model).
pub fn replay_script(out: &mut Out, idx: u64, ops: &[String]) {
    out.line(&format!("script {idx} c17camel"));
    for o in ops {
        let toks: Vec<&str> = o.split_whitespace().collect();
        match toks.as_slice() {
            ["camel", id] => run_op(out, id),
            ["camel"] => {
                out.line("op camel");
                out.line("obs camel");
            }
            _ => {
                out.line(&format!("op {}", toks.join(" ")));
                out.line("obs bad-op");
            }
        }
    }
}

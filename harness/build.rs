//! Extracts `fn snake_to_camel` verbatim from the macro crate so that `src/c17.rs` runs the real
//! function (the macro crate is a proc-macro crate and exports nothing but the macros).
use std::{env, fs, path::PathBuf};

const SRC: &str = "/repo/plugins/src/lib.rs";

fn main() {
    println!("cargo:rerun-if-changed={SRC}");
    println!("cargo:rerun-if-changed=build.rs");
    let text = fs::read_to_string(SRC).unwrap_or_else(|e| panic!("cannot read {SRC}: {e}"));
    let start = text
        .lines()
        .scan(0usize, |off, l| {
            let s = *off;
            *off += l.len() + 1;
            Some((s, l))
        })
        .find(|(_, l)| l.starts_with("fn snake_to_camel("))
        .map(|(s, _)| s)
        .unwrap_or_else(|| panic!("`fn snake_to_camel(` not found at the start of a line in {SRC}"));
    // Brace matching from the first `{` after the signature; string and char literals are skipped.
    let bytes = text.as_bytes();
    let mut i = start;
    let mut depth = 0i32;
    let mut seen_open = false;
    let mut end = None;
    while i < bytes.len() {
        match bytes[i] {
            b'"' => {
                i += 1;
                while i < bytes.len() && bytes[i] != b'"' {
                    if bytes[i] == b'\\' {
                        i += 1;
                    }
                    i += 1;
                }
            }
            b'\'' => {
                // char literal `'x'` / `'\x'`; a lifetime has no closing quote two or three bytes on
                if i + 2 < bytes.len() && bytes[i + 1] != b'\\' && bytes[i + 2] == b'\'' {
                    i += 2;
                } else if i + 3 < bytes.len() && bytes[i + 1] == b'\\' && bytes[i + 3] == b'\'' {
                    i += 3;
                }
            }
            b'/' if i + 1 < bytes.len() && bytes[i + 1] == b'/' => {
                while i < bytes.len() && bytes[i] != b'\n' {
                    i += 1;
                }
            }
            b'{' => {
                depth += 1;
                seen_open = true;
            }
            b'}' => {
                depth -= 1;
                if seen_open && depth == 0 {
                    end = Some(i + 1);
                    break;
                }
            }
            _ => {}
        }
        i += 1;
    }
    let end = end.expect("unbalanced braces in fn snake_to_camel");
    let out = PathBuf::from(env::var("OUT_DIR").unwrap()).join("snake_to_camel.rs");
    fs::write(&out, format!("{}\n", &text[start..end])).unwrap();
}

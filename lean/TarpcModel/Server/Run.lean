import TarpcModel.Server.Model
/- Typed operations of the `srv` family and the event trace (ops interleaved with observations). -/
namespace TarpcModel.Server

inductive FaultKind where
  | ready | send | flush | close | next
deriving Repr, DecidableEq

inductive SOp where
  | pollServer
  | dropServer
  | pollExec (r : Nat)
  | dropExec (r : Nat)
  | finish (r : Nat) (res : Res)
  | injectReq (id : Nat) (deadline : Nat) (trace : Trace) (body : Nat)
  | injectCancel (id : Nat) (trace : Trace)
  | injectErr
  | eof
  | setReady (b : Bool)
  | setFlush (b : Bool)
  | fault (k : FaultKind)
  | faultSkip (n : Nat)          -- the next armed fault lets `n` calls of its kind through first
  | selfWake (b : Bool)          -- whether the transport wakes its owner when the owner's own flush restores readiness
  | take (n : Nat)
  | advance (n : Nat)
deriving Repr, DecidableEq

structure Sys where
  s   : St
  now : Nat := 0
deriving Repr

def armFault (t : SimT) : FaultKind → SimT
  | .ready => { t with faultReady := true }
  | .send => { t with faultSend := true }
  | .flush => { t with faultFlush := true }
  | .close => { t with faultClose := true }
  | .next => { t with faultNext := true }

def applyOp (c : Sys) : SOp → Sys
  | .pollServer => { c with s := pollServer c.s c.now }
  | .dropServer => { c with s := dropServer c.s }
  | .pollExec r => { c with s := pollExec c.s r c.now }
  | .dropExec r => { c with s := dropExec c.s r c.now }
  | .finish r res => { c with s := finishHandler c.s r res }
  | .injectReq id d tr b => { c with s := liftT c.s (c.s.t.inject (.msg (.request id d tr b))) }
  | .injectCancel id tr => { c with s := liftT c.s (c.s.t.inject (.msg (.cancel id tr))) }
  | .injectErr => { c with s := liftT c.s (c.s.t.inject .err) }
  | .eof => { c with s := liftT c.s c.s.t.setEof }
  | .setReady b => { c with s := liftT c.s (c.s.t.setReady b) }
  | .setFlush b => { c with s := liftT c.s (c.s.t.setFlush b) }
  | .fault k => { c with s := { c.s with t := armFault c.s.t k } }
  | .faultSkip n => { c with s := { c.s with t := { c.s.t with faultSkip := n } } }
  | .selfWake b => { c with s := { c.s with t := { c.s.t with selfWake := b } } }
  | .take n =>
      let (t, ms) := c.s.t.take n
      { c with s := ms.foldl (fun s m => emit s (.took (tid s) m)) { c.s with t := t } }
  | .advance n => { s := onAdvance c.s (c.now + n), now := c.now + n }

def stepOp (c : Sys) (op : SOp) : Sys × List Obs :=
  let c' := applyOp { c with s := { c.s with obs := [] } } op
  ({ c' with s := { c'.s with obs := [] } }, c'.s.obs.reverse)

inductive SEv where
  | op (o : SOp)
  | obs (o : Obs)
deriving Repr, DecidableEq

def trace (c : Sys) : List SOp → List SEv
  | [] => []
  | op :: ops =>
      let (c', os) := stepOp c op
      SEv.op op :: (os.map SEv.obs ++ trace c' ops)

def initSys (limit : Option Nat) (respCap tcap : Nat) (coupled : Bool) : Sys :=
  { s := init 0 limit respCap tcap coupled }

end TarpcModel.Server

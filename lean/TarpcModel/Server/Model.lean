import TarpcModel.Prim.DelayQ
import TarpcModel.Sim.Obs
import TarpcModel.Gen.Flags
/-
Poll-granular model of the tarpc server side of one connection: `BaseChannel` (stream + sink),
`server::InFlightRequests`, the optional `MaxRequests` limiter, `Requests` (pump_read /
pump_write / ensure_writeable) and `InFlightRequest::execute` with its `ResponseGuard`
(`tarpc/src/server.rs`, `server/in_flight_requests.rs`, `server/limits/requests_per_channel.rs`).
The handler is scripted: it logs every poll and completes when told to.
-/
namespace TarpcModel.Server

structure SEntry where
  id       : Nat
  timerKey : Nat
  rid      : Nat          -- the execution holding the matching `AbortRegistration`
  /-- `deadline_remainder` (ns): how much of the time until the deadline the timer has not been armed
  with yet; nonzero only for deadlines further away than the clamp -/
  remainder : Nat := 0
  /-- `timer_due` (ns): when the armed timer is due, exactly (`now + timeout` at the time it was armed; the
  queue itself rounds up to the millisecond) -/
  dueAt : Nat := 0
deriving Repr, DecidableEq

inductive EPhase where
  | offered     -- an `InFlightRequest` the application holds, `execute` not called yet
  | running     -- inside `serve.serve(..).await`
  | sending     -- handler done; waiting for a slot in the response queue
  | done        -- the execute future completed
  | gone        -- dropped before completing
deriving Repr, DecidableEq

structure Exec where
  rid        : Nat
  id         : Nat
  deadline   : Nat
  trace      : Trace
  body       : Nat
  phase      : EPhase := .offered
  guardArmed : Bool := true
  aborted    : Bool := false
  abortWaker : Bool := false
  hDone      : Bool := false          -- the handler returned
  finishCmd  : Option Res := none     -- the script told the handler to return this
  resp       : Option Res := none     -- the handler's result, not yet queued
  woken      : Bool := true
  vis        : Option Nat := none     -- the number the application knows it by (set when yielded)
deriving Repr, DecidableEq

structure St where
  sidx        : Nat := 0
  nextVis     : Nat := 0
  limit       : Option Nat := none
  respCap     : Nat := 1
  ensureLoop  : Bool := Gen.serverEnsureLoop
  throttleAfterRead : Bool := Gen.throttleAfterRead
  inflight    : List SEntry := []
  timers      : DelayQ := {}
  -- guard cancellations (unbounded mpsc); the channel itself holds a sender, so never closed
  cancelQ     : List Nat := []
  cancelRxWaker : Bool := false
  -- response fan-in (bounded mpsc)
  respQ       : List (Nat × Res) := []
  rqAvail     : Nat := 1
  rqWaiters   : List Nat := []
  rqAssigned  : List Nat := []
  rqRxWaker   : Bool := false
  readFused   : Bool := false
  execs       : List Exec := []
  nextFresh   : Nat := 0
  done        : Option Ret := none
  dropped     : Bool := false
  woken       : Bool := true
  poisoned    : Bool := false
  t           : SimT := {}
  obs         : List Obs := []
deriving Repr

def tid (s : St) : TaskId := .server s.sidx
def emit (s : St) (o : Obs) : St := { s with obs := o :: s.obs }

def wakeServer (s : St) : St :=
  if s.dropped || s.done.isSome then s else emit { s with woken := true } (.wake (.server s.sidx))

def getExec (s : St) (rid : Nat) : Option Exec := s.execs.find? (·.rid == rid)

def updExec (s : St) (rid : Nat) (f : Exec → Exec) : St :=
  { s with execs := s.execs.map (fun e => if e.rid == rid then f e else e) }

def execLive (e : Exec) : Bool :=
  match e.phase with
  | .offered | .running | .sending => true
  | _ => false

def getExecVis (s : St) (vid : Nat) : Option Exec := s.execs.find? (·.vis == some vid)

def wakeExec (s : St) (rid : Nat) : St :=
  match getExec s rid with
  | some e =>
      match e.vis with
      | some v => if execLive e then emit (updExec s rid (fun e => { e with woken := true })) (.wake (.exec v)) else s
      | none => s
  | none => s

/-- `AbortHandle::abort`: set the flag, wake the registered waker. -/
def abortExec (s : St) (rid : Nat) : St :=
  match getExec s rid with
  | none => s
  | some e =>
      let s := updExec s rid (fun e => { e with aborted := true, abortWaker := false })
      if e.abortWaker then wakeExec s rid else s

/-! ### transport calls (recorded) -/

def emitViolations (s : St) (before : Nat) : St :=
  ((s.t.violations.take (s.t.violations.length - before)).reverse).foldl
    (fun s w => emit s (.tViolation (tid s) w)) s

def tReady (s : St) : St × PollRes :=
  let n := s.t.violations.length
  let (t, r, w) := s.t.pollReady
  let s := emit (emitViolations { s with t := t } n) (.tReady (tid s) r)
  (if w then wakeServer s else s, r)

def tFlush (s : St) : St × PollRes :=
  let n := s.t.violations.length
  let (t, r, w) := s.t.pollFlush
  let s := emit (emitViolations { s with t := t } n) (.tFlush (tid s) r)
  (if w then wakeServer s else s, r)

def tSend (s : St) (m : Msg) : St × Bool :=
  let n := s.t.violations.length
  let (t, ok) := s.t.startSend m
  (emit (emitViolations { s with t := t } n) (.tSend (tid s) m ok), ok)

def tNext (s : St) : St × NextRes :=
  if s.readFused then (s, .eof)
  else
    let (t, r) := s.t.pollNext
    let s := emit { s with t := t } (.tNext (tid s) r)
    (if r == .eof then { s with readFused := true } else s, r)

/-! ### in-flight table (`server::InFlightRequests`) -/

def findEntry (s : St) (id : Nat) : Option SEntry := s.inflight.find? (·.id == id)

def removeTimer (s : St) (key : Nat) : St :=
  match s.timers.remove key with
  | some (q, woke) =>
      let s := { s with timers := q }
      if woke then wakeServer s else s
  | none => emit { s with poisoned := true } (.panic (tid s) "deadlines.remove: invalid key")

/-- `remove_request`: forget without aborting (a response is being sent, or the guard cancelled). -/
def removeRequest (s : St) (id : Nat) : St × Bool :=
  match findEntry s id with
  | none => (s, false)
  | some e => (removeTimer { s with inflight := s.inflight.filter (·.id != id) } e.timerKey, true)

/-- `cancel_request`: forget, abort the handler, disarm the timer. -/
def cancelRequest (s : St) (id : Nat) : St × Bool :=
  match findEntry s id with
  | none => (s, false)
  | some e =>
      let s := { s with inflight := s.inflight.filter (·.id != id) }
      let s := abortExec s e.rid
      (removeTimer s e.timerKey, true)

/-- The timeout a deadline timer is armed with (`Gen.serverTimerClampSecs`; 0 = not clamped). -/
def clampTimeout (t : Nat) : Nat :=
  if Gen.serverTimerClampSecs == 0 then t else min t (Gen.serverTimerClampSecs * 1000000000)

/-- `poll_expired` (with the `is_empty` short-cut). -/
inductive ExpRes where
  | ready | closed | pending
deriving Repr, DecidableEq

/-- What is left of `deadline_remainder` once the lateness of the poll — measured from the exact time the
timer was due — is taken off. -/
def restOf (now : Nat) (x : SEntry) : Nat := x.remainder - (now - x.dueAt)

/-- `poll_expired` finds that the timer that fired was armed with a clamped timeout and that some of the time
until the deadline is still left (`restOf`): it arms a new timer with (the next clamped part of) the rest,
records its key, when it is due and what is then still left; `none` = the `DelayQueue::insert` panicked. -/
def rearm (s : St) (now : Nat) (en : SEntry) : Option St :=
  match s.timers.insert now (clampTimeout (restOf now en)) en.id with
  | (_, .panic, _) => none
  | (q, .ok key, woke) =>
      let s := if woke then wakeServer s else s
      some { s with timers := q,
                    inflight := s.inflight.map (fun x =>
                      if x.id == en.id then
                        { x with timerKey := key,
                                 dueAt := now + clampTimeout (restOf now x),
                                 remainder := restOf now x - clampTimeout (restOf now x) }
                      else x) }

/-- One iteration of the loop of `poll_expired`; `none` = `continue` (a timer was re-armed). -/
def expireStep (s : St) (now : Nat) : St × Option ExpRes :=
  match s.timers.pollExpired now with
  | (q, .expired e) =>
      let s1 := { s with timers := q }
      match findEntry s1 e.val with
      | some en =>
          if restOf now en != 0 then
            match rearm s1 now en with
            | some s2 => (s2, none)
            -- the task panicked: nothing runs on this state any more (it is left as before the poll)
            | none => (emit { s with poisoned := true } (.panic (tid s) "DelayQueue::insert: invalid deadline"), some .closed)
          else (abortExec { s1 with inflight := s1.inflight.filter (·.id != e.val) } en.rid, some .ready)
      | none => (s1, some .ready)
  | (q, .none) => ({ s with timers := q }, some .closed)
  | (q, .pending) => ({ s with timers := q }, some .pending)

def pollExpiredLoop : Nat → St → Nat → St × ExpRes
  | 0, s, _ => (emit s (.spin (tid s)), .pending)
  | fuel + 1, s, now =>
      match expireStep s now with
      | (s, some r) => (s, r)
      | (s, none) => pollExpiredLoop fuel s now

/-- How many more times a timer with this much left can be re-armed. -/
def rearmSteps (r : Nat) : Nat :=
  if Gen.serverTimerClampSecs == 0 then (if r == 0 then 0 else 1)
  else (r + Gen.serverTimerClampSecs * 1000000000 - 1) / (Gen.serverTimerClampSecs * 1000000000)

/-- Every `continue` re-arms a timer, which uses up one of its `rearmSteps`. -/
def expireFuel (s : St) : Nat := (s.inflight.map (fun en => rearmSteps en.remainder)).sum + 1

def pollExpired (s : St) (now : Nat) : St × ExpRes :=
  if s.timers.isEmpty then (s, .closed) else pollExpiredLoop (expireFuel s) s now

/-- `start_request`; `none` = duplicate id (ignored). -/
def startRequest (s : St) (now : Nat) (id deadline : Nat) (trace : Trace) (body : Nat) : St × Option Exec :=
  if (findEntry s id).isSome then (s, none)
  else
    match s.timers.insert now (clampTimeout (deadline - now)) id with
    | (_, .panic, _) => (emit { s with poisoned := true } (.panic (tid s) "DelayQueue::insert: invalid deadline"), none)
    | (q, .ok key, woke) =>
        let s := if woke then wakeServer s else s
        let rid := s.execs.length
        let tr : Trace := { trace with span := .fresh s.nextFresh }
        let e : Exec := { rid := rid, id := id, deadline := deadline, trace := tr, body := body, guardArmed := false }
        ({ s with timers := q, nextFresh := s.nextFresh + 1,
                  inflight := s.inflight ++ [{ id := id, timerKey := key, rid := rid,
                                               remainder := (deadline - now) - clampTimeout (deadline - now),
                                               dueAt := now + clampTimeout (deadline - now) }],
                  execs := s.execs ++ [e] }, some e)

/-! ### `BaseChannel::poll_next` -/

inductive SPoll (α : Type) where
  | pending | none | some (a : α) | err (a : Activity) | spin

inductive RStatus where
  | ready | pending | closed
deriving Repr, DecidableEq

def combine : RStatus → RStatus → RStatus
  | .ready, _ => .ready
  | _, .ready => .ready
  | .closed, .closed => .closed
  | _, _ => .pending

def basePollNext : Nat → St → Nat → St × SPoll Exec
  | 0, s, _ => (emit s (.spin (tid s)), .spin)
  | fuel + 1, s, now =>
      -- guard cancellations
      let (s, cst) := match s.cancelQ with
        | id :: rest => ((removeRequest { s with cancelQ := rest } id).1, RStatus.ready)
        | [] => ({ s with cancelRxWaker := true }, RStatus.closed)
      -- expirations
      let (s, e) := pollExpired s now
      let est := match e with | .ready => RStatus.ready | .closed => RStatus.closed | .pending => RStatus.pending
      if s.poisoned then (s, .spin) else
      -- inbound
      match tNext s with
      | (s, .err) => (s, .err .read)
      | (s, .item (.request id d tr b)) =>
          match startRequest s now id d tr b with
          | (s, some ex) => (s, .some ex)
          | (s, none) => if s.poisoned then (s, .spin) else basePollNext fuel s now
      | (s, nx) =>
          let (s, rst) := match nx with
            | .item (.cancel id _) => ((cancelRequest s id).1, RStatus.ready)
            | .item _ => (s, RStatus.ready)
            | .eof => (s, RStatus.closed)
            | _ => (s, RStatus.pending)
          if s.poisoned then (s, .spin) else
          match combine (combine cst est) rst with
          | .ready => basePollNext fuel s now
          | .closed => (s, .none)
          | .pending => (s, .pending)

def baseFuel (s : St) : Nat := s.cancelQ.length + s.timers.len + s.t.inbound.length + 3

/-- `BaseChannel::start_send`: only while the id is tracked; `none` = silently dropped. -/
def baseStartSend (s : St) (id : Nat) (res : Res) : St × Option Bool :=
  match removeRequest s id with
  | (s, true) => let (s, ok) := tSend s (.response id res); (s, some ok)
  | (s, false) => (s, none)

/-! ### `MaxRequests::poll_next` -/

def throttleKindIdx : Nat := 10    -- io::ErrorKind::WouldBlock in the harness' kind list

/-- The limiter as first found: test the count, ready the sink, read, throttle. -/
def limitedPollNextLegacy (limit : Nat) : Nat → St → Nat → St × SPoll Exec
  | 0, s, _ => (emit s (.spin (tid s)), .spin)
  | fuel + 1, s, now =>
      if s.inflight.length ≥ limit then
        match tReady s with
        | (s, .pending) => (s, .pending)
        | (s, .err) => (s, .err .ready)
        | (s, .ready) =>
            match basePollNext (baseFuel s) s now with
            | (s, .some ex) =>
                match baseStartSend s ex.id (.err throttleKindIdx) with
                | (s, some false) => (s, .err .write)
                | (s, _) => limitedPollNextLegacy limit fuel (markThrottled s ex.rid) now
            | r => r
      else basePollNext (baseFuel s) s now
where
  /-- A throttled request's `TrackedRequest` is dropped (its guard is inert); it never becomes an
  execution the application sees (no `vis` number). -/
  markThrottled (s : St) (rid : Nat) : St := updExec s rid (fun e => { e with phase := .gone, woken := false })

/-- The limiter after the fix: the decision is taken after the read, counting the new request. -/
def limitedPollNextFixed (limit : Nat) : Nat → St → Nat → St × SPoll Exec
  | 0, s, _ => (emit s (.spin (tid s)), .spin)
  | fuel + 1, s, now =>
      let atLimit := decide (s.inflight.length ≥ limit)
      let pre : St × Option (SPoll Exec) :=
        if atLimit then
          match tReady s with
          | (s, .pending) => (s, some .pending)
          | (s, .err) => (s, some (.err .ready))
          | (s, .ready) => (s, none)
        else (s, none)
      match pre with
      | (s, some r) => (s, r)
      | (s, none) =>
          match basePollNext (baseFuel s) s now with
          | (s, .some ex) =>
              if s.inflight.length > limit then
                match baseStartSend s ex.id (.err throttleKindIdx) with
                | (s, some false) => (s, .err .write)
                | (s, _) =>
                    limitedPollNextFixed limit fuel (updExec s ex.rid (fun e => { e with phase := .gone, woken := false })) now
              else (s, .some ex)
          | r => r

def channelPollNext (s : St) (now : Nat) : St × SPoll Exec :=
  match s.limit with
  | none => basePollNext (baseFuel s) s now
  | some l =>
      if s.throttleAfterRead then limitedPollNextFixed l (s.t.inbound.length + 2) s now
      else limitedPollNextLegacy l (s.t.inbound.length + 2) s now

/-! ### `Requests` -/

inductive EW where
  | ready | pending | err (a : Activity) | spin
deriving Repr, DecidableEq

def spinLimit : Nat := 64

def ensureLoop : Nat → St → St × EW
  | 0, s => (emit s (.spin (tid s)), .spin)
  | fuel + 1, s =>
      match tReady s with
      | (s, .ready) => (s, .ready)
      | (s, .err) => (s, .err .ready)
      | (s, .pending) =>
          match tFlush s with
          | (s, .pending) => (s, .pending)
          | (s, .err) => (s, .err .flush)
          | (s, .ready) => ensureLoop fuel s

def ensureOnce (s : St) : St × EW :=
  match tReady s with
  | (s, .ready) => (s, .ready)
  | (s, .err) => (s, .err .ready)
  | (s, .pending) =>
      match tFlush s with
      | (s, .pending) => (s, .pending)
      | (s, .err) => (s, .err .flush)
      | (s, .ready) =>
          match tReady s with
          | (s, .ready) => (s, .ready)
          | (s, .err) => (s, .err .ready)
          | (s, .pending) => (s, .pending)

def ensureWriteable (s : St) : St × EW :=
  if s.ensureLoop then ensureLoop spinLimit s else ensureOnce s

/-- A permit of the response queue goes back: handed to the oldest waiting execution. -/
def rqRelease (s : St) : St :=
  match s.rqWaiters with
  | w :: rest => wakeExec { s with rqWaiters := rest, rqAssigned := s.rqAssigned ++ [w] } w
  | [] => { s with rqAvail := s.rqAvail + 1 }

/-- The tail of `pump_write` when nothing can be written now: flush, then decide whether to end. -/
def flushArm (s : St) (readClosed : Bool) : St × SPoll Unit :=
  match tFlush s with
  | (s, .pending) => (s, .pending)
  | (s, .err) => (s, .err .flush)
  | (s, .ready) => if readClosed && s.inflight.isEmpty then (s, .none) else (s, .pending)

def pumpWrite (s : St) (readClosed : Bool) : St × SPoll Unit :=
  match ensureWriteable s with
  | (s, .pending) => flushArm s readClosed       -- `poll_next_response` is `Pending`
  | (s, .err a) => (s, .err a)
  | (s, .spin) => (s, .spin)
  | (s, .ready) =>
      match s.respQ with
      | (id, res) :: rest =>
          let s := rqRelease { s with respQ := rest }
          match baseStartSend s id res with
          | (s, some false) => (s, .err .write)
          | (s, _) => (s, .some ())
      | [] => flushArm { s with rqRxWaker := true } readClosed

inductive ReqPoll where
  | pending | none | item (rid : Nat) | err (a : Activity) | spin
deriving Repr, DecidableEq

/-- The request the read pump produced is dropped because the write pump failed: its (armed) guard
queues a cancellation. -/
def dropOffered (s : St) (rid : Nat) (id : Nat) : St :=
  let s := updExec s rid (fun e => { e with phase := .gone, guardArmed := false, woken := false })
  let s := { s with cancelQ := s.cancelQ ++ [id] }
  if s.cancelRxWaker then wakeServer { s with cancelRxWaker := false } else s

def requestsPollNext : Nat → St → Nat → St × ReqPoll
  | 0, s, _ => (emit s (.spin (tid s)), .spin)
  | fuel + 1, s, now =>
      match channelPollNext s now with
      | (s, .err a) => (s, .err a)
      | (s, .spin) => (s, .spin)
      | (s, read) =>
          -- pump_read arms the guard of a request it yields
          let s := match read with
            | .some ex => updExec s ex.rid (fun e => { e with guardArmed := true })
            | _ => s
          let readClosed := match read with | .none => true | _ => false
          match pumpWrite s readClosed with
          | (s, .err a) =>
              let s := match read with | .some ex => dropOffered s ex.rid ex.id | _ => s
              (s, .err a)
          | (s, .spin) => (s, .spin)
          | (s, write) =>
              match read, write with
              | .none, .none => (s, .none)
              | .some ex, _ => (s, .item ex.rid)
              | _, .some () => requestsPollNext fuel s now
              | _, _ => (s, .pending)

def pollFuel (s : St) : Nat := s.respQ.length + s.t.inbound.length + s.cancelQ.length + s.timers.len + 4

def pollServerKeep (s : St) (now : Nat) : St :=
  if s.dropped || s.done.isSome || s.poisoned then emit s .noop
  else
    let obs0 := s.obs
    let hadSpin := obs0.any (fun o => match o with | .spin _ => true | _ => false)
    let s := { s with woken := false }
    let (s, r) := requestsPollNext (pollFuel s) s now
    let spun := !hadSpin && s.obs.any (fun o => match o with | .spin _ => true | _ => false)
    if spun then { s with obs := .spin (tid s) :: obs0, poisoned := true }
    else if s.poisoned then s
    else
      let (s, ret) := match r with
        | .pending => (s, Ret.pending)
        | .none => ({ s with done := some .readyNone }, Ret.readyNone)
        | .err a => ({ s with done := some (.readyItemErr a) }, Ret.readyItemErr a)
        | .spin => (s, Ret.pending)
        | .item rid =>
            match getExec s rid with
            | some e =>
                let v := s.nextVis
                let s := updExec { s with nextVis := v + 1 } rid (fun x => { x with vis := some v })
                (emit s (.yielded v e.id e.deadline e.trace), Ret.readyItem)
            | none => (s, Ret.readyItem)
      emit (emit s (.ret (tid s) ret)) (.counts (tid s) s.inflight.length s.timers.len)

/-! ### executions -/

def guardDrop (s : St) (e : Exec) : St :=
  if e.guardArmed && !s.dropped then
    let s := { s with cancelQ := s.cancelQ ++ [e.id] }
    if s.cancelRxWaker then wakeServer { s with cancelRxWaker := false } else s
  else s

/-- The handler's result is queued (a permit is in hand) and the execute future finishes. -/
def visOf (e : Exec) : Nat := e.vis.getD 0

def queueAndFinish (s : St) (e : Exec) (res : Res) (now : Nat) : St :=
  let s := if s.dropped then s else
    let s := { s with respQ := s.respQ ++ [(e.id, res)] }
    if s.rqRxWaker then wakeServer { s with rqRxWaker := false } else s
  let s := updExec s e.rid (fun x => { x with phase := .done, guardArmed := false, woken := false, resp := none })
  emit s (.ret (.exec (visOf e)) .readyOk)

def trySend (s : St) (e : Exec) (res : Res) (now : Nat) : St :=
  if s.dropped then queueAndFinish s e res now          -- receiver gone: `send` errs, ignored
  else if s.rqAssigned.contains e.rid then
    queueAndFinish { s with rqAssigned := s.rqAssigned.filter (· != e.rid) } e res now
  else if s.rqWaiters.contains e.rid then
    emit (updExec s e.rid (fun x => { x with abortWaker := true })) (.ret (.exec (visOf e)) .pending)
  else if s.rqAvail > 0 then queueAndFinish { s with rqAvail := s.rqAvail - 1 } e res now
  else
    let s := { s with rqWaiters := s.rqWaiters ++ [e.rid] }
    emit (updExec s e.rid (fun x => { x with phase := .sending, resp := some res, abortWaker := true }))
      (.ret (.exec (visOf e)) .pending)

def pollExec (s : St) (vid : Nat) (now : Nat) : St :=
  match getExecVis s vid with
  | none => emit s .noop
  | some e =>
      let rid := e.rid
      if !execLive e then emit s .noop
      else
        let s := updExec s rid (fun x => { x with woken := false })
        if e.aborted then
          -- `Abortable` reports `Aborted`; the wrapped future (handler or pending send) is dropped
          let s := match e.phase with
            | .sending =>
                let had := s.rqAssigned.contains rid
                let s := { s with rqAssigned := s.rqAssigned.filter (· != rid), rqWaiters := s.rqWaiters.filter (· != rid) }
                if had then rqRelease s else s
            | _ => if e.hDone then s else emit s (.handler vid .dropped now)
          let s := updExec s rid (fun x => { x with phase := .done, guardArmed := false })
          emit s (.ret (.exec vid) .readyOk)
        else
          match e.phase with
          | .sending =>
              match e.resp with
              | some res => trySend s e res now
              | none => emit s .noop
          | _ =>
              -- (first poll: the execute future is created from the InFlightRequest)
              let s := updExec s rid (fun x => { x with phase := .running })
              let s := emit s (.handler vid .polled now)
              match e.finishCmd with
              | some res =>
                  let s := emit s (.handler vid .completed now)
                  let s := updExec s rid (fun x => { x with hDone := true, finishCmd := none })
                  trySend s { e with hDone := true, phase := .running } res now
              | none =>
                  emit (updExec s rid (fun x => { x with abortWaker := true })) (.ret (.exec vid) .pending)

def dropExec (s : St) (vid : Nat) (now : Nat) : St :=
  match getExecVis s vid with
  | none => emit s .noop
  | some e =>
      let rid := e.rid
      if !execLive e then emit s .noop
      else
        let s := match e.phase with
          | .running => if e.hDone then s else emit s (.handler vid .dropped now)
          | .sending =>
              let had := s.rqAssigned.contains rid
              let s := { s with rqAssigned := s.rqAssigned.filter (· != rid), rqWaiters := s.rqWaiters.filter (· != rid) }
              if had then rqRelease s else s
          | _ => s
        let s := updExec s rid (fun x => { x with phase := .gone, woken := false })
        guardDrop s e

/-- The script tells the handler of `rid` to return `res` at its next poll (wakes it). -/
def finishHandler (s : St) (vid : Nat) (res : Res) : St :=
  match getExecVis s vid with
  | none => emit s .noop
  | some e =>
      let rid := e.rid
      if !execLive e || e.hDone then emit s .noop
      else
        let s := updExec s rid (fun x => { x with finishCmd := some res })
        if e.phase == .running then wakeExec s rid else s

/-- Dropping the `Requests` stream: every tracked handler is aborted, the queues' receivers go. -/
def dropServer (s : St) : St :=
  if s.dropped || s.poisoned then emit s .noop
  else
    let es := s.inflight
    let s := es.foldl (fun s e => abortExec s e.rid) { s with dropped := true, woken := false }
    -- response queue receiver dropped: waiting senders are woken (their `send` will fail)
    let ws := s.rqWaiters
    let s := ws.foldl wakeExec { s with rqWaiters := [] }
    { s with inflight := [], timers := {}, cancelQ := [], respQ := [] }

/-- One poll of the request stream by the application, which — like `Requests::execute` — stops at
the first error item or at the end of the stream and then drops the stream. -/
def pollServer (s : St) (now : Nat) : St :=
  let s' := pollServerKeep s now
  if s'.done.isSome && !s'.dropped then dropServer s'
  -- a stream that yielded an item has not parked: its consumer polls it again
  else if s'.nextVis > s.nextVis && !s'.dropped then { s' with woken := true }
  else s'

def liftT (s : St) (r : SimT × Bool) : St :=
  let s := { s with t := r.1 }
  if r.2 then wakeServer s else s

def onAdvance (s : St) (now : Nat) : St :=
  match s.timers.nextFire with
  | some t => if t ≤ now && s.timers.waker then wakeServer { s with timers := { s.timers with waker := false } } else s
  | none => s

def init (sidx : Nat) (limit : Option Nat) (respCap tcap : Nat) (coupled : Bool) : St :=
  { sidx := sidx, limit := limit, respCap := respCap, rqAvail := respCap, t := { cap := tcap, coupled := coupled } }

end TarpcModel.Server

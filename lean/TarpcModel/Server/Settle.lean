import TarpcModel.Server.Run
/-
C02 support on the server side: `settle` polls a task only while its waker has fired, until none is
woken, then names what is stuck: a response queued for writing, or an unread inbound item, with the
transport able to make progress and nobody woken to do it.
-/
namespace TarpcModel.Server

def serverRunnable (s : St) : Bool := s.woken && !s.dropped && s.done.isNone && !s.poisoned

def firstWokenExec (s : St) : Option Nat :=
  (s.execs.find? (fun e => execLive e && e.woken && e.vis.isSome)).bind (·.vis)

def settleLoop : Nat → Sys → Sys
  | 0, c => c
  | fuel + 1, c =>
      if serverRunnable c.s then
        -- (`pollServer` leaves a stream that yielded an item runnable: its consumer polls it again)
        settleLoop fuel { c with s := pollServer c.s c.now }
      else match firstWokenExec c.s with
        | some v => settleLoop fuel { c with s := pollExec c.s v c.now }
        | none => c

/-- What is stuck once nothing is woken (the stream being alive and the sink ready). -/
def stuck (s : St) : List String :=
  if s.dropped || s.done.isSome || s.poisoned || !s.t.isReadyNow || s.t.failed then []
  else
    (if !s.respQ.isEmpty then [s!"responses-queued={s.respQ.length}"] else []) ++
    (if !s.t.inbound.isEmpty && !s.readFused then [s!"inbound-unread={s.t.inbound.length}"] else [])

def settle (c : Sys) : Sys × List String :=
  let c := settleLoop 400 c
  (c, if serverRunnable c.s || (firstWokenExec c.s).isSome then [] else stuck c.s)

end TarpcModel.Server

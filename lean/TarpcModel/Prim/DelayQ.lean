/-
Model of `tokio_util::time::DelayQueue<u64>` (tokio-util 0.7.19) as tarpc uses it — trusted library
semantics, validated by the correspondence runs only.  Time is in nanoseconds since the queue's
`start`, which the harness aligns with the runtime's start; the queue works in milliseconds.

The hashed timer wheel is emulated faithfully (6 levels × 64 slots, each slot a LIFO stack, one-level
cascades), because the order in which entries armed for the same millisecond come out — and which
of several elapsed entries a single poll yields — is observable through tarpc:

* `insert now timeout`: `when = max (ceilMs (now + timeout)) elapsed`; `when ≤ elapsed` ⇒ the entry
  goes on the LIFO `expired` stack; `when - elapsed > 2^36 - 1` ⇒ the real code panics
  (`invalid deadline`); otherwise it is pushed on the slot `level_for (elapsed, when)` selects.
* `pollExpired now`: pops the `expired` stack first; otherwise, once the `delay` (a `Sleep` until the
  wheel's next expiration) has elapsed, polls the wheel at the delay's deadline.
-/
namespace TarpcModel

def nsPerMs : Nat := 1000000

def ceilMs (ns : Nat) : Nat := (ns + (nsPerMs - 1)) / nsPerMs
def floorMs (ns : Nat) : Nat := ns / nsPerMs

/-- `(1 << 36) - 1` milliseconds: the timer wheel's range. -/
def delayQMaxMs : Nat := 2 ^ 36 - 1

structure DqEntry where
  key    : Nat
  val    : Nat        -- the request id
  whenMs : Nat
  level  : Nat := 0   -- wheel level the entry currently sits at
  seq    : Nat := 0   -- push order within the wheel (larger = pushed later = nearer the top)
deriving Repr, DecidableEq

structure DelayQ where
  entries : List DqEntry := []     -- in the wheel
  expired : List DqEntry := []     -- already-elapsed on insert; head = top of the stack
  wheelElapsed : Nat := 0          -- `wheel.elapsed`
  wheelNow : Nat := 0              -- `DelayQueue::wheel_now`
  delay   : Option Nat := none     -- deadline (ms) of the `Sleep`, if any
  seqCtr  : Nat := 0
  nextKey : Nat := 0
  /-- the owner polled and got `Pending`/`None`; an earlier insert or an emptying remove wakes it -/
  waker : Bool := false
deriving Repr

namespace DelayQ

def len (q : DelayQ) : Nat := q.entries.length + q.expired.length
def isEmpty (q : DelayQ) : Bool := q.entries.isEmpty && q.expired.isEmpty

/-! ### the wheel -/

def slotRange (level : Nat) : Nat := 64 ^ level
def levelRange (level : Nat) : Nat := 64 * slotRange level
def slotFor (when level : Nat) : Nat := (when / slotRange level) % 64

/-- index of the most significant set bit (0 for 0) -/
def msb (n : Nat) : Nat := Nat.log2 n

def levelFor (elapsed when : Nat) : Nat :=
  let masked := (elapsed ^^^ when) ||| 63
  let masked := if masked ≥ delayQMaxMs then delayQMaxMs - 1 else masked
  msb masked / 6

structure Expiration where
  level : Nat
  slot : Nat
  deadline : Nat
deriving Repr

/-- `Level::next_expiration`. -/
def levelNextExpiration (q : DelayQ) (level : Nat) : Option Expiration :=
  let here := q.entries.filter (·.level == level)
  if here.isEmpty then none
  else
    let now := q.wheelElapsed
    let nowSlot := (now / slotRange level) % 64
    -- the occupied slot nearest to `nowSlot` going forward (rotation)
    let dist (e : DqEntry) : Nat := (slotFor e.whenMs level + 64 - nowSlot) % 64
    let best := here.foldl (fun acc e => if dist e < acc then dist e else acc) 64
    let slot := (best + nowSlot) % 64
    let levelStart := now - now % levelRange level
    let deadline := levelStart + slot * slotRange level
    let deadline := if deadline < now then deadline + levelRange level else deadline
    some { level := level, slot := slot, deadline := deadline }

def nextExpiration (q : DelayQ) : Option Expiration :=
  (List.range 6).findSome? (levelNextExpiration q)

/-- top of the stack of `(level, slot)`: the entry pushed last -/
def slotTop (q : DelayQ) (level slot : Nat) : Option DqEntry :=
  (q.entries.filter (fun e => e.level == level && slotFor e.whenMs level == slot)).foldl
    (fun acc e => match acc with
      | none => some e
      | some a => if e.seq > a.seq then some e else some a) none

/-- `poll_expiration` for a level ≥ 1 slot: pop everything (top first) and push one level down. -/
def cascade : Nat → DelayQ → Nat → Nat → DelayQ
  | 0, q, _, _ => q
  | fuel + 1, q, level, slot =>
      match slotTop q level slot with
      | none => q
      | some e =>
          let e' := { e with level := level - 1, seq := q.seqCtr }
          cascade fuel { q with entries := (q.entries.filter (·.key != e.key)) ++ [e'], seqCtr := q.seqCtr + 1 } level slot

/-- `Wheel::poll`. -/
def wheelPoll : Nat → DelayQ → Nat → DelayQ × Option DqEntry
  | 0, q, _ => (q, none)
  | fuel + 1, q, now =>
      match nextExpiration q with
      | none => ({ q with wheelElapsed := max q.wheelElapsed now }, none)
      | some ex =>
          if ex.deadline > now then ({ q with wheelElapsed := max q.wheelElapsed now }, none)
          else if ex.level == 0 then
            match slotTop q 0 ex.slot with
            | some e => ({ q with entries := q.entries.filter (·.key != e.key) }, some e)
            | none => (q, none)
          else
            let q := cascade (q.entries.length + 1) q ex.level ex.slot
            wheelPoll fuel { q with wheelElapsed := max q.wheelElapsed ex.deadline } now

def wheelFuel (q : DelayQ) : Nat := (q.entries.length + 1) * 8

def nextDeadline (q : DelayQ) : Option Nat := (nextExpiration q).map (·.deadline)

/-! ### the queue -/

inductive InsertRes where
  | ok (key : Nat)
  | panic
deriving Repr, DecidableEq

/-- Returns the new queue, the result, and whether the stored waker was woken. -/
def insert (q : DelayQ) (now timeout : Nat) (val : Nat) : DelayQ × InsertRes × Bool :=
  let when := max (ceilMs (now + timeout)) q.wheelElapsed
  if when > q.wheelElapsed && when - q.wheelElapsed > delayQMaxMs then (q, .panic, false)
  else
    let key := q.nextKey
    let q1 : DelayQ :=
      if when ≤ q.wheelElapsed then
        { q with expired := { key := key, val := val, whenMs := when } :: q.expired, nextKey := key + 1 }
      else
        { q with entries := q.entries ++ [{ key := key, val := val, whenMs := when,
                                            level := levelFor q.wheelElapsed when, seq := q.seqCtr }],
                 seqCtr := q.seqCtr + 1, nextKey := key + 1 }
    let shouldSet : Bool := match q.delay with
      | some dl => decide (max dl q.wheelElapsed > when)
      | none => true
    if shouldSet then
      ({ q1 with delay := some when, waker := false }, .ok key, q.waker)
    else (q1, .ok key, false)

/-- `remove(&key)`; the real call panics on an unknown key (`none` here). -/
def remove (q : DelayQ) (key : Nat) : Option (DelayQ × Bool) :=
  if q.entries.any (·.key == key) || q.expired.any (·.key == key) then
    let prev := nextDeadline q
    let q' := { q with entries := q.entries.filter (·.key != key),
                       expired := q.expired.filter (·.key != key) }
    let next := nextDeadline q'
    let q' := if prev != next then { q' with delay := next } else q'
    let woke := q'.isEmpty && q.waker
    some ({ q' with waker := if woke then false else q.waker }, woke)
  else none

def clear (q : DelayQ) : DelayQ :=
  { q with entries := [], expired := [], wheelElapsed := 0, delay := none }

inductive PollRes where
  | pending
  | none
  | expired (e : DqEntry)
deriving Repr, DecidableEq

/-- the loop of `poll_idx` -/
def pollIdx : Nat → DelayQ → Nat → DelayQ × PollRes
  | 0, q, _ => (q, .pending)
  | fuel + 1, q, now =>
      match q.delay with
      | some dl =>
          if now < dl * nsPerMs then ({ q with waker := true }, .pending)
          else
            let q := { q with wheelNow := dl }
            let (q, r) := wheelPoll (wheelFuel q) q q.wheelNow
            let q := { q with delay := nextDeadline q }
            match r with
            | some e => (q, .expired e)
            | none => if q.delay.isNone then ({ q with waker := true }, .none) else pollIdx fuel q now
      | none =>
          let (q, r) := wheelPoll (wheelFuel q) q q.wheelNow
          let q := { q with delay := nextDeadline q }
          match r with
          | some e => (q, .expired e)
          | none => if q.delay.isNone then ({ q with waker := true }, .none) else pollIdx fuel q now

def pollExpired (q : DelayQ) (now : Nat) : DelayQ × PollRes :=
  let q := { q with waker := true }       -- `poll_expired` stores the caller's waker first
  match q.expired with
  | e :: rest => ({ q with expired := rest }, .expired e)
  | [] => pollIdx (wheelFuel q + 8) q now

/-- The instant (ns) at which the registered `Sleep` fires, if any. -/
def nextFire (q : DelayQ) : Option Nat :=
  match q.expired with
  | _ :: _ => some 0
  | [] => q.delay.map (· * nsPerMs)

end DelayQ
end TarpcModel

/-
Model of `tokio_util::time::DelayQueue<u64>` as tarpc uses it (trusted library semantics, validated
by the correspondence runs only).  Time is in nanoseconds since the queue's `start`, which the
harness aligns with the runtime's start; the queue works at millisecond granularity:

* `insert now timeout`: `when = max (ceilMs (now + timeout)) wheelElapsed`; if `when ≤ wheelElapsed`
  the entry goes on the LIFO `expired` stack; if `when - wheelElapsed > 2^36 - 1` the real code
  panics (`invalid deadline`); otherwise it is stored in the wheel.
* `pollExpired now`: pops the `expired` stack first; otherwise the entry with the smallest `when`
  fires iff `when` ms have passed, and the wheel's `elapsed` moves to that `when`.
Entries armed for the same millisecond come out in an order that depends on the wheel's levels;
the model uses insertion order and the generators keep armed milliseconds distinct.
-/
namespace TarpcModel

def nsPerMs : Nat := 1000000

def ceilMs (ns : Nat) : Nat := (ns + (nsPerMs - 1)) / nsPerMs
def floorMs (ns : Nat) : Nat := ns / nsPerMs

/-- `(1 << 36) - 1` milliseconds: the timer wheel's range. -/
def delayQMaxMs : Nat := 2 ^ 36 - 1

structure DqEntry where
  key  : Nat
  val  : Nat        -- the request id
  whenMs : Nat
deriving Repr, DecidableEq

structure DelayQ where
  entries : List DqEntry := []     -- in the wheel, insertion order
  expired : List DqEntry := []     -- already-elapsed on insert; head = top of the stack
  wheelElapsed : Nat := 0
  nextKey : Nat := 0
  /-- the owner polled and got `Pending`/`None`; an insert or an emptying remove wakes it -/
  waker : Bool := false
deriving Repr

namespace DelayQ

def len (q : DelayQ) : Nat := q.entries.length + q.expired.length
def isEmpty (q : DelayQ) : Bool := q.entries.isEmpty && q.expired.isEmpty

inductive InsertRes where
  | ok (key : Nat)
  | panic
deriving Repr, DecidableEq

/-- Returns the new queue, the result, and whether the stored waker was woken. -/
def insert (q : DelayQ) (now timeout : Nat) (val : Nat) : DelayQ × InsertRes × Bool :=
  let when := max (ceilMs (now + timeout)) q.wheelElapsed
  let e : DqEntry := { key := q.nextKey, val := val, whenMs := when }
  if when ≤ q.wheelElapsed then
    -- `InsertError::Elapsed`: straight onto the expired stack.  `should_set_delay` is computed
    -- against the current delay; the wake only matters for spurious-wake accounting.
    ({ q with expired := e :: q.expired, nextKey := q.nextKey + 1 }, .ok q.nextKey, false)
  else if when - q.wheelElapsed > delayQMaxMs then
    (q, .panic, false)
  else
    let earliest := q.entries.all (fun x => when < x.whenMs)
    let woke := earliest && q.waker
    ({ q with entries := q.entries ++ [e], nextKey := q.nextKey + 1,
              waker := if woke then false else q.waker }, .ok q.nextKey, woke)

/-- `remove(&key)`; the real call panics on an unknown key (`none` here). -/
def remove (q : DelayQ) (key : Nat) : Option (DelayQ × Bool) :=
  if q.entries.any (·.key == key) || q.expired.any (·.key == key) then
    let q' := { q with entries := q.entries.filter (·.key != key),
                       expired := q.expired.filter (·.key != key) }
    let woke := q'.isEmpty && q.waker
    some ({ q' with waker := if woke then false else q.waker }, woke)
  else none

def clear (q : DelayQ) : DelayQ := { q with entries := [], expired := [], wheelElapsed := 0 }

/-- The entry with the smallest `whenMs` (first such in insertion order). -/
def minEntry : List DqEntry → Option DqEntry
  | [] => none
  | e :: es =>
      match minEntry es with
      | none => some e
      | some m => if m.whenMs < e.whenMs then some m else some e

inductive PollRes where
  | pending
  | none
  | expired (e : DqEntry)
deriving Repr, DecidableEq

def pollExpired (q : DelayQ) (now : Nat) : DelayQ × PollRes :=
  match q.expired with
  | e :: rest => ({ q with expired := rest }, .expired e)
  | [] =>
      match minEntry q.entries with
      | none => ({ q with waker := true }, .none)
      | some m =>
          if m.whenMs * nsPerMs ≤ now then
            ({ q with entries := q.entries.filter (·.key != m.key),
                      wheelElapsed := max q.wheelElapsed m.whenMs }, .expired m)
          else ({ q with waker := true }, .pending)

/-- The next instant (ns) at which `pollExpired` can yield something, if any. -/
def nextFire (q : DelayQ) : Option Nat :=
  match q.expired with
  | _ :: _ => some 0
  | [] => (minEntry q.entries).map (fun m => m.whenMs * nsPerMs)

end DelayQ
end TarpcModel

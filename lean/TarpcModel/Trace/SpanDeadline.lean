/-!
# The `rpc.deadline` span field (C16, subscriber clause)

`Channel::call` (client) and `BaseChannel::start_request` (server) record the request's deadline in the RPC span
as an RFC 3339 wall-clock timestamp; the expression is evaluated only while a tracing subscriber is listening, in
the caller's task resp. the server channel's task.  Two steps of that rendering are partial in the libraries used:

* `SystemTime + Duration` panics when the sum does not fit (`i64` seconds on Unix);
* `humantime::Rfc3339Timestamp`'s `Display` fails for times after 9999-12-31T23:59:59Z, and a failing `Display`
  makes `format!` / the subscriber's field recorder panic.

The model is parameterised by what the translator reads off `tarpc/src/util.rs`, `client.rs`, `server.rs`:
whether the sum is `checked_add`-ed, and the cap (seconds since the epoch) applied before formatting (0 = none).
-/
namespace TarpcModel.Span

/-- 9999-12-31T23:59:59Z in seconds since the Unix epoch: the last instant `humantime` renders. -/
def rfc3339Max : Nat := 253402300799

/-- The largest `SystemTime` (seconds): `i64::MAX`. -/
def systemTimeMax : Nat := 2 ^ 63 - 1

inductive Out where
  | rendered (secs : Nat)
  | panic (why : String)
  deriving DecidableEq, Repr

/-- Rendering of a deadline `remaining` seconds away at wall-clock time `nowUnix`. -/
def spanDeadlineWith (checked : Bool) (cap : Nat) (nowUnix remaining : Nat) : Out :=
  let sum := nowUnix + remaining
  if checked then
    let t := if sum ≤ systemTimeMax then (if cap = 0 then sum else min sum cap) else cap
    if t ≤ rfc3339Max then .rendered t else .panic "a formatting trait implementation returned an error"
  else if systemTimeMax < sum then .panic "overflow when adding duration to instant"
  else if sum ≤ rfc3339Max then .rendered sum
  else .panic "a formatting trait implementation returned an error"

end TarpcModel.Span

/-
`SimTransport`: the instrumented transport both the Rust harness and this model implement, line for
line (harness/src/simt.rs).  One endpoint = a bounded sink (`buffered`, capacity `cap ≥ 1`) that is
flushed onto `wire`, plus an inbound queue.  Readiness is either *coupled* to flushing
(socket-like: ready iff the buffer has room; flushing may be blocked) or *independent*
(bounded-queue-like: ready iff `readyOpen` and room; flush always completes).  It honours the
`Sink` contract: whenever readiness is restored by an external grant it wakes the waker a previous
`poll_ready → Pending` registered; when the owner's *own* flush restores it, it does so too unless
`selfWake` is off (a staging sink: its room is made by `poll_flush`, which only the owner calls, so it
relies on the owner re-polling readiness).  An armed fault fails the `(faultSkip+1)`-th call of its kind.
It records contract violations by its owner (C14) instead of misbehaving.
-/
namespace TarpcModel

inductive Span where
  | given (n : Nat)
  | fresh (k : Nat)      -- k-th span id drawn from the RNG by the code under test
deriving Repr, DecidableEq

structure Trace where
  traceId : Nat
  span    : Span
  sampled : Bool
deriving Repr, DecidableEq

inductive Res where
  | ok (body : Nat)
  | err (kind : Nat)      -- index into the error-kind list used by the harness; 10 = WouldBlock
deriving Repr, DecidableEq

inductive Msg where
  | request (id : Nat) (deadline : Nat) (trace : Trace) (body : Nat)
  | cancel (id : Nat) (trace : Trace)
  | response (id : Nat) (res : Res)
deriving Repr, DecidableEq

inductive Inb where
  | msg (m : Msg)
  | err
deriving Repr, DecidableEq

inductive PollRes where
  | pending | ready | err
deriving Repr, DecidableEq

inductive NextRes where
  | pending | item (m : Msg) | err | eof
deriving Repr, DecidableEq

structure SimT where
  cap       : Nat := 1
  coupled   : Bool := true
  buffered  : List Msg := []
  wire      : List Msg := []          -- flushed, not yet taken by the peer / the harness
  sentLog   : List Msg := []          -- ghost: every accepted `start_send`, in order
  inbound   : List Inb := []
  eof       : Bool := false
  readyOpen : Bool := true
  flushOpen : Bool := true
  faultReady : Bool := false
  faultSend  : Bool := false
  faultFlush : Bool := false
  faultClose : Bool := false
  faultNext  : Bool := false
  faultSkip  : Nat := 0               -- calls of an armed kind still to be let through before it fails (the k-th call fails)
  selfWake   : Bool := true           -- the owner's own flush wakes a waker it registered in `poll_ready` (staging sinks do not)
  closed    : Bool := false           -- `poll_close` returned `Ready(Ok)`
  failed    : Bool := false           -- a ready / flush / close error was reported
  gotReady  : Bool := false           -- `poll_ready → Ready(Ok)` since the last `start_send`
  readWaker  : Bool := false
  writeWaker : Bool := false
  violations : List String := []      -- contract violations by the owner (most recent first)
deriving Repr

namespace SimT

def isReadyNow (t : SimT) : Bool :=
  if t.coupled then t.buffered.length < t.cap else t.readyOpen && t.buffered.length < t.cap

def violate (t : SimT) (what : String) : SimT := { t with violations := what :: t.violations }

def useAfter (t : SimT) (what : String) : SimT :=
  if t.failed then t.violate (what ++ "-after-failure")
  else if t.closed then t.violate (what ++ "-after-close")
  else t

/-- An armed fault fires at this call iff no calls remain to be let through. -/
def fires (t : SimT) (armed : Bool) : Bool := armed && t.faultSkip == 0

/-- A call of an armed kind that is let through uses up one skip. -/
def letThrough (t : SimT) (armed : Bool) : SimT := if armed then { t with faultSkip := t.faultSkip - 1 } else t

/-- Each operation returns the new transport, its result and whether the *owner's* waker was woken
(only the owner's own flush can do that synchronously). -/
def pollReady (t : SimT) : SimT × PollRes × Bool :=
  let t := t.useAfter "ready"
  if t.fires t.faultReady then ({ t with faultReady := false, failed := true }, .err, false)
  else
  let t := t.letThrough t.faultReady
  if t.isReadyNow then ({ t with gotReady := true }, .ready, false)
  else ({ t with writeWaker := true }, .pending, false)

def startSend (t : SimT) (m : Msg) : SimT × Bool :=     -- `true` = Ok
  let t := t.useAfter "send"
  let t := if t.gotReady then t else t.violate "send-without-ready"
  if t.fires t.faultSend then ({ t with faultSend := false, gotReady := false }, false)
  else
  let t := t.letThrough t.faultSend
  ({ t with buffered := t.buffered ++ [m], sentLog := t.sentLog ++ [m], gotReady := false }, true)

/-- Moves everything buffered onto the wire; wakes a registered write waker if that restores
readiness. -/
def drain (t : SimT) : SimT × Bool :=
  let t' := { t with wire := t.wire ++ t.buffered, buffered := [] }
  if t.writeWaker && t'.isReadyNow && t.selfWake then ({ t' with writeWaker := false }, true) else (t', false)

def pollFlush (t : SimT) : SimT × PollRes × Bool :=
  let t := t.useAfter "flush"
  if t.fires t.faultFlush then ({ t with faultFlush := false, failed := true }, .err, false)
  else
  let t := t.letThrough t.faultFlush
  if t.coupled && !t.flushOpen && !t.buffered.isEmpty then
    ({ t with writeWaker := true }, .pending, false)
  else
    let (t, w) := t.drain
    (t, .ready, w)

def pollClose (t : SimT) : SimT × PollRes × Bool :=
  let t := t.useAfter "close"
  if t.fires t.faultClose then ({ t with faultClose := false, failed := true }, .err, false)
  else
  let t := t.letThrough t.faultClose
  if t.coupled && !t.flushOpen && !t.buffered.isEmpty then
    ({ t with writeWaker := true }, .pending, false)
  else
    let (t, w) := t.drain
    ({ t with closed := true }, .ready, w)

def pollNext (t : SimT) : SimT × NextRes :=
  if t.fires t.faultNext then ({ t with faultNext := false }, .err)
  else
  let t := t.letThrough t.faultNext
  match t.inbound with
    | .msg m :: rest => ({ t with inbound := rest }, .item m)
    | .err :: rest => ({ t with inbound := rest }, .err)
    | [] => if t.eof then (t, .eof) else ({ t with readWaker := true }, .pending)

/-! External events (the peer / the medium); each returns whether the owner is woken. -/

def inject (t : SimT) (i : Inb) : SimT × Bool :=
  ({ t with inbound := t.inbound ++ [i], readWaker := false }, t.readWaker)

def setEof (t : SimT) : SimT × Bool :=
  ({ t with eof := true, readWaker := false }, t.readWaker)

def wakeIfReady (t : SimT) : SimT × Bool :=
  if t.writeWaker && (t.isReadyNow || (t.coupled && t.flushOpen)) then ({ t with writeWaker := false }, true)
  else (t, false)

def setReady (t : SimT) (b : Bool) : SimT × Bool := ({ t with readyOpen := b }).wakeIfReady
def setFlush (t : SimT) (b : Bool) : SimT × Bool := ({ t with flushOpen := b }).wakeIfReady

/-- The harness takes up to `n` flushed items off the wire (to deliver or discard). -/
def take (t : SimT) (n : Nat) : SimT × List Msg := ({ t with wire := t.wire.drop n }, t.wire.take n)

end SimT
end TarpcModel

import TarpcModel.Sim.Transport
/- The observation vocabulary shared by the model and the harness (DESIGN.md appendix A). -/
namespace TarpcModel

inductive Activity where
  | read | ready | write | flush | close
deriving Repr, DecidableEq

inductive Outcome where
  | ok (body : Nat)
  | server (kind : Nat)
  | shutdown
  | send
  | channel (a : Activity)
  | deadline
deriving Repr, DecidableEq

inductive TaskId where
  | dispatch (k : Nat)
  | call (c : Nat)
  | server (s : Nat)
  | exec (r : Nat)
deriving Repr, DecidableEq

inductive Ret where
  | pending
  | readyOk
  | readyErr (a : Activity)
  | readyNone                 -- a stream ended
  | readyItem                 -- a stream yielded an item (described by the following obs)
  | readyItemErr (a : Activity)
deriving Repr, DecidableEq

inductive HEv where
  | polled | completed | aborted | dropped
deriving Repr, DecidableEq

inductive Obs where
  | tReady (ep : TaskId) (r : PollRes)
  | tSend (ep : TaskId) (m : Msg) (ok : Bool)
  | tFlush (ep : TaskId) (r : PollRes)
  | tClose (ep : TaskId) (r : PollRes)
  | tNext (ep : TaskId) (r : NextRes)
  | tViolation (ep : TaskId) (what : String)
  | wake (t : TaskId)
  | ret (t : TaskId) (r : Ret)
  | resolved (c : Nat) (o : Outcome) (time : Nat)
  | yielded (r : Nat) (id : Nat) (deadline : Nat) (trace : Trace)
  | handler (r : Nat) (ev : HEv) (time : Nat)
  | counts (ep : TaskId) (inflight timers : Nat)
  | spin (t : TaskId)
  | panic (t : TaskId) (site : String)
  | took (ep : TaskId) (m : Msg)
  | noop
deriving Repr, DecidableEq

end TarpcModel

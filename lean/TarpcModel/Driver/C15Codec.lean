import TarpcModel.Driver.Basic
import TarpcModel.Wire.Bincode
/-!
Family `c15bin`: the bincode value-level codec of tarpc's protocol messages.

Header: `script <i> c15bin body=str|u64` (the message body type `T`: `String` or `u64`).

Message text form (one token, fields separated by `:`; numbers decimal; strings = hex of their UTF-8
bytes, possibly empty):

* `req:<secs>:<nanos>:<trace_id>:<span_id>:<S|U>:<request_id>:<body>`   (`ClientMessage::Request`;
  `secs`/`nanos` = the remaining deadline duration that is on the wire)
* `cancel:<trace_id>:<span_id>:<S|U>:<request_id>`                      (`ClientMessage::Cancel`)
* `ok:<request_id>:<body>` / `err:<request_id>:<Kind>:<detail>`         (`Response`)

Ops:

* `enc <msg>`        → `obs bytes <hex>` and `obs roundtrip <msg> <msg'|error|panic>` where `msg'` is
                        what the reader returns for exactly those bytes
* `dec cm <hex|->`   → `obs msg <msg>` | `obs error` | `obs panic`      (read a `ClientMessage<T>`)
* `dec rsp <hex|->`  → `obs msg <msg>` | `obs error`                    (read a `Response<T>`)

Monitor (the C15 statement on an observation stream): every `roundtrip a b` has `b = a`, except that
an error kind outside the portable kinds must arrive as `Other`.
-/
namespace TarpcModel.Driver.C15Bin
open TarpcModel.Bincode TarpcModel.Driver

def hexDigitVal (c : Char) : Option Nat :=
  if '0' ≤ c ∧ c ≤ '9' then some (c.toNat - '0'.toNat)
  else if 'a' ≤ c ∧ c ≤ 'f' then some (c.toNat - 'a'.toNat + 10)
  else none

def parseHexChars : List Char → Option Bytes
  | [] => some []
  | [_] => none
  | a :: b :: t => do
    let x ← hexDigitVal a
    let y ← hexDigitVal b
    let r ← parseHexChars t
    some (UInt8.ofNat (16 * x + y) :: r)

def parseHex (s : String) : Option Bytes := parseHexChars s.toList

def hexChar (n : Nat) : Char :=
  if n < 10 then Char.ofNat ('0'.toNat + n) else Char.ofNat ('a'.toNat + (n - 10))

def showHex (bs : Bytes) : String :=
  String.ofList (bs.flatMap fun b => [hexChar (b.toNat / 16), hexChar (b.toNat % 16)])

/-- `-` stands for the empty byte string where a token is mandatory. -/
def parseHexTok (s : String) : Option Bytes := if s = "-" then some [] else parseHex s

def natBelow (bound : Nat) (s : String) : Option Nat :=
  match s.toNat? with
  | some n => if n < bound then some n else none
  | none => none

/-- How the body type `T` is encoded, parsed and printed. -/
structure BodyFmt (T : Type) where
  enc : T → Bytes
  dec : Parser T
  parse : String → Option T
  render : T → String

def strOfHex (s : String) : Option String := do
  let bs ← parseHex s
  String.fromUTF8? ⟨bs.toArray⟩

def hexOfStr (s : String) : String := showHex (strBytes s)

def strBody : BodyFmt String := { enc := encStr, dec := decStr, parse := strOfHex, render := hexOfStr }
def u64Body : BodyFmt Nat :=
  { enc := encU64, dec := decU64, parse := natBelow (2 ^ 64), render := fun n => toString n }

def parseSampled (s : String) : Option Bool :=
  if s = "S" then some true else if s = "U" then some false else none

def showSampled (b : Bool) : String := if b then "S" else "U"

def parseTrace (t s d : String) : Option TraceContext := do
  some { traceId := ← natBelow (2 ^ 128) t, spanId := ← natBelow (2 ^ 64) s, sampled := ← parseSampled d }

def showTrace (t : TraceContext) : String := s!"{t.traceId}:{t.spanId}:{showSampled t.sampled}"

section
variable {T : Type} (f : BodyFmt T)

/-- `enc req` is only defined for deadlines an `Instant` can hold on any machine (`secs ≤ 2^62`). -/
def parseClientMessage (tok : String) : Option (ClientMessage T) :=
  match tok.splitOn ":" with
  | ["req", secs, nanos, t, s, d, id, body] => do
    let secs ← natBelow (2 ^ 62 + 1) secs
    let nanos ← natBelow 1000000000 nanos
    let tr ← parseTrace t s d
    let id ← natBelow (2 ^ 64) id
    let b ← f.parse body
    some (.request { context := { deadline := { secs := secs, nanos := nanos }, trace := tr }, id := id, message := b })
  | ["cancel", t, s, d, id] => do
    let tr ← parseTrace t s d
    let id ← natBelow (2 ^ 64) id
    some (.cancel tr id)
  | _ => none

def showClientMessage : ClientMessage T → String
  | .request r =>
    s!"req:{r.context.deadline.secs}:{r.context.deadline.nanos}:{showTrace r.context.trace}:{r.id}:{f.render r.message}"
  | .cancel t id => s!"cancel:{showTrace t}:{id}"

def parseResponse (tok : String) : Option (Response T) :=
  match tok.splitOn ":" with
  | ["ok", id, body] => do
    let id ← natBelow (2 ^ 64) id
    let b ← f.parse body
    some { requestId := id, message := .ok b }
  | ["err", id, kind, detail] => do
    let id ← natBelow (2 ^ 64) id
    let d ← strOfHex detail
    if kind.isEmpty then none else some { requestId := id, message := .err { kind := kind, detail := d } }
  | _ => none

def showResponse (r : Response T) : String :=
  match r.message with
  | .ok b => s!"ok:{r.requestId}:{f.render b}"
  | .err e => s!"err:{r.requestId}:{e.kind}:{hexOfStr e.detail}"

def showCmOutcome : Outcome (ClientMessage T) → String
  | .value m => showClientMessage f m
  | .error => "error"
  | .panic => "panic"

def c15Step (toks : List String) : List String :=
  match toks with
  | ["enc", tok] =>
    match parseClientMessage f tok with
    | some m =>
      let bs := encClientMessage f.enc m
      [s!"bytes {showHex bs}", s!"roundtrip {tok} {showCmOutcome f (readClientMessage f.dec bs)}"]
    | none =>
      match parseResponse f tok with
      | some r =>
        let bs := encResponse f.enc r
        let back := match decodeResponse f.dec bs with
          | some r' => showResponse f r'
          | none => "error"
        [s!"bytes {showHex bs}", s!"roundtrip {tok} {back}"]
      | none => ["bad-op"]
  | ["dec", "cm", h] =>
    match parseHexTok h with
    | some bs =>
      match readClientMessage f.dec bs with
      | .value m => [s!"msg {showClientMessage f m}"]
      | .error => ["error"]
      | .panic => ["panic"]
    | none => ["bad-op"]
  | ["dec", "rsp", h] =>
    match parseHexTok h with
    | some bs =>
      match decodeResponse f.dec bs with
      | some r => [s!"msg {showResponse f r}"]
      | none => ["error"]
    | none => ["bad-op"]
  | _ => ["bad-op"]

end

/-- What C15 promises for a sent message (text form): itself, with a non-portable error kind
replaced by `Other`. -/
def c15Expected (tok : String) : String :=
  match tok.splitOn ":" with
  | ["err", id, kind, detail] =>
    if kind ∈ portableKinds then tok else s!"err:{id}:Other:{detail}"
  | _ => tok

structure C15Mon where
  ok : Bool := true
  why : String := ""

def c15MonStep (m : C15Mon) (toks : List String) : C15Mon :=
  if !m.ok then m else
  match toks with
  | ["roundtrip", a, b] =>
    if b = c15Expected a then m
    else { ok := false, why := s!"sent {a} arrived as {b}" }
  | _ => m

def bodyIsU64 (ps : List (String × String)) : Bool :=
  match ps.find? (·.1 == "body") with
  | some (_, v) => v == "u64"
  | none => false

end TarpcModel.Driver.C15Bin

namespace TarpcModel.Driver
open C15Bin

def c15bin : Family where
  σ := Bool
  μ := C15Mon
  init ps := bodyIsU64 ps
  step s toks := (s, if s then c15Step u64Body toks else c15Step strBody toks)
  monInit _ := {}
  monStep := c15MonStep
  monVerdict m := if m.ok then none else some m.why

end TarpcModel.Driver

import TarpcModel.Driver.Basic
/- Family `c16dec`: byte strings presented to the real framed decoders.  The model's decoders are total
functions, so the model side has nothing to predict except "no panic"; outcome lines of the
implementation are informational and projected away by the check. -/
namespace TarpcModel.Driver

def c16dec : Family where
  σ := Unit
  μ := Option String
  init _ := ()
  step s _ := (s, [])
  monInit _ := none
  monStep m toks :=
    match toks with
    | "panic" :: rest => m.orElse fun _ => some ("[C16] panic while decoding peer-supplied bytes: " ++ " ".intercalate rest)
    | _ => m
  monVerdict m := m

end TarpcModel.Driver

import TarpcModel.Driver.Basic
import TarpcModel.Monitors.C07
/-
Family `c07` (deadline propagation).  All times are nanoseconds since the script's virtual epoch.

ops
  hop codec=<json|bincode|mem> d=<ns> send=<ns> recv=<ns>
  default recv=<ns>
  chain codec=<c> d=<ns> start=<ns> hops=<n> pre=<ns> transit=<csv> work=<csv> send=<csv> recv=<csv>
      (`start`/`hops`/`pre`/`transit`/`work` are the scenario the harness re-runs on replay; the
       model uses only the measured `send`/`recv` lists, `-` = empty)
obs
  deadline <seen> codec=<c> d=<ns> send=<ns> recv=<ns>
  default <seen> recv=<ns>
  chain <final> codec=<c> d=<ns> send=<csv> recv=<csv>
  noop
-/
namespace TarpcModel.Driver
open TarpcModel.Ctx

def c07Str (ps : List (String × String)) (k : String) : Option String :=
  (ps.find? (·.1 == k)).map (·.2)

def c07Nat (ps : List (String × String)) (k : String) : Option Nat :=
  (c07Str ps k).bind (·.toNat?)

def c07Codec (ps : List (String × String)) : Option Codec :=
  match c07Str ps "codec" with
  | some "json" => some .json
  | some "bincode" => some .bincode
  | some "mem" => some .mem
  | _ => none

def c07ShowCodec : Codec → String
  | .json => "json"
  | .bincode => "bincode"
  | .mem => "mem"

def c07Csv (ps : List (String × String)) (k : String) : Option (List Nat) :=
  match c07Str ps k with
  | none => none
  | some "-" => some []
  | some v => (v.splitOn ",").mapM (·.toNat?)

def c07ShowCsv (l : List Nat) : String :=
  if l.isEmpty then "-" else ",".intercalate (l.map toString)

def c07Hops (ps : List (String × String)) : Option (List (Nat × Nat)) := do
  let s ← c07Csv ps "send"
  let r ← c07Csv ps "recv"
  if s.length == r.length then some (s.zip r) else none

def c07ParseOp : List String → Option Op
  | "hop" :: rest => do
      let ps := params rest
      some (.hop (← c07Codec ps) (← c07Nat ps "d") (← c07Nat ps "send") (← c07Nat ps "recv"))
  | "default" :: rest => do
      some (.dflt (← c07Nat (params rest) "recv"))
  | "chain" :: rest => do
      let ps := params rest
      some (.chain (← c07Codec ps) (← c07Nat ps "d") (← c07Hops ps))
  | _ => none

def c07ShowObs : Obs → String
  | .deadline seen c d s r => s!"deadline {seen} codec={c07ShowCodec c} d={d} send={s} recv={r}"
  | .dflt seen r => s!"default {seen} recv={r}"
  | .chain final c d hops =>
      s!"chain {final} codec={c07ShowCodec c} d={d} send={c07ShowCsv (hops.map (·.1))} recv={c07ShowCsv (hops.map (·.2))}"
  | .noop => "noop"

def c07ParseObs : List String → Option Obs
  | "deadline" :: seen :: rest => do
      let ps := params rest
      some (.deadline (← seen.toNat?) (← c07Codec ps) (← c07Nat ps "d") (← c07Nat ps "send") (← c07Nat ps "recv"))
  | "default" :: seen :: rest => do
      some (.dflt (← seen.toNat?) (← c07Nat (params rest) "recv"))
  | "chain" :: final :: rest => do
      let ps := params rest
      some (.chain (← final.toNat?) (← c07Codec ps) (← c07Nat ps "d") (← c07Hops ps))
  | ["noop"] => some .noop
  | _ => none

def c07 : Family where
  σ := Unit
  μ := MonSt
  init _ := ()
  step s toks :=
    match c07ParseOp toks with
    | some op => (s, (Ctx.step op).map c07ShowObs)
    | none => (s, ["bad-op"])
  monInit _ := {}
  monStep m toks :=
    match c07ParseObs toks with
    | some o => Ctx.monStep m o
    | none => { ok := false, why := if m.ok then "unparsable obs: " ++ " ".intercalate toks else m.why }
  monVerdict m := if m.ok then none else some m.why

end TarpcModel.Driver

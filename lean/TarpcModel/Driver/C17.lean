import TarpcModel.Driver.Basic
import TarpcModel.Monitors.C17
/-
Line protocol for C17.

Family `c17camel`:  `op camel <ident>`  ->  `obs camel <Result>`   (`obs camel` when the result is empty)

Family `c17svc` (one script = one service definition, header `svc=<ident> raw=<0|1> derive=<n>
expect=<accept|reject>`):
  `op method <raw> <name> <cfg:none|on|off> <ret:-|ty> <kind>:<raw>:<name>:<ty> ...`  -> `obs declared <idx>`
        kind: p = `x: T`, d = `mut x: T`, t = a pattern, s = a `self` receiver
  `op build`   -> `obs accepted` | `obs rejected parser` + one `obs message <text>` per macro error, in
                  order | `obs rejected macro-panic` | `obs rejected rustc`
  `op invoke <idx> <ctx> <arg> ...`  -> `obs called ..`, `obs name ..`, `obs request ..`, `obs ran ..`,
                  `obs returned ..`  (or `obs noop` when there is no such call)
Values and contexts are opaque tokens (the `Debug` text without spaces).  The implementor of the harness
programs returns a value derived from FNV-1a-64 of `"<idx>:<arg>,<arg>.."`; `implFor` is that function.
-/
namespace TarpcModel.Driver.C17
open TarpcModel.Macro

def strParam (ps : List (String × String)) (k : String) (dflt : String) : String :=
  match ps.find? (·.1 == k) with
  | some (_, v) => v
  | none => dflt

end TarpcModel.Driver.C17

namespace TarpcModel.Driver
open TarpcModel.Macro TarpcModel.Driver.C17

/-! ## c17camel -/

def c17camel : Family where
  σ := Unit
  μ := Bool × String
  init _ := ()
  step s toks :=
    match toks with
    | ["camel", id] =>
      let r := String.ofList (snakeToCamel id.toList)
      (s, [if r.isEmpty then "camel" else "camel " ++ r])
    | ["camel"] => (s, ["camel"])
    | _ => (s, ["bad-op"])
  monInit _ := (true, "")
  monStep m toks :=
    match toks with
    | ["camel", r] =>
      if camelOk r.toList then m
      else if m.1 then (false, "camel result has an underscore or starts lower-case: " ++ r) else m
    | ["camel"] => m
    | _ => if m.1 then (false, "unparsable obs: " ++ " ".intercalate toks) else m
  monVerdict m := if m.1 then none else some m.2

end TarpcModel.Driver

namespace TarpcModel.Driver.C17
open TarpcModel.Macro

/-! ## c17svc: parsing -/

def parseTy : String → Option Ty
  | "u8" => some .u8
  | "i32" => some .i32
  | "u64" => some .u64
  | "String" => some .string
  | "bool" => some .bool
  | "()" => some .unit
  | "Vec<u8>" => some .vecU8
  | "Option<u32>" => some .optU32
  | _ => none

def parseBool : String → Option Bool
  | "0" => some false
  | "1" => some true
  | _ => none

def parseArg (t : String) : Option Arg :=
  match t.splitOn ":" with
  | [k, r, n, ty] => do
    let kind ← (match k with
      | "p" => some ArgKind.plain
      | "d" => some ArgKind.decorated
      | "t" => some ArgKind.pattern
      | "s" => some ArgKind.receiver
      | _ => none)
    some ⟨kind, ⟨← parseBool r, n.toList⟩, ← parseTy ty⟩
  | _ => none

def parseArgs : List String → Option (List Arg)
  | [] => some []
  | t :: ts => do
    let a ← parseArg t
    let rest ← parseArgs ts
    some (a :: rest)

def parseMethod : List String → Option Method
  | r :: n :: c :: ret :: args => do
    let cfg ← (match c with
      | "none" => some Cfg.none
      | "on" => some Cfg.on
      | "off" => some Cfg.off
      | _ => none)
    let ret ← (if ret == "-" then some none else (parseTy ret).map some)
    some ⟨⟨← parseBool r, n.toList⟩, ← parseArgs args, ret, cfg⟩
  | _ => none

/-! ## c17svc: the implementor of the generated programs -/

def fnv1a64 (s : String) : Nat :=
  s.toList.foldl (fun h c => ((h ^^^ c.toNat) * 1099511628211) % 18446744073709551616) 14695981039346656037

def retValue (ty : Ty) (h : Nat) : String :=
  match ty with
  | .u8 => toString (h % 256)
  | .i32 =>
    let x := h % 4294967296
    if x ≥ 2147483648 then "-" ++ toString (4294967296 - x) else toString x
  | .u64 => toString h
  | .string => "\"s" ++ toString h ++ "\""
  | .bool => if h % 2 = 1 then "true" else "false"
  | .unit => "()"
  | .vecU8 => "[" ++ toString (h % 256) ++ "," ++ toString ((h / 256) % 256) ++ "," ++
      toString ((h / 65536) % 256) ++ "]"
  | .optU32 => if h % 2 = 1 then "Some(" ++ toString (h / 4294967296) ++ ")" else "None"

def implFor (s : Service) : Impl String String := fun i _ctx args =>
  let ty := match s.methods[i]? with
    | some m => m.ret.getD .unit
    | none => .unit
  retValue ty (fnv1a64 (toString i ++ ":" ++ ",".intercalate args))

/-! ## c17svc: rendering and parsing observations -/

def str (n : Name) : String := String.ofList n
def flag (b : Bool) : String := if b then "1" else "0"

def showFields (fs : List (Name × String)) : String :=
  if fs.isEmpty then "" else "{" ++ ",".intercalate (fs.map fun f => str f.1 ++ ":" ++ f.2) ++ "}"

def showObs : Obs String String → String
  | .called i svc m ctx args =>
    " ".intercalate (["called", toString i, flag svc.raw, str svc.name, flag m.raw, str m.name, ctx] ++ args)
  | .name n => "name " ++ str n
  | .request v fs => "request " ++ str v ++ showFields fs
  | .ran i ctx r args => " ".intercalate (["ran", toString i, ctx, "ret=" ++ r] ++ args)
  | .returned v => "returned " ++ v
  | .noop => "noop"

/-- Split at commas that are not inside `[..]` / `(..)`. -/
def splitTop : Nat → List Char → List Char → List (List Char)
  | _, cur, [] => [cur.reverse]
  | d, cur, c :: cs =>
    if c = ',' ∧ d = 0 then cur.reverse :: splitTop 0 [] cs
    else if c = '[' ∨ c = '(' then splitTop (d + 1) (c :: cur) cs
    else if c = ']' ∨ c = ')' then splitTop (d - 1) (c :: cur) cs
    else splitTop d (c :: cur) cs

def parseRequest (t : String) : Option (Name × List (Name × String)) :=
  let cs := t.toList
  let v := cs.takeWhile (· ≠ '{')
  let rest := cs.dropWhile (· ≠ '{')
  match rest with
  | [] => some (v, [])
  | _ :: body =>
    if body.getLast? ≠ some '}' then none
    else
      let inner := body.dropLast
      let parts := splitTop 0 [] inner
      let fs := parts.map fun p => (p.takeWhile (· ≠ ':'), String.ofList ((p.dropWhile (· ≠ ':')).drop 1))
      some (v, fs)

def parseObs : List String → Option (Obs String String)
  | "called" :: i :: sr :: sn :: mr :: mn :: ctx :: args => do
    some (.called (← i.toNat?) ⟨← parseBool sr, sn.toList⟩ ⟨← parseBool mr, mn.toList⟩ ctx args)
  | ["name", n] => some (.name n.toList)
  | ["request", r] => (parseRequest r).map fun p => .request p.1 p.2
  | "ran" :: i :: ctx :: r :: args => do
    let r ← (if r.startsWith "ret=" then some (r.drop 4).toString else none)
    some (.ran (← i.toNat?) ctx r args)
  | ["returned", v] => some (.returned v)
  | _ => none

def parseErrMessage (s : Service) : ParseErr → String
  | .pattern => "patterns aren't allowed in RPC args"
  | .receiver => "method args cannot start with self"
  | .new => "method name conflicts with generated fn `" ++ str s.ident.name ++ "Client::new`"
  | .serve => "method name conflicts with generated fn `" ++ str s.ident.printed ++ "::serve`"

def showVerdict (s : Service) : List String :=
  match classify s with
  | .accepted => ["accepted"]
  | .parser errs => "rejected parser" :: errs.map fun e => "message " ++ parseErrMessage s e
  | .macroPanic => ["rejected macro-panic"]
  | .rustc => ["rejected rustc"]

end TarpcModel.Driver.C17

namespace TarpcModel.Driver
open TarpcModel.Macro TarpcModel.Driver.C17

/-! ## c17svc: the family -/

def c17svc : Family where
  σ := Macro.Service
  μ := Macro.MonSt String String
  init ps := ⟨⟨C17.strParam ps "raw" "0" == "1", (C17.strParam ps "svc" "Svc").toList⟩, param ps "derive" 0, []⟩
  step s toks :=
    match toks with
    | "method" :: rest =>
      match C17.parseMethod rest with
      | some m => ({ s with methods := s.methods ++ [m] }, ["declared " ++ toString s.methods.length])
      | none => (s, ["bad-op"])
    | ["build"] => (s, C17.showVerdict s)
    | "invoke" :: i :: ctx :: args =>
      match i.toNat? with
      | some i =>
        if Macro.classify s = .accepted then (s, (Macro.invokeObs s (C17.implFor s) i ctx args).map C17.showObs)
        else (s, ["noop"])
      | none => (s, ["bad-op"])
    | _ => (s, ["bad-op"])
  monInit _ := {}
  monStep m toks :=
    match toks with
    | "declared" :: _ => m
    | ["accepted"] => m
    | "rejected" :: _ => m
    | "message" :: _ => m
    | ["noop"] => m
    | ["ACCEPTED(bad)"] => m.fail false "a program that must be rejected compiled"
    | _ =>
      match C17.parseObs toks with
      | some o => Macro.monStep m o
      | none => m.fail false ("unparsable obs: " ++ " ".intercalate toks)
  monVerdict m := if m.ok then none else some m.why

end TarpcModel.Driver

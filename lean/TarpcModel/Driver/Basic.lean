/-
Line-protocol plumbing shared by all families (see DESIGN.md appendix A).
A family is an executable model (`step` on `op` lines) plus a monitor (`monStep` on `obs` lines).
-/
namespace TarpcModel.Driver

/-- A model/monitor pair behind the line protocol. -/
structure Family where
  σ : Type
  μ : Type
  /-- Initial model state from the `script` header parameters (`name=value` tokens). -/
  init : List (String × String) → σ
  /-- One `op` line (already split into tokens): new state and the observation lines. -/
  step : σ → List String → σ × List String
  monInit : List (String × String) → μ
  /-- One `obs` line (tokens) fed to the monitor. -/
  monStep : μ → List String → μ
  /-- One `op` line (tokens) fed to the monitor (most monitors ignore ops). -/
  monOp : μ → List String → μ := fun m _ => m
  /-- `none` = accepted; `some why` = rejected. -/
  monVerdict : μ → Option String

def tokens (line : String) : List String :=
  (line.trimAscii.toString.splitOn " ").filter (· ≠ "")

def params (toks : List String) : List (String × String) :=
  toks.filterMap fun t =>
    match t.splitOn "=" with
    | [k, v] => some (k, v)
    | _ => none

def param (ps : List (String × String)) (k : String) (dflt : Nat) : Nat :=
  match ps.find? (·.1 == k) with
  | some (_, v) => v.toNat?.getD dflt
  | none => dflt

end TarpcModel.Driver

import TarpcModel.Driver.Basic
import TarpcModel.Sim.Obs
/- Text forms of messages and observations (must match harness/src/{simt,cli,srv}.rs). -/
namespace TarpcModel.Driver
open TarpcModel

def showSpan : Span → String
  | .given n => toString n
  | .fresh k => s!"f{k}"

def showTrace (t : Trace) : String :=
  s!"{t.traceId}/{showSpan t.span}/{if t.sampled then 1 else 0}"

def showRes : Res → String
  | .ok b => s!"ok:{b}"
  | .err k => s!"err:{k}"

def showMsg : Msg → String
  | .request id d t b => s!"req:{id}:{d}:{showTrace t}:{b}"
  | .cancel id t => s!"can:{id}:{showTrace t}"
  | .response id r => s!"resp:{id}:{showRes r}"

def showAct : Activity → String
  | .read => "read" | .ready => "ready" | .write => "write" | .flush => "flush" | .close => "close"

def showTask : TaskId → String
  | .dispatch k => s!"d{k}"
  | .call c => s!"c{c}"
  | .server s => s!"s{s}"
  | .exec r => s!"r{r}"

def showPoll : PollRes → String
  | .pending => "P" | .ready => "R" | .err => "E"

def showNext : NextRes → String
  | .pending => "P" | .item m => showMsg m | .err => "E" | .eof => "EOF"

def showOutcome : Outcome → String
  | .ok b => s!"ok:{b}"
  | .server k => s!"server:{k}"
  | .shutdown => "shutdown"
  | .send => "send"
  | .channel a => s!"channel:{showAct a}"
  | .deadline => "deadline"

def showRet : Ret → String
  | .pending => "pending"
  | .readyOk => "ok"
  | .readyErr a => s!"err({showAct a})"
  | .readyNone => "none"
  | .readyItem => "item"
  | .readyItemErr a => s!"itemerr({showAct a})"

def showHEv : HEv → String
  | .polled => "polled" | .completed => "completed" | .aborted => "aborted" | .dropped => "dropped"

def showObs : Obs → String
  | .tReady ep r => s!"T {showTask ep} ready {showPoll r}"
  | .tSend ep m ok => s!"T {showTask ep} send {showMsg m} {if ok then "ok" else "E"}"
  | .tFlush ep r => s!"T {showTask ep} flush {showPoll r}"
  | .tClose ep r => s!"T {showTask ep} close {showPoll r}"
  | .tNext ep r => s!"T {showTask ep} next {showNext r}"
  | .tViolation ep w => s!"T {showTask ep} violation {w}"
  | .wake t => s!"wake {showTask t}"
  | .ret t r => s!"ret {showTask t} {showRet r}"
  | .resolved c o t => s!"resolved {c} {showOutcome o} at={t}"
  | .yielded r id d t => s!"yielded {r} id={id} d={d} t={showTrace t}"
  | .handler r ev t => s!"handler {r} {showHEv ev} at={t}"
  | .counts ep a b => s!"counts {showTask ep} {a} {b}"
  | .spin t => s!"spin {showTask t}"
  | .panic t site => s!"panic {showTask t} {site}"
  | .took ep m => s!"took {showTask ep} {showMsg m}"
  | .noop => "noop"

/-! parsing -/

def splitOnChar (s : String) (c : Char) : List String := s.splitOn (String.singleton c)

def hexVal (c : Char) : Option Nat :=
  if '0' ≤ c ∧ c ≤ '9' then some (c.toNat - '0'.toNat)
  else if 'a' ≤ c ∧ c ≤ 'f' then some (c.toNat - 'a'.toNat + 10)
  else none

def parseHex (s : String) : Option Nat :=
  if s.isEmpty then none else s.toList.foldl (fun acc c => do some ((← acc) * 16 + (← hexVal c))) (some 0)

/-- `f<k>`: the model prints decimal counters, the implementation hex random ids; both are opaque
names of a fresh span (the comparison renames them by first appearance). -/
def parseSpan (s : String) : Option Span :=
  if s.startsWith "f" then
    let r := (s.drop 1).toString
    match r.toNat? with
    | some k => some (.fresh k)
    | none => (parseHex r).map .fresh
  else s.toNat?.map .given

def parseTrace (s : String) : Option Trace :=
  match splitOnChar s '/' with
  | [a, b, c] => do some { traceId := (← a.toNat?), span := (← parseSpan b), sampled := c == "1" }
  | _ => none

def parseMsg (s : String) : Option Msg :=
  match splitOnChar s ':' with
  | ["req", id, d, t, b] => do some (.request (← id.toNat?) (← d.toNat?) (← parseTrace t) (← b.toNat?))
  | ["can", id, t] => do some (.cancel (← id.toNat?) (← parseTrace t))
  | ["resp", id, "ok", b] => do some (.response (← id.toNat?) (.ok (← b.toNat?)))
  | ["resp", id, "err", k] => do some (.response (← id.toNat?) (.err (← k.toNat?)))
  | _ => none

def parseAct : String → Option Activity
  | "read" => some .read | "ready" => some .ready | "write" => some .write
  | "flush" => some .flush | "close" => some .close | _ => none

def parseTask (s : String) : Option TaskId :=
  let n := (s.drop 1).toNat?
  if s.startsWith "d" then n.map .dispatch
  else if s.startsWith "c" then n.map .call
  else if s.startsWith "s" then n.map .server
  else if s.startsWith "r" then n.map .exec
  else none

def parsePoll : String → Option PollRes
  | "P" => some .pending | "R" => some .ready | "E" => some .err | _ => none

def parseNext : String → Option NextRes
  | "P" => some .pending | "E" => some .err | "EOF" => some .eof
  | s => (parseMsg s).map .item

def parseOutcome (s : String) : Option Outcome :=
  match splitOnChar s ':' with
  | ["ok", b] => b.toNat?.map .ok
  | ["server", k] => k.toNat?.map .server
  | ["shutdown"] => some .shutdown
  | ["send"] => some .send
  | ["channel", a] => (parseAct a).map .channel
  | ["deadline"] => some .deadline
  | _ => none

def parseRet (s : String) : Option Ret :=
  match s with
  | "pending" => some .pending | "ok" => some .readyOk | "none" => some .readyNone | "item" => some .readyItem
  | _ =>
    if s.startsWith "err(" then (parseAct ((s.drop 4).dropEnd 1).toString).map .readyErr
    else if s.startsWith "itemerr(" then (parseAct ((s.drop 8).dropEnd 1).toString).map .readyItemErr
    else none

def parseHEv : String → Option HEv
  | "polled" => some .polled | "completed" => some .completed | "aborted" => some .aborted
  | "dropped" => some .dropped | _ => none

def kvNat (toks : List String) (k : String) : Option Nat :=
  toks.findSome? fun t => if t.startsWith (k ++ "=") then (t.drop (k.length + 1)).toNat? else none

def kvStr (toks : List String) (k : String) : Option String :=
  toks.findSome? fun t => if t.startsWith (k ++ "=") then some (t.drop (k.length + 1)).toString else none

def parseObs : List String → Option Obs
  | ["T", ep, "ready", r] => do some (.tReady (← parseTask ep) (← parsePoll r))
  | ["T", ep, "send", m, ok] => do some (.tSend (← parseTask ep) (← parseMsg m) (ok == "ok"))
  | ["T", ep, "flush", r] => do some (.tFlush (← parseTask ep) (← parsePoll r))
  | ["T", ep, "close", r] => do some (.tClose (← parseTask ep) (← parsePoll r))
  | ["T", ep, "next", r] => do some (.tNext (← parseTask ep) (← parseNext r))
  | ["T", ep, "violation", w] => do some (.tViolation (← parseTask ep) w)
  | ["wake", t] => (parseTask t).map .wake
  | ["ret", t, r] => do some (.ret (← parseTask t) (← parseRet r))
  | ["resolved", c, o, at_] => do some (.resolved (← c.toNat?) (← parseOutcome o) (← kvNat [at_] "at"))
  | "yielded" :: r :: rest => do
      some (.yielded (← r.toNat?) (← kvNat rest "id") (← kvNat rest "d") (← parseTrace (← kvStr rest "t")))
  | ["handler", r, ev, at_] => do some (.handler (← r.toNat?) (← parseHEv ev) (← kvNat [at_] "at"))
  | ["counts", ep, a, b] => do some (.counts (← parseTask ep) (← a.toNat?) (← b.toNat?))
  | ["spin", t] => (parseTask t).map .spin
  | "panic" :: t :: site => do some (.panic (← parseTask t) (" ".intercalate site))
  | ["took", ep, m] => do some (.took (← parseTask ep) (← parseMsg m))
  | ["noop"] => some .noop
  | _ => none

end TarpcModel.Driver

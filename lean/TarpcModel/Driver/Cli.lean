import TarpcModel.Driver.Show
import TarpcModel.Client.Model
/- Family `cli`: one client endpoint (dispatch + calls) over a SimTransport; the peer is the script. -/
namespace TarpcModel.Driver
open TarpcModel TarpcModel.Client

structure CliSt where
  s   : Client.St
  now : Nat := 0

def cliInit (ps : List (String × String)) : CliSt :=
  { s := Client.init 0 (param ps "max" 1) (param ps "buf" 1) (param ps "cap" 1) (param ps "coupled" 1 == 1) }

def parseDropAt : List String → DropAt
  | ["enter"] => .enter | ["mid"] => .mid | ["exit"] => .exit | _ => .none

/-- Applies one op to the client; `none` = not a client op / unparsable. -/
def cliApply (c : CliSt) (toks : List String) : Option CliSt :=
  let s := c.s
  let now := c.now
  match toks with
  | "call" :: rest => do
      let tr ← parseTrace (← kvStr rest "t")
      some { c with s := newCall s (← kvNat rest "h") { deadline := (← kvNat rest "d"), trace := tr } (← kvNat rest "b") }
  | ["poll-call", cid] => do some { c with s := pollCall s (← cid.toNat?) now }
  | "drop-call" :: cid :: site => do some { c with s := dropCall s (← cid.toNat?) (parseDropAt site) now }
  | ["clone", h] => do some { c with s := cloneHandle s (← h.toNat?) }
  | ["drop-handle", h] => do some { c with s := dropHandle s (← h.toNat?) }
  | ["poll-dispatch"] => some { c with s := pollDispatch s now }
  | ["drop-dispatch"] => some { c with s := dropDispatch s }
  | "inject" :: "resp" :: rest => do
      let id ← kvNat rest "id"
      let res ← match kvNat rest "ok", kvNat rest "err" with
        | some b, _ => some (Res.ok b)
        | _, some k => some (Res.err k)
        | _, _ => none
      some { c with s := liftT s (s.t.inject (.msg (.response id res))) }
  | ["inject", "err"] => some { c with s := liftT s (s.t.inject .err) }
  | ["eof"] => some { c with s := liftT s s.t.setEof }
  | ["set-ready", b] => some { c with s := liftT s (s.t.setReady (b == "1")) }
  | ["set-flush", b] => some { c with s := liftT s (s.t.setFlush (b == "1")) }
  | ["fault", k] =>
      let t := s.t
      let t := match k with
        | "ready" => { t with faultReady := true }
        | "send" => { t with faultSend := true }
        | "flush" => { t with faultFlush := true }
        | "close" => { t with faultClose := true }
        | _ => { t with faultNext := true }
      some { c with s := { s with t := t } }
  | ["take", n] => do
      let (t, ms) := s.t.take (← n.toNat?)
      some { c with s := ms.foldl (fun s m => emit s (.took (tid s) m)) { s with t := t } }
  | ["advance", n] => do
      let now' := now + (← n.toNat?)
      some { s := onAdvance s now', now := now' }
  | _ => none

def cliStep (c : CliSt) (toks : List String) : CliSt × List String :=
  match cliApply { c with s := { c.s with obs := [] } } toks with
  | some c' => ({ c' with s := { c'.s with obs := [] } }, c'.s.obs.reverse.map showObs)
  | none => (c, ["bad-op"])

def cli : Family where
  σ := CliSt
  μ := Unit
  init := cliInit
  step := cliStep
  monInit _ := ()
  monStep _ _ := ()
  monVerdict _ := none

end TarpcModel.Driver

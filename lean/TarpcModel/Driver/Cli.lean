import TarpcModel.Driver.Show
import TarpcModel.Monitors.Client
import TarpcModel.Client.Settle
import TarpcModel.Monitors.NoPanic
/- Family `cli`: one client endpoint (dispatch + calls) over a SimTransport; the peer is the script. -/
namespace TarpcModel.Driver
open TarpcModel TarpcModel.Client

def cliInit (ps : List (String × String)) : Sys :=
  initSys (param ps "max" 1) (param ps "buf" 1) (param ps "cap" 1) (param ps "coupled" 1 == 1)

def parseDropAt : List String → DropAt
  | ["enter"] => .enter | ["mid"] => .mid | ["exit"] => .exit | _ => .none

def parseFault : String → Option FaultKind
  | "ready" => some .ready | "send" => some .send | "flush" => some .flush
  | "close" => some .close | "next" => some .next | _ => none

def parseCOp (toks : List String) : Option COp :=
  match toks with
  | "call" :: rest => do
      some (.call (← kvNat rest "h") (← kvNat rest "d") (← parseTrace (← kvStr rest "t")) (← kvNat rest "b"))
  | ["poll-call", c] => c.toNat?.map .pollCall
  | "drop-call" :: c :: site => do some (.dropCall (← c.toNat?) (parseDropAt site))
  | ["clone", h] => h.toNat?.map .clone
  | ["drop-handle", h] => h.toNat?.map .dropHandle
  | ["poll-dispatch"] => some .pollDispatch
  | ["drop-dispatch"] => some .dropDispatch
  | "inject" :: "resp" :: rest => do
      let id ← kvNat rest "id"
      match kvNat rest "ok", kvNat rest "err" with
      | some b, _ => some (.injectResp id (.ok b))
      | _, some k => some (.injectResp id (.err k))
      | _, _ => none
  | ["inject", "err"] => some .injectErr
  | ["eof"] => some .eof
  | ["set-ready", b] => some (.setReady (b == "1"))
  | ["set-flush", b] => some (.setFlush (b == "1"))
  | ["fault", k] => (parseFault k).map .fault
  | ["fault-skip", n] => n.toNat?.map .faultSkip
  | ["self-wake", b] => some (.selfWake (b == "1"))
  | ["take", n] => n.toNat?.map .take
  | ["advance", n] => n.toNat?.map .advance
  | _ => none

def cliStep (c : Sys) (toks : List String) : Sys × List String :=
  if toks == ["settle"] then
    let unread := settleUnread { c with s := { c.s with obs := [] } }
    let (c', stuck) := settle { c with s := { c.s with obs := [] } }
    let lines := c'.s.obs.reverse.map showObs
    let items := (stuck.map fun k => s!"c{k}") ++ (if unread > 0 then [s!"inbound-unread={unread}"] else [])
    let verdict := if items.isEmpty then "settled ok" else "settled stuck " ++ " ".intercalate items
    ({ c' with s := { c'.s with obs := [] } }, lines ++ [verdict])
  else
  match parseCOp toks with
  | some op => let (c', os) := stepOp c op; (c', os.map showObs)
  | none => (c, ["bad-op"])

/-- All client-side monitors run side by side; the verdict lists the failing properties. -/
structure CliMon where
  c01 : Mon C01St := { st := [] }
  c03 : Mon Unit := { st := () }
  c05 : Mon C05St := { st := none }
  c09 : Mon C09St := { st := none }
  c10 : Mon C10St := { st := {} }
  c11 : Mon Unit := { st := () }
  c14 : Mon C14St := { st := {} }
  c18 : Mon Unit := { st := () }
  maxInFlight : Nat := 1
  c02 : Option String := none
  c16 : Option String := none
  garbled : Option String := none

def CliMon.feed (m : CliMon) (e : CEv) : CliMon :=
  { m with c16 := m.c16.orElse (fun _ => match e with | .obs o => panicOf o | _ => none), c01 := Mon.step checkC01 m.c01 e, c03 := Mon.step checkC03 m.c03 e, c05 := Mon.step checkC05 m.c05 e,
           c09 := Mon.step checkC09 m.c09 e, c10 := Mon.step checkC10 m.c10 e,
           c11 := Mon.step (checkC11 m.maxInFlight) m.c11 e, c14 := Mon.step checkC14 m.c14 e,
           c18 := Mon.step checkC18 m.c18 e }

def CliMon.verdict (m : CliMon) : Option String :=
  let fs := [("C01", m.c01.bad), ("C03", m.c03.bad), ("C05", m.c05.bad), ("C09", m.c09.bad), ("C10", m.c10.bad),
             ("C11", m.c11.bad), ("C14", m.c14.bad), ("C18", m.c18.bad), ("C02", m.c02), ("C16", m.c16), ("PARSE", m.garbled)]
  let bad := fs.filterMap fun (p, b) => b.map fun w => s!"[{p}] {w}"
  if bad.isEmpty then none else some (" ;; ".intercalate bad)

def cli : Family where
  σ := Sys
  μ := CliMon
  init := cliInit
  step := cliStep
  monInit ps := { maxInFlight := param ps "max" 1 }
  monStep m toks :=
    match toks with
    | ["settled", "ok"] => m
    | "settled" :: "stuck" :: cs =>
        { m with c02 := m.c02.orElse fun _ => some ("calls still pending with nothing left to wake the system: " ++ " ".intercalate cs) }
    | _ =>
    match parseObs toks with
    | some o => m.feed (.obs o)
    | none => { m with garbled := m.garbled.orElse fun _ => some ("unparsable obs: " ++ " ".intercalate toks) }
  monOp m toks :=
    if toks == ["settle"] then m else
    match parseCOp toks with
    | some o => m.feed (.op o)
    | none => { m with garbled := m.garbled.orElse fun _ => some ("unparsable op: " ++ " ".intercalate toks) }
  monVerdict m := m.verdict

end TarpcModel.Driver

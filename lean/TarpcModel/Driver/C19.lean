import TarpcModel.Driver.Basic
import TarpcModel.Monitors.C19
/-
Line protocol of family `c19` (one `Serve::serve` call through a stack of request-hook wrappers per op).

  op  hooks <tree> c=<ctx> req=<req>
  obs call <tree> <ctx> <req>                 -- echo, so that the monitor knows the stack
  obs before <tag> <ctx> <req> ok|fail        -- a before-hook (or before part) ran, saw <ctx> <req>
  obs handler <tag> <ctx> <req>
  obs after <tag> <ctx> ok:<v>|err:<e>        -- an after-hook (or after part) ran, saw <ctx> and that result
  obs result ok:<v>|err:<e>

`<tree>` is one token: the wrapper stack outermost first, `/`-separated, ending with the handler:
  `B<hook>` inner.before(hook)   `A<hook>` inner.after(hook)   `W<hook>` inner.before_and_after(hook)
  `L<hook>+<hook>…` before().then(h1).then(h2)….serving(inner)   (`L` alone: the empty list)
  `M<hook>+<hook>…` inner.before(before().then(h1)…)             (`M` alone: `BeforeRequestNil`)
  `H<tag>:<res>`    the handler, returning `<res>` = `o<v>` | `e<e>`
  `<hook>` = `<tag>:<f|p>:<ctx-edit>:<res-edit>:<after-ctx-edit>`  (f = the before part fails)
  ctx edits `k` | `a<n>` | `s<n>` (keep / add n / set n);  res edits `k` | `o<v>` | `e<e>`.
-/
namespace TarpcModel.Driver
open TarpcModel.Hooks

/-- First character and the rest. -/
def c19Split (s : String) : Option (Char × String) :=
  match s.toList with
  | [] => none
  | ch :: rest => some (ch, String.ofList rest)

def c19Nat (s : String) : Option Nat :=
  if s.isEmpty || !s.all Char.isDigit then none else s.toNat?

def c19ParseCtxEdit (s : String) : Option CtxEdit :=
  match c19Split s with
  | some ('k', "") => some .keep
  | some ('a', n) => (c19Nat n).map .add
  | some ('s', n) => (c19Nat n).map .set
  | _ => none

def c19ParseResEdit (s : String) : Option ResEdit :=
  match c19Split s with
  | some ('k', "") => some .keep
  | some ('o', n) => (c19Nat n).map .ok
  | some ('e', n) => (c19Nat n).map .err
  | _ => none

def c19ParseRes (s : String) : Option Res :=
  match c19Split s with
  | some ('o', n) => (c19Nat n).map .ok
  | some ('e', n) => (c19Nat n).map .err
  | _ => none

def c19ParseHook (s : String) : Option Hook :=
  match s.splitOn ":" with
  | [t, f, e, r, a] => do
      let fail ← (match f with | "f" => some true | "p" => some false | _ => none)
      some { tag := ← c19Nat t, fail := fail, edit := ← c19ParseCtxEdit e,
             redit := ← c19ParseResEdit r, aedit := ← c19ParseCtxEdit a }
  | _ => none

def c19ParseHooks (s : String) : Option (List Hook) :=
  if s.isEmpty then some []
  else do
    let hs ← (s.splitOn "+").mapM c19ParseHook
    if hs.length ≤ 4 then some hs else none

/-- One wrapper token applied to the already built inner stack. -/
def c19Wrap (tok : String) (inner : Serve) : Option Serve :=
  match c19Split tok with
  | some ('B', h) => (c19ParseHook h).map fun h => .before h inner
  | some ('A', h) => (c19ParseHook h).map fun h => .after inner h
  | some ('W', h) => (c19ParseHook h).map fun h => .both h inner
  | some ('L', hs) => (c19ParseHooks hs).map fun hs => serving (chain hs) inner
  | some ('M', hs) => (c19ParseHooks hs).map fun hs => .beforeList (chain hs) inner
  | _ => none

def c19ParseLeaf (tok : String) : Option Serve :=
  match c19Split tok with
  | some ('H', b) =>
      match b.splitOn ":" with
      | [t, r] => do some (.leaf (← c19Nat t) (← c19ParseRes r))
      | _ => none
  | _ => none

def c19ParseTree (s : String) : Option Serve :=
  match (s.splitOn "/").reverse with
  | [] => none
  | leaf :: wrapsInnerFirst => do
      let l ← c19ParseLeaf leaf
      wrapsInnerFirst.foldlM (fun inner tok => c19Wrap tok inner) l

def c19Param (pre tok : String) : Option Nat :=
  match tok.splitOn "=" with
  | [k, v] => if k == pre then c19Nat v else none
  | _ => none

def c19ParseOp : List String → Option (Serve × Ctx × Req)
  | ["hooks", tree, c, q] => do some (← c19ParseTree tree, ← c19Param "c" c, ← c19Param "req" q)
  | _ => none

def c19ShowRes : Res → String
  | .ok v => s!"ok:{v}"
  | .err e => s!"err:{e}"

def c19ParseShownRes (s : String) : Option Res :=
  match s.splitOn ":" with
  | ["ok", v] => (c19Nat v).map .ok
  | ["err", e] => (c19Nat e).map .err
  | _ => none

def c19ShowEvent : Event → String
  | .before t c q f => s!"before {t} {c} {q} " ++ (if f then "fail" else "ok")
  | .handler t c q => s!"handler {t} {c} {q}"
  | .after t c r => s!"after {t} {c} {c19ShowRes r}"

def c19ParseObs : List String → Option Obs
  | ["call", tree, c, q] => do some (.call (← c19ParseTree tree) (← c19Nat c) (← c19Nat q))
  | ["before", t, c, q, f] => do
      let failed ← (match f with | "fail" => some true | "ok" => some false | _ => none)
      some (.ev (.before (← c19Nat t) (← c19Nat c) (← c19Nat q) failed))
  | ["handler", t, c, q] => do some (.ev (.handler (← c19Nat t) (← c19Nat c) (← c19Nat q)))
  | ["after", t, c, r] => do some (.ev (.after (← c19Nat t) (← c19Nat c) (← c19ParseShownRes r)))
  | ["result", r] => do some (.result (← c19ParseShownRes r))
  | _ => none

def c19 : Family where
  σ := Unit
  μ := MonSt
  init _ := ()
  step s toks :=
    match toks, c19ParseOp toks with
    | [_, tree, _, _], some (sv, c, q) =>
        let p := eval sv c q
        (s, s!"call {tree} {c} {q}" :: (p.1.map c19ShowEvent ++ ["result " ++ c19ShowRes p.2]))
    | _, _ => (s, ["bad-op"])
  monInit _ := {}
  monStep m toks :=
    match c19ParseObs toks with
    | some o => TarpcModel.Hooks.monStep m o
    | none => monFail m ("unparsable obs: " ++ " ".intercalate toks)
  monVerdict m :=
    if !m.ok then some m.why
    else if m.cur.isSome then some "call without result at end of trace"
    else none

end TarpcModel.Driver

import TarpcModel.Driver.Basic
import TarpcModel.Monitors.C13
namespace TarpcModel.Driver
open TarpcModel.CPK

def c13ParseOp : List String → Option Op
  | ["arrive", k] => k.toNat?.map .arrive
  | ["poll"] => some .poll
  | ["close", c] => c.toNat?.map .close
  | ["end"] => some .endListener
  | _ => none

def c13ShowObs : Obs → String
  | .arrived c k => s!"arrived {c} {k}"
  | .shed c k => s!"shed {c} {k}"
  | .yielded c k => s!"yielded {c} {k}"
  | .pending => "pending"
  | .ended => "ended"
  | .closed c => s!"closed {c}"
  | .noop => "noop"

def c13ParseObs : List String → Option Obs
  | ["arrived", c, k] => do some (.arrived (← c.toNat?) (← k.toNat?))
  | ["shed", c, k] => do some (.shed (← c.toNat?) (← k.toNat?))
  | ["yielded", c, k] => do some (.yielded (← c.toNat?) (← k.toNat?))
  | ["pending"] => some .pending
  | ["ended"] => some .ended
  | ["closed", c] => c.toNat?.map .closed
  | ["noop"] => some .noop
  | _ => none

def c13 : Family where
  σ := St
  μ := Nat × MonSt
  init ps := initCurrent (param ps "n" 1)
  step s toks :=
    match c13ParseOp toks with
    | some op => let (s', o) := step s op; (s', o.map c13ShowObs)
    | none => (s, ["bad-op"])
  monInit ps := (param ps "n" 1, {})
  monStep m toks :=
    match c13ParseObs toks with
    | some o => (m.1, monStep m.1 m.2 o)
    | none => (m.1, { m.2 with ok := false, why := "unparsable obs: " ++ " ".intercalate toks })
  monVerdict m := if m.2.ok then none else some m.2.why

end TarpcModel.Driver

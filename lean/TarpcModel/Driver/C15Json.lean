import TarpcModel.Driver.C15Codec
import TarpcModel.Wire.Json
/-!
Family `c15json`: the JSON value-level codec of tarpc's protocol messages (`T = String`).

Header: `script <i> c15json`.  Message text form, ops and monitor are those of `c15bin`
(`Driver/C15Codec.lean`); the bytes are the JSON text:

* `enc <msg>`        → `obs bytes <hex>` and `obs roundtrip <msg> <msg'|error|panic>`
* `dec cm <hex|->`   → `obs msg <msg>` | `obs error` | `obs panic`      (read a `ClientMessage<String>`)
* `dec rsp <hex|->`  → `obs msg <msg>` | `obs error`                    (read a `Response<String>`)
-/
namespace TarpcModel.Driver.C15Json
open TarpcModel.Bincode TarpcModel.Driver TarpcModel.Driver.C15Bin
open TarpcModel.Json (encodeJson encodeJsonResponse decodeJsonResponse decStrBody)

def readCm (bs : Bytes) : Outcome (ClientMessage String) := TarpcModel.Json.readClientMessage decStrBody bs

def step (toks : List String) : List String :=
  match toks with
  | ["enc", tok] =>
    match parseClientMessage strBody tok with
    | some m =>
      let bs := encodeJson m
      [s!"bytes {showHex bs}", s!"roundtrip {tok} {showCmOutcome strBody (readCm bs)}"]
    | none =>
      match parseResponse strBody tok with
      | some r =>
        let bs := encodeJsonResponse r
        let back := match decodeJsonResponse bs with
          | some r' => showResponse strBody r'
          | none => "error"
        [s!"bytes {showHex bs}", s!"roundtrip {tok} {back}"]
      | none => ["bad-op"]
  | ["dec", "cm", h] =>
    match parseHexTok h with
    | some bs =>
      match readCm bs with
      | .value m => [s!"msg {showClientMessage strBody m}"]
      | .error => ["error"]
      | .panic => ["panic"]
    | none => ["bad-op"]
  | ["dec", "rsp", h] =>
    match parseHexTok h with
    | some bs =>
      match decodeJsonResponse bs with
      | some r => [s!"msg {showResponse strBody r}"]
      | none => ["error"]
    | none => ["bad-op"]
  | _ => ["bad-op"]

end TarpcModel.Driver.C15Json

namespace TarpcModel.Driver
open C15Bin

def c15json : Family where
  σ := Unit
  μ := C15Mon
  init _ := ()
  step s toks := (s, C15Json.step toks)
  monInit _ := {}
  monStep := c15MonStep
  monVerdict m := if m.ok then none else some m.why

end TarpcModel.Driver

import TarpcModel.Driver.C15Codec
import TarpcModel.Wire.Json
/-!
Family `c15json`: the JSON value-level codec of tarpc's protocol messages (`T = String`).

Header: `script <i> c15json`.  Message text form, ops and monitor are those of `c15bin`
(`Driver/C15Codec.lean`); the bytes are the JSON text:

* `enc <msg>`        → `obs bytes <hex>` and `obs roundtrip <msg> <msg'|error|panic>`
* `dec cm <hex|->`   → `obs msg <msg>` | `obs error` | `obs panic`      (read a `ClientMessage<String>`)
* `dec rsp <hex|->`  → `obs msg <msg>` | `obs error`                    (read a `Response<String>`)
* `dec-must cm|rsp <hex> [<msg>]` → as `dec`.  The document is one the property obliges the reader to
  understand — a real encoding whose optional members (a cancellation's `trace_context`, a context's
  `deadline`) may be left out, members reordered, insignificant whitespace added — and `<msg>`, if given, is
  the message it stands for (defaults filled in: all-zero unsampled trace context, 10 s deadline).  The
  monitor (`c15JsonMonOp` / `c15JsonMonStep`) fails with
  `[C15] a well-formed message a peer may send was not understood: …` when the reader answers
  `obs error` / `obs panic`, and when it answers with another message than `<msg>`.
-/
namespace TarpcModel.Driver.C15Json
open TarpcModel.Bincode TarpcModel.Driver TarpcModel.Driver.C15Bin
open TarpcModel.Json (encodeJson encodeJsonResponse decodeJsonResponse decStrBody)

def readCm (bs : Bytes) : Outcome (ClientMessage String) := TarpcModel.Json.readClientMessage decStrBody bs

def stepDec (toks : List String) : List String :=
  match toks with
  | ["enc", tok] =>
    match parseClientMessage strBody tok with
    | some m =>
      let bs := encodeJson m
      [s!"bytes {showHex bs}", s!"roundtrip {tok} {showCmOutcome strBody (readCm bs)}"]
    | none =>
      match parseResponse strBody tok with
      | some r =>
        let bs := encodeJsonResponse r
        let back := match decodeJsonResponse bs with
          | some r' => showResponse strBody r'
          | none => "error"
        [s!"bytes {showHex bs}", s!"roundtrip {tok} {back}"]
      | none => ["bad-op"]
  | ["dec", "cm", h] =>
    match parseHexTok h with
    | some bs =>
      match readCm bs with
      | .value m => [s!"msg {showClientMessage strBody m}"]
      | .error => ["error"]
      | .panic => ["panic"]
    | none => ["bad-op"]
  | ["dec", "rsp", h] =>
    match parseHexTok h with
    | some bs =>
      match decodeJsonResponse bs with
      | some r => [s!"msg {showResponse strBody r}"]
      | none => ["error"]
    | none => ["bad-op"]
  | _ => ["bad-op"]

/-- `dec-must` is `dec` for the model: the obligation is the monitor's business. -/
def step (toks : List String) : List String :=
  match toks with
  | ["dec-must", k, h] => stepDec ["dec", k, h]
  | ["dec-must", k, h, _] => stepDec ["dec", k, h]
  | _ => stepDec toks

end TarpcModel.Driver.C15Json

namespace TarpcModel.Driver
open C15Bin

/-- Printable form of a document for a verdict text. -/
def c15ShowDoc (h : String) : String :=
  match parseHexTok h with
  | some bs => String.ofList (bs.flatMap fun b =>
      if 0x20 ≤ b.toNat ∧ b.toNat < 0x7f then [Char.ofNat b.toNat]
      else ['\\', 'x', hexChar (b.toNat / 16), hexChar (b.toNat % 16)])
  | none => h

/-- Monitor of `c15json`: the round-trip rule of `c15bin`, plus the obligation attached to `dec-must` ops. -/
structure C15JsonMon where
  base : C15Mon := {}
  /-- the pending `dec-must`: (`cm`/`rsp`, document, expected message) -/
  must : Option (String × String × Option String) := none

def c15JsonMonOp (m : C15JsonMon) (toks : List String) : C15JsonMon :=
  match toks with
  | ["dec-must", k, h] => { m with must := some (k, h, none) }
  | ["dec-must", k, h, e] => { m with must := some (k, h, some e) }
  | _ => { m with must := none }

def c15JsonMonStep (m : C15JsonMon) (toks : List String) : C15JsonMon :=
  if !m.base.ok then m else
  match m.must, toks with
  | some (k, h, _), ["error"] =>
    { m with base := { ok := false, why := s!"[C15] a well-formed message a peer may send was not understood: {k} {c15ShowDoc h} -> error" } }
  | some (k, h, _), ["panic"] =>
    { m with base := { ok := false, why := s!"[C15] a well-formed message a peer may send was not understood: {k} {c15ShowDoc h} -> panic" } }
  | some (k, h, some e), ["msg", x] =>
    if x = e then m
    else { m with base := { ok := false, why := s!"[C15] a well-formed message a peer may send was not understood: {k} {c15ShowDoc h} stands for {e}, read as {x}" } }
  | _, _ => { m with base := c15MonStep m.base toks }

def c15json : Family where
  σ := Unit
  μ := C15JsonMon
  init _ := ()
  step s toks := (s, C15Json.step toks)
  monInit _ := {}
  monStep := c15JsonMonStep
  monOp := c15JsonMonOp
  monVerdict m := if m.base.ok then none else some m.base.why

end TarpcModel.Driver

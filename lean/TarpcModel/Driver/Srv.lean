import TarpcModel.Driver.Show
import TarpcModel.Server.Model
/- Family `srv`: one server connection (Requests stream + executions) over a SimTransport. -/
namespace TarpcModel.Driver
open TarpcModel TarpcModel.Server

structure SrvSt where
  s   : Server.St
  now : Nat := 0

def srvInit (ps : List (String × String)) : SrvSt :=
  let limit : Option Nat := match ps.find? (·.1 == "limit") with
    | some (_, v) => v.toNat?
    | none => none
  { s := Server.init 0 limit (param ps "resp" 1) (param ps "cap" 1) (param ps "coupled" 1 == 1) }

def parseResKV (rest : List String) : Option Res :=
  match kvNat rest "ok", kvNat rest "err" with
  | some b, _ => some (.ok b)
  | _, some k => some (.err k)
  | _, _ => none

def srvApply (c : SrvSt) (toks : List String) : Option SrvSt :=
  let s := c.s
  let now := c.now
  match toks with
  | ["poll-server"] => some { c with s := pollServer s now }
  | ["drop-server"] => some { c with s := dropServer s }
  | ["poll-exec", r] => do some { c with s := pollExec s (← r.toNat?) now }
  | ["drop-exec", r] => do some { c with s := dropExec s (← r.toNat?) now }
  | "finish" :: r :: rest => do some { c with s := finishHandler s (← r.toNat?) (← parseResKV rest) }
  | "inject" :: "req" :: rest => do
      let tr ← parseTrace (← kvStr rest "t")
      some { c with s := liftT s (s.t.inject (.msg (.request (← kvNat rest "id") (← kvNat rest "d") tr (← kvNat rest "b")))) }
  | "inject" :: "cancel" :: rest => do
      let tr ← parseTrace (← kvStr rest "t")
      some { c with s := liftT s (s.t.inject (.msg (.cancel (← kvNat rest "id") tr))) }
  | ["inject", "err"] => some { c with s := liftT s (s.t.inject .err) }
  | ["eof"] => some { c with s := liftT s s.t.setEof }
  | ["set-ready", b] => some { c with s := liftT s (s.t.setReady (b == "1")) }
  | ["set-flush", b] => some { c with s := liftT s (s.t.setFlush (b == "1")) }
  | ["fault", k] =>
      let t := s.t
      let t := match k with
        | "ready" => { t with faultReady := true }
        | "send" => { t with faultSend := true }
        | "flush" => { t with faultFlush := true }
        | "close" => { t with faultClose := true }
        | _ => { t with faultNext := true }
      some { c with s := { s with t := t } }
  | ["take", n] => do
      let (t, ms) := s.t.take (← n.toNat?)
      some { c with s := ms.foldl (fun s m => Server.emit s (.took (Server.tid s) m)) { s with t := t } }
  | ["advance", n] => do
      let now' := now + (← n.toNat?)
      some { s := onAdvance s now', now := now' }
  | _ => none

def srvStep (c : SrvSt) (toks : List String) : SrvSt × List String :=
  match srvApply { c with s := { c.s with obs := [] } } toks with
  | some c' => ({ c' with s := { c'.s with obs := [] } }, c'.s.obs.reverse.map showObs)
  | none => (c, ["bad-op"])

def srv : Family where
  σ := SrvSt
  μ := Unit
  init := srvInit
  step := srvStep
  monInit _ := ()
  monStep _ _ := ()
  monVerdict _ := none

end TarpcModel.Driver

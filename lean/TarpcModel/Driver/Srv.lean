import TarpcModel.Driver.Show
import TarpcModel.Monitors.Server
import TarpcModel.Server.Settle
import TarpcModel.Monitors.NoPanic
import TarpcModel.Monitors.EofOnce
/- Family `srv`: one server connection (Requests stream + executions) over a SimTransport. -/
namespace TarpcModel.Driver
open TarpcModel TarpcModel.Server

def srvLimit (ps : List (String × String)) : Option Nat :=
  match ps.find? (·.1 == "limit") with
  | some (_, v) => v.toNat?
  | none => none

def srvInit (ps : List (String × String)) : Server.Sys :=
  Server.initSys (srvLimit ps) (param ps "resp" 1) (param ps "cap" 1) (param ps "coupled" 1 == 1)

def parseResKV (rest : List String) : Option Res :=
  match kvNat rest "ok", kvNat rest "err" with
  | some b, _ => some (.ok b)
  | _, some k => some (.err k)
  | _, _ => none

def parseSFault : String → Option Server.FaultKind
  | "ready" => some .ready | "send" => some .send | "flush" => some .flush
  | "close" => some .close | "next" => some .next | _ => none

def parseSOp (toks : List String) : Option SOp :=
  match toks with
  | ["poll-server"] => some .pollServer
  | ["drop-server"] => some .dropServer
  | ["poll-exec", r] => r.toNat?.map .pollExec
  | ["drop-exec", r] => r.toNat?.map .dropExec
  | "finish" :: r :: rest => do some (.finish (← r.toNat?) (← parseResKV rest))
  | "inject" :: "req" :: rest => do
      some (.injectReq (← kvNat rest "id") (← kvNat rest "d") (← parseTrace (← kvStr rest "t")) (← kvNat rest "b"))
  | "inject" :: "cancel" :: rest => do some (.injectCancel (← kvNat rest "id") (← parseTrace (← kvStr rest "t")))
  | ["inject", "err"] => some .injectErr
  | ["eof"] => some .eof
  | ["set-ready", b] => some (.setReady (b == "1"))
  | ["set-flush", b] => some (.setFlush (b == "1"))
  | ["fault", k] => (parseSFault k).map .fault
  | ["fault-skip", n] => n.toNat?.map .faultSkip
  | ["self-wake", b] => some (.selfWake (b == "1"))
  | ["take", n] => n.toNat?.map .take
  | ["advance", n] => n.toNat?.map .advance
  | _ => none

def srvStep (c : Server.Sys) (toks : List String) : Server.Sys × List String :=
  if toks == ["settle"] then
    let (c', st) := Server.settle { c with s := { c.s with obs := [] } }
    let lines := c'.s.obs.reverse.map showObs
    let verdict := if st.isEmpty then "settled ok" else "settled stuck " ++ " ".intercalate st
    ({ c' with s := { c'.s with obs := [] } }, lines ++ [verdict])
  else
  match parseSOp toks with
  | some op =>
      let (c', os) := Server.stepOp c op
      (c', os.map showObs)
  | none => (c, ["bad-op"])

structure SrvMon where
  limit : Option Nat := none
  c04 : Server.Mon Unit := { st := () }
  c06 : Server.Mon Unit := { st := () }
  c06s : Server.Mon C06StallSt := { st := {} }
  c10e : Server.Mon Unit := { st := () }
  c08 : Server.Mon C08St := { st := [] }
  c09 : Server.Mon Server.C09St := { st := none }
  c10 : Server.Mon Nat := { st := 0 }
  c11 : Server.Mon Unit := { st := () }
  c12 : Server.Mon Bool := { st := false }
  c14 : Server.Mon Client.C14St := { st := {} }
  c18 : Server.Mon Unit := { st := () }
  c02 : Option String := none
  c16 : Option String := none
  garbled : Option String := none

def SrvMon.feed (m : SrvMon) (e : SEv) : SrvMon :=
  { m with c16 := m.c16.orElse (fun _ => match e with | .obs o => panicOf o | _ => none), c04 := Server.Mon.step checkC04 m.c04 e, c06 := Server.Mon.step checkC06 m.c06 e,
           c06s := Server.Mon.step checkC06Stall m.c06s e,
           c10e := Server.Mon.step Server.checkEofOnce m.c10e e,
           c08 := Server.Mon.step checkC08 m.c08 e, c09 := Server.Mon.step Server.checkC09 m.c09 e,
           c10 := Server.Mon.step Server.checkC10 m.c10 e, c11 := Server.Mon.step Server.checkC11 m.c11 e,
           c12 := Server.Mon.step checkC12 m.c12 e, c14 := Server.Mon.step Server.checkC14 m.c14 e,
           c18 := Server.Mon.step Server.checkC18 m.c18 e }

def SrvMon.verdict (m : SrvMon) : Option String :=
  let fs := [("C04", m.c04.bad), ("C06", m.c06.bad.orElse fun _ => m.c06s.bad), ("C08", m.c08.bad), ("C09", m.c09.bad),
             ("C10", m.c10.bad.orElse fun _ => m.c10e.bad), ("C11", m.c11.bad), ("C12", m.c12.bad), ("C14", m.c14.bad), ("C18", m.c18.bad),
             ("C02", m.c02), ("C16", m.c16), ("PARSE", m.garbled)]
  let bad := fs.filterMap fun (p, b) => b.map fun w => s!"[{p}] {w}"
  if bad.isEmpty then none else some (" ;; ".intercalate bad)

def srvMonInit (ps : List (String × String)) : SrvMon :=
  let l := srvLimit ps
  let bk : Server.Book := { limit := l }
  { limit := l, c04 := { st := (), book := bk }, c06 := { st := (), book := bk }, c06s := { st := {}, book := bk }, c10e := { st := (), book := bk },
    c08 := { st := [], book := bk }, c09 := { st := none, book := bk }, c10 := { st := 0, book := bk },
    c11 := { st := (), book := bk }, c12 := { st := false, book := bk }, c14 := { st := {}, book := bk },
    c18 := { st := (), book := bk } }

def srv : Family where
  σ := Server.Sys
  μ := SrvMon
  init := srvInit
  step := srvStep
  monInit := srvMonInit
  monStep m toks :=
    match toks with
    | ["settled", "ok"] => m
    | "settled" :: "stuck" :: cs =>
        { m with c02 := m.c02.orElse fun _ => some ("nothing is woken yet work is left: " ++ " ".intercalate cs) }
    | _ =>
    match parseObs toks with
    | some o => m.feed (.obs o)
    | none => { m with garbled := m.garbled.orElse fun _ => some ("unparsable obs: " ++ " ".intercalate toks) }
  monOp m toks :=
    if toks == ["settle"] then m else
    match parseSOp toks with
    | some o => m.feed (.op o)
    | none => { m with garbled := m.garbled.orElse fun _ => some ("unparsable op: " ++ " ".intercalate toks) }
  monVerdict m := m.verdict

end TarpcModel.Driver

import TarpcModel.Driver.Show
import TarpcModel.Monitors.Chain
/-
Family `chain` (service-chain parts of C04 and C18).

header  depth=<n> limit=<none|n> calls=<k> tr=<unbounded|bounded>
ops     start <c> t=<trace id>/<span>/<0|1> d=<deadline ns> stop=<h>
        run | abandon <c> | finish <c> | advance <ns>
obs     wire hop=<i> req call=<c> t=<tid>/<span>/<s> d=<ns>
        wire hop=<i> cancel call=<c> t=<tid>/<span>/<s>
        handler hop=<i> call=<c> t=<tid>/<span>/<s> deadline=<ns>
        handler hop=<i> call=<c> dropped | completed
        outcome <c> ok:<v> | err:WouldBlock
        now <ns> | noop
-/
namespace TarpcModel.Driver
open TarpcModel TarpcModel.Chain

def chainKv (toks : List String) (k : String) : Option String :=
  ((params toks).find? (·.1 == k)).map (·.2)

def chainNat (toks : List String) (k : String) : Option Nat := (chainKv toks k).bind (·.toNat?)

def chainTrace (toks : List String) : Option Trace :=
  match toks.find? (·.startsWith "t=") with
  | some t => parseTrace (t.drop 2).toString
  | none => none

def chainParseOp : List String → Option Chain.Op
  | "start" :: c :: rest => do
      some (.start (← c.toNat?) (← chainTrace rest) (← chainNat rest "d") (← chainNat rest "stop"))
  | ["run"] => some .run
  | ["abandon", c] => c.toNat?.map .abandon
  | ["finish", c] => c.toNat?.map .finish
  | ["advance", n] => n.toNat?.map .advance
  | _ => none

def chainShowObs : Chain.Obs → String
  | .wireReq i c t d => s!"wire hop={i} req call={c} t={showTrace t} d={d}"
  | .wireCancel i c t => s!"wire hop={i} cancel call={c} t={showTrace t}"
  | .handler i c t d => s!"handler hop={i} call={c} t={showTrace t} deadline={d}"
  | .dropped i c => s!"handler hop={i} call={c} dropped"
  | .completed i c => s!"handler hop={i} call={c} completed"
  | .outcomeOk c v => s!"outcome {c} ok:{v}"
  | .outcomeRefused c => s!"outcome {c} err:WouldBlock"
  | .now t => s!"now {t}"
  | .noop => "noop"

def chainParseObs : List String → Option Chain.Obs
  | "wire" :: rest => do
      let i ← chainNat rest "hop"
      let c ← chainNat rest "call"
      let t ← chainTrace rest
      if rest.contains "req" then some (.wireReq i c t (← chainNat rest "d"))
      else if rest.contains "cancel" then some (.wireCancel i c t)
      else none
  | "handler" :: rest => do
      let i ← chainNat rest "hop"
      let c ← chainNat rest "call"
      if rest.contains "dropped" then some (.dropped i c)
      else if rest.contains "completed" then some (.completed i c)
      else some (.handler i c (← chainTrace rest) (← chainNat rest "deadline"))
  | ["outcome", c, r] => do
      let c ← c.toNat?
      if r == "err:WouldBlock" then some (.outcomeRefused c)
      else if r.startsWith "ok:" then some (.outcomeOk c (← (r.drop 3).toString.toNat?))
      else none
  | ["now", t] => t.toNat?.map .now
  | ["noop"] => some .noop
  | _ => none

def chainLimit (ps : List (String × String)) : Option Nat :=
  match ps.find? (·.1 == "limit") with
  | some (_, v) => v.toNat?
  | none => none

def chain : Family where
  σ := St
  μ := MonSt
  init ps := Chain.init (param ps "depth" 1) (chainLimit ps)
  step s toks :=
    match chainParseOp toks with
    | some op => let r := Chain.step s op; (r.1, r.2.map chainShowObs)
    | none => (s, ["bad-op"])
  monInit ps := Chain.monInit (param ps "depth" 1)
  monOp m toks :=
    match chainParseOp toks with
    | some op => Chain.monOp m op
    | none => if m.ok then m.fail ("unparsable op: " ++ " ".intercalate toks) else m
  monStep m toks :=
    match chainParseObs toks with
    | some o => Chain.monObs m o
    | none => if m.ok then m.fail ("unparsable obs: " ++ " ".intercalate toks) else m
  monVerdict m := let m := Chain.closeOut m; if m.ok then none else some m.why

end TarpcModel.Driver

import TarpcModel.Driver.Basic
import TarpcModel.Monitors.C15Stream
/-
Line protocol for the stream-level half of C15.

Family `c15frame`  (header: `max=<max frame length>`; bytes are lower-case hex, `-` = no bytes)
  op chunk <hex>   -> obs fed <hex>, then obs frame <hex> per decoded frame, then obs error oversize
                      if the decoder hit a length prefix above `max`
  op eof           -> obs eof | obs error truncated
  op encode <hex>  -> obs wire <hex> | obs error toolong <len>      (the encoder, independent of the rest)
  after `eof` or an error every `chunk`/`eof` is `obs noop`.

Family `c15e2e`  (header: `kind=bincode|json|unbounded|bounded cap=<n>`, other parameters are for the
harness only; items are opaque tokens)
  op send <item>   -> obs sent <item> | obs full | obs noop
  op flush         -> obs flushed | obs noop
  op recv          -> obs recv <item> | obs pending | obs eof
  op close         -> obs closed | obs noop
  op drop          -> obs dropped <lost> | obs noop
-/
namespace TarpcModel.Driver.C15S
open TarpcModel.Wire TarpcModel.Driver

def hexDigit (c : Char) : Option Nat :=
  if '0' ≤ c ∧ c ≤ '9' then some (c.toNat - '0'.toNat)
  else if 'a' ≤ c ∧ c ≤ 'f' then some (c.toNat - 'a'.toNat + 10)
  else if 'A' ≤ c ∧ c ≤ 'F' then some (c.toNat - 'A'.toNat + 10)
  else none

def hexPairs : List Char → Option (List UInt8)
  | [] => some []
  | [_] => none
  | a :: b :: rest => do
      let x ← hexDigit a
      let y ← hexDigit b
      let r ← hexPairs rest
      some (UInt8.ofNat (x * 16 + y) :: r)

def parseHex (s : String) : Option (List UInt8) :=
  if s == "-" then some [] else hexPairs s.toList

def hexChar (n : Nat) : Char :=
  if n < 10 then Char.ofNat ('0'.toNat + n) else Char.ofNat ('a'.toNat + (n - 10))

def showHex (bs : List UInt8) : String :=
  if bs.isEmpty then "-"
  else String.ofList (bs.flatMap fun b => [hexChar (b.toNat / 16), hexChar (b.toNat % 16)])

def strParam (ps : List (String × String)) (k : String) (dflt : String) : String :=
  match ps.find? (·.1 == k) with
  | some (_, v) => v
  | none => dflt

/-! ### c15frame -/

structure FrameSt where
  dec   : DecState
  ended : Bool := false

def c15frameStep (s : FrameSt) : List String → FrameSt × List String
  | ["chunk", h] =>
      match parseHex h with
      | none => (s, ["bad-op"])
      | some bs =>
          if s.ended || s.dec.failed then (s, ["noop"]) else
          let (d, out) := feed s.dec bs
          ({ s with dec := d },
           ["fed " ++ showHex bs] ++ out.map (fun p => "frame " ++ showHex p)
             ++ (if d.failed then ["error oversize"] else []))
  | ["eof"] =>
      if s.ended || s.dec.failed then (s, ["noop"]) else
      match finish s.dec with
      | .clean => ({ s with ended := true }, ["eof"])
      | .truncated => ({ s with ended := true }, ["error truncated"])
      | .failed => (s, ["noop"])
  | ["encode", h] =>
      match parseHex h with
      | none => (s, ["bad-op"])
      | some p =>
          match encode s.dec.max p with
          | some bs => (s, ["wire " ++ showHex bs])
          | none => (s, [s!"error toolong {p.length}"])
  | _ => (s, ["bad-op"])

def c15frameParseObs : List String → Option FObs
  | ["fed", h] => (parseHex h).map .fed
  | ["frame", h] => (parseHex h).map .frame
  | ["error", "oversize"] => some .errOversize
  | ["error", "truncated"] => some .errTruncated
  | ["error", "toolong", n] => n.toNat?.map .errTooLong
  | ["eof"] => some .eof
  | ["wire", h] => (parseHex h).map .wire
  | ["noop"] => some .noop
  | _ => none

end TarpcModel.Driver.C15S

namespace TarpcModel.Driver
open TarpcModel.Wire C15S

def c15frame : Family where
  σ := FrameSt
  μ := FMon
  init ps := { dec := initDec (param ps "max" defaultMaxFrameLen) }
  step := c15frameStep
  monInit ps := { max := param ps "max" defaultMaxFrameLen }
  monStep m toks :=
    match c15frameParseObs toks with
    | some o => fmonStep m o
    | none => m.fail ("unparsable obs: " ++ " ".intercalate toks)
  monVerdict m := if m.ok then none else some m.why

end TarpcModel.Driver

/-! ### c15e2e -/

namespace TarpcModel.Driver.C15S
open TarpcModel.Wire TarpcModel.Driver

def c15e2eCfg (ps : List (String × String)) : PipeCfg :=
  match strParam ps "kind" "unbounded" with
  | "bincode" => { closeSignals := true, buffered := true, stageLimit := param ps "stage" 16 }
  | "json" => { closeSignals := true, buffered := true, stageLimit := param ps "stage" 16 }
  | "bounded" => { cap := some (param ps "cap" 1), closeSignals := true, buffered := false }
  | _ => { closeSignals := false, buffered := false }

def c15e2eParseOp : List String → Option (POp String)
  | ["send", t] => some (.send t)
  | ["flush"] => some .flush
  | ["recv"] => some .recv
  | ["close"] => some .close
  | ["drop"] => some .drop
  | _ => none

def c15e2eShowObs : PObs String → String
  | .sent t => "sent " ++ t
  | .full => "full"
  | .flushed => "flushed"
  | .recv t => "recv " ++ t
  | .pending => "pending"
  | .eof => "eof"
  | .closed => "closed"
  | .dropped n => s!"dropped {n}"
  | .noop => "noop"

def c15e2eParseObs : List String → Option (PObs String)
  | ["sent", t] => some (.sent t)
  | ["full"] => some .full
  | ["flushed"] => some .flushed
  | ["recv", t] => some (.recv t)
  | ["pending"] => some .pending
  | ["eof"] => some .eof
  | ["closed"] => some .closed
  | ["dropped", n] => n.toNat?.map .dropped
  | ["noop"] => some .noop
  | _ => none

end TarpcModel.Driver.C15S

namespace TarpcModel.Driver
open TarpcModel.Wire C15S

def c15e2e : Family where
  σ := Pipe String
  μ := PMon
  init ps := Pipe.init (c15e2eCfg ps)
  step p toks :=
    match c15e2eParseOp toks with
    | some op => let (p', o) := p.step op; (p', o.map c15e2eShowObs)
    | none => (p, ["bad-op"])
  monInit ps := { cfg := c15e2eCfg ps }
  monStep m toks :=
    match c15e2eParseObs toks with
    | some o => pmonStep m o
    | none => m.fail ("unparsable obs: " ++ " ".intercalate toks)
  monVerdict m := if m.ok then none else some m.why

end TarpcModel.Driver

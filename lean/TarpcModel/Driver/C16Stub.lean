import TarpcModel.Driver.Basic
import TarpcModel.Macro.StubMatch
/- Family `c16stub`: `op answer <called> <answered> ok|err` on the three-method probe service of the harness
(`a b c`); the model predicts `obs stub …` and the follow-up probe `obs probe ok`. -/
namespace TarpcModel.Driver
open TarpcModel.Stub

private def methodIdx : String → Option Nat
  | "a" => some 0 | "b" => some 1 | "c" => some 2 | _ => none

private def showOut : Out → String
  | .ok => "ok"
  | .err k => s!"err:{k}"
  | .panic => "panic internal_error:_entered_unreachable_code"

def c16stub : Family where
  σ := Unit
  μ := Option String
  init _ := ()
  step s toks :=
    match toks with
    | ["answer", called, answered, how] =>
        match methodIdx called, methodIdx answered with
        | some c, some a =>
            let ans := if how == "ok" then Answer.variantOf a else Answer.serverError "PermissionDenied"
            (s, [s!"stub {showOut (stubResult c ans)}", "probe ok"])
        | _, _ => (s, ["noop"])
    | _ => (s, ["noop"])
  monInit _ := none
  monStep m toks :=
    match toks with
    | "stub" :: "panic" :: rest =>
        m.orElse fun _ => some ("[C16] a peer's well-formed response panicked the caller of a generated client method: " ++ " ".intercalate rest)
    | "probe" :: r :: _ =>
        if r == "ok" then m else m.orElse fun _ => some s!"[C16] the connection did not serve a well-formed exchange after the odd response: {r}"
    | _ => m
  monVerdict m := m

end TarpcModel.Driver

import TarpcModel.Driver.Basic
import TarpcModel.Monitors.C20
/-
C20 families behind the line protocol:
  `c20rr`    header `n=<backends>`              ops `call <req>` | `poll <id>` | `drop <id>` |
                                                    `set-result <backend> ok|shutdown|deadline|server`
  `c20hash`  header `n=<backends> seed=<u64>`   same ops
      obs `created <id> <req>` | `picked <id> <backend> <req>` + `answered <id> <ok|shutdown|deadline|server>` |
          `panicked <id>` | `dropped <id>` | `result-set <backend> <kind>` | `noop`
  `c20retry` header `pk=<policy kind> max=<m>`
      ops `result ok|err|send <v> [<delay ns>]` | `decide <0|1>` |
          `call <req> [d=<ns until the deadline> trace=<trace id>:<span id>:<S|U>]`   (default `d=10000000000 trace=0:0:U`)
      obs `start <req> at=<ns> deadline=<ns> trace=<t>:<s>:<S|U>` | `backend <req>` |
          `attempt <i> at=<ns> deadline=<ns> trace=<t>:<s>:<S|U>` | `policy <i> ok|err|send <v> <0|1>` |
          `ret ok|err|send <v>` | `stuck`
      (`at` / `deadline`: ns after the script's base instant under the harness's virtual clock)
-/
namespace TarpcModel.Driver
open TarpcModel.Stubs

def c20ShowKind : Nat → String
  | 0 => "ok"
  | 1 => "shutdown"
  | 2 => "deadline"
  | 3 => "server"
  | k => s!"?{k}"

def c20ParseKind : String → Option Nat
  | "ok" => some 0
  | "shutdown" => some 1
  | "deadline" => some 2
  | "server" => some 3
  | _ => none

def c20ParseLbOp : List String → Option LbOp
  | ["call", r] => r.toNat?.map .call
  | ["poll", i] => i.toNat?.map .poll
  | ["drop", i] => i.toNat?.map .drop
  | ["set-result", b, k] => do some (.setResult (← b.toNat?) (← c20ParseKind k))
  | _ => none

def c20ShowLbObs : LbObs → String
  | .created id req => s!"created {id} {req}"
  | .picked id b req => s!"picked {id} {b} {req}"
  | .panicked id => s!"panicked {id}"
  | .dropped id => s!"dropped {id}"
  | .resultSet b k => s!"result-set {b} {c20ShowKind k}"
  | .answered id k => s!"answered {id} {c20ShowKind k}"
  | .noop => "noop"

def c20ParseLbObs : List String → Option LbObs
  | ["created", id, req] => do some (.created (← id.toNat?) (← req.toNat?))
  | ["picked", id, b, req] => do some (.picked (← id.toNat?) (← b.toNat?) (← req.toNat?))
  | ["panicked", id] => id.toNat?.map .panicked
  | ["dropped", id] => id.toNat?.map .dropped
  | ["result-set", b, k] => do some (.resultSet (← b.toNat?) (← c20ParseKind k))
  | ["answered", id, k] => do some (.answered (← id.toNat?) (← c20ParseKind k))
  | ["noop"] => some .noop
  | _ => none

def c20Lb (kind : Kind) : Family where
  σ := LbSt
  μ := Nat × LbMon
  init ps := lbInit kind (param ps "n" 1) (param ps "seed" 0)
  step s toks :=
    match c20ParseLbOp toks with
    | some op => let (s', o) := lbStep s op; (s', o.map c20ShowLbObs)
    | none => (s, ["bad-op"])
  monInit ps := (param ps "n" 1, {})
  monStep m toks :=
    match c20ParseLbObs toks with
    | some o => (m.1, monLbStep kind m.1 m.2 o)
    | none => (m.1, m.2.flag false ("unparsable obs: " ++ " ".intercalate toks))
  monVerdict m := if m.2.ok then none else some m.2.why

def c20rr : Family := c20Lb .rr
def c20hash : Family := c20Lb .hash

def c20ParseRes : String → String → Option Res
  | "ok", v => v.toNat?.map .ok
  | "err", k => k.toNat?.map .err
  | "send", k => k.toNat?.map .send
  | _, _ => none

def c20ParseBool : String → Option Bool
  | "0" => some false
  | "1" => some true
  | _ => none

def c20ShowBool (b : Bool) : String := if b then "1" else "0"

/-- `<key>=<value>`: the value. -/
def c20Val (key tok : String) : Option String :=
  match tok.splitOn "=" with
  | [k, v] => if k = key then some v else none
  | _ => none

def c20NatVal (key tok : String) : Option Nat := (c20Val key tok).bind (·.toNat?)

/-- `trace=<trace id>:<span id>:<S|U>` -/
def c20TraceVal (tok : String) : Option (Nat × Nat × Bool) := do
  let v ← c20Val "trace" tok
  match v.splitOn ":" with
  | [t, s, "S"] => some (← t.toNat?, ← s.toNat?, true)
  | [t, s, "U"] => some (← t.toNat?, ← s.toNat?, false)
  | _ => none

def c20ParseCtx (dl tr : String) : Option RtCtx := do
  let d ← c20NatVal "deadline" dl
  let (t, s, b) ← c20TraceVal tr
  some { deadline := d, traceId := t, spanId := s, sampled := b }

def c20ShowCtx (c : RtCtx) : String := s!"deadline={c.deadline} trace={showTrace c}"

def c20ParseRtOp : List String → Option RtOp
  | ["result", t, v] => (c20ParseRes t v).map (.result · 0)
  | ["result", t, v, d] => do some (.result (← c20ParseRes t v) (← d.toNat?))
  | ["decide", b] => (c20ParseBool b).map .decide
  | ["call", r] => r.toNat?.map (.call · 10000000000 0 0 false)
  | ["call", r, d, tr] => do
      let (t, s, b) ← c20TraceVal tr
      some (.call (← r.toNat?) (← c20NatVal "d" d) t s b)
  | _ => none

def c20ShowRtObs : RtObs → String
  | .start q now c => s!"start {q} at={now} {c20ShowCtx c}"
  | .backend q => s!"backend {q}"
  | .attempt i now c => s!"attempt {i} at={now} {c20ShowCtx c}"
  | .policy i r d => s!"policy {i} {showRes r} {c20ShowBool d}"
  | .ret r => s!"ret {showRes r}"
  | .stuck => "stuck"

def c20ParseRtObs : List String → Option RtObs
  | ["start", q, a, dl, tr] => do some (.start (← q.toNat?) (← c20NatVal "at" a) (← c20ParseCtx dl tr))
  | ["backend", q] => q.toNat?.map .backend
  | ["attempt", i, a, dl, tr] => do some (.attempt (← i.toNat?) (← c20NatVal "at" a) (← c20ParseCtx dl tr))
  | ["policy", i, t, v, d] => do some (.policy (← i.toNat?) (← c20ParseRes t v) (← c20ParseBool d))
  | ["ret", t, v] => (c20ParseRes t v).map .ret
  | ["stuck"] => some .stuck
  | _ => none

def c20retry : Family where
  σ := RtSt
  μ := RtMon
  init ps := rtInit (param ps "pk" 0) (param ps "max" 0)
  step s toks :=
    match c20ParseRtOp toks with
    | some op => let (s', o) := rtStep s op; (s', o.map c20ShowRtObs)
    | none => (s, ["bad-op"])
  monInit _ := {}
  monStep m toks :=
    match c20ParseRtObs toks with
    | some o => monRtStep m o
    | none => m.fail ("unparsable obs: " ++ " ".intercalate toks)
  monVerdict m := m.verdict

end TarpcModel.Driver

namespace TarpcModel.Driver

/-- Family `c20mt`: bursts of truly parallel calls on one `RoundRobin`; the per-backend counts are
those of `C20_rr_balanced` for the total number of calls so far (any interleaving). -/
def c20mtCounts (n total : Nat) : List Nat :=
  (List.range n).map fun j => total / n + (if j < total % n then 1 else 0)

def c20mt : Family where
  σ := Nat × Nat                 -- (backends, calls so far)
  μ := Nat × Option String       -- (backends, first failure)
  init ps := (param ps "n" 1, 0)
  step s toks :=
    match toks with
    | ["burst", a, b] =>
        match (a.drop 8).toNat?, (b.drop 6).toNat? with
        | some t, some k =>
            let total := s.2 + t * k
            ((s.1, total), ["counts " ++ " ".intercalate ((c20mtCounts s.1 total).map toString)])
        | _, _ => (s, ["bad-op"])
    | _ => (s, ["bad-op"])
  monInit ps := (param ps "n" 1, none)
  monStep m toks :=
    match toks with
    | "counts" :: cs =>
        let vs := cs.filterMap (·.toNat?)
        let lo := vs.foldl min (vs.headD 0)
        let hi := vs.foldl max 0
        if hi - lo > 1 then (m.1, m.2.orElse fun _ => some s!"per-backend counts differ by {hi - lo} after concurrent calls: {cs}") else m
    | _ => m
  monVerdict m := m.2

end TarpcModel.Driver

import TarpcModel.Driver.Basic
import TarpcModel.Monitors.C20
/-
C20 families behind the line protocol:
  `c20rr`    header `n=<backends>`              ops `call <req>` | `poll <id>` | `drop <id>`
  `c20hash`  header `n=<backends> seed=<u64>`   same ops
  `c20retry` header `pk=<policy kind> max=<m>`  ops `result ok <v>` | `result err <k>` | `decide <0|1>` | `call <req>`
-/
namespace TarpcModel.Driver
open TarpcModel.Stubs

def c20ParseLbOp : List String → Option LbOp
  | ["call", r] => r.toNat?.map .call
  | ["poll", i] => i.toNat?.map .poll
  | ["drop", i] => i.toNat?.map .drop
  | _ => none

def c20ShowLbObs : LbObs → String
  | .created id req => s!"created {id} {req}"
  | .picked id b req => s!"picked {id} {b} {req}"
  | .panicked id => s!"panicked {id}"
  | .dropped id => s!"dropped {id}"
  | .noop => "noop"

def c20ParseLbObs : List String → Option LbObs
  | ["created", id, req] => do some (.created (← id.toNat?) (← req.toNat?))
  | ["picked", id, b, req] => do some (.picked (← id.toNat?) (← b.toNat?) (← req.toNat?))
  | ["panicked", id] => id.toNat?.map .panicked
  | ["dropped", id] => id.toNat?.map .dropped
  | ["noop"] => some .noop
  | _ => none

def c20Lb (kind : Kind) : Family where
  σ := LbSt
  μ := Nat × LbMon
  init ps := lbInit kind (param ps "n" 1) (param ps "seed" 0)
  step s toks :=
    match c20ParseLbOp toks with
    | some op => let (s', o) := lbStep s op; (s', o.map c20ShowLbObs)
    | none => (s, ["bad-op"])
  monInit ps := (param ps "n" 1, {})
  monStep m toks :=
    match c20ParseLbObs toks with
    | some o => (m.1, monLbStep kind m.1 m.2 o)
    | none => (m.1, m.2.flag false ("unparsable obs: " ++ " ".intercalate toks))
  monVerdict m := if m.2.ok then none else some m.2.why

def c20rr : Family := c20Lb .rr
def c20hash : Family := c20Lb .hash

def c20ParseRes : String → String → Option Res
  | "ok", v => v.toNat?.map .ok
  | "err", k => k.toNat?.map .err
  | _, _ => none

def c20ParseBool : String → Option Bool
  | "0" => some false
  | "1" => some true
  | _ => none

def c20ShowBool (b : Bool) : String := if b then "1" else "0"

def c20ParseRtOp : List String → Option RtOp
  | ["result", t, v] => (c20ParseRes t v).map .result
  | ["decide", b] => (c20ParseBool b).map .decide
  | ["call", r] => r.toNat?.map .call
  | _ => none

def c20ShowRtObs : RtObs → String
  | .start q => s!"start {q}"
  | .backend q => s!"backend {q}"
  | .policy i r d => s!"policy {i} {showRes r} {c20ShowBool d}"
  | .ret r => s!"ret {showRes r}"
  | .stuck => "stuck"

def c20ParseRtObs : List String → Option RtObs
  | ["start", q] => q.toNat?.map .start
  | ["backend", q] => q.toNat?.map .backend
  | ["policy", i, t, v, d] => do some (.policy (← i.toNat?) (← c20ParseRes t v) (← c20ParseBool d))
  | ["ret", t, v] => (c20ParseRes t v).map .ret
  | ["stuck"] => some .stuck
  | _ => none

def c20retry : Family where
  σ := RtSt
  μ := RtMon
  init ps := rtInit (param ps "pk" 0) (param ps "max" 0)
  step s toks :=
    match c20ParseRtOp toks with
    | some op => let (s', o) := rtStep s op; (s', o.map c20ShowRtObs)
    | none => (s, ["bad-op"])
  monInit _ := {}
  monStep m toks :=
    match c20ParseRtObs toks with
    | some o => monRtStep m o
    | none => m.fail ("unparsable obs: " ++ " ".intercalate toks)
  monVerdict m :=
    if m.accepts then none
    else some (if m.ok then "trace ends in the middle of a call" else m.why)

end TarpcModel.Driver

namespace TarpcModel.Driver

/-- Family `c20mt`: bursts of truly parallel calls on one `RoundRobin`; the per-backend counts are
those of `C20_rr_balanced` for the total number of calls so far (any interleaving). -/
def c20mtCounts (n total : Nat) : List Nat :=
  (List.range n).map fun j => total / n + (if j < total % n then 1 else 0)

def c20mt : Family where
  σ := Nat × Nat                 -- (backends, calls so far)
  μ := Nat × Option String       -- (backends, first failure)
  init ps := (param ps "n" 1, 0)
  step s toks :=
    match toks with
    | ["burst", a, b] =>
        match (a.drop 8).toNat?, (b.drop 6).toNat? with
        | some t, some k =>
            let total := s.2 + t * k
            ((s.1, total), ["counts " ++ " ".intercalate ((c20mtCounts s.1 total).map toString)])
        | _, _ => (s, ["bad-op"])
    | _ => (s, ["bad-op"])
  monInit ps := (param ps "n" 1, none)
  monStep m toks :=
    match toks with
    | "counts" :: cs =>
        let vs := cs.filterMap (·.toNat?)
        let lo := vs.foldl min (vs.headD 0)
        let hi := vs.foldl max 0
        if hi - lo > 1 then (m.1, m.2.orElse fun _ => some s!"per-backend counts differ by {hi - lo} after concurrent calls: {cs}") else m
    | _ => m
  monVerdict m := m.2

end TarpcModel.Driver

import TarpcModel.Gen.Flags
/-!
# The response match of a macro-generated client method (C16, caller side)

`#[tarpc::service]` generates, for every method `m`, a client method that sends `Request::M{…}`, awaits the
channel's `call` and then matches the response enum: the variant of `m` yields the value; any *other* variant is a
well-formed message only a misbehaving peer sends.  What the stub does with it is read off `plugins/src/lib.rs` by
the translator (`Gen.stubMismatchIsError`: the fallback arm constructs an `RpcError` and contains no
`unreachable!` / `panic!` / `unwrap`).
-/
namespace TarpcModel.Stub

inductive Out where
  | ok                      -- the method's own variant: the value is returned
  | err (kind : String)     -- an error of this call
  | panic                   -- the caller's task panics
  deriving DecidableEq, Repr

/-- What a peer may answer one request with. -/
inductive Answer where
  | variantOf (method : Nat)        -- `Ok(Response::<method>(…))`
  | serverError (kind : String)     -- `Err(ServerError { kind, .. })`
  deriving DecidableEq, Repr

/-- The stub of method `called` given the peer's answer, parameterised by the translated flag. -/
def stubResultWith (mismatchIsError : Bool) (called : Nat) : Answer → Out
  | .serverError k => .err k
  | .variantOf m =>
      if m = called then .ok
      else if mismatchIsError then .err "InvalidData" else .panic

/-- … as the current source behaves. -/
def stubResult (called : Nat) (a : Answer) : Out := stubResultWith Gen.stubMismatchIsError called a

end TarpcModel.Stub

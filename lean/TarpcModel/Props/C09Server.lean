import TarpcModel.Lemmas.ServerTable
/-!
# C09 (server side) — transport failures are reported through the request stream

Property theorems only.  `fails s` is the list (most recent first) of the transport failures observed
so far, each mapped to the activity of the failing call: `poll_next → Err` ↦ `read`,
`poll_ready → Err` ↦ `ready`, `poll_flush → Err` ↦ `flush`, `start_send → Err` ↦ `write`
(`Lemmas/ServerFlow.lean`).
-/
namespace TarpcModel.Server
open TarpcModel TarpcModel.Server.Flow

/-- **C09 (server): the error item carries the tag of the failing call.**  From any state, one
`Requests::poll_next`:
* returns `.err a` exactly when one transport call failed during it, and then `a` is that call's
  activity (`read` for `poll_next`, `ready` for `poll_ready` — the write pump's or the limiter's —,
  `flush` for `poll_flush`, `write` for a failing `start_send` of a response or throttle reply); it
  stops at that first failure;
* otherwise no transport call failed during it. -/
theorem C09_server_failure_tag (s : St) (now fuel : Nat) :
    match (requestsPollNext fuel s now).2 with
    | .err a => fails (requestsPollNext fuel s now).1 = a :: fails s
    | _ => fails (requestsPollNext fuel s now).1 = fails s := by
  have h := requestsPollNext_shape now fuel s
  unfold ErrShape at h
  cases hr : (requestsPollNext fuel s now).2 <;> rw [hr] at h <;> exact h

/-- **A transport call fails iff its armed fault fires** (`SimT.fires`: the kind is armed and its
countdown `faultSkip` has run out — "the `(faultSkip+1)`-th call of the kind fails"); a read also fails on an
injected read error.  These are the failures `fails` counts (`failOf`), so `C09_server_failure_tag` reads: the
poll returns `.err a` exactly when a fault of activity `a` fired (or a read error arrived) during it. -/
theorem C09_call_fails_iff_fires (t : SimT) (m : Msg) :
    (t.pollReady.2.1 = .err ↔ t.fires t.faultReady = true) ∧
    (t.pollFlush.2.1 = .err ↔ t.fires t.faultFlush = true) ∧
    ((t.startSend m).2 = false ↔ t.fires t.faultSend = true) ∧
    (t.pollNext.2 = .err ↔ t.fires t.faultNext = true ∨ ∃ rest, t.inbound = .err :: rest) := by
  have hu : ∀ w : String, (t.useAfter w).fires (t.useAfter w).faultReady = t.fires t.faultReady ∧
      (t.useAfter w).fires (t.useAfter w).faultFlush = t.fires t.faultFlush ∧
      (t.useAfter w).fires (t.useAfter w).faultSend = t.fires t.faultSend := by
    intro w; unfold SimT.useAfter SimT.violate SimT.fires; repeat' split
    all_goals exact ⟨rfl, rfl, rfl⟩
  refine ⟨?_, ?_, ?_, ?_⟩
  · rcases SimT.pollReady_cases t with ⟨hf, he⟩ | ⟨hf, _, he⟩ | ⟨hf, _, he⟩ <;> rw [(hu "ready").1] at hf <;>
      rw [he, hf] <;> simp
  · rcases SimT.pollFlush_cases t with ⟨hf, he⟩ | ⟨hf, he⟩ | ⟨hf, he⟩ <;> rw [(hu "flush").2.1] at hf <;>
      rw [he, hf] <;> simp
  · unfold SimT.startSend
    simp only
    have hv : ∀ u : SimT, (if u.gotReady = true then u else u.violate "send-without-ready").fires
        (if u.gotReady = true then u else u.violate "send-without-ready").faultSend = u.fires u.faultSend := by
      intro u; split <;> rfl
    rw [hv, (hu "send").2.2]
    cases t.fires t.faultSend <;> simp
  · rcases SimT.pollNext_cases t with ⟨hf, he⟩ | ⟨hf, u, _, hi, he⟩
    · rw [he, hf]; simp
    · rw [he, hf, ← hi]
      cases hq : u.inbound with
      | nil => simp only; split <;> simp
      | cons a rest => cases a <;> simp

/-- **C09 (server): the poll records what it reports.**  For a poll of a live request stream (from any
state, in particular any reachable one) that does not poison the model: if it records
`done = some (readyItemErr a)` then exactly the failure `a` was observed during this poll, and if it
records anything else (still running, or the orderly end) no transport call failed during it. -/
theorem C09_server_poll_reports (s : St) (now : Nat)
    (hlive : (s.dropped || s.done.isSome || s.poisoned) = false)
    (hp : (pollServerKeep s now).poisoned = false) :
    match (pollServerKeep s now).done with
    | some (.readyItemErr a) => fails (pollServerKeep s now) = a :: fails s
    | _ => fails (pollServerKeep s now) = fails s :=
  pollServerKeep_reports s now hlive hp

/-- **C09 (server): after the end or an error item the stream is dropped.**  In every reachable state,
once `done` is recorded (`Ready(None)` or `Ready(Some(Err))` was returned) the request stream has been
dropped. -/
theorem C09_server_done_dropped (limit : Option Nat) (respCap tcap : Nat) (coupled : Bool) (ops : List SOp) :
    (ops.foldl applyOp (initSys limit respCap tcap coupled)).s.done.isSome = true →
    (ops.foldl applyOp (initSys limit respCap tcap coupled)).s.dropped = true :=
  DoneDropped_reach (initSys limit respCap tcap coupled) (by intro h; cases h) ops

/-- **C09 (server): dropping the stream aborts every tracked handler.**  In any state where the stream
is still held (not dropped, model not poisoned), after `dropServer` every execution that owned an
in-flight entry has its abort flag set. -/
theorem C09_drop_aborts_all (s : St) (hlive : (s.dropped || s.poisoned) = false) :
    ∀ en ∈ s.inflight, ∀ ex ∈ (dropServer s).execs, ex.rid = en.rid → ex.aborted = true :=
  dropServer_aborts_all s hlive

/-- … in particular when a poll of a live request stream ends it (error item or end of stream): the
stream is dropped and every execution owning an entry that was still in flight when the poll
returned is aborted. -/
theorem C09_server_error_aborts_all (s : St) (now : Nat)
    (hlive : (s.dropped || s.done.isSome || s.poisoned) = false)
    (hdone : (pollServerKeep s now).done.isSome = true) :
    (pollServer s now).dropped = true ∧
    ∀ en ∈ (pollServerKeep s now).inflight, ∀ ex ∈ (pollServer s now).execs, ex.rid = en.rid →
      ex.aborted = true := by
  rcases pollServer_cases s now hlive with ⟨hd, _⟩ | ⟨_, hdr, hp, heq⟩
  · rw [hd] at hdone; cases hdone
  · rw [heq]
    exact ⟨dropServer_dropped _ (by simp [hdr, hp]), dropServer_aborts_all _ (by simp [hdr, hp])⟩

/-- **C09 (server): no panic** other than the `DelayQueue` range panic (`insert` with a timer more
than `2^36 - 1` ms ahead of the wheel): in every reachable state, every `Obs.panic` observed carries
that message.  In particular `deadlines.remove(&key)` is never called with an unknown key (the table /
timer bijection of `Lemmas/ServerTable.lean`).  Since `start_request` clamps the timeout it arms, the
range panic itself is unreachable for any deadline while the clock is below `2^35` ms:
`C16_server_no_panic` (`Props/C16Server.lean`) strengthens this theorem to "no panic at all". -/
theorem C09_server_no_other_panic (limit : Option Nat) (respCap tcap : Nat) (coupled : Bool) (ops : List SOp) :
    ∀ ep m, Obs.panic ep m ∈ (ops.foldl applyOp (initSys limit respCap tcap coupled)).s.obs →
      m = "DelayQueue::insert: invalid deadline" := by
  exact fun ep m hm => ((sinv_reach true limit respCap tcap coupled ops).panics ep m hm).1

/-- **Why the clamp is needed (the obligation of `C16_server_no_panic` is not vacuous).**  *Without* the
clamp — arming the timer with the full `deadline - now` — `DelayQueue::insert` panics for every request
whose deadline lies more than `2^36 - 1` ms ahead of the wheel (`invalid deadline`): from any queue,
at any clock, for any timeout with `ceilMs (now + timeout) > wheelElapsed + (2^36 - 1)`.  (Before the
fix the model, like the code, poisoned the channel here; the former witness script
`[injectReq 1 (2^36 ms + 1) …, pollServer]` now arms a one-year timer instead:
`C16_server_far_deadline_ok`.) -/
theorem C09_server_range_panic_witness (q : DelayQ) (now timeout val : Nat)
    (h : q.wheelElapsed + delayQMaxMs < ceilMs (now + timeout)) :
    (q.insert now timeout val).2.1 = .panic := by
  unfold DelayQ.insert
  have h1 : max (ceilMs (now + timeout)) q.wheelElapsed = ceilMs (now + timeout) := Nat.max_eq_left (by omega)
  simp only [h1]
  rw [if_pos (by simp only [Bool.and_eq_true, decide_eq_true_eq]; omega)]

/-- … concretely: a timeout of `2^36` ms + 1 ns on a fresh queue. -/
example : (({} : DelayQ).insert 0 (2 ^ 36 * 1000000 + 1) 1).2.1 = .panic := by decide

/-- Non-vacuity of the tag theorem: a read fault, a ready fault, a flush fault and a write fault each
end the stream with their own tag. -/
example :
    (([SOp.fault .next, .pollServer].foldl applyOp (initSys none 1 1 true)).s.done,
     ([SOp.fault .ready, .pollServer].foldl applyOp (initSys none 1 1 true)).s.done,
     ([SOp.fault .flush, .pollServer].foldl applyOp (initSys none 1 1 true)).s.done,
     ([SOp.injectReq 1 1000000000 ⟨0, .given 0, false⟩ 0, .pollServer, .finish 0 (.ok 0), .pollExec 0, .fault .send,
        .pollServer].foldl applyOp (initSys none 1 1 true)).s.done) =
    (some (.readyItemErr .read), some (.readyItemErr .ready), some (.readyItemErr .flush),
     some (.readyItemErr .write)) := by
  decide

/-- Fault countdown: `fault ready` with `faultSkip 2` lets two `poll_ready` calls through and fails the
third.  Each poll of an idle request stream calls `poll_ready` once (the write pump): the first two polls go
idle, the third ends the stream with the `ready` tag. -/
example :
    (([SOp.fault .ready, .faultSkip 2, .pollServer].foldl applyOp (initSys none 1 1 true)).s.done,
     ([SOp.fault .ready, .faultSkip 2, .pollServer, .pollServer].foldl applyOp (initSys none 1 1 true)).s.done,
     ([SOp.fault .ready, .faultSkip 2, .pollServer, .pollServer, .pollServer].foldl applyOp (initSys none 1 1 true)).s.done) =
    (none, none, some (.readyItemErr .ready)) := by
  decide

end TarpcModel.Server

import TarpcModel.Lemmas.ServerMon14
/-!
# C14 (server side) — the run-time monitor `monC14` accepts every trace of the server model

Property theorems only.  `monC14` (`Monitors/Server.lean`: `checkC14` = `Client.checkC14Obs` over the
observations, `readyP` reset at every op) judges the transport contract on a trace: every `start_send` is
preceded by a `poll_ready → Ready` with no other write in between, nothing is written after the transport
reported a failure or was closed, `poll_ready → Pending` is not retried more than `c14ReadyPLimit` times in a
row without returning to the executor, no busy loop (`spin`), and the owner goes idle (`Pending`, end of the
request stream) only with everything it wrote flushed or a flush pending.

The proof (`Lemmas/ServerMon14.lean`) runs the monitor's state as a fold over the observations of each op
(`FlowMon.fstep`), walks through `Requests::poll_next` with pre/postconditions on that fold
(`FlowMon.ok_requestsPollNext`), and links the fold to `Mon.run` (`FlowMon.sim14_run`).
-/
namespace TarpcModel.Server
open TarpcModel TarpcModel.Server.FlowMon

/-- **C14 (server), monitor form.**  For every configuration (request limit or none, response-queue capacity,
sink capacity, coupled or independent readiness) and every script over all ops — including the fault countdown
`faultSkip` and the non-self-waking sink `selfWake false` — the C14 monitor accepts the model's trace: none of
its clauses (write without ready, write after failure / close, `poll_ready` retried more than four times in a
row, busy loop, idle with unflushed writes) ever fires. -/
theorem C14S_monitor_accepts (limit : Option Nat) (respCap tcap : Nat) (coupled : Bool) (ops : List SOp) :
    (monC14 limit (trace (initSys limit respCap tcap coupled) ops)).ok = true := by
  have h := (sim14_run limit (trace (initSys limit respCap tcap coupled) ops)).bad
    (flow_accepts limit respCap tcap coupled ops).1
  unfold Mon.ok
  rw [h]; rfl

/-- The verdict does not depend on the limit the monitor is told about (the C14 check does not look at it). -/
theorem C14S_monitor_accepts_any_limit (mlimit limit : Option Nat) (respCap tcap : Nat) (coupled : Bool)
    (ops : List SOp) : (monC14 mlimit (trace (initSys limit respCap tcap coupled) ops)).ok = true := by
  have h := (sim14_run mlimit (trace (initSys limit respCap tcap coupled) ops)).bad
    (flow_accepts limit respCap tcap coupled ops).1
  unfold Mon.ok
  rw [h]; rfl

/-- On a concrete script the monitor's final state shows what it has seen: one response written, its flush
pending (the transport holds the waker), a `poll_ready → Ready` since. -/
example :
    let m := monC14 none (trace (initSys none 1 2 true)
      [.injectReq 1 1000000000 ⟨0, .given 0, false⟩ 0, .pollServer, .finish 0 (.ok 0), .pollExec 0,
       .setFlush false, .pollServer])
    m.ok = true ∧ m.st.unflushed = 1 ∧ m.st.flushPendingAfterWrite = true ∧ m.st.gotReady = true := by
  decide

/-- Non-vacuity: the monitor runs over a non-trivial trace (a response written onto a socket-like transport
whose flush is blocked: ready, send, ready, flush → Pending, idle) and accepts it; with faults on the way
(a `poll_ready` fault after one call let through; a write fault) it accepts, too. -/
example :
    (monC14 none (trace (initSys none 1 2 true)
      [.injectReq 1 1000000000 ⟨0, .given 0, false⟩ 0, .pollServer, .finish 0 (.ok 0), .pollExec 0,
       .setFlush false, .pollServer])).ok = true ∧
    (monC14 none (trace (initSys none 1 1 true)
      [.fault .ready, .faultSkip 1, .pollServer, .pollServer, .pollServer])).ok = true ∧
    (monC14 (some 1) (trace (initSys (some 1) 1 1 false)
      [.injectReq 1 1000000000 ⟨0, .given 0, false⟩ 0, .pollServer, .injectReq 2 1000000000 ⟨0, .given 0, false⟩ 0,
       .selfWake false, .setReady false, .pollServer, .fault .send, .setReady true, .pollServer])).ok = true := by
  decide

/-- The monitor is not vacuous: on the model variant with the loop that was removed from `ensure_writeable`
(`ensureLoop := true`, the script of `C14_server_spin_witness`) it rejects the trace. -/
example :
    (monC14 none (trace { s := { (init 0 none 1 1 false) with ensureLoop := true } }
      [.injectReq 1 1000000000 ⟨0, .given 0, false⟩ 0, .pollServer, .finish 0 (.ok 0), .pollExec 0,
       .setReady false, .pollServer])).ok = false := by
  decide

end TarpcModel.Server

import TarpcModel.Lemmas.ServerNotLate
import TarpcModel.Props.C06
import TarpcModel.Props.C16Server
import TarpcModel.Monitors.Server
/-!
# C06 (server side) — request deadlines are enforced, not late

Property theorems only.  `Props/C06.lean` has the *never early* half of C06 and keeps the other half as a statement
(`C06AbortsAtDeadlineStatement`) with a partial result (`C06_aborts_at_deadline_partial`: when the channel goes idle, the
last `DelayQueue::poll_expired` of that poll yielded nothing).  What was missing — completeness of the timer-wheel
emulation — is now available (`Lemmas/DelayQComplete.lean`, `Lemmas/DelayQReach.lean`, `Props/C05DelayQ.lean`), and
`Lemmas/ServerDelayQBridge.lean` shows that the server's queue satisfies its hypotheses: the server only applies
`insert` (a clamped timeout, at the current clock), `remove`, `poll_expired` and a reset to its `DelayQueue`, and while
the clock is below `2^35` ms every such insert is in the strict range of the wheel.

**Scripts quantified over**: all op lists whose total advanced time `advSum ops` is below `2^35` ms (as in
`C16_server_no_panic`; the clock starts at 0 and only `advance` moves it).  The bound cannot simply be dropped: beyond
the strict range the timer wheel itself can miss a due entry (`DelayQ.C05_delayq_late_witness`).

**Time convention**: the *tick* of a tracked request is the `whenMs` of its armed timer (the deadline — or, for
deadlines beyond the clamp, the end of the part of the wait armed so far — rounded up to a millisecond);
it is due at clock `now` (ns) iff `tick * 10^6 ≤ now`.  `C06_timer_reaches_deadline` relates tick and deadline from below.

**The limiter (finding F7).**  With `MaxRequests` at its limit and the sink not ready the channel's `poll_next` is not
called at all (`C06_limiter_stall_witness`), so the theorems are about `BaseChannel::poll_next` (`basePollNext`, any
fuel) and about `Requests::poll_next` for a channel without limiter (`limit = none`).
-/
namespace TarpcModel.Server
open TarpcModel TarpcModel.Server.Flow

/-- **Bridge.**  In every reachable state of every configuration, for every script whose total advanced time is below
`2^35` ms, the server's timer queue satisfies the two-sided wheel invariant (`DelayQ.Complete`), has distinct keys, and
satisfies the one-sided invariant relative to the clock: the hypotheses of the completeness results
(`DelayQ.pollExpired_nothing_due`, `DelayQ.pollExpired_due`, `DelayQ.drain_complete`). -/
theorem C06_timers_complete (limit : Option Nat) (respCap tcap : Nat) (coupled : Bool) (ops : List SOp)
    (hT : advSum ops < 2 ^ 35 * nsPerMs) :
    DelayQ.Complete (ops.foldl applyOp (initSys limit respCap tcap coupled)).s.timers ∧
    DelayQ.KeysOk (ops.foldl applyOp (initSys limit respCap tcap coupled)).s.timers ∧
    DelayQ.Sound (ops.foldl applyOp (initSys limit respCap tcap coupled)).s.timers (advSum ops) :=
  timers_reach C16_server_flags limit respCap tcap coupled ops hT

/-- … hence, in every such state: the queue yields a timer iff one is due (never early, not late). -/
theorem C06_queue_yields_iff_due (limit : Option Nat) (respCap tcap : Nat) (coupled : Bool) (ops : List SOp)
    (hT : advSum ops < 2 ^ 35 * nsPerMs) (c : Sys) (hc : c = ops.foldl applyOp (initSys limit respCap tcap coupled)) :
    (∃ e, (c.s.timers.pollExpired c.now).2 = .expired e) ↔ ∃ k ∈ c.s.timers.cores, k.2.2 * nsPerMs ≤ c.now := by
  subst hc
  obtain ⟨h1, h2, h3⟩ := C06_timers_complete limit respCap tcap coupled ops hT
  have hnow : (ops.foldl applyOp (initSys limit respCap tcap coupled)).now = advSum ops := by
    rw [foldl_applyOp_now]; exact Nat.zero_add _
  rw [hnow]
  constructor
  · rintro ⟨e, he⟩
    have hp : (ops.foldl applyOp (initSys limit respCap tcap coupled)).s.timers.pollExpired (advSum ops) =
        (((ops.foldl applyOp (initSys limit respCap tcap coupled)).s.timers.pollExpired (advSum ops)).1, .expired e) :=
      Prod.ext rfl he
    exact ⟨DelayQ.core e, (DelayQ.pollExpired_expired hp h2).1, DelayQ.pollExpired_not_early hp h3⟩
  · rintro ⟨k, hk, hdue⟩
    obtain ⟨e, he, rfl⟩ := DelayQ.mem_cores_iff.1 hk
    exact DelayQ.pollExpired_due h1 h2 he hdue

/-- **C06 (c): aborts at the deadline — nothing due is left behind.**  From every reachable state (clock below `2^35`
ms), with any fuel: if `BaseChannel::poll_next` goes idle (`Pending`, or the end of the stream) at clock `now`, then in
the state it leaves behind *no tracked request has a due timer* — whatever its `remainder`: every tracked entry's
timer tick lies strictly after `now`.  In particular no entry with `remainder = 0` whose tick has passed is left in the
table: every request that was due (tick passed, nothing left to arm after taking off the lateness) was expired — its
entry removed, its handler aborted (`expireStep`) — in that poll, and every timer that fired with time still to
arm was re-armed for a later tick.  (This is `C06AbortsAtDeadlineStatement` read on the state after the poll; the
statement as written there, about the entries of the state *before* the poll, is false for a benign reason — see
`C06_statement_as_written_false` — and holds in the corrected form `C06_aborts_at_deadline_pre_post`.) -/
theorem C06_aborts_at_deadline (limit : Option Nat) (respCap tcap : Nat) (coupled : Bool) (ops : List SOp)
    (hT : advSum ops < 2 ^ 35 * nsPerMs) (fuel : Nat)
    (c : Sys) (hc : c = ops.foldl applyOp (initSys limit respCap tcap coupled))
    (h : (basePollNext fuel c.s c.now).2 = .pending ∨ (basePollNext fuel c.s c.now).2 = .none) :
    ∀ en ∈ (basePollNext fuel c.s c.now).1.inflight, ∀ k ∈ (basePollNext fuel c.s c.now).1.timers.cores,
      k.1 = en.timerKey → c.now < k.2.2 * nsPerMs := by
  subst hc
  have hnow : (ops.foldl applyOp (initSys limit respCap tcap coupled)).now = advSum ops := by
    rw [foldl_applyOp_now]; exact Nat.zero_add _
  have hn : (ops.foldl applyOp (initSys limit respCap tcap coupled)).now < panicFreeNs := by rw [hnow]; exact hT
  have hq := qc_reach C16_server_flags limit respCap tcap coupled ops
  intro en _ k hk _
  exact (basePollNext_idle_timers C16_server_flags hn fuel _ hq h).cores k hk

/-- **… and the wake-up is armed.**  In the state an idle `BaseChannel::poll_next` leaves behind, if any timer remains:
the task's waker is stored in the queue and the queue's `Sleep` is registered for an instant `t` with
`now < t ≤ tick` for *every* remaining tick — so `onAdvance` (which wakes the server task iff `nextFire ≤ now' ∧ waker`)
wakes the task no later than the earliest remaining tick. -/
theorem C06_idle_wakeup_armed (limit : Option Nat) (respCap tcap : Nat) (coupled : Bool) (ops : List SOp)
    (hT : advSum ops < 2 ^ 35 * nsPerMs) (fuel : Nat)
    (c : Sys) (hc : c = ops.foldl applyOp (initSys limit respCap tcap coupled))
    (h : (basePollNext fuel c.s c.now).2 = .pending ∨ (basePollNext fuel c.s c.now).2 = .none) :
    ∀ e ∈ (basePollNext fuel c.s c.now).1.timers.items,
      (basePollNext fuel c.s c.now).1.timers.waker = true ∧
      ∃ t, (basePollNext fuel c.s c.now).1.timers.nextFire = some t ∧ c.now < t ∧ t ≤ e.whenMs * nsPerMs ∧
        ∀ now', e.whenMs * nsPerMs ≤ now' →
          (decide (t ≤ now') && (basePollNext fuel c.s c.now).1.timers.waker) = true := by
  subst hc
  have hnow : (ops.foldl applyOp (initSys limit respCap tcap coupled)).now = advSum ops := by
    rw [foldl_applyOp_now]; exact Nat.zero_add _
  have hn : (ops.foldl applyOp (initSys limit respCap tcap coupled)).now < panicFreeNs := by rw [hnow]; exact hT
  have hq := qc_reach C16_server_flags limit respCap tcap coupled ops
  intro e he
  obtain ⟨hw, t, ht, hlt, hle⟩ := (basePollNext_idle_timers C16_server_flags hn fuel _ hq h).armed e he
  refine ⟨hw, t, ht, hlt, hle, fun now' hdue => ?_⟩
  simp only [hw, Bool.and_true, decide_eq_true_eq]
  omega

/-- **The same for the request stream** (`Requests::poll_next`: read pump and write pump) **of a channel without
limiter**: when it ends `Pending` or at the end of the stream, no tracked request has a due timer, and the wake-up is
armed no later than the earliest remaining tick. -/
theorem C06_requests_poll_not_late (respCap tcap : Nat) (coupled : Bool) (ops : List SOp)
    (hT : advSum ops < 2 ^ 35 * nsPerMs) (fuel : Nat)
    (c : Sys) (hc : c = ops.foldl applyOp (initSys none respCap tcap coupled))
    (h : (requestsPollNext fuel c.s c.now).2 = .pending ∨ (requestsPollNext fuel c.s c.now).2 = .none) :
    (∀ en ∈ (requestsPollNext fuel c.s c.now).1.inflight, ∀ k ∈ (requestsPollNext fuel c.s c.now).1.timers.cores,
      k.1 = en.timerKey → c.now < k.2.2 * nsPerMs) ∧
    (∀ e ∈ (requestsPollNext fuel c.s c.now).1.timers.items,
      (requestsPollNext fuel c.s c.now).1.timers.waker = true ∧
      ∃ t, (requestsPollNext fuel c.s c.now).1.timers.nextFire = some t ∧ c.now < t ∧ t ≤ e.whenMs * nsPerMs) := by
  subst hc
  have hnow : (ops.foldl applyOp (initSys none respCap tcap coupled)).now = advSum ops := by
    rw [foldl_applyOp_now]; exact Nat.zero_add _
  have hn : (ops.foldl applyOp (initSys none respCap tcap coupled)).now < panicFreeNs := by rw [hnow]; exact hT
  have hq := qc_reach C16_server_flags none respCap tcap coupled ops
  have hl : (ops.foldl applyOp (initSys none respCap tcap coupled)).s.limit = none :=
    (cfg_reach (initSys none respCap tcap coupled) ops).2.1
  have hi := requestsPollNext_idle_timers C16_server_flags hn fuel _ hl hq h
  exact ⟨fun en _ k hk _ => hi.cores k hk, hi.armed⟩

/-! ### the statement of `Props/C06.lean`, about the entries of the state before the poll -/

/-- **C06 (c), pre/post form.**  From every reachable state (clock below `2^35` ms), with any fuel: if
`BaseChannel::poll_next` goes idle at clock `now`, then every request that was tracked and *due* when the poll began —
its timer tick had passed and nothing of its `remainder` was left after taking off the lateness (in particular:
`remainder = 0`) — is no longer tracked, and every execution it guarded has been aborted, unless a guard cancellation for
its id was queued when the poll began (`cancelQ`: the application had dropped the request, or an earlier request with
the same id; `remove_request` then forgets the entry without aborting — there is nothing left to abort). -/
theorem C06_aborts_at_deadline_pre_post (limit : Option Nat) (respCap tcap : Nat) (coupled : Bool) (ops : List SOp)
    (hT : advSum ops < 2 ^ 35 * nsPerMs) (fuel : Nat)
    (c : Sys) (hc : c = ops.foldl applyOp (initSys limit respCap tcap coupled))
    (h : (basePollNext fuel c.s c.now).2 = .pending ∨ (basePollNext fuel c.s c.now).2 = .none) :
    ∀ en ∈ c.s.inflight, ∀ k ∈ c.s.timers.cores, k.1 = en.timerKey → k.2.2 * nsPerMs ≤ c.now →
      en.remainder ≤ c.now - k.2.2 * nsPerMs →
      (∀ en' ∈ (basePollNext fuel c.s c.now).1.inflight, en'.id ≠ en.id) ∧
      (en.id ∈ c.s.cancelQ ∨ ∀ ex ∈ (basePollNext fuel c.s c.now).1.execs, ex.rid = en.rid → ex.aborted = true) := by
  subst hc
  have hnow : (ops.foldl applyOp (initSys limit respCap tcap coupled)).now = advSum ops := by
    rw [foldl_applyOp_now]; exact Nat.zero_add _
  have hn : (ops.foldl applyOp (initSys limit respCap tcap coupled)).now < panicFreeNs := by rw [hnow]; exact hT
  have hq := qc_reach C16_server_flags limit respCap tcap coupled ops
  have hi := sinv_reach false limit respCap tcap coupled ops
  intro en hen k hk hkey hdue hrem
  -- the tick is the exact due time rounded up: lateness measured from `dueAt` is at least that from the tick
  have htk := hi.t.tk en hen k hk hkey
  have hge := ceilMs_ge' en.dueAt
  rw [← htk] at hge
  exact basePollNext_due_gone C16_server_flags hn fuel hi hq ⟨en, hen, rfl, rfl, k, hk, hkey, hdue, by omega⟩ h

/-- **C06 (c), pre/post form with the exact lateness.**  The same with the lateness measured as the code measures it —
from the exact time the timer was due (`en.dueAt`, `timer_due`) rather than from its millisecond tick: every request
that was tracked when the poll began, whose timer tick had passed and whose `remainder` does not exceed `now − dueAt`
(i.e. `restOf now en = 0`: `poll_expired` would expire it rather than re-arm it) is gone when the poll goes idle. -/
theorem C06_aborts_at_deadline_pre_post_exact (limit : Option Nat) (respCap tcap : Nat) (coupled : Bool) (ops : List SOp)
    (hT : advSum ops < 2 ^ 35 * nsPerMs) (fuel : Nat)
    (c : Sys) (hc : c = ops.foldl applyOp (initSys limit respCap tcap coupled))
    (h : (basePollNext fuel c.s c.now).2 = .pending ∨ (basePollNext fuel c.s c.now).2 = .none) :
    ∀ en ∈ c.s.inflight, ∀ k ∈ c.s.timers.cores, k.1 = en.timerKey → k.2.2 * nsPerMs ≤ c.now →
      en.remainder ≤ c.now - en.dueAt →
      (∀ en' ∈ (basePollNext fuel c.s c.now).1.inflight, en'.id ≠ en.id) ∧
      (en.id ∈ c.s.cancelQ ∨ ∀ ex ∈ (basePollNext fuel c.s c.now).1.execs, ex.rid = en.rid → ex.aborted = true) := by
  subst hc
  have hnow : (ops.foldl applyOp (initSys limit respCap tcap coupled)).now = advSum ops := by
    rw [foldl_applyOp_now]; exact Nat.zero_add _
  have hn : (ops.foldl applyOp (initSys limit respCap tcap coupled)).now < panicFreeNs := by rw [hnow]; exact hT
  have hq := qc_reach C16_server_flags limit respCap tcap coupled ops
  have hi := sinv_reach false limit respCap tcap coupled ops
  intro en hen k hk hkey hdue hrem
  exact basePollNext_due_gone C16_server_flags hn fuel hi hq ⟨en, hen, rfl, rfl, k, hk, hkey, hdue, hrem⟩ h

/-! ### the wake-up -/

/-- **After an idle poll, the next tick wakes the server task.**  Let `Requests::poll_next` of a channel without limiter
have ended `Pending` at clock `now` from a reachable state (clock below `2^35` ms), leaving state `p`.  Then in every later
state `s1` of a live, un-dropped stream whose timer queue is still the one the poll left behind (the executions, the
application and the transport do not touch it), as soon as the clock reaches the tick of any tracked request's timer
(`now'`), the timer wakes the server task: `(onAdvance s1 now').woken = true`.  So an expiry never waits for an unrelated
event to be noticed; the poll that follows aborts the handler (`C06_aborts_at_deadline`, `C06_deadline_passed_gone`). -/
theorem C06_idle_then_tick_wakes_server (respCap tcap : Nat) (coupled : Bool) (ops : List SOp)
    (hT : advSum ops < 2 ^ 35 * nsPerMs) (fuel : Nat)
    (c : Sys) (hc : c = ops.foldl applyOp (initSys none respCap tcap coupled))
    (h : (requestsPollNext fuel c.s c.now).2 = .pending ∨ (requestsPollNext fuel c.s c.now).2 = .none)
    (s1 : St) (hs1 : s1.timers = (requestsPollNext fuel c.s c.now).1.timers)
    (halive : s1.dropped = false ∧ s1.done = none)
    (k : Nat × Nat × Nat) (hk : k ∈ s1.timers.cores) (now' : Nat) (hdue : k.2.2 * nsPerMs ≤ now') :
    (onAdvance s1 now').woken = true := by
  subst hc
  have hnow : (ops.foldl applyOp (initSys none respCap tcap coupled)).now = advSum ops := by
    rw [foldl_applyOp_now]; exact Nat.zero_add _
  have hn : (ops.foldl applyOp (initSys none respCap tcap coupled)).now < panicFreeNs := by rw [hnow]; exact hT
  have hq := qc_reach C16_server_flags none respCap tcap coupled ops
  have hl : (ops.foldl applyOp (initSys none respCap tcap coupled)).s.limit = none :=
    (cfg_reach (initSys none respCap tcap coupled) ops).2.1
  have hi := requestsPollNext_idle_timers C16_server_flags hn fuel _ hl hq h
  rw [← hs1] at hi
  obtain ⟨e, he, rfl⟩ := DelayQ.mem_cores_iff.1 hk
  obtain ⟨t, ht, hw⟩ := hi.wakes he hdue
  simp only [Bool.and_eq_true, decide_eq_true_eq] at hw
  unfold onAdvance
  simp only [ht, hw.1, hw.2, decide_true, Bool.and_self, if_true]
  unfold wakeServer
  simp [halive.1, halive.2, emit]

/-! ### in terms of deadlines -/

/-- **C06 (c): not late, in terms of the deadline.**  After `BaseChannel::poll_next` has gone idle at clock `now` (clock
below `2^35` ms), for every request still tracked and every execution it guards: *the millisecond tick of its deadline
has not been reached* (`now < ceil_ms deadline`) — or its timer was armed when the deadline had already passed
(`deadline < dueAt`: the request was read after its deadline, `dueAt` is that instant) less than a millisecond ago
(`dueAt ≤ now < dueAt + 1 ms`; the timer fires at the next millisecond tick).  For every deadline, however far away and
however often the timer was re-armed: the exact due time does not drift (`C06_timer_exact`). -/
theorem C06_idle_deadline_tick (limit : Option Nat) (respCap tcap : Nat) (coupled : Bool) (ops : List SOp)
    (hT : advSum ops < 2 ^ 35 * nsPerMs) (fuel : Nat)
    (c : Sys) (hc : c = ops.foldl applyOp (initSys limit respCap tcap coupled))
    (h : (basePollNext fuel c.s c.now).2 = .pending ∨ (basePollNext fuel c.s c.now).2 = .none) :
    ∀ en ∈ (basePollNext fuel c.s c.now).1.inflight, ∀ ex ∈ (basePollNext fuel c.s c.now).1.execs, ex.rid = en.rid →
      c.now < ceilMs ex.deadline * nsPerMs ∨
      (ex.deadline < en.dueAt ∧ en.dueAt ≤ c.now ∧ c.now < en.dueAt + nsPerMs) := by
  intro en hen ex hex hr
  have hlt := C06_aborts_at_deadline limit respCap tcap coupled ops hT fuel c hc h en hen
  subst hc
  have hi := sinv_reach false limit respCap tcap coupled ops
  have hi' := (sinv_closed false _).toLoopClosed.basePollNext fuel _ hi
  obtain ⟨k, hk, hkey, -⟩ := hi'.t.fwd en hen
  have hnd := hlt k hk hkey
  have hok := hi'.t.dl en hen k hk hkey ex hex hr
  obtain ⟨h3, h4⟩ := hok.tick_lt
  have h2 := hok.hi
  by_cases hle : en.dueAt ≤ ex.deadline
  · left
    exact Nat.lt_of_lt_of_le hnd (tick_le_ceil h4 hle)
  · right
    refine ⟨by omega, ?_, by omega⟩
    have h1 := hok.lo
    rcases Nat.le_total ex.deadline (ops.foldl applyOp (initSys limit respCap tcap coupled)).now with hdn | hdn
    · rw [Nat.max_eq_right hdn] at h2; omega
    · rw [Nat.max_eq_left hdn] at h2; omega

/-- **… and for the request stream of a channel without limiter.**  After `Requests::poll_next` has ended `Pending`
(or at the end of the stream) at clock `now`: every request still tracked is before the millisecond tick of its deadline,
or was read after its deadline less than a millisecond ago. -/
theorem C06_requests_idle_deadline_tick (respCap tcap : Nat) (coupled : Bool) (ops : List SOp)
    (hT : advSum ops < 2 ^ 35 * nsPerMs) (fuel : Nat)
    (c : Sys) (hc : c = ops.foldl applyOp (initSys none respCap tcap coupled))
    (h : (requestsPollNext fuel c.s c.now).2 = .pending ∨ (requestsPollNext fuel c.s c.now).2 = .none) :
    ∀ en ∈ (requestsPollNext fuel c.s c.now).1.inflight, ∀ ex ∈ (requestsPollNext fuel c.s c.now).1.execs,
      ex.rid = en.rid →
      c.now < ceilMs ex.deadline * nsPerMs ∨
      (ex.deadline < en.dueAt ∧ en.dueAt ≤ c.now ∧ c.now < en.dueAt + nsPerMs) := by
  intro en hen ex hex hr
  have hlt := (C06_requests_poll_not_late respCap tcap coupled ops hT fuel c hc h).1 en hen
  subst hc
  have hi := sinv_reach false none respCap tcap coupled ops
  have hi' := (sinv_closed false _).toLoopClosed.requestsPollNext fuel _ hi
  obtain ⟨k, hk, hkey, -⟩ := hi'.t.fwd en hen
  have hnd := hlt k hk hkey
  have hok := hi'.t.dl en hen k hk hkey ex hex hr
  obtain ⟨h3, h4⟩ := hok.tick_lt
  have h2 := hok.hi
  by_cases hle : en.dueAt ≤ ex.deadline
  · left
    exact Nat.lt_of_lt_of_le hnd (tick_le_ceil h4 hle)
  · right
    refine ⟨by omega, ?_, by omega⟩
    have h1 := hok.lo
    rcases Nat.le_total ex.deadline (ops.foldl applyOp (initSys none respCap tcap coupled)).now with hdn | hdn
    · rw [Nat.max_eq_right hdn] at h2; omega
    · rw [Nat.max_eq_left hdn] at h2; omega

/-- **C06 (c): not late, in terms of the deadline (pre/post).**  If a request is tracked when `BaseChannel::poll_next`
is called at a clock `now` at or after the millisecond tick of its deadline, and its timer was armed no later than the
deadline (`dueAt ≤ deadline`: it was read before its deadline), then when the poll goes idle the request is no longer
tracked and its handler has been aborted (unless a guard cancellation for its id was queued: the application had
already dropped it). -/
theorem C06_deadline_passed_gone (limit : Option Nat) (respCap tcap : Nat) (coupled : Bool) (ops : List SOp)
    (hT : advSum ops < 2 ^ 35 * nsPerMs) (fuel : Nat)
    (c : Sys) (hc : c = ops.foldl applyOp (initSys limit respCap tcap coupled))
    (h : (basePollNext fuel c.s c.now).2 = .pending ∨ (basePollNext fuel c.s c.now).2 = .none)
    (en : SEntry) (hen : en ∈ c.s.inflight) (ex : Exec) (hex : ex ∈ c.s.execs) (hr : ex.rid = en.rid)
    (hpast : ceilMs ex.deadline * nsPerMs ≤ c.now) (harmed : en.dueAt ≤ ex.deadline) :
    (∀ en' ∈ (basePollNext fuel c.s c.now).1.inflight, en'.id ≠ en.id) ∧
    (en.id ∈ c.s.cancelQ ∨ ∀ ex' ∈ (basePollNext fuel c.s c.now).1.execs, ex'.rid = en.rid → ex'.aborted = true) := by
  have hi := sinv_reach false limit respCap tcap coupled ops
  rw [← hc] at hi
  obtain ⟨k, hk, hkey, -⟩ := hi.t.fwd en hen
  have hok := hi.t.dl en hen k hk hkey ex hex hr
  obtain ⟨h3, h4⟩ := hok.tick_lt
  have h2 := hok.hi
  have hdn : ex.deadline ≤ c.now := Nat.le_trans (le_ceil_tick _) hpast
  rw [Nat.max_eq_right hdn] at h2
  exact C06_aborts_at_deadline_pre_post_exact limit respCap tcap coupled ops hT fuel c hc h en hen k hk hkey
    (Nat.le_trans (tick_le_ceil h4 harmed) hpast) (by omega)

/-- the request is read and yielded, the application drops it (its guard queues a cancellation), 5 ms pass -/
def c06AbandonedOps : List SOp :=
  [SOp.injectReq 1 1000000 ⟨0, .given 0, false⟩ 0, .pollServer, .dropExec 0, .advance 5000000]

/-- decidable form of "the poll went idle" (`SPoll` has no decidable equality) -/
def SPoll.isIdle {α : Type} : SPoll α → Bool
  | .pending => true
  | .none => true
  | _ => false

theorem SPoll.isIdle_iff {α : Type} {r : SPoll α} (h : SPoll.isIdle r = true) : r = .pending ∨ r = .none := by
  cases r <;> simp [SPoll.isIdle] at h ⊢

/-- **`C06AbortsAtDeadlineStatement` as written is false** — for a benign reason: it demands that the execution of
every due request be *aborted*, but a request the application has already dropped (`drop-exec`; its `ResponseGuard`
queued a cancellation) is forgotten by `remove_request` when the next poll drains the cancellation queue — before the
expiry is looked at — without an abort: there is no handler left to abort.  (`c06AbandonedOps`; nothing is late or
leaked here: entry and timer are gone after the poll.)  `C06_aborts_at_deadline_pre_post` is the corrected form. -/
theorem C06_statement_as_written_false : ¬ C06AbortsAtDeadlineStatement := by
  intro h
  have h1 := h none 1 1 true c06AbandonedOps 5
  have h2 := h1 (SPoll.isIdle_iff (by decide)) { id := 1, timerKey := 0, rid := 0, dueAt := 1000000 } (by decide) (0, 1, 1) (by decide)
    rfl (by decide) rfl
  have h3 : ∃ ex ∈ (basePollNext 5 (c06AbandonedOps.foldl applyOp (initSys none 1 1 true)).s
      (c06AbandonedOps.foldl applyOp (initSys none 1 1 true)).now).1.execs, ex.rid = 0 ∧ ex.aborted = false := by decide
  obtain ⟨ex, hex, hr, ha⟩ := h3
  have := h2.2 ex hex hr
  rw [ha] at this
  cases this

/-! ### non-vacuity -/

/-- two requests (deadlines 1 ms and 3 ms) are read, yielded and started; the clock moves to 2 ms -/
def c06TwoOps : List SOp :=
  [SOp.injectReq 1 1000000 ⟨0, .given 0, false⟩ 0, .pollServer, .pollExec 0,
   .injectReq 2 3000000 ⟨0, .given 0, false⟩ 0, .pollServer, .pollExec 1, .advance 2000000]

/-- The hypotheses are satisfiable and the conclusion is not vacuous: after `c06TwoOps` (clock 2 ms `< 2^35` ms) both
requests are tracked and the first one is due (tick 1 ms, `remainder = 0`); `BaseChannel::poll_next` goes idle
(`Pending`); afterwards only request 2 is tracked, its tick (3 ms) lies after the clock, the handler of request 1 is
aborted and that of request 2 is not; the queue's waker is stored and its `Sleep` fires at 3 ms. -/
example :
    advSum c06TwoOps < 2 ^ 35 * nsPerMs ∧
    (c06TwoOps.foldl applyOp (initSys none 1 1 true)).now = 2000000 ∧
    (c06TwoOps.foldl applyOp (initSys none 1 1 true)).s.inflight.map (fun en => (en.id, en.timerKey, en.remainder)) =
      [(1, 0, 0), (2, 1, 0)] ∧
    (c06TwoOps.foldl applyOp (initSys none 1 1 true)).s.timers.cores = [(0, 1, 1), (1, 2, 3)] ∧
    SPoll.isIdle (basePollNext 5 (c06TwoOps.foldl applyOp (initSys none 1 1 true)).s 2000000).2 = true ∧
    (basePollNext 5 (c06TwoOps.foldl applyOp (initSys none 1 1 true)).s 2000000).1.inflight.map
      (fun en => (en.id, en.timerKey)) = [(2, 1)] ∧
    (basePollNext 5 (c06TwoOps.foldl applyOp (initSys none 1 1 true)).s 2000000).1.timers.cores = [(1, 2, 3)] ∧
    (basePollNext 5 (c06TwoOps.foldl applyOp (initSys none 1 1 true)).s 2000000).1.execs.map
      (fun ex => (ex.rid, ex.aborted)) = [(0, true), (1, false)] ∧
    (basePollNext 5 (c06TwoOps.foldl applyOp (initSys none 1 1 true)).s 2000000).1.timers.waker = true ∧
    (basePollNext 5 (c06TwoOps.foldl applyOp (initSys none 1 1 true)).s 2000000).1.timers.nextFire = some 3000000 := by
  decide

/-- the same through the request stream (`Requests::poll_next`), which ends `Pending` -/
example :
    (requestsPollNext 5 (c06TwoOps.foldl applyOp (initSys none 1 1 true)).s 2000000).2 = .pending ∧
    (requestsPollNext 5 (c06TwoOps.foldl applyOp (initSys none 1 1 true)).s 2000000).1.timers.cores = [(1, 2, 3)] := by
  decide

/-! ### where the tick is placed: a re-arm does not round up a second time -/

/-- a request read at 1 ns whose deadline is one clamp + 10 ms away; the channel is polled when the first timer fires (at
`clampNs + 1 ms`, the millisecond tick of `1 ns + clampNs`), and again exactly at the deadline -/
def c06RearmLateOps : List SOp :=
  [.advance 1, .injectReq 1 (clampNs + 10000000) ⟨0, .given 0, false⟩ 0, .pollServer, .pollExec 0,
   .advance (clampNs + 1000000 - 1), .pollServer, .advance 9000000, .pollServer, .pollExec 0]

set_option maxRecDepth 100000 in
/-- **A re-arm no longer rounds up a second time (the former finding, fixed).**  The request is read at `t0 = 1 ns`
with deadline `D = clampNs + 10 ms` (a whole millisecond).  `start_request` arms `clampNs` (due at `1 ns + clampNs`,
tick `clampNs + 1 ms`) and keeps `remainder = 10 ms − 1 ns`.  Polled exactly at that tick, `poll_expired` now measures the
lateness from the exact due time the entry records (`dueAt`, `timer_due`): `late = 1 ms − 1 ns`, `rest = 9 ms`, new due
time `clampNs + 1 ms + 9 ms = D`, tick `D`.  The channel polled at `D` expires the request — table and timer queue empty,
handler aborted — and the server-side C06 monitor (`monC06`, whose model of the tick is `ceil_ms (max deadline yielded)`)
accepts the trace.  (While lateness was measured from the queue's *rounded* tick, `late` was 0 here, the re-arm was due at
`D + 1 ms − 1 ns`, and the monitor rejected the trace: each re-arm could add up to 1 ms.  `C06_timer_exact`:
`dueAt + remainder = deadline` exactly, for deadlines still ahead.) -/
theorem C06_rearm_not_late_witness :
    advSum c06RearmLateOps < 2 ^ 35 * nsPerMs ∧
    (c06RearmLateOps.foldl applyOp (initSys none 1 1 true)).now = clampNs + 10000000 ∧
    (c06RearmLateOps.foldl applyOp (initSys none 1 1 true)).s.inflight = [] ∧
    (c06RearmLateOps.foldl applyOp (initSys none 1 1 true)).s.timers.cores = [] ∧
    (c06RearmLateOps.foldl applyOp (initSys none 1 1 true)).s.execs.map (fun e => (e.deadline, e.aborted, e.phase)) =
      [(clampNs + 10000000, true, .done)] ∧
    (monC06 none (trace (initSys none 1 1 true) c06RearmLateOps)).ok = true ∧
    -- before the poll at `D`: re-armed once, due exactly at the deadline, nothing left to arm
    ((c06RearmLateOps.take 6).foldl applyOp (initSys none 1 1 true)).s.inflight =
      [{ id := 1, timerKey := 1, rid := 0, remainder := 0, dueAt := clampNs + 10000000 }] := by
  decide

/-! ### beyond the bound on the clock -/

/-- the clock (ms) from which a one-year timeout lands in the top wheel level's slot 0 of the *next* rotation -/
def c06WheelLagStartMs : Nat := 2 ^ 36 + 2 - clampNs / nsPerMs

/-- request 1 (deadline 64 ms) expires at 64 ms — the only time the wheel clock (`elapsed`) ever moves: it stays at 64;
≈ 430 days later request 2 arrives with a deadline two years away (armed with the one-year clamp: tick `2^36 + 2` ms) and
request 3 with a deadline 5 ms away; 5 ms later the channel is polled -/
def c06WheelLagOps : List SOp :=
  [.injectReq 1 (64 * nsPerMs) ⟨0, .given 0, false⟩ 0, .pollServer, .pollExec 0, .advance (64 * nsPerMs), .pollServer,
   .pollExec 0, .advance ((c06WheelLagStartMs - 64) * nsPerMs),
   .injectReq 2 (c06WheelLagStartMs * nsPerMs + 2 * clampNs) ⟨0, .given 0, false⟩ 0, .pollServer, .pollExec 1,
   .injectReq 3 ((c06WheelLagStartMs + 5) * nsPerMs) ⟨0, .given 0, false⟩ 0, .pollServer, .pollExec 2,
   .advance (5 * nsPerMs), .pollServer, .pollExec 2]

set_option maxRecDepth 1000000 in
/-- **The bound on the clock is not an artefact (tarpc-level consequence of the timer-wheel defect
`DelayQ.C05_delayq_late_witness` and of the lag of the wheel clock, F9).**  A server channel whose timer wheel last
advanced within its first 12 days (one early expiry; only an *expiring* timer moves `wheel.elapsed`) reads, after ≈ 430
days (`2^36 ms − 1 year`), a request whose deadline is at least a year away.  The clamped timer (tick `2^36 + 2` ms) passes
`DelayQueue::insert`'s range check and is filed in slot 0 of the top wheel level, one rotation ahead; from then on
`Level::next_expiration` takes it for the wheel's next expiration: a request with a 5 ms deadline read next is *not*
aborted when the channel is polled at its deadline (nothing is yielded, the `Sleep` is re-armed for `2^36 + 34·2^30` ms
≈ 3.3 years; no panic, the channel is not poisoned), and `monC06` rejects the trace.  The same script shape on the client:
`Client.C05_wheel_lag_witness`. -/
theorem C06_wheel_lag_witness :
    ¬ advSum c06WheelLagOps < 2 ^ 35 * nsPerMs ∧
    (c06WheelLagOps.foldl applyOp (initSys none 2 4 true)).now = (c06WheelLagStartMs + 5) * nsPerMs ∧
    (c06WheelLagOps.foldl applyOp (initSys none 2 4 true)).s.poisoned = false ∧
    (c06WheelLagOps.foldl applyOp (initSys none 2 4 true)).s.inflight.map (fun e => (e.id, e.remainder, e.dueAt)) =
      [(2, clampNs, (2 ^ 36 + 2) * nsPerMs), (3, 0, (c06WheelLagStartMs + 5) * nsPerMs)] ∧
    (c06WheelLagOps.foldl applyOp (initSys none 2 4 true)).s.execs.map (fun e => (e.id, e.deadline, e.aborted, e.phase)) =
      [(1, 64 * nsPerMs, true, EPhase.done),
       (2, c06WheelLagStartMs * nsPerMs + 2 * clampNs, false, EPhase.running),
       (3, (c06WheelLagStartMs + 5) * nsPerMs, false, EPhase.running)] ∧
    (c06WheelLagOps.foldl applyOp (initSys none 2 4 true)).s.timers.nextFire = some ((2 ^ 36 + 34 * 2 ^ 30) * nsPerMs) ∧
    (monC06 none (trace (initSys none 2 4 true) c06WheelLagOps)).ok = false := by
  decide

end TarpcModel.Server

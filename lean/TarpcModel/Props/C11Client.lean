import TarpcModel.Lemmas.ClientMon
/-!
# C11 (client) — tracked request state is bounded; timers and table agree; ids are unique

Property theorems only.  The model is `TarpcModel.Client` (`Client/Model.lean`, `Client/Run.lean`); reachable
states are `ops.foldl applyOp (initSys m bufCap tcap coupled)` for arbitrary op lists, the event trace is
`trace (initSys …) ops`.  The invariant behind all statements is `Client.StInv` (`Lemmas/ClientInv.lean`).

All statements hold for every configuration, including `m = 0` (then nothing ever enters the table); the hypothesis
`1 ≤ m` of the task is not needed and therefore not assumed.
-/
set_option linter.unusedSimpArgs false
namespace TarpcModel.Client
open TarpcModel.DelayQ

/-- **C11 (1), bounded in-flight table.**  In every reachable state the in-flight table holds at most
`max_in_flight_requests` entries (the configured `m`, which never changes). -/
theorem C11_inflight_bounded (m bufCap tcap : Nat) (coupled : Bool) (ops : List COp) :
    (ops.foldl applyOp (initSys m bufCap tcap coupled)).s.inflight.length ≤ m := by
  have h := (inv_reach m bufCap tcap coupled ops).t.bound
  rwa [maxInFlight_reach] at h

/-- the same, phrased with the state's own field -/
theorem C11_inflight_bounded_field (m bufCap tcap : Nat) (coupled : Bool) (ops : List COp)
    (s : St) (hs : s = (ops.foldl applyOp (initSys m bufCap tcap coupled)).s) :
    s.inflight.length ≤ s.maxInFlight := by
  subst hs; exact (inv_reach m bufCap tcap coupled ops).t.bound

/-- **C11 (2a), as many timers as entries.**  After every op the number of armed timers equals the number of
in-flight entries. -/
theorem C11_timers_len_eq_inflight (m bufCap tcap : Nat) (coupled : Bool) (ops : List COp) :
    (ops.foldl applyOp (initSys m bufCap tcap coupled)).s.timers.len =
      (ops.foldl applyOp (initSys m bufCap tcap coupled)).s.inflight.length := by
  have h := inv_reach m bufCap tcap coupled ops
  exact h.t.len_eq h.i.inNodup

/-- **C11 (2b), every entry has its timer.**  After every op each in-flight entry's `timerKey` is the key of an
armed timer (in the wheel or on the `expired` stack) whose value is the entry's request id, and that timer together
with the entry's `remainder` (the part of a far-away deadline not armed yet, re-armed when the timer fires) reaches
the entry's deadline; with `remainder = 0` — always the case for deadlines within the clamp — the timer is not armed
before the deadline. -/
theorem C11_entry_has_timer (m bufCap tcap : Nat) (coupled : Bool) (ops : List COp)
    (s : St) (hs : s = (ops.foldl applyOp (initSys m bufCap tcap coupled)).s) (en : Entry) (hen : en ∈ s.inflight) :
    ∃ d ∈ s.timers.entries ++ s.timers.expired,
      d.key = en.timerKey ∧ d.val = en.id ∧ en.ctx.deadline ≤ d.whenMs * nsPerMs + en.remainder := by
  subst hs
  obtain ⟨w, ⟨d, hd, h1, h2, h3⟩, hw⟩ := (inv_reach m bufCap tcap coupled ops).t.e2t en hen
  exact ⟨d, hd, h1, h2, by rw [h3]; exact hw⟩

/-- **C11 (2c), every timer has its entry.**  After every op each armed timer belongs to an in-flight entry
(same key, value = the entry's request id): no timer is leaked. -/
theorem C11_timer_has_entry (m bufCap tcap : Nat) (coupled : Bool) (ops : List COp)
    (s : St) (hs : s = (ops.foldl applyOp (initSys m bufCap tcap coupled)).s) (d : DqEntry)
    (hd : d ∈ s.timers.entries ++ s.timers.expired) :
    ∃ en ∈ s.inflight, en.timerKey = d.key ∧ en.id = d.val := by
  subst hs
  exact (inv_reach m bufCap tcap coupled ops).t.t2e d.key d.val d.whenMs ⟨d, hd, rfl, rfl, rfl⟩

/-- **C11 (2d), no key twice.**  After every op the keys of the armed timers are pairwise distinct, and so are
the `timerKey`s of the in-flight entries. -/
theorem C11_timer_keys_distinct (m bufCap tcap : Nat) (coupled : Bool) (ops : List COp)
    (s : St) (hs : s = (ops.foldl applyOp (initSys m bufCap tcap coupled)).s) :
    ((s.timers.entries ++ s.timers.expired).map (·.key)).Nodup ∧ (s.inflight.map (·.timerKey)).Nodup := by
  subst hs
  have h := inv_reach m bufCap tcap coupled ops
  refine ⟨?_, ?_⟩
  · rw [List.Nodup, List.pairwise_map]; exact h.t.wf.keys
  · rw [List.Nodup, List.pairwise_map]
    have hn := h.i.inNodup
    rw [List.Nodup, List.pairwise_map] at hn
    refine hn.imp_of_mem ?_
    intro a b ha hb hab hk
    obtain ⟨wa, hwa, -⟩ := h.t.e2t a ha
    obtain ⟨wb, hwb, -⟩ := h.t.e2t b hb
    rw [hk] at hwa
    exact hab (Has.functional h.t.wf hwa hwb).1

/-- **C11 (2e), the same keys.**  After every op the `timerKey`s of the in-flight entries are, up to order, exactly
the keys of the armed timers. -/
theorem C11_timer_keys_perm (m bufCap tcap : Nat) (coupled : Bool) (ops : List COp)
    (s : St) (hs : s = (ops.foldl applyOp (initSys m bufCap tcap coupled)).s) :
    (s.inflight.map (·.timerKey)).Perm ((s.timers.entries ++ s.timers.expired).map (·.key)) := by
  obtain ⟨h1, h2⟩ := C11_timer_keys_distinct m bufCap tcap coupled ops s hs
  rw [List.perm_ext_iff_of_nodup h2 h1]
  intro k
  simp only [List.mem_map]
  constructor
  · rintro ⟨en, hen, rfl⟩
    obtain ⟨d, hd, e1, -⟩ := C11_entry_has_timer m bufCap tcap coupled ops s hs en hen
    exact ⟨d, hd, e1⟩
  · rintro ⟨d, hd, rfl⟩
    obtain ⟨en, hen, e1, -⟩ := C11_timer_has_entry m bufCap tcap coupled ops s hs d hd
    exact ⟨en, hen, e1⟩

/-- **C11 (3a), request ids in the queue and the table.**  After every op the request ids queued for the dispatch
or in flight are pairwise distinct and all below `nextId`. -/
theorem C11_request_ids_unique (m bufCap tcap : Nat) (coupled : Bool) (ops : List COp)
    (s : St) (hs : s = (ops.foldl applyOp (initSys m bufCap tcap coupled)).s) :
    (s.pq.map (·.id) ++ s.inflight.map (·.id)).Nodup ∧ (∀ r ∈ s.pq, r.id < s.nextId) ∧
      (∀ en ∈ s.inflight, en.id < s.nextId) := by
  subst hs
  have h := inv_reach m bufCap tcap coupled ops
  exact ⟨h.i.nodup, h.i.pqLt, h.i.inLt⟩

/-- **C11 (3b), ids of calls.**  After every op every call that has drawn its request id and has not been dropped
(phase `reserving`, `awaiting` or `resolved`) has an id below `nextId`, and two different such calls have different
ids.  (A dropped call keeps no trace of whether it was ever polled, hence the phase restriction; ids are unbounded
naturals, so no wrap-around hypothesis is needed.) -/
theorem C11_call_ids_unique (m bufCap tcap : Nat) (coupled : Bool) (ops : List COp)
    (s : St) (hs : s = (ops.foldl applyOp (initSys m bufCap tcap coupled)).s)
    (c1 c2 : Call) (h1 : c1 ∈ s.calls) (h2 : c2 ∈ s.calls)
    (p1 : c1.phase = .reserving ∨ c1.phase = .awaiting ∨ c1.phase = .resolved)
    (p2 : c2.phase = .reserving ∨ c2.phase = .awaiting ∨ c2.phase = .resolved) :
    c1.id < s.nextId ∧ (c1.id = c2.id → c1 = c2) := by
  subst hs
  have h := inv_reach m bufCap tcap coupled ops
  have a1 : Assigned none c1 := by rcases p1 with p | p | p <;> simp [Assigned, p]
  have a2 : Assigned none c2 := by rcases p2 with p | p | p <;> simp [Assigned, p]
  exact ⟨h.c.idLt c1 h1 a1, fun hid => h.c.cid_unique h1 h2 (h.c.idInj c1 h1 c2 h2 a1 a2 hid)⟩

/-- **C11 (3c), the uniqueness and key panics are unreachable.**  The only panic site any script can reach is the
range check of `DelayQueue::insert` (a deadline more than 2^36 ms ahead): no trace contains
`panic "Request IDs should be unique"` (`insert_request`) nor `panic "deadlines.remove: invalid key"`
(`DelayQueue::remove`). -/
theorem C11_only_insert_range_panic (m bufCap tcap : Nat) (coupled : Bool) (ops : List COp) (t : TaskId)
    (site : String) (h : CEv.obs (.panic t site) ∈ trace (initSys m bufCap tcap coupled) ops) :
    site = "DelayQueue::insert: invalid deadline" := by
  obtain ⟨calls, now, -, hg⟩ :=
    trace_obs_good m ops (initSys m bufCap tcap coupled) (inv_init 0 m bufCap tcap coupled 0) rfl _ h
  exact hg.1

theorem C11_no_uniqueness_panic (m bufCap tcap : Nat) (coupled : Bool) (ops : List COp) (t : TaskId) :
    CEv.obs (.panic t "Request IDs should be unique") ∉ trace (initSys m bufCap tcap coupled) ops ∧
    CEv.obs (.panic t "deadlines.remove: invalid key") ∉ trace (initSys m bufCap tcap coupled) ops := by
  constructor <;> intro h <;> have := C11_only_insert_range_panic m bufCap tcap coupled ops t _ h <;> simp at this

/-! ### monitor form -/

/-- The first two clauses of `checkC11`: the bound and `inflight = timers` (the third clause, "reclaimed when
idle", is liveness-flavoured and is not covered here). -/
def checkC11Bounded (maxInFlight : Nat) (_ : Book) (_ : Unit) : CEv → Unit × Option String
  | .obs (.counts (.dispatch _) inflight timers) =>
      if inflight > maxInFlight then ((), some s!"{inflight} requests in flight > max_in_flight_requests = {maxInFlight}")
      else if inflight != timers then ((), some s!"{inflight} tracked requests but {timers} armed timers")
      else ((), none)
  | _ => ((), none)

def monC11Bounded (maxInFlight : Nat) (evs : List CEv) : Mon Unit := Mon.run (checkC11Bounded maxInFlight) () evs

/-- **C11 (5), monitor acceptance of the bound and of `inflight = timers`.**  For every configuration and every
script the sub-monitor made of the first two clauses of `checkC11` accepts the model's trace. -/
theorem C11_monitor_bounded_accepts (m bufCap tcap : Nat) (coupled : Bool) (ops : List COp) :
    (monC11Bounded m (trace (initSys m bufCap tcap coupled) ops)).ok = true := by
  apply mon_accepts (T := advSum ops) (hT := Nat.le_refl _)
  · intro bk st op; rfl
  · intro c bk st o _ _ _ _ hg
    cases o <;> try rfl
    rename_i ep i t
    cases ep <;> try rfl
    obtain ⟨h1, h2⟩ := hg
    subst h2
    have h3 : ¬ i > m := by omega
    simp [checkC11Bounded, h3]

/-- `checkC11` agrees with `checkC11Bounded` except for its third clause: whenever the full monitor objects but the
sub-monitor does not, the objection is the "reclaimed when idle" one. -/
theorem checkC11_eq_bounded_or_third (m : Nat) (b : Book) (e : CEv) :
    (checkC11 m b () e).2 = (checkC11Bounded m b () e).2 ∨
    ((checkC11Bounded m b () e).2 = none ∧
      ∃ i : Nat, (checkC11 m b () e).2 =
        some s!"all calls resolved or dropped, transport writable, yet {i} requests still tracked") := by
  cases e with
  | op o => left; rfl
  | obs o =>
    cases o <;> try (left; rfl)
    rename_i ep i t
    cases ep <;> try (left; rfl)
    simp only [checkC11, checkC11Bounded]
    by_cases h1 : i > m
    · left; simp [h1]
    · by_cases h2 : (i != t) = true
      · left; simp [h1, h2]
      · simp only [h1, h2, ↓reduceIte, Bool.false_eq_true]
        split
        · right; exact ⟨trivial, i, rfl⟩
        · left; rfl

/-- The third clause of `checkC11` (tracked state is fully reclaimed once every call is resolved or dropped and the
transport was writable) — not proved here; kept as a statement. -/
def C11_monitor_full_Statement : Prop :=
  ∀ (m bufCap tcap : Nat) (coupled : Bool) (ops : List COp), 1 ≤ m →
    (monC11 m (trace (initSys m bufCap tcap coupled) ops)).ok = true

/-! ### non-vacuity -/

/-- A script that fills the table (`m = 1`), is refused a second slot, and frees it by a deadline expiry. -/
example :
    let ops := [COp.call 0 5000000 ⟨1, .given 1, true⟩ 7, .call 0 9000000 ⟨2, .given 2, true⟩ 8, .pollCall 0,
      .pollDispatch, .pollCall 1, .pollDispatch]
    (ops.foldl applyOp (initSys 1 2 4 true)).s.inflight.length = 1 ∧
    (ops.foldl applyOp (initSys 1 2 4 true)).s.timers.len = 1 ∧
    (ops.foldl applyOp (initSys 1 2 4 true)).s.pq.length = 1 := by
  decide

example :
    CEv.obs (.counts (.dispatch 0) 1 1) ∈
      trace (initSys 1 1 1 true) [.call 0 5000000 ⟨1, .given 1, true⟩ 7, .pollCall 0, .pollDispatch] := by
  decide

end TarpcModel.Client

import TarpcModel.Lemmas.ServerTrace
/-!
# C04 (server side) — a cancelled request is forgotten and its handler is never polled again

Property theorems only (mechanism level).  `cancel_request` is `cancelRequest`, `AbortHandle::abort`
is `abortExec`, polling the `Abortable` execute future is `pollExec` (`Server/Model.lean`).
That entries and executions are linked one-to-one in every reachable state (so that "the execution
recorded in the entry" is the handler of that request) is `C11_execs_wellformed` / `C11_entry_owner`.
-/
namespace TarpcModel.Server

/-- **C04 mechanism: a `Cancel` for a tracked id forgets the request and aborts exactly its
handler.**  With `e` the entry of `id`: the entry is removed (no entry with that id is left); the
abort flag of every execution with `rid = e.rid` is set and the `(rid, id, aborted)` keys of all
others are untouched — indeed every other execution is untouched; the entry's timer is removed
(when `remove` finds the key — always, on a well-formed table: `C08_tracked_timer_removed`'s
argument); queues, limiter configuration, end-of-stream flags are untouched. -/
theorem C04_cancel_aborts_and_forgets (s : St) (id : Nat) (e : SEntry) (h : findEntry s id = some e) :
    (cancelRequest s id).2 = true
    ∧ (cancelRequest s id).1.inflight = s.inflight.filter (·.id != id)
    ∧ findEntry (cancelRequest s id).1 id = none
    ∧ (cancelRequest s id).1.execs.map ekey = abortKeys e.rid (s.execs.map ekey)
    ∧ (∀ x ∈ (cancelRequest s id).1.execs, x.rid = e.rid → x.aborted = true)
    ∧ (∀ r, r ≠ e.rid → getExec (cancelRequest s id).1 r = getExec s r)
    ∧ (∀ q w, s.timers.remove e.timerKey = some (q, w) → (cancelRequest s id).1.timers = q)
    ∧ (cancelRequest s id).1.respQ = s.respQ ∧ (cancelRequest s id).1.cancelQ = s.cancelQ
    ∧ (cancelRequest s id).1.limit = s.limit ∧ (cancelRequest s id).1.dropped = s.dropped
    ∧ (cancelRequest s id).1.done = s.done := by
  rcases cancelRequest_cases s id with ⟨hn, _⟩ | ⟨e', hf, h1⟩
  · rw [hn] at h; cases h
  · rw [h] at hf; cases hf
    have hk : (cancelRequest s id).1.execs.map ekey = abortKeys e.rid (s.execs.map ekey) := by
      rw [h1]; simp
    refine ⟨by rw [h1], by rw [h1]; simp, ?_, hk, ?_, ?_, ?_, by simp, by simp, by simp, by simp, by simp⟩
    · rw [h1]
      simp only [findEntry, removeTimer_inflight, abortExec_inflight, List.find?_filter]
      simp [List.find?_eq_none]
    · intro x hx hr
      have : ekey x ∈ abortKeys e.rid (s.execs.map ekey) := hk ▸ List.mem_map.mpr ⟨x, hx, rfl⟩
      exact abortKeys_flagged this hr
    · intro r hr
      rw [h1]
      have : ∀ (s1 : St) k, getExec (removeTimer s1 k) r = getExec s1 r := by
        intro s1 k; unfold getExec; rw [removeTimer_execs]
      rw [this, getExec_abortExec_ne _ _ _ hr]
      rfl
    · intro q w hq
      rw [h1]
      rw [removeTimer_of_some (s := abortExec { s with inflight := s.inflight.filter (·.id != id) } e.rid)
        (by simpa using hq)]
      cases w <;> simp

/-- **C04 mechanism: a `Cancel` for an untracked id is the identity.** -/
theorem C04_cancel_untracked_identity (s : St) (id : Nat) (h : findEntry s id = none) :
    cancelRequest s id = (s, false) := by
  unfold cancelRequest; simp [h]

/-- **C04 mechanism: an aborted handler is never polled.**  Polling an execution whose abort flag
is set emits no `handler … polled` / `handler … completed` observation, queues no response, and
leaves it finished (`done`) with its guard disarmed. -/
theorem C04_aborted_handler_not_polled (s : St) (vid now : Nat) (e : Exec)
    (hv : getExecVis s vid = some e) (hl : execLive e = true) (ha : e.aborted = true) :
    (pollExec s vid now).obs.filter handlerRuns = s.obs.filter handlerRuns
    ∧ (pollExec s vid now).respQ = s.respQ
    ∧ (∀ x ∈ (pollExec s vid now).execs, x.rid = e.rid → x.phase = .done ∧ x.guardArmed = false) := by
  have hfin : ∀ (s1 : St), ∀ x ∈ (emit (updExec s1 e.rid (fun x => { x with phase := .done, guardArmed := false }))
      (.ret (.exec vid) .readyOk)).execs, x.rid = e.rid → x.phase = .done ∧ x.guardArmed = false := by
    intro s1 x hx hr
    obtain ⟨y, _, rfl⟩ := mem_updExec (show x ∈ (updExec s1 e.rid _).execs from hx)
    by_cases hy : y.rid = e.rid
    · simp [hy]
    · simp [hy] at hr
  unfold pollExec
  simp only [hv, hl, ha, Bool.not_true, Bool.false_eq_true, ↓reduceIte]
  refine ⟨?_, ?_, hfin _⟩
  · (repeat' split) <;> simp [emit, updExec, handlerRuns, rqRelease_runs]
  · (repeat' split) <;> simp [emit, updExec]

/-- the hypotheses are satisfiable: request 1 is handed out, its handler polled once, a `Cancel` is
read; polling the execution again shows no `polled` (the handler is dropped instead) -/
example :
    ((trace (initSys none 1 4 true)
      [.injectReq 1 5000000 ⟨7, .given 1, true⟩ 0, .pollServer, .pollExec 0,
       .injectCancel 1 ⟨7, .given 1, true⟩, .pollServer, .pollExec 0]).filter
        (fun e => match e with | .obs (.handler _ _ _) => true | _ => false))
      = [.obs (.handler 0 .polled 0), .obs (.handler 0 .dropped 0)] := by
  decide

end TarpcModel.Server

import TarpcModel.Lemmas.ServerMon06
/-!
# C06 (server side) — the never-early clause of the run-time monitor `monC06` accepts every trace of the model

Property theorems only.  The first clause of `checkC06` (`Monitors/Server.lean`) judges every
`handler r dropped t` observation — the `Abortable` wrapper of an execution found its abort flag set when it was
polled, and dropped the handler — : unless the application itself is dropping the execution (`drop-exec r`), the
request stream has been dropped, or a `Cancel` for the request's id was read while the monitor's table listed the
execution, `t` must not be before the deadline the request was handed out with.

`checkC06Early` (`Lemmas/ServerMon06.lean`) is that clause alone, `checkC06Rest` the other two clauses (a handler
still *running*, a response still *transmitted*, after the channel was polled past the deadline — the "enforced"
direction, where the limiter stall F7 lives); `C06S_check_split`: `checkC06` fires iff the never-early clause fires
or, that failing, one of the others.

The proof couples the monitor's `Book` with the model's state (`Mon06.K`: the book's table lists every tracked,
unexpired, unabandoned execution under its number; every aborted execution has a reason the book knows — its
`cancelRead` mark, `dropped`, or the clock past its deadline), walks that coupling through `Requests::poll_next`
(`J_requestsPollNext`; the expiry path uses `TInv.expire_ab`: whatever `poll_expired` aborts is past its deadline)
and through every other op, and links it to `Mon.run` (`c06_trace`).
-/
namespace TarpcModel.Server
open TarpcModel TarpcModel.Server.Mon06

/-- `checkC06` is its never-early clause followed by the two "enforced" clauses. -/
theorem C06S_check_split (b : Book) (u : Unit) (e : SEv) :
    (checkC06 b u e).2 = (checkC06Early b u e).2.orElse fun _ => (checkC06Rest b u e).2 :=
  checkC06_split b u e

/-- **C06 (server), monitor form, never early.**  For every configuration and every script over all ops —
whatever deadlines the requests carry, with cancellations, abandoned executions, re-used ids, transport faults,
the limiter at its limit — the clause "handler dropped before its deadline" of the C06 monitor never fires on the
model's trace: when `poll-exec` reports a handler dropped, a `Cancel` for the request was read while the monitor
still listed it, or the request stream has been dropped, or the clock has reached the deadline the request was
handed out with. -/
theorem C06S_never_early_monitor_accepts (limit : Option Nat) (respCap tcap : Nat) (coupled : Bool) (ops : List SOp) :
    (monC06Early limit (trace (initSys limit respCap tcap coupled) ops)).ok = true := by
  unfold Mon.ok
  rw [c06_early_accepts]; rfl

/-- Hence: whenever the full C06 monitor rejects a trace of the model, the clause that fired is one of the two
"deadline enforced" clauses (`checkC06Rest`) — at the event at which `checkC06` fires, with the book the monitor
has there, if the never-early clause is silent then `checkC06Rest` fires with the same message. -/
theorem C06S_alarm_is_enforcement_clause (b : Book) (u : Unit) (e : SEv) (why : String)
    (hc : (checkC06Early b u e).2 = none) (h : (checkC06 b u e).2 = some why) :
    (checkC06Rest b u e).2 = some why := by
  rw [C06S_check_split, hc] at h
  exact h

/-- Non-vacuity: the monitor runs over traces in which `poll-exec` reports dropped handlers for each of the
accepted reasons — the deadline passed (expiry at 5 ms of a 1 ms deadline), a `Cancel` read, the stream dropped —
and accepts them; the observations are there. -/
example :
    let expiry := trace (initSys none 1 1 true)
      [.injectReq 1 1000000 ⟨0, .given 0, false⟩ 0, .pollServer, .pollExec 0, .advance 5000000, .pollServer, .pollExec 0]
    let cancel := trace (initSys none 1 4 true)
      [.injectReq 1 5000000 ⟨7, .given 1, true⟩ 0, .pollServer, .pollExec 0, .injectCancel 1 ⟨7, .given 1, true⟩,
       .pollServer, .pollExec 0]
    let dropped := trace (initSys none 1 1 true)
      [.injectReq 1 5000000 ⟨0, .given 0, false⟩ 0, .pollServer, .pollExec 0, .dropServer, .pollExec 0]
    (monC06Early none expiry).ok = true ∧ SEv.obs (.handler 0 .dropped 5000000) ∈ expiry ∧
    (monC06Early none cancel).ok = true ∧ SEv.obs (.handler 0 .dropped 0) ∈ cancel ∧
    (monC06Early none dropped).ok = true ∧ SEv.obs (.handler 0 .dropped 0) ∈ dropped := by
  decide

/-- The clause is not vacuous: a handler reported dropped by `poll-exec` before its deadline, with no `Cancel`
read and the stream alive, is rejected. -/
example :
    (monC06Early none
      [.op .pollServer, .obs (.yielded 0 1 5000000 ⟨0, .fresh 0, false⟩), .op (.pollExec 0),
       .obs (.handler 0 .dropped 0)]).ok = false := by
  decide

end TarpcModel.Server

import TarpcModel.Lemmas.ClientMon
/-!
# C05 — the client enforces request deadlines, never early

Property theorems only.  A call fails with `DeadlineExceeded` (`Outcome.deadline`) only through
`InFlightRequests::poll_expired`, i.e. when the `DelayQueue` yields the timer armed for the request.  The proof goes
through `DelayQ.pollExpired_spec` (`Lemmas/DelayQInv.lean`: the timer wheel emulation never yields an entry before
`whenMs`, given `wheelElapsed ≤ now`) and the client invariant `Client.StInv` (`Lemmas/ClientInv.lean`: every timer is
armed at or after `dueAt` the deadline of its in-flight entry, which is the deadline of the call that created it).

**The clamp.**  `insert_request` arms the timer with `min (deadline - now) MAX_DEADLINE_TIMEOUT`
(`clampTimeout`; `Gen.clientTimerClampSecs` seconds, `clampNs` in ns; `0` = not clamped).  A timer armed at `now`
therefore fires at `now + min (deadline - now) clampNs ≥ min deadline clampNs = dueAt deadline`: "never early" holds
in the form `deadline ≤ now ∨ clampNs ≤ now`.  The unconditional form follows for calls whose deadline is at most
`clampNs` and for all calls as long as the clock is before `clampNs` (`…_of_le_clamp`, `…_before_clamp`);
`C05_clamp_fires_early_witness` shows that it does not hold beyond.

Only the *never early* half of C05 is covered here; the *not late* half (second and third clause of `checkC05`)
is kept as a statement.
-/
set_option linter.unusedSimpArgs false
namespace TarpcModel.Client

/-- **C05 never early, state form (oneshot).**  In every reachable state, if the oneshot of a call holds
`DeadlineExceeded`, the virtual clock has reached the deadline the caller gave (`ctx.deadline`, ns) — or the clamp
`clampNs` of the armed timeout, if the source clamps. -/
theorem C05_oneshot_deadline_not_early (m bufCap tcap : Nat) (coupled : Bool) (ops : List COp)
    (c : Sys) (hc : c = ops.foldl applyOp (initSys m bufCap tcap coupled)) (cl : Call) (hcl : cl ∈ c.s.calls)
    (h : cl.os.val = some .deadline) :
    cl.ctx.deadline ≤ c.now ∨ (Gen.clientTimerClampSecs ≠ 0 ∧ clampNs ≤ c.now) := by
  subst hc; exact (dueAt_le_iff _ _).mp ((inv_reach m bufCap tcap coupled ops).c.osDl cl hcl h)

/-- … hence unconditionally for a call whose deadline is at most `clampNs`, and for every call while the clock is
before `clampNs`. -/
theorem C05_oneshot_deadline_not_early_of_le_clamp (m bufCap tcap : Nat) (coupled : Bool) (ops : List COp)
    (c : Sys) (hc : c = ops.foldl applyOp (initSys m bufCap tcap coupled)) (cl : Call) (hcl : cl ∈ c.s.calls)
    (h : cl.os.val = some .deadline) (hd : cl.ctx.deadline ≤ clampNs ∨ c.now < clampNs) : cl.ctx.deadline ≤ c.now := by
  rcases C05_oneshot_deadline_not_early m bufCap tcap coupled ops c hc cl hcl h with h1 | ⟨_, h1⟩ <;> omega

/-- **C05 never early, state form (resolution).**  In every reachable state, a call that resolved with
`DeadlineExceeded` has its deadline (or the clamp) behind the clock. -/
theorem C05_outcome_deadline_not_early (m bufCap tcap : Nat) (coupled : Bool) (ops : List COp)
    (c : Sys) (hc : c = ops.foldl applyOp (initSys m bufCap tcap coupled)) (cl : Call) (hcl : cl ∈ c.s.calls)
    (h : cl.outcome = some .deadline) :
    cl.ctx.deadline ≤ c.now ∨ (Gen.clientTimerClampSecs ≠ 0 ∧ clampNs ≤ c.now) := by
  subst hc; exact (dueAt_le_iff _ _).mp ((inv_reach m bufCap tcap coupled ops).c.outDl cl hcl h)

theorem C05_outcome_deadline_not_early_of_le_clamp (m bufCap tcap : Nat) (coupled : Bool) (ops : List COp)
    (c : Sys) (hc : c = ops.foldl applyOp (initSys m bufCap tcap coupled)) (cl : Call) (hcl : cl ∈ c.s.calls)
    (h : cl.outcome = some .deadline) (hd : cl.ctx.deadline ≤ clampNs ∨ c.now < clampNs) : cl.ctx.deadline ≤ c.now := by
  rcases C05_outcome_deadline_not_early m bufCap tcap coupled ops c hc cl hcl h with h1 | ⟨_, h1⟩ <;> omega

/-- **C05 never early, the timers.**  In every reachable state every armed timer of an in-flight request is armed
at or after `min deadline clampNs` (`whenMs` is in ms, deadlines in ns): at or after the request's deadline, or at
or after the clamp. -/
theorem C05_timer_not_before_deadline (m bufCap tcap : Nat) (coupled : Bool) (ops : List COp)
    (s : St) (hs : s = (ops.foldl applyOp (initSys m bufCap tcap coupled)).s) (en : Entry) (hen : en ∈ s.inflight)
    (d : DqEntry) (hd : d ∈ s.timers.entries ++ s.timers.expired) (hk : d.key = en.timerKey) :
    en.ctx.deadline ≤ d.whenMs * nsPerMs ∨ (Gen.clientTimerClampSecs ≠ 0 ∧ clampNs ≤ d.whenMs * nsPerMs) := by
  subst hs
  have h := inv_reach m bufCap tcap coupled ops
  obtain ⟨w, hw, hdl⟩ := h.t.e2t en hen
  have := (DelayQ.Has.functional h.t.wf hw ⟨d, hd, hk, rfl, rfl⟩).2
  rw [this] at hdl; exact (dueAt_le_iff _ _).mp hdl

/-- … hence at or after the deadline itself when the deadline is at most `clampNs`. -/
theorem C05_timer_not_before_deadline_of_le_clamp (m bufCap tcap : Nat) (coupled : Bool) (ops : List COp)
    (s : St) (hs : s = (ops.foldl applyOp (initSys m bufCap tcap coupled)).s) (en : Entry) (hen : en ∈ s.inflight)
    (d : DqEntry) (hd : d ∈ s.timers.entries ++ s.timers.expired) (hk : d.key = en.timerKey)
    (hle : en.ctx.deadline ≤ clampNs) : en.ctx.deadline ≤ d.whenMs * nsPerMs := by
  rcases C05_timer_not_before_deadline m bufCap tcap coupled ops s hs en hen d hd hk with h1 | ⟨_, h1⟩ <;> omega

/-- **C05 never early, the expiry itself.**  In every reachable state, if polling the `DelayQueue` at the current
time yields a timer, that timer is due (`whenMs * 1e6 ≤ now`) and belongs to exactly one in-flight entry, whose
deadline (or the clamp) has passed. -/
theorem C05_expiry_only_when_due (m bufCap tcap : Nat) (coupled : Bool) (ops : List COp)
    (c : Sys) (hc : c = ops.foldl applyOp (initSys m bufCap tcap coupled)) (e : DqEntry)
    (h : (c.s.timers.pollExpired c.now).2 = .expired e) :
    e.whenMs * nsPerMs ≤ c.now ∧ ∃ en ∈ c.s.inflight, en.id = e.val ∧
      (en.ctx.deadline ≤ c.now ∨ (Gen.clientTimerClampSecs ≠ 0 ∧ clampNs ≤ c.now)) := by
  subst hc
  have hi := inv_reach m bufCap tcap coupled ops
  obtain ⟨en, hen, e1, e2, -⟩ := (hi.t.expired hi.i.inNodup).1 e h
  exact ⟨((DelayQ.pollExpired_spec _ _ hi.t.wf hi.t.timely).some e h).2.1, en, hen, e1, (dueAt_le_iff _ _).mp e2⟩

/-- … before `clampNs`: the entry's deadline has passed. -/
theorem C05_expiry_only_when_due_before_clamp (m bufCap tcap : Nat) (coupled : Bool) (ops : List COp)
    (c : Sys) (hc : c = ops.foldl applyOp (initSys m bufCap tcap coupled)) (e : DqEntry)
    (h : (c.s.timers.pollExpired c.now).2 = .expired e) (hnow : c.now < clampNs) :
    e.whenMs * nsPerMs ≤ c.now ∧ ∃ en ∈ c.s.inflight, en.id = e.val ∧ en.ctx.deadline ≤ c.now := by
  obtain ⟨h1, en, hen, e1, e2⟩ := C05_expiry_only_when_due m bufCap tcap coupled ops c hc e h
  refine ⟨h1, en, hen, e1, ?_⟩
  rcases e2 with e2 | ⟨_, e2⟩ <;> omega

/-- The *never early* clause of `checkC05` (its first test), as a monitor of its own. -/
def checkC05NeverEarly (b : Book) (last : C05St) : CEv → C05St × Option String
  | .obs (.resolved c .deadline t) =>
      match b.calls.find? (·.cid == c) with
      | none => (last, none)
      | some ci =>
          if t < ci.deadline then (last, some s!"call {c} failed with DeadlineExceeded at {t} before its deadline {ci.deadline}")
          else (last, none)
  | _ => (last, none)

def monC05NeverEarly (evs : List CEv) : Mon C05St := Mon.run checkC05NeverEarly none evs

/-- **C05 never early, monitor form.**  For every configuration and every script whose total virtual time (the sum
of its `advance` amounts, `advSum ops`) stays below the clamp `clampNs` (or if the source does not clamp), the
monitor made of the first clause of `checkC05` accepts the model's trace: every `resolved c DeadlineExceeded t`
observation carries a time `t` not before the deadline given in the `call` op that created call `c`.  (Beyond
`clampNs` a call whose deadline is further away than the clamp legitimately expires at the clamp — see
`C05_clamp_fires_early_witness` — and this monitor, which knows nothing of the clamp, would object.) -/
theorem C05_monitor_never_early_accepts (m bufCap tcap : Nat) (coupled : Bool) (ops : List COp)
    (hT : Gen.clientTimerClampSecs = 0 ∨ advSum ops < clampNs) :
    (monC05NeverEarly (trace (initSys m bufCap tcap coupled) ops)).ok = true := by
  apply mon_accepts (m := m) (T := advSum ops) (hT := Nat.le_refl _)
  · intro bk st op; rfl
  · intro c bk st o _ hnow hi hcpl hg
    cases o <;> try rfl
    rename_i cid oc t
    cases oc <;> try rfl
    simp only [checkC05NeverEarly]
    cases hf : bk.calls.find? (·.cid == cid) with
    | none => rfl
    | some ci =>
      obtain ⟨cl, hcl, e1, e2, e3⟩ := hg rfl
      obtain ⟨cl', hcl', f1, f2⟩ := hcpl.find hf
      have : cl = cl' := hi.c.cid_unique hcl hcl' (by rw [e1, f1])
      subst this
      have : ¬ t < ci.deadline := by
        rcases (dueAt_le_iff _ _).mp e2 with h1 | ⟨h0, h1⟩
        · omega
        · rcases hT with hT | hT
          · exact absurd hT h0
          · omega
      simp [this]

/-- The first clause of `checkC05` is exactly `checkC05NeverEarly`: whenever the sub-monitor objects, so does
`checkC05`, with the same message. -/
theorem checkC05_first_clause (b : Book) (last : C05St) (e : CEv) (why : String)
    (h : (checkC05NeverEarly b last e).2 = some why) : (checkC05 b last e).2 = some why := by
  cases e with
  | op o => simp [checkC05NeverEarly] at h
  | obs o =>
    cases o <;> try (simp [checkC05NeverEarly] at h)
    rename_i cid oc t
    cases oc <;> try (simp [checkC05NeverEarly] at h)
    simp only [checkC05NeverEarly, checkC05] at h ⊢
    cases hf : b.calls.find? (·.cid == cid) with
    | none => rw [hf] at h; simp at h
    | some ci =>
      rw [hf] at h
      simp only at h ⊢
      by_cases hlt : t < ci.deadline
      · simpa [hlt] using h
      · simp [hlt] at h

/-- The full C05 monitor (never early *and* not late) — the "not late" clauses are not proved here. -/
def C05_monitor_full_Statement : Prop :=
  ∀ (m bufCap tcap : Nat) (coupled : Bool) (ops : List COp),
    (monC05 (trace (initSys m bufCap tcap coupled) ops)).ok = true

/-! ### non-vacuity -/

/-- A call with deadline 5 ms expires: the dispatch polled at 6 ms fails it with `DeadlineExceeded`, and the call
resolves with it at 6 ms ≥ 5 ms.  Polled at 4.5 ms the dispatch does not. -/
example :
    CEv.obs (.resolved 0 .deadline 6000000) ∈
      trace (initSys 1 1 1 true) [.call 0 5000000 ⟨1, .given 1, true⟩ 7, .pollCall 0, .pollDispatch,
        .advance 6000000, .pollDispatch, .pollCall 0] := by
  decide

example :
    CEv.obs (.ret (.call 0) .pending) ∈
      (trace (initSys 1 1 1 true) [.call 0 5000000 ⟨1, .given 1, true⟩ 7, .pollCall 0, .pollDispatch,
        .advance 4500000, .pollDispatch, .pollCall 0]).drop 20 := by
  decide

/-- a call whose deadline is two clamps away; the clock is advanced by one clamp -/
def c05ClampOps : List COp :=
  [.call 0 (2 * clampNs) ⟨1, .given 1, true⟩ 7, .pollCall 0, .pollDispatch, .advance clampNs, .pollDispatch, .pollCall 0]

set_option maxRecDepth 100000 in
/-- **The clamp is visible (by design of the source).**  A call whose deadline is `2 * clampNs` fails with
`DeadlineExceeded` at `clampNs`, i.e. *before* its deadline: the timer was armed with the clamped timeout.  Hence
the disjunct `clampNs ≤ now` in the theorems above cannot be dropped, and `monC05NeverEarly` (which knows nothing of
the clamp) rejects this trace — the hypothesis `advSum ops < clampNs` of `C05_monitor_never_early_accepts` is needed. -/
theorem C05_clamp_fires_early_witness :
    clampNs < 2 * clampNs ∧
    CEv.obs (.resolved 0 .deadline clampNs) ∈ trace (initSys 1 1 1 true) c05ClampOps ∧
    (monC05NeverEarly (trace (initSys 1 1 1 true) c05ClampOps)).ok = false := by decide

end TarpcModel.Client

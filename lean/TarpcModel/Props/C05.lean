import TarpcModel.Lemmas.ClientMon
/-!
# C05 — the client enforces request deadlines, never early

Property theorems only.  A call fails with `DeadlineExceeded` (`Outcome.deadline`) only through
`InFlightRequests::poll_expired`, i.e. when the `DelayQueue` yields the timer armed for the request *and* nothing of
the time until the deadline is left to be armed.  The proof goes through `DelayQ.pollExpired_spec`
(`Lemmas/DelayQInv.lean`: the timer wheel emulation never yields an entry before `whenMs`, given
`wheelElapsed ≤ now`) and the client invariant `Client.StInv` (`Lemmas/ClientInv.lean`: for every in-flight entry
`deadline ≤ whenMs * 1e6 + remainder`, where `whenMs` is its armed timer and `remainder` its `deadline_remainder`).

**The clamp and the re-arm.**  `insert_request` arms the timer with `min (deadline - now) MAX_DEADLINE_TIMEOUT`
(`clampTimeout`) and keeps the rest as the entry's `remainder`; when the timer fires with `remainder ≠ 0`,
`poll_expired` arms a new timer with (a clamped part of) what is left of the remainder after subtracting how late
the expiry is handled (measured from the entry's exact due time `dueAt`), instead of failing the request (`Client.rearm`); if nothing is left it fails the request.  An earlier version of the code clamped without re-arming; the witness found then (a call with a
deadline two clamps away failing after one) is now `C05_far_deadline_witness`: pending after one clamp, failed at the
deadline.

Only the *never early* half of C05 is covered here; the *not late* half (second and third clause of `checkC05`)
is kept as a statement.
-/
set_option linter.unusedSimpArgs false
namespace TarpcModel.Client

/-- **C05 never early, state form (oneshot).**  In every reachable state, if the oneshot of a call holds
`DeadlineExceeded`, the virtual clock has reached the deadline the caller gave (`ctx.deadline`, ns). -/
theorem C05_oneshot_deadline_not_early (m bufCap tcap : Nat) (coupled : Bool) (ops : List COp)
    (c : Sys) (hc : c = ops.foldl applyOp (initSys m bufCap tcap coupled)) (cl : Call) (hcl : cl ∈ c.s.calls)
    (h : cl.os.val = some .deadline) : cl.ctx.deadline ≤ c.now := by
  subst hc; exact (inv_reach m bufCap tcap coupled ops).c.osDl cl hcl h

/-- **C05 never early, state form (resolution).**  In every reachable state, a call that resolved with
`DeadlineExceeded` has its deadline behind the clock. -/
theorem C05_outcome_deadline_not_early (m bufCap tcap : Nat) (coupled : Bool) (ops : List COp)
    (c : Sys) (hc : c = ops.foldl applyOp (initSys m bufCap tcap coupled)) (cl : Call) (hcl : cl ∈ c.s.calls)
    (h : cl.outcome = some .deadline) : cl.ctx.deadline ≤ c.now := by
  subst hc; exact (inv_reach m bufCap tcap coupled ops).c.outDl cl hcl h

/-- **C05 never early, the timers.**  In every reachable state the armed timer of an in-flight request (`whenMs`, in
ms) together with the part of the time until the deadline that has not been armed yet (`remainder`, ns) reaches the
request's deadline.  In particular an entry with `remainder = 0` has its timer at or after the deadline. -/
theorem C05_timer_not_before_deadline (m bufCap tcap : Nat) (coupled : Bool) (ops : List COp)
    (s : St) (hs : s = (ops.foldl applyOp (initSys m bufCap tcap coupled)).s) (en : Entry) (hen : en ∈ s.inflight)
    (d : DqEntry) (hd : d ∈ s.timers.entries ++ s.timers.expired) (hk : d.key = en.timerKey) :
    en.ctx.deadline ≤ d.whenMs * nsPerMs + en.remainder ∧
    (en.remainder = 0 → en.ctx.deadline ≤ d.whenMs * nsPerMs) := by
  subst hs
  have h := inv_reach m bufCap tcap coupled ops
  obtain ⟨w, hw, hdl⟩ := h.t.e2t en hen
  have := (DelayQ.Has.functional h.t.wf hw ⟨d, hd, hk, rfl, rfl⟩).2
  rw [this] at hdl; exact ⟨hdl, fun h0 => by omega⟩

/-- **The armed timer and the exact due time.**  In every reachable state, for an in-flight entry and its armed
timer: the entry's `dueAt` (`timer_due`, the exact `now + timeout` recorded when the timer was armed) plus its
`remainder` reach the deadline and do not exceed `max deadline now` (the sum is `max deadline (time of insertion)` and
constant across re-arms), and the queue's timer is the millisecond ceiling of `dueAt`. -/
theorem C05_timer_is_ceiling_of_due (m bufCap tcap : Nat) (coupled : Bool) (ops : List COp)
    (c : Sys) (hc : c = ops.foldl applyOp (initSys m bufCap tcap coupled)) (en : Entry) (hen : en ∈ c.s.inflight)
    (d : DqEntry) (hd : d ∈ c.s.timers.entries ++ c.s.timers.expired) (hk : d.key = en.timerKey) :
    en.ctx.deadline ≤ en.dueAt + en.remainder ∧ en.dueAt + en.remainder ≤ max en.ctx.deadline c.now ∧
    en.dueAt ≤ d.whenMs * nsPerMs ∧ d.whenMs * nsPerMs < en.dueAt + nsPerMs := by
  subst hc
  have h := inv_reach m bufCap tcap coupled ops
  obtain ⟨w, hw, -⟩ := h.t.e2t en hen
  have hv := (DelayQ.Has.functional h.t.wf hw ⟨d, hd, hk, rfl, rfl⟩)
  exact h.t.due en hen d.whenMs ⟨d, hd, hk, hv.1.symm, rfl⟩

/-- **C05 never early, the expiry itself.**  In every reachable state, if polling the `DelayQueue` at the current
time yields a timer, that timer is due (`whenMs * 1e6 ≤ now`) and belongs to exactly one in-flight entry — the one
`poll_expired` finds —, whose exact due time `dueAt` is at most one millisecond before the timer and, with the
`remainder`, reaches the deadline.  `late = now - dueAt` is how late the expiry is handled.  If the entry's `remainder`
exceeds the lateness the iteration does *not* fail the request (it re-arms the timer with what is left, or panics in
`DelayQueue::insert`); the iteration fails the request only if `remainder ≤ late`, and then the request's deadline has
passed. -/
theorem C05_expiry_only_when_due (m bufCap tcap : Nat) (coupled : Bool) (ops : List COp)
    (c : Sys) (hc : c = ops.foldl applyOp (initSys m bufCap tcap coupled)) (e : DqEntry)
    (h : (c.s.timers.pollExpired c.now).2 = .expired e) :
    e.whenMs * nsPerMs ≤ c.now ∧ ∃ en ∈ c.s.inflight, en.id = e.val ∧ findEntry c.s e.val = some en ∧
      en.ctx.deadline ≤ en.dueAt + en.remainder ∧
      en.dueAt ≤ e.whenMs * nsPerMs ∧ e.whenMs * nsPerMs < en.dueAt + nsPerMs ∧
      (c.now - en.dueAt < en.remainder → ∀ s', expireStep c.s c.now ≠ .done s' true) ∧
      (en.remainder ≤ c.now - en.dueAt → en.ctx.deadline ≤ c.now) := by
  subst hc
  have hi := inv_reach m bufCap tcap coupled ops
  obtain ⟨en, hen, e1, e2, e3, -, d1, d2, d3, d4⟩ := (hi.t.expired hi.i.inNodup).1 e h
  have hf : findEntry (ops.foldl applyOp (initSys m bufCap tcap coupled)).s e.val = some en := by
    cases hf : findEntry (ops.foldl applyOp (initSys m bufCap tcap coupled)).s e.val with
    | none => exact absurd e1 (findEntry_none_ne hf en hen)
    | some en' =>
      obtain ⟨hen', hid'⟩ := findEntry_some_mem hf
      rw [eq_of_nodup_map (·.id) hi.i.inNodup hen' hen (by rw [hid', e1])]
  refine ⟨e3, en, hen, e1, hf, d1, d3, d4, ?_, fun h0 => by omega⟩
  intro hlt s'
  rw [expireStep_of_expired h hf, if_pos (by simp only [bne_iff_ne, ne_eq]; omega)]
  exact rearm_ne_done_true _ _ _ _ _ _ _

/-- The *never early* clause of `checkC05` (its first test), as a monitor of its own. -/
def checkC05NeverEarly (b : Book) (last : C05St) : CEv → C05St × Option String
  | .obs (.resolved c .deadline t) =>
      match b.calls.find? (·.cid == c) with
      | none => (last, none)
      | some ci =>
          if t < ci.deadline then (last, some s!"call {c} failed with DeadlineExceeded at {t} before its deadline {ci.deadline}")
          else (last, none)
  | _ => (last, none)

def monC05NeverEarly (evs : List CEv) : Mon C05St := Mon.run checkC05NeverEarly none evs

/-- **C05 never early, monitor form.**  For every configuration and every script, the monitor made of the first
clause of `checkC05` accepts the model's trace: every `resolved c DeadlineExceeded t` observation carries a time `t`
not before the deadline given in the `call` op that created call `c`. -/
theorem C05_monitor_never_early_accepts (m bufCap tcap : Nat) (coupled : Bool) (ops : List COp) :
    (monC05NeverEarly (trace (initSys m bufCap tcap coupled) ops)).ok = true := by
  apply mon_accepts (m := m) (T := advSum ops) (hT := Nat.le_refl _)
  · intro bk st op; rfl
  · intro c bk st o _ _ hi hcpl hg
    cases o <;> try rfl
    rename_i cid oc t
    cases oc <;> try rfl
    simp only [checkC05NeverEarly]
    cases hf : bk.calls.find? (·.cid == cid) with
    | none => rfl
    | some ci =>
      obtain ⟨cl, hcl, e1, e2, -⟩ := hg rfl
      obtain ⟨cl', hcl', f1, f2⟩ := hcpl.find hf
      have : cl = cl' := hi.c.cid_unique hcl hcl' (by rw [e1, f1])
      subst this
      have : ¬ t < ci.deadline := by omega
      simp [this]

/-- The first clause of `checkC05` is exactly `checkC05NeverEarly`: whenever the sub-monitor objects, so does
`checkC05`, with the same message. -/
theorem checkC05_first_clause (b : Book) (last : C05St) (e : CEv) (why : String)
    (h : (checkC05NeverEarly b last e).2 = some why) : (checkC05 b last e).2 = some why := by
  cases e with
  | op o => simp [checkC05NeverEarly] at h
  | obs o =>
    cases o <;> try (simp [checkC05NeverEarly] at h)
    rename_i cid oc t
    cases oc <;> try (simp [checkC05NeverEarly] at h)
    simp only [checkC05NeverEarly, checkC05] at h ⊢
    cases hf : b.calls.find? (·.cid == cid) with
    | none => rw [hf] at h; simp at h
    | some ci =>
      rw [hf] at h
      simp only at h ⊢
      by_cases hlt : t < ci.deadline
      · simpa [hlt] using h
      · simp [hlt] at h

/-- The full C05 monitor (never early *and* not late) — the "not late" clauses are not proved here. -/
def C05_monitor_full_Statement : Prop :=
  ∀ (m bufCap tcap : Nat) (coupled : Bool) (ops : List COp),
    (monC05 (trace (initSys m bufCap tcap coupled) ops)).ok = true

/-! ### non-vacuity -/

/-- A call with deadline 5 ms expires: the dispatch polled at 6 ms fails it with `DeadlineExceeded`, and the call
resolves with it at 6 ms ≥ 5 ms.  Polled at 4.5 ms the dispatch does not. -/
example :
    CEv.obs (.resolved 0 .deadline 6000000) ∈
      trace (initSys 1 1 1 true) [.call 0 5000000 ⟨1, .given 1, true⟩ 7, .pollCall 0, .pollDispatch,
        .advance 6000000, .pollDispatch, .pollCall 0] := by
  decide

example :
    CEv.obs (.ret (.call 0) .pending) ∈
      (trace (initSys 1 1 1 true) [.call 0 5000000 ⟨1, .given 1, true⟩ 7, .pollCall 0, .pollDispatch,
        .advance 4500000, .pollDispatch, .pollCall 0]).drop 20 := by
  decide

/-- a call whose deadline is two clamps away; the clock is advanced by one clamp, then by another -/
def c05FarOps1 : List COp :=
  [.call 0 (2 * clampNs) ⟨1, .given 1, true⟩ 7, .pollCall 0, .pollDispatch, .advance clampNs, .pollDispatch, .pollCall 0]

def c05FarOps2 : List COp := c05FarOps1 ++ [.advance clampNs, .pollDispatch, .pollCall 0]

set_option maxRecDepth 100000 in
/-- **A deadline beyond the clamp is honoured (the former defect, turned around).**  A call whose deadline is
`2 * clampNs`: after `clampNs` the timer armed by `insert_request` fires, `poll_expired` re-arms it with the
remainder (one timer stays armed, the entry's remainder is used up) and the call is still pending; after another
`clampNs` it fails with `DeadlineExceeded` exactly at its deadline, and `monC05NeverEarly` accepts the trace.  (With
the clamp but without the re-arm — the code as it was for a while — this call failed at `clampNs`, a year early.) -/
theorem C05_far_deadline_witness :
    clampNs < 2 * clampNs ∧
    (∀ t, CEv.obs (.resolved 0 .deadline t) ∉ trace (initSys 1 1 1 true) c05FarOps1) ∧
    (c05FarOps1.foldl applyOp (initSys 1 1 1 true)).s.timers.len = 1 ∧
    ((c05FarOps1.foldl applyOp (initSys 1 1 1 true)).s.inflight.map (·.remainder)) = [0] ∧
    CEv.obs (.resolved 0 .deadline (2 * clampNs)) ∈ trace (initSys 1 1 1 true) c05FarOps2 ∧
    (monC05NeverEarly (trace (initSys 1 1 1 true) c05FarOps2)).ok = true := by
  refine ⟨by decide, ?_, by decide, by decide, by decide, by decide⟩
  intro t hm
  have : (trace (initSys 1 1 1 true) c05FarOps1).any
      (fun ev => match ev with | .obs (.resolved _ .deadline _) => true | _ => false) = false := by decide
  rw [List.any_eq_false] at this
  exact this _ hm (by rfl)

/-- a call whose deadline is three clamps away is polled at 0 and then not before its deadline -/
def c05LateOps : List COp :=
  [.call 0 (3 * clampNs) ⟨1, .given 1, true⟩ 7, .pollCall 0, .pollDispatch, .advance (3 * clampNs), .pollDispatch,
   .pollCall 0]

set_option maxRecDepth 100000 in
/-- **A late dispatch does not postpone the deadline.**  The timer armed at 0 (one clamp) is handled two clamps
late, which uses up the entry's remainder (two clamps): `poll_expired` fails the request right away and the call
resolves with `DeadlineExceeded` at exactly its deadline `3 * clampNs`.  (The re-arm as first written ignored the
lateness and would have armed another full clamp here.) -/
theorem C05_late_dispatch_witness :
    CEv.obs (.resolved 0 .deadline (3 * clampNs)) ∈ trace (initSys 1 1 1 true) c05LateOps ∧
    (c05LateOps.foldl applyOp (initSys 1 1 1 true)).s.timers.len = 0 ∧
    (monC05NeverEarly (trace (initSys 1 1 1 true) c05LateOps)).ok = true := by decide

/-- a call made at 1 ns with deadline `clampNs + 10 ms`; the dispatch is polled just before the first timer's tick
would be 1 ms late, then 9 ms later -/
def c05DriftOps : List COp :=
  [.advance 1, .call 0 (clampNs + 10000000) ⟨1, .given 1, true⟩ 7, .pollCall 0, .pollDispatch,
   .advance (clampNs + 1000000 - 1), .pollDispatch, .advance 9000000, .pollDispatch, .pollCall 0]

set_option maxRecDepth 100000 in
/-- **No drift.**  The first timer (one clamp, armed at 1 ns) is due at `clampNs + 1 ns`, fires at the next
millisecond tick and is re-armed there for the rest (10 ms − 1 ns) *minus the lateness measured from the exact due
time*; the call resolves with `DeadlineExceeded` at exactly its deadline `clampNs + 10 ms`.  (Measuring the lateness
from the queue's ms-rounded deadline, as the re-arm first did, lost the sub-millisecond part at every re-arm: the
call resolved 1 ms late.) -/
theorem C05_no_drift_witness :
    CEv.obs (.resolved 0 .deadline (clampNs + 10000000)) ∈ trace (initSys 1 1 1 true) c05DriftOps ∧
    (monC05NeverEarly (trace (initSys 1 1 1 true) c05DriftOps)).ok = true := by decide

/-- The model variant "clamp without re-arm" (the code between the two fixes): every entry forgets its remainder. -/
def forgetRemainders (c : Sys) : Sys :=
  { c with s := { c.s with inflight := c.s.inflight.map (fun e => { e with remainder := 0 }) } }

set_option maxRecDepth 100000 in
/-- **The former defect, as a statement about that variant.**  If the entry's remainder is dropped after the request
was inserted (which is what the code did before `deadline_remainder` existed), the same call — deadline
`2 * clampNs` — fails with `DeadlineExceeded` at `clampNs`, a whole clamp before its deadline, and `monC05NeverEarly`
rejects the trace.  So the `remainder` is what restores "never early" beyond the clamp. -/
theorem C05_clamp_without_rearm_witness :
    clampNs < 2 * clampNs ∧
    CEv.obs (.resolved 0 .deadline clampNs) ∈
      trace (forgetRemainders ((c05FarOps1.take 3).foldl applyOp (initSys 1 1 1 true))) (c05FarOps1.drop 3) := by
  decide

end TarpcModel.Client

import TarpcModel.Lemmas.C15Stream
/-!
# C15 (stream-level half) — transports deliver every message, whole, once, in order, then end-of-stream

Property theorems only.  Models: `Wire/Frame.lean` (the length-delimited framing of
`tarpc::serde_transport` as a streaming decoder) and `Wire/Queue.lean` (the FIFO that a transport pair is
at the message level: the in-memory channels, and the framed transport once bytes are abstracted away).
Both models are tied to the real code by the `c15frame` / `c15e2e` correspondence families
(`Driver/C15Stream.lean`, `harness/src/c15stream.rs`).

All theorems are for every maximum frame length `max < 2^32` (tokio-util clamps `max_frame_len` to what
the 4-byte length field can express; the default is 8 MiB), every number of frames, every payload and
**every** way of cutting the byte stream into chunks, empty chunks (reads that made no progress) included.
-/
namespace TarpcModel.Wire

/-! ## Framing -/

/-- The encoder accepts exactly the payloads of at most `max` bytes, and writes `frame p`. -/
theorem C15_encode_accepts_iff (max : Nat) (p : Payload) :
    (encode max p = some (frame p) ↔ p.length ≤ max) ∧ (encode max p = none ↔ max < p.length) := by
  unfold encode
  by_cases h : p.length > max <;> simp [h] <;> omega

/-- **C15, framing, complete streams.**  Take any payloads `ps` the encoder accepts, concatenate their
frames, and hand the bytes to the decoder in chunks `cs` cut anywhere (inside headers, inside bodies,
several frames per chunk, empty chunks).  The decoder emits exactly `ps`, in order, is back in its
initial state (nothing buffered), and an EOF now is a clean end of stream. -/
theorem C15_frame_stream (max : Nat) (hmax : max < 4294967296) (ps : List Payload)
    (hlen : ∀ p ∈ ps, p.length ≤ max) (cs : List (List UInt8))
    (hcs : cs.flatten = (ps.map frame).flatten) :
    feedAll (initDec max) cs = (initDec max, ps) ∧
    finish (feedAll (initDec max) cs).1 = .clean := by
  have h : feedAll (initDec max) cs = (initDec max, ps) := by
    rw [feedAll_eq _ (initDec_drained max) cs, hcs]
    have := drainAll_frames (initDec max) ps [] rfl rfl rfl hlen hmax
    simp only [List.append_nil, push_nil] at this
    rw [this, initDec_drained]
    simp
  exact ⟨h, by rw [h]; rfl⟩

/-- **C15, framing: chunk boundaries are invisible.**  For *any* bytes (valid or not), two ways of
cutting the same byte stream give the same frames and the same decoder state. -/
theorem C15_frame_prefix_independent (max : Nat) (cs cs' : List (List UInt8))
    (h : cs.flatten = cs'.flatten) :
    feedAll (initDec max) cs = feedAll (initDec max) cs' := by
  rw [feedAll_eq _ (initDec_drained max), feedAll_eq _ (initDec_drained max), h]

/-- Same, for the emitted frames and the verdict at EOF. -/
theorem C15_frame_prefix_independent' (max : Nat) (cs cs' : List (List UInt8))
    (h : cs.flatten = cs'.flatten) :
    (feedAll (initDec max) cs).2 = (feedAll (initDec max) cs').2 ∧
    finish (feedAll (initDec max) cs).1 = finish (feedAll (initDec max) cs').1 := by
  rw [C15_frame_prefix_independent max cs cs' h]; exact ⟨rfl, rfl⟩

/-- **C15, framing, truncated streams.**  Cut the stream strictly inside a frame (`0 < k < |frame p|`
bytes of it arrive).  The frames emitted are exactly the complete ones before the cut — never a short
message — and EOF is reported as an error, **except** when the cut falls exactly between the 4-byte
header and a non-empty body (`k = 4`): the read buffer is then empty and
`Decoder::decode_eof` (which looks at the buffer, not at the codec's `Data(n)` state) reports a clean end
of stream. -/
theorem C15_frame_truncated (max : Nat) (hmax : max < 4294967296) (ps : List Payload)
    (hlen : ∀ p ∈ ps, p.length ≤ max) (p : Payload) (hp : p.length ≤ max)
    (k : Nat) (hk0 : 0 < k) (hk : k < (frame p).length) (cs : List (List UInt8))
    (hcs : cs.flatten = (ps.map frame).flatten ++ (frame p).take k) :
    (feedAll (initDec max) cs).2 = ps ∧
    finish (feedAll (initDec max) cs).1 = if k = 4 then .clean else .truncated := by
  rw [feedAll_eq _ (initDec_drained max) cs, hcs,
    drainAll_frames (initDec max) ps _ rfl rfl rfl hlen hmax]
  rw [frame_length] at hk
  by_cases h4 : k < 4
  · rw [drainAll_cut_header (initDec max) p k rfl rfl h4]
    have hne : k ≠ 4 := by omega
    refine ⟨by simp, ?_⟩
    have : ((frame p).take k) ≠ [] := by
      intro h
      have := congrArg List.length h
      simp [frame_length] at this
      omega
    simp [finish, initDec, DecState.push, hne, this]
  · obtain ⟨j, rfl⟩ : ∃ j, k = j + 4 := ⟨k - 4, by omega⟩
    rw [drainAll_cut_body (initDec max) p j rfl rfl rfl hp hmax (by omega)]
    refine ⟨by simp, ?_⟩
    by_cases hj : j = 0
    · subst hj; simp [finish, initDec]
    · have : p.take j ≠ [] := by
        intro h
        have hl : (p.take j).length = min j p.length := List.length_take
        rw [h] at hl
        simp only [List.length_nil] at hl
        omega
      simp [finish, initDec, this, hj]

/-- The statement asked for originally: *every* cut strictly inside a frame is reported as an error. -/
def C15FrameTruncatedAlwaysErrorStatement : Prop :=
  ∀ (max : Nat), max < 4294967296 → ∀ (ps : List Payload), (∀ p ∈ ps, p.length ≤ max) →
  ∀ (p : Payload), p.length ≤ max → ∀ (k : Nat), 0 < k → k < (frame p).length →
  ∀ (cs : List (List UInt8)), cs.flatten = (ps.map frame).flatten ++ (frame p).take k →
    finish (feedAll (initDec max) cs).1 = .truncated

/-- It holds for every cut except the one right after a header … -/
theorem C15_frame_truncated_partial (max : Nat) (hmax : max < 4294967296) (ps : List Payload)
    (hlen : ∀ p ∈ ps, p.length ≤ max) (p : Payload) (hp : p.length ≤ max)
    (k : Nat) (hk0 : 0 < k) (hk : k < (frame p).length) (hk4 : k ≠ 4) (cs : List (List UInt8))
    (hcs : cs.flatten = (ps.map frame).flatten ++ (frame p).take k) :
    (feedAll (initDec max) cs).2 = ps ∧ finish (feedAll (initDec max) cs).1 = .truncated := by
  have := C15_frame_truncated max hmax ps hlen p hp k hk0 hk cs hcs
  simpa [hk4] using this

/-- … and fails there: the stream `00 00 00 02` (a header announcing two bytes, then EOF) is reported
as a clean end of stream by the model of tokio-util's `FramedRead` + `LengthDelimitedCodec`.  The
`c15frame` correspondence family shows the real code doing the same.  No short message is delivered,
but the reader cannot tell this truncation from an orderly close. -/
theorem C15_frame_truncated_after_header_witness :
    ¬ C15FrameTruncatedAlwaysErrorStatement := by
  intro h
  have := h defaultMaxFrameLen (by decide) [] (by simp) [1, 2] (by decide) 4 (by decide) (by decide)
    [[0, 0, 0, 2]] (by decide)
  revert this
  decide

/-- **C15, framing, oversize header.**  A length prefix above `max` after any number of good frames:
the good frames are delivered, the stream fails (it is never re-synchronised), nothing else is
emitted whatever follows. -/
theorem C15_frame_oversize (max : Nat) (hmax : max < 4294967296) (ps : List Payload)
    (hlen : ∀ p ∈ ps, p.length ≤ max) (n : Nat) (hn : max < n) (hn32 : n < 4294967296)
    (junk : List UInt8) (cs : List (List UInt8))
    (hcs : cs.flatten = (ps.map frame).flatten ++ (be32 n ++ junk)) :
    (feedAll (initDec max) cs).2 = ps ∧ finish (feedAll (initDec max) cs).1 = .failed := by
  rw [feedAll_eq _ (initDec_drained max) cs, hcs,
    drainAll_frames (initDec max) ps _ rfl rfl rfl hlen hmax]
  have hv := be32Val_be32 n hn32
  have hbuf : ((initDec max).push (be32 n ++ junk)).buf =
      UInt8.ofNat (n / 16777216 % 256) :: UInt8.ofNat (n / 65536 % 256) ::
        UInt8.ofNat (n / 256 % 256) :: UInt8.ofNat (n % 256) :: junk := by
    simp [initDec, be32]
  have hd : decode ((initDec max).push (be32 n ++ junk)) =
      ((initDec max).push (be32 n ++ junk), .oversize) := by
    rw [decode_head_eq (s := (initDec max).push (be32 n ++ junk)) rfl rfl hbuf, hv]
    have : n > max := hn
    simp [initDec, this]
  rw [drainAll_of_oversize hd]
  simp [finish]

/-! ### Non-vacuity: concrete bytes -/

/-- Two frames (`"hi"` and the empty payload) and a third (`[7]`), cut into awkward chunks — inside the
first header, an empty chunk, across a frame boundary. -/
example :
    feedAll (initDec) [[0, 0], [], [0, 2, 0x68], [0x69, 0, 0, 0], [0, 0, 0, 0, 1], [], [7]]
      = (initDec, [[0x68, 0x69], [], [7]]) := by
  decide

example : [[0, 0], [], [0, 2, 0x68], [0x69, 0, 0, 0], [0, 0, 0, 0, 1], [], [7]].flatten
    = ([[0x68, 0x69], [], [7]].map frame).flatten := by
  decide

/-- Cut inside a body: the complete frame comes out, EOF is an error. -/
example :
    (feedAll (initDec) [[0, 0, 0, 1, 9, 0, 0, 0, 3, 1], [2]]).2 = [[9]] ∧
    finish (feedAll (initDec) [[0, 0, 0, 1, 9, 0, 0, 0, 3, 1], [2]]).1 = .truncated := by
  decide

/-- Cut inside a header. -/
example : finish (feedAll (initDec) [[0, 0, 0, 1, 9, 0, 0]]).1 = .truncated := by decide

/-- Cut exactly after a header: reported as a clean EOF (see `C15_frame_truncated`). -/
example : (feedAll (initDec) [[0, 0, 0, 1, 9, 0, 0, 0, 3]]).2 = [[9]] ∧
    finish (feedAll (initDec) [[0, 0, 0, 1, 9, 0, 0, 0, 3]]).1 = .clean := by decide

/-- 8 MiB is accepted as a length, 8 MiB + 1 is not. -/
example : (feedAll (initDec) [[0, 0x80, 0, 0, 1]]).1.failed = false ∧
    finish (feedAll (initDec) [[0, 0x80, 0, 1], [1]]).1 = .failed := by decide

example : encode 2 [1, 2] = some [0, 0, 0, 2, 1, 2] ∧ encode 2 [1, 2, 3] = none := by decide

/-! ## The message-level FIFO -/

section Pipe
variable {α : Type}

/-- **C15, FIFO: no loss, no duplication, no reordering.**  For every configuration (unbounded,
bounded, buffered-until-flush), and every interleaving of sends, flushes, receives, close and drop:
the items the writer had accepted are, in order, exactly the items delivered so far, followed by the
items in flight, followed by the items staged in the write buffer, followed by the staged items that
died with a dropped writer. -/
theorem C15_queue_fifo (cfg : PipeCfg) (ops : List (POp α)) :
    accepted ((Pipe.init cfg).run ops).2 =
      delivered ((Pipe.init cfg).run ops).2 ++ ((Pipe.init cfg).run ops).1.queue
        ++ ((Pipe.init cfg).run ops).1.staged ++ ((Pipe.init cfg).run ops).1.lost := by
  have := ((PipeInv.init cfg).run ops).cons
  simpa using this

/-- Without a write buffer (the in-memory channels) nothing is ever staged or lost:
accepted = delivered ++ in flight. -/
theorem C15_queue_fifo_unbuffered (cfg : PipeCfg) (hb : cfg.buffered = false) (ops : List (POp α)) :
    accepted ((Pipe.init cfg).run ops).2 =
      delivered ((Pipe.init cfg).run ops).2 ++ ((Pipe.init cfg).run ops).1.queue := by
  have inv := (PipeInv.init (α := α) cfg).run ops
  have hu := inv.unbuffered (by rw [run_cfg]; exact hb)
  have := inv.cons
  simpa [hu.1, hu.2] using this

/-- Items are lost only by dropping a writer that still has unflushed items: while the writer exists
nothing is lost, and a flush (or close) right before the drop loses nothing. -/
theorem C15_queue_loss_only_unflushed (cfg : PipeCfg) (ops : List (POp α)) :
    (((Pipe.init cfg).run ops).1.writer ≠ .dropped → ((Pipe.init cfg).run ops).1.lost = []) ∧
    ((Pipe.init cfg).run (ops ++ [.flush, .drop])).1.lost = ((Pipe.init cfg).run ops).1.lost := by
  have inv := (PipeInv.init (α := α) cfg).run ops
  refine ⟨inv.lostNil, ?_⟩
  rw [run_append]
  generalize ((Pipe.init cfg).run ops).1 = p at inv
  have hs := inv.stagedNil
  simp only [Pipe.run, Pipe.step]
  by_cases hw : p.writer = .opened
  · simp [hw, Pipe.flushStaged]
  · have := hs hw
    by_cases hd : p.writer = .dropped <;> simp [hw, hd, this]

/-- A receive never skips and never stalls: if something is in flight, the oldest item comes out. -/
theorem C15_queue_recv_head (p : Pipe α) (a : α) (q : List α) (h : p.queue = a :: q) :
    (p.step .recv).2 = [.recv a] := by
  by_cases hw : p.writer = .opened <;> simp [Pipe.step, Pipe.pop, hw, Pipe.flushStaged, h]

/-- **End of stream only after the last message.**  In any reachable state, if a receive reports
end-of-stream then the writer is gone (dropped, or closed on a medium that can signal a close) and
every accepted item — other than unflushed ones that died with a dropped writer — has been delivered. -/
theorem C15_queue_eof_after_last (cfg : PipeCfg) (ops : List (POp α)) (p : Pipe α) (obs : List (PObs α))
    (hrun : (Pipe.init cfg).run ops = (p, obs)) (heof : (p.step .recv).2 = [.eof]) :
    (p.writer = .dropped ∨ (p.writer = .closed ∧ cfg.closeSignals = true)) ∧
    accepted obs = delivered obs ++ p.lost := by
  have inv := (PipeInv.init (α := α) cfg).run ops
  have hcfg := run_cfg (Pipe.init cfg : Pipe α) ops
  rw [hrun] at inv hcfg
  simp only [List.nil_append] at inv
  have hcfg' : p.cfg = cfg := hcfg
  simp only [Pipe.step, Pipe.pop] at heof
  by_cases hw : p.writer = .opened
  · simp only [hw, ↓reduceIte] at heof
    split at heof
    · simp at heof
    · simp [Pipe.eofVisible, Pipe.flushStaged, hw] at heof
  · simp only [hw, ↓reduceIte] at heof
    have hs := inv.stagedNil hw
    split at heof
    · simp at heof
    · rename_i hq
      have hv : p.eofVisible = true := by
        by_cases hv : p.eofVisible = true
        · exact hv
        · simp [hv] at heof
      refine ⟨?_, by simpa [hq, hs] using inv.cons⟩
      unfold Pipe.eofVisible at hv
      cases hwr : p.writer with
      | opened => exact absurd hwr hw
      | dropped => exact .inl rfl
      | closed => rw [hwr] at hv; exact .inr ⟨rfl, by rw [← hcfg']; exact hv⟩

/-- **After the writer is dropped the reader gets the remaining items, in order, then end-of-stream.** -/
theorem C15_queue_drain_after_drop (p : Pipe α) (hw : p.writer = .dropped) :
    (p.run (List.replicate (p.queue.length + 1) .recv)).2 = p.queue.map .recv ++ [.eof] := by
  generalize hq : p.queue = q
  induction q generalizing p with
  | nil =>
    simp [Pipe.run, Pipe.step, Pipe.pop, hw, hq, Pipe.eofVisible]
  | cons a q ih =>
    have hstep : p.step .recv = ({ p with queue := q, parked := false }, [.recv a]) := by
      simp [Pipe.step, Pipe.pop, hw, hq]
    rw [List.length_cons, List.replicate_succ]
    show (p.step .recv).2 ++ ((p.step .recv).1.run _).2 = _
    rw [hstep]
    simp only [List.map_cons, List.cons_append, List.nil_append, List.cons.injEq, true_and]
    exact ih { p with queue := q, parked := false } hw rfl

/-- Same for a writer that closed, on a medium where close is signalled. -/
theorem C15_queue_drain_after_close (p : Pipe α) (hw : p.writer = .closed)
    (hc : p.cfg.closeSignals = true) :
    (p.run (List.replicate (p.queue.length + 1) .recv)).2 = p.queue.map .recv ++ [.eof] := by
  generalize hq : p.queue = q
  induction q generalizing p with
  | nil =>
    simp [Pipe.run, Pipe.step, Pipe.pop, hw, hq, Pipe.eofVisible, hc]
  | cons a q ih =>
    have hstep : p.step .recv = ({ p with queue := q, parked := false }, [.recv a]) := by
      simp [Pipe.step, Pipe.pop, hw, hq]
    rw [List.length_cons, List.replicate_succ]
    show (p.step .recv).2 ++ ((p.step .recv).1.run _).2 = _
    rw [hstep]
    simp only [List.map_cons, List.cons_append, List.nil_append, List.cons.injEq, true_and]
    exact ih { p with queue := q, parked := false } hw hc rfl

/-- `bounded(c)`: never more than `c + 1` items in flight (futures' mpsc gives each sender one slot on
top of the shared buffer), and a sender that is not parked has at most `c` in flight. -/
theorem C15_queue_bounded (cfg : PipeCfg) (c : Nat) (hc : cfg.cap = some c) (hb : cfg.buffered = false)
    (ops : List (POp α)) :
    ((Pipe.init cfg).run ops).1.queue.length ≤ c + 1 := by
  have inv := (PipeInv.init (α := α) cfg).run ops
  exact (inv.capOk c (by rw [run_cfg]; exact hc) (by rw [run_cfg]; exact hb)).1

end Pipe

/-! ### Non-vacuity -/

/-- Unbounded channel: interleaved sends and receives, then drop: remaining item, then EOF. -/
example :
    ((Pipe.init { closeSignals := false }).run
      [.send 1, .send 2, .recv, .send 3, .recv, .close, .recv, .recv, .drop, .recv]).2 =
      [.sent 1, .sent 2, .recv 1, .sent 3, .recv 2, .closed, .recv 3, .pending, .dropped 0, .eof] := by
  decide

/-- `bounded(1)`: the second send parks the sender, the third is refused until a receive. -/
example :
    ((Pipe.init { cap := some 1 }).run
      [.send 1, .send 2, .send 3, .recv, .send 3, .close, .recv, .recv, .recv]).2 =
      [.sent 1, .sent 2, .full, .recv 1, .sent 3, .closed, .recv 2, .recv 3, .eof] := by
  decide

/-- Framed transport: an unflushed item dies with the writer; flushed ones are still delivered. -/
example :
    ((Pipe.init { buffered := true }).run
      [.send 1, .flush, .send 2, .drop, .recv, .recv]).2 =
      [.sent 1, .flushed, .sent 2, .dropped 1, .recv 1, .eof] := by
  decide

end TarpcModel.Wire

import TarpcModel.Lemmas.ServerTab5
import TarpcModel.Props.C16Server
/-!
# C11 (server side) — the table clauses of the run-time monitor `monC11`

Property theorems only.  `Props/C11ServerMon.lean` has the counting clauses of `checkC11` (`checkC11Counts`) for every
configuration and script; what remained (`checkC11Rest`, `Lemmas/ServerMon11.lean`) compares the reported count with the
monitor's own table of yielded, unfinished requests.  `checkC11Rest` is three clauses (`C11S_rest_split`):

* `checkC11Bound`: never more requests in flight than the table lists (transport not failed);
* `checkC11Idle`: the stalled-limiter clause (finding F7; without limiter it has nothing to judge), and the idle clause:
  when a non-stalled poll of the request stream went idle — every queued guard cancellation and every due expiration has
  then been processed — *exactly* the requests of the table are in flight (ids re-used after a cancellation, an
  abandonment, an abort or an expiry excepted: `Book.reuseTainted`).

**Proved here**: `checkC11Idle` never fires (`C11S_idle_accepts`), for scripts with

* `limit = none` (F7);
* `advSum ops < 2^35 ms` (the timer wheel is complete below this clock bound);
* `DistinctIds ops`: the injected requests carry pairwise distinct ids (used by the proof; no counter-example is known
  for this clause — the monitor exempts tainted re-use itself);
* `NearOps ops`: every injected deadline lies within the clamp horizon (`≤ clampNs`, one year), so that no timer is ever
  re-armed.  This hypothesis cannot be dropped: `C11S_rearm_witness` — after a late re-arm poll the model aborts at the
  exact deadline while the monitor waits for the deadline's millisecond tick.

**The bound clause** `checkC11Bound` (judged at polls that do not go idle too) is in `Props/C11BoundMon.lean`
(`C11S_bound_accepts`), together with `checkC11Rest` (`C11S_table_accepts`) and the whole monitor
(`C11S_monitor_accepts`): the monitor's `sweepOne` removes from its table, at every transport read, "the due entry with
the smallest tick, if unique"; that this is the entry the model expired is a statement about the *order* in which the
timer wheel yields several due timers (`Lemmas/DelayQOrder.lean`).  `C11S_alarm_is_bound_clause`: on the scripts above,
whatever `monC11` reports is that clause.

The proof couples the book with the model a third time (`Tab.Y`, `Lemmas/ServerTabY.lean`; walked in
`Lemmas/ServerTab4.lean`, `ServerTab5.lean`): the book's `gone` marks are the executions' liveness; the ids in the
guard-cancellation queue belong to executions the book knows as abandoned, and every tracked abandoned request has its
cancellation queued; every table entry of the book is tracked by the model, or due, or abandoned; and
(`idle_count`) at an idle poll — no due timer (`requestsPollNext_idle_timers`), empty cancellation queue
(`requestsPollNext_idle_cq`) — the swept table and the model's table have the same ids.
-/
namespace TarpcModel.Server
open TarpcModel TarpcModel.Server.Flow TarpcModel.Server.Mon06 TarpcModel.Server.Mon11 TarpcModel.Server.Tab

/-- the monitor with the stalled-limiter and idle-channel clauses of `checkC11` only -/
def monC11Idle (limit : Option Nat) (evs : List SEv) : Mon Unit := Mon.run limit checkC11Idle () evs

/-- `checkC11Rest` is the bound clause followed by the stalled-limiter / idle-channel clauses. -/
theorem C11S_rest_split (b : Book) (u : Unit) (e : SEv) :
    (checkC11Rest b u e).2 = (checkC11Bound b u e).2.orElse fun _ => (checkC11Idle b u e).2 :=
  checkC11Rest_split b u e

/-- **C11 (server), monitor form, the idle channel.**  Without a limiter, for every script over all ops whose total
advanced time is below `2^35` ms, whose injected requests carry pairwise distinct ids and deadlines within the clamp
horizon — with cancellations, abandoned executions, expirations, transport faults — the idle clause of the C11 monitor
never fires on the model's trace: whenever a poll of the request stream goes idle, the number of requests the channel
reports in flight is the number of yielded requests that are unanswered, uncancelled, unexpired and not abandoned. -/
theorem C11S_idle_accepts (respCap tcap : Nat) (coupled : Bool) (ops : List SOp)
    (hT : advSum ops < 2 ^ 35 * nsPerMs) (hd : DistinctIds ops) (hnear : NearOps ops) :
    (monC11Idle none (trace (initSys none respCap tcap coupled) ops)).ok = true := by
  unfold Mon.ok monC11Idle
  rw [c11_idle_accepts C16_server_flags respCap tcap coupled ops hT hd hnear]; rfl

/-- what `NearOps` says, unfolded -/
theorem C11S_nearOps_iff (ops : List SOp) :
    NearOps ops ↔ ∀ id d tr b, SOp.injectReq id d tr b ∈ ops → d ≤ Gen.serverTimerClampSecs * 1000000000 := by
  constructor
  · intro h id d tr b hm
    exact h _ hm
  · intro h op hop
    cases op with
    | injectReq id d tr b => exact h id d tr b hop
    | _ => trivial

/-- Hence: on those scripts, whenever the full C11 monitor fires, the clause that fired is the bound clause — at the
event at which `checkC11` fires, with the book the monitor has there, if the counting clauses and the idle clauses are
silent then `checkC11Bound` fires with the same message. -/
theorem C11S_alarm_is_bound_clause (b : Book) (u : Unit) (e : SEv) (why : String)
    (hc : (checkC11Counts b u e).2 = none) (hi : (checkC11Idle b u e).2 = none) (h : (checkC11 b u e).2 = some why) :
    (checkC11Bound b u e).2 = some why := by
  rw [checkC11_split, hc] at h
  have h' : (checkC11Rest b u e).2 = some why := h
  rw [checkC11Rest_split, hi] at h'
  cases hb : (checkC11Bound b u e).2 with
  | none => rw [hb] at h'; cases h'
  | some w => rw [hb] at h'; exact h'

/-- a deadline half a millisecond beyond the clamp; the re-arm poll is 0.7 ms late -/
def c11RearmOps : List SOp :=
  [.injectReq 1 (Gen.serverTimerClampSecs * 1000000000 + 500000) ⟨7, .given 0, true⟩ 0, .pollServer,
   .advance (Gen.serverTimerClampSecs * 1000000000 + 700000), .pollServer]

set_option maxRecDepth 100000 in
/-- **The hypothesis `NearOps` cannot be dropped** (no limiter, distinct ids, clock below the bound): the request's
deadline lies 0.5 ms beyond the clamp, so its timer is armed for the clamp and 0.5 ms remain; the poll at which that
timer fires comes 0.7 ms late: nothing remains, the request expires and is aborted at once (at its deadline, not early) —
but the monitor expects it gone only at the deadline's millisecond tick, 0.3 ms later, and its idle clause reports one
request too few in flight. -/
theorem C11S_rearm_witness :
    (monC11Idle none (trace (initSys none 1 8 false) c11RearmOps)).ok = false ∧ DistinctIds c11RearmOps ∧
    advSum c11RearmOps < 2 ^ 35 * nsPerMs ∧ ¬ NearOps c11RearmOps := by
  refine ⟨by decide, by decide, by decide, ?_⟩
  intro h
  have : Gen.serverTimerClampSecs * 1000000000 + 500000 ≤ clampNs := h _ (List.mem_cons_self ..)
  unfold clampNs at this
  omega

set_option maxRecDepth 100000 in
/-- Non-vacuity: polls that go idle with one tracked request, after its expiry, after an abandonment — the idle clause
judges each `counts` observation and accepts. -/
example :
    let ops : List SOp :=
      [.injectReq 1 5000000 ⟨0, .given 0, false⟩ 0, .injectReq 2 9000000 ⟨0, .given 0, false⟩ 0, .pollServer, .pollServer,
       .pollServer, .dropExec 1, .pollServer, .advance 6000000, .pollServer]
    (monC11Idle none (trace (initSys none 1 4 true) ops)).ok = true ∧ (monC11 none (trace (initSys none 1 4 true) ops)).ok = true ∧
    SEv.obs (.counts (.server 0) 2 2) ∈ trace (initSys none 1 4 true) ops ∧
    SEv.obs (.counts (.server 0) 0 0) ∈ trace (initSys none 1 4 true) ops := by
  decide

/-- The clause is not vacuous: an idle poll that reports fewer requests in flight than the table lists is rejected. -/
example :
    (monC11Idle none
      [.op .pollServer, .obs (.yielded 0 1 5000000 ⟨0, .fresh 0, false⟩), .obs (.ret (.server 0) .readyItem),
       .obs (.counts (.server 0) 1 1), .op .pollServer, .obs (.ret (.server 0) .pending),
       .obs (.counts (.server 0) 0 0)]).ok = false := by
  decide

end TarpcModel.Server

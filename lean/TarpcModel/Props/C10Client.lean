import TarpcModel.Lemmas.ClientFlowSink
/-
C10 (client half): the dispatch shuts the connection down in order.

* `poll_close` is called only when no sender (handle or live call future) is left and both the request and
  the cancellation queue are empty; a closed transport implies that, for good.
* once the inbound side has ended (`poll_next → None`) the dispatch does not go back to waiting: the same
  `run` returns `Ok`, or the write pump reports an error / spin in that very iteration.
-/
namespace TarpcModel.Client
open Flow

/-- **C10, close only when drained (the call site).**  One `pump_write` either observes no `poll_close` at all,
or it is exactly: the steps before (which observe none) followed by `poll_close` in a state `s3` in which no
sender is left and both queues are empty. -/
theorem C10_close_only_when_drained (s : St) (now : Nat) :
    (pumpWrite s now).1.obs.filter isCloseObs = s.obs.filter isCloseObs ∨
    ∃ s3, senders s3 = 0 ∧ s3.pq = [] ∧ s3.cq = [] ∧ s3.obs.filter isCloseObs = s.obs.filter isCloseObs ∧
      pumpWrite s now = ((tClose s3).1, closePW (tClose s3).2) := by
  refine pumpWrite_cases (motive := fun p => p.1.obs.filter isCloseObs = s.obs.filter isCloseObs ∨
    ∃ s3, senders s3 = 0 ∧ s3.pq = [] ∧ s3.cq = [] ∧ s3.obs.filter isCloseObs = s.obs.filter isCloseObs ∧
      p = ((tClose s3).1, closePW (tClose s3).2)) s now ?_ ?_ ?_ ?_ ?_ ?_
  · intro s1 r1 h1 _
    have f1 := pollWriteRequest_frameP s now; rw [h1] at f1
    exact .inl f1.closeObs
  · intro s1 r1 s2 r2 h1 _ h2 _
    have f1 := pollWriteRequest_frameP s now; rw [h1] at f1
    have f2 := pollWriteCancel_frameP s1; rw [h2] at f2
    exact .inl (f1.trans f2).closeObs
  · intro s1 r1 s2 r2 s3 h1 _ h2 _ h3
    have f1 := pollWriteRequest_frameP s now; rw [h1] at f1
    have f2 := pollWriteCancel_frameP s1; rw [h2] at f2
    have f3 := (pollExpired_frameA s2 now).toP; rw [h3] at f3
    exact .inl ((f1.trans f2).trans f3).closeObs
  · intro s1 r1 s2 r2 s3 h1 _ h2 _ h3 _
    have f1 := pollWriteRequest_frameP s now; rw [h1] at f1
    have f2 := pollWriteCancel_frameP s1; rw [h2] at f2
    have f3 := (pollExpired_frameA s2 now).toP; rw [h3] at f3
    exact .inl ((f1.trans f2).trans f3).closeObs
  · intro s1 s2 s3 s4 r4 h1 h2 h3 h4
    have f1 := pollWriteRequest_frameP s now; rw [h1] at f1
    have f2 := pollWriteCancel_frameP s1; rw [h2] at f2
    have f3 := (pollExpired_frameA s2 now).toP; rw [h3] at f3
    obtain ⟨d1, d2, d3⟩ := pumpWrite_close_drained h1 h2 h3
    exact .inr ⟨s3, d1, d2, d3, ((f1.trans f2).trans f3).closeObs, by rw [h4]⟩
  · intro s1 r1 s2 r2 s3 s4 r4 h1 _ h2 _ _ h3 h4
    have f1 := pollWriteRequest_frameP s now; rw [h1] at f1
    have f2 := pollWriteCancel_frameP s1; rw [h2] at f2
    have f3 := (pollExpired_frameA s2 now).toP; rw [h3] at f3
    have f4 := tFlush_frameP s3; rw [h4] at f4
    exact .inl (((f1.trans f2).trans f3).trans f4).closeObs

/-- No other part of `run` calls `poll_close`: the read pump observes none. -/
theorem C10_pumpRead_no_close (s : St) : (pumpRead s).1.obs.filter isCloseObs = s.obs.filter isCloseObs := by
  have key := tNext_closeObs s
  refine pumpRead_cases (motive := fun p => p.1.obs.filter isCloseObs = s.obs.filter isCloseObs) s ?_ ?_ ?_ ?_ ?_
  · intro s1 h1; rw [h1] at key; exact key
  · intro s1 h1; rw [h1] at key; exact key
  · intro s1 h1; rw [h1] at key; exact key
  · intro s1 id res h1; rw [h1] at key
    exact ((completeRequest_frameA s1 id (outcomeOf res)).toP.closeObs).trans key
  · intro s1 m h1 _; rw [h1] at key; exact key

/-- **C10, close only when drained (all reachable states).**  Whenever the transport is closed, no handle and no
live call future exists and both queues are empty — in every state reachable by any script. -/
theorem C10_closed_implies_drained (m b c : Nat) (coupled : Bool) (ops : List COp) :
    (ops.foldl applyOp (initSys m b c coupled)).s.t.closed = true →
    senders (ops.foldl applyOp (initSys m b c coupled)).s = 0 ∧
    (ops.foldl applyOp (initSys m b c coupled)).s.pq = [] ∧
    (ops.foldl applyOp (initSys m b c coupled)).s.cq = [] :=
  (foldl_applyOp_inv ops (initSys_inv m b c coupled)).base.cd

/-- Once no sender is left, none comes back: every call / handle operation is a no-op (the stability
behind `C10_closed_implies_drained`). -/
theorem C10_no_sender_is_stable (s : St) (hd : senders s = 0) :
    (∀ h ctx body, newCall s h ctx body = emit s .noop) ∧ (∀ h, cloneHandle s h = emit s .noop) ∧
    (∀ cid now, senders (pollCall s cid now) = 0 ∧ (pollCall s cid now).pq = s.pq) := by
  refine ⟨?_, ?_, ?_⟩
  · intro h ctx body; unfold newCall; rw [(dead_of_senders hd).1]; rfl
  · intro h; unfold cloneHandle; rw [(dead_of_senders hd).1]; rfl
  · intro cid now
    obtain ⟨h1, h2, _⟩ := (pollCall_callStep s cid now).dead hd
    exact ⟨h1, h2⟩

/-! ### inbound end of stream -/

/-- **C10, stop when the inbound side has ended.**  If `run` goes back to waiting (`Pending`), the inbound
stream has not ended: once `poll_next` has returned `None` (in this or any earlier poll) `run` returns
`Ok`, or the error / spin the write pump hit in that same iteration. -/
theorem C10_run_pending_not_fused (fuel : Nat) (s : St) (now : Nat) :
    (run fuel s now).2 = .pending → (run fuel s now).1.readFused = false := by
  induction fuel generalizing s with
  | zero => rw [run_zero]; intro h; cases h
  | succ fuel ih =>
    have key := pumpRead_fused_iff s
    refine run_cases (motive := fun p => p.2 = .pending → p.1.readFused = false) fuel s now
      ?_ ?_ ?_ ?_ ?_ ?_ ?_ ?_ ?_
    · intro _ _ _ h; cases h
    · intro _ _ h; cases h
    · intro _ _ _ _ _ _ h; cases h
    · intro _ _ _ _ _ h; cases h
    · intro _ _ _ _ _ _ h; cases h
    · intro _ _ _ _ _ _ _ h; cases h
    · intro s1 s2 h1 h2 _ _
      rw [h1] at key
      have f := pumpWrite_frameW s1 now; rw [h2] at f
      rw [f.readFused]
      cases hr : s1.readFused
      · rfl
      · have := key.mp hr; cases this
    · intro s1 rd s2 wr _ _ _; exact ih s2
    · intro s1 s2 h1 h2 _
      rw [h1] at key
      have f := pumpWrite_frameW s1 now; rw [h2] at f
      rw [f.readFused]
      cases hr : s1.readFused
      · rfl
      · have := key.mp hr; cases this

/-- The same at the level of one dispatch poll: if the inbound side has ended by the end of a poll that began
without a terminal error, the poll returned `Ready(Ok)`, or it hit a transport error in that same poll (it is
then shutting down with that error), or the task is poisoned (spin / panic).  It never just goes back to
`Pending`. -/
theorem C10_eof_stops_dispatch (s : St) (now : Nat) (ht : s.termErr = none)
    (hf : (pollDispatchCore s now).1.readFused = true) :
    (pollDispatchCore s now).2 = .readyOk ∨ (pollDispatchCore s now).1.termErr.isSome = true ∨
      (pollDispatchCore s now).1.poisoned = true := by
  revert hf
  refine pollDispatchCore_cases (motive := fun p => p.1.readFused = true →
    p.2 = .readyOk ∨ p.1.termErr.isSome = true ∨ p.1.poisoned = true) s now ?_ ?_ ?_ ?_ ?_
  · intro a _ _ h; rw [ht] at h; cases h
  · intro s1 _ h1 hf
    have := C10_run_pending_not_fused (runFuel s) s now; rw [h1] at this
    rw [this rfl] at hf; cases hf
  · intro _ _ _ _; exact .inl rfl
  · intro _ _ _ _; exact .inr (.inr rfl)
  · intro s1 a s2 fin _ _ h2 _
    have := shutDown_termErr { s1 with termErr := some a } a; rw [h2] at this
    exact .inr (.inl (by rw [this]; rfl))

/-! ### instances, witnesses, findings -/

def c10Trace : Trace := { traceId := 1, span := .given 0, sampled := false }

/-- a call is made and transmitted; the last handle and the call go away; the dispatch is polled -/
def c10CloseOps : List COp :=
  [.call 0 1000000000 c10Trace 1, .pollCall 0, .pollDispatch, .dropHandle 0, .dropCall 0 .none, .pollDispatch]

/-- Non-trivial instance of the close path: the cancel is written, the transport is closed, the dispatch
completes with `Ok`, nothing is violated. -/
example : (c10CloseOps.foldl applyOp (initSys 2 1 4 true)).s.t.closed = true ∧
    (c10CloseOps.foldl applyOp (initSys 2 1 4 true)).s.done = some .readyOk ∧
    (c10CloseOps.foldl applyOp (initSys 2 1 4 true)).s.t.violations = [] := by decide

/-- two calls on a one-slot request queue (the second is handed the freed permit and not polled again), the
inbound side ends, a flush fault is armed, the dispatch is polled -/
def c10EofErrOps : List COp :=
  [.call 0 1000000000 c10Trace 1, .call 0 1000000000 c10Trace 2, .pollCall 0, .pollCall 1, .pollDispatch, .eof,
   .fault .flush, .pollDispatch]

/-- **Corner case the monitor must accept.**  When the inbound side ends *and* the write pump fails in the same
poll while a request-queue permit is still out (a caller was handed a permit and has not been polled since),
`shut_down_with_terminal_error` cannot finish draining: the poll observes `poll_next → None`, records the terminal
error and returns `Pending` (the third disjunct of `C10_eof_stops_dispatch`); the real `RequestDispatch::poll`
has the same control flow.  `monC10` exempts a poll in which the transport failed, so it accepts this trace.
(An earlier version flagged it; that was a false alarm of the monitor and was corrected.) -/
theorem C10_eof_then_error_pending_witness :
    (trace (initSys 2 1 4 true) c10EofErrOps).drop 21 =
      [.obs (.tNext (.dispatch 0) .eof), .obs (.tReady (.dispatch 0) .ready), .obs (.tReady (.dispatch 0) .ready),
       .obs (.tFlush (.dispatch 0) .err), .obs (.wake (.call 0)), .obs (.ret (.dispatch 0) .pending),
       .obs (.counts (.dispatch 0) 0 0)] ∧
    (c10EofErrOps.foldl applyOp (initSys 2 1 4 true)).s.termErr = some .flush ∧
    (monC10 (trace (initSys 2 1 4 true) c10EofErrOps)).ok = true := by decide

end TarpcModel.Client

import TarpcModel.Lemmas.ClientPanic
import TarpcModel.Props.C03
/-!
# C16 (client) — the request dispatch never panics

Property theorems only.  The client model has three panicking sites (`Client/Model.lean`): the uniqueness check of
`insert_request`, `DelayQueue::remove` with an unknown key, and the range check of `DelayQueue::insert` (a timer more
than `2^36 - 1` ms ahead of the wheel).  The first two are unreachable outright (`C11_only_insert_range_panic`,
`C11_no_uniqueness_panic` in `Props/C11Client.lean`).  The third has two call sites — `insert_request` and the re-arm
in `poll_expired` — and is unreachable at both because each clamps the timeout it arms (`clampTimeout`,
`Gen.clientTimerClampSecs` seconds): for a clock below `2^35` ms
`when - wheelElapsed ≤ ceilMs (now + clamp) ≤ now_ms + clamp_ms + 1 ≤ 2^36 - 1` whatever deadline the caller asks for.

The scripts quantified over are all op lists whose total advanced virtual time `advSum ops` (the sum of their
`advance` amounts — the clock starts at 0 and only `advance` moves it) is below `2^35` ms ≈ 397 days.
-/
namespace TarpcModel.Client

/-- The two facts about the generated constants the theorems below rest on (re-checked by `decide` whenever
`Gen/Flags.lean` is regenerated): the client clamps its deadline timers and the clamp fits the `DelayQueue` range
with `2^35` ms to spare (`clamp_ms + 2^35 + 1 ≤ 2^36 - 1`); and `ensure_writeable` is the fixed, non-looping one. -/
theorem C16_client_flags :
    (Gen.clientTimerClampSecs ≠ 0 ∧ Gen.clientTimerClampSecs * 1000 + 2 ^ 35 + 1 ≤ delayQMaxMs) ∧
    Gen.clientEnsureLoop = false := by decide

/-- **C16 (client), no panic.**  For every configuration and every script whose total advanced time is below
`2^35` ms, whatever deadlines the calls carry: no `Obs.panic` occurs in the event trace, and the dispatch is not
poisoned (neither by a panic nor by a spin) in the state the script ends in. -/
theorem C16_client_no_panic (m bufCap tcap : Nat) (coupled : Bool) (ops : List COp)
    (hT : advSum ops < 2 ^ 35 * nsPerMs) :
    (∀ t site, CEv.obs (.panic t site) ∉ trace (initSys m bufCap tcap coupled) ops) ∧
    (ops.foldl applyOp (initSys m bufCap tcap coupled)).s.poisoned = false :=
  ⟨fun t site => trace_no_panic C16_client_flags.1 m bufCap tcap coupled ops hT t site,
   reach_not_poisoned C16_client_flags.1 C16_client_flags.2 m bufCap tcap coupled ops hT⟩

/-- **C16 (client), monitor form.**  The C16 monitor of the `cli` family (`Monitors/NoPanic.lean`: `firstPanic`, the
first `Obs.panic` among the observations) finds nothing in the model's trace, for every configuration and every
script whose total advanced time is below `2^35` ms; likewise the `c16` field of the driver's `CliMon`
(`Driver/Cli.lean`), which is `c16Step` folded over the trace, stays `none`.  (The bound on the clock is needed: the
`DelayQueue` range is relative to the wheel's `elapsed`, which only a poll of the queue moves, so a script that lets
more than `2^36` ms pass un-polled before the next `insert_request` does reach the range panic — in the real queue
as in the model; see `C16_client_panic_only_late` for what holds without the bound.) -/
theorem C16_client_monitor_accepts (m bufCap tcap : Nat) (coupled : Bool) (ops : List COp)
    (hT : advSum ops < 2 ^ 35 * nsPerMs) :
    firstPanic (obsOf (trace (initSys m bufCap tcap coupled) ops)) = none ∧
    (trace (initSys m bufCap tcap coupled) ops).foldl c16Step none = none :=
  ⟨firstPanic_none_of (C16_client_no_panic m bufCap tcap coupled ops hT).1,
   c16Step_foldl_none_of (C16_client_no_panic m bufCap tcap coupled ops hT).1⟩

/-- … and in every state the script passes through (every prefix of the script). -/
theorem C16_client_never_poisoned (m bufCap tcap : Nat) (coupled : Bool) (ops : List COp)
    (hT : advSum ops < 2 ^ 35 * nsPerMs) (pre : List COp) (hpre : pre <+: ops) :
    (pre.foldl applyOp (initSys m bufCap tcap coupled)).s.poisoned = false ∧
    ∀ t site, Obs.panic t site ∉ (pre.foldl applyOp (initSys m bufCap tcap coupled)).s.obs := by
  have hT' : advSum pre < panicFreeNs := Nat.lt_of_le_of_lt (advSum_prefix_le hpre) hT
  exact ⟨reach_not_poisoned C16_client_flags.1 C16_client_flags.2 m bufCap tcap coupled pre hT',
    fun t site => reach_no_panic_obs C16_client_flags.1 m bufCap tcap coupled pre hT' t site⟩

/-- The same with the facts about the generated constants as hypotheses (so that the statement survives a
regenerated `Gen/Flags.lean` even if `C16_client_flags` then fails). -/
theorem C16_client_no_panic_of (hclamp : ClampFits) (hel : Gen.clientEnsureLoop = false)
    (m bufCap tcap : Nat) (coupled : Bool) (ops : List COp) (hT : advSum ops < 2 ^ 35 * nsPerMs) :
    (∀ t site, CEv.obs (.panic t site) ∉ trace (initSys m bufCap tcap coupled) ops) ∧
    (ops.foldl applyOp (initSys m bufCap tcap coupled)).s.poisoned = false :=
  ⟨fun t site => trace_no_panic hclamp m bufCap tcap coupled ops hT t site,
   reach_not_poisoned hclamp hel m bufCap tcap coupled ops hT⟩

/-- At any time: a panic observation can only be the `DelayQueue::insert` range check, and only at or after
`2^35` ms (state form; the trace form of the first half is `C11_only_insert_range_panic`). -/
theorem C16_client_panic_only_late (m bufCap tcap : Nat) (coupled : Bool) (ops : List COp) (t : TaskId) (site : String)
    (h : Obs.panic t site ∈ (ops.foldl applyOp (initSys m bufCap tcap coupled)).s.obs) :
    site = "DelayQueue::insert: invalid deadline" ∧ 2 ^ 35 * nsPerMs ≤ advSum ops := by
  have hg := (inv_reach m bufCap tcap coupled ops).o _ h
  rw [now_reach] at hg
  exact ⟨hg.1, hg.2 C16_client_flags.1⟩

/-! ### consequence: the `poisoned = false` guards of C03 are discharged -/

/-- **C03 "what is in flight has been written", without the guard.**  `C03_in_flight_was_written` assumes that the
dispatch is not poisoned (the model keeps executing a poll after a panic, the real code does not); before `2^35` ms
that never happens. -/
theorem C16_C03_in_flight_was_written (m bufCap tcap : Nat) (coupled : Bool) (ops : List COp)
    (hT : advSum ops < 2 ^ 35 * nsPerMs)
    (s : St) (hs : s = (ops.foldl applyOp (initSys m bufCap tcap coupled)).s) :
    ∀ e ∈ s.inflight, e.id ∈ reqIds s.t.sentLog :=
  C03_in_flight_was_written m bufCap tcap coupled ops s hs
    (by subst hs; exact (C16_client_no_panic m bufCap tcap coupled ops hT).2)

/-- **C03 "a `Cancel` comes after its `Request`", without the guard** (last clause of `C03_cancel_justified`). -/
theorem C16_C03_cancel_after_request (m bufCap tcap : Nat) (coupled : Bool) (ops : List COp)
    (hT : advSum ops < 2 ^ 35 * nsPerMs)
    (s : St) (hs : s = (ops.foldl applyOp (initSys m bufCap tcap coupled)).s)
    (id : Nat) (tr : Trace) (h : Msg.cancel id tr ∈ s.t.sentLog) :
    id ∈ reqIds s.t.sentLog ∧ ∀ l1 l2, s.t.sentLog = l1 ++ Msg.cancel id tr :: l2 → id ∈ reqIds l1 :=
  (C03_cancel_justified m bufCap tcap coupled ops s hs id tr h).2.2.2
    (by subst hs; exact (C16_client_no_panic m bufCap tcap coupled ops hT).2)

/-! ### non-vacuity -/

/-- A call with the largest deadline the wire format can carry (`u64::MAX` ns), far beyond the `DelayQueue`'s range
(`2^36` ms ≈ 6.9e16 ns): the request is written, its timer is armed (with the clamped timeout), nothing panics. -/
example :
    let ops := [COp.call 0 18446744073709551615 ⟨1, .given 1, true⟩ 7, .pollCall 0, .pollDispatch, .advance 1000000,
      .pollDispatch]
    advSum ops < 2 ^ 35 * nsPerMs ∧
    (ops.foldl applyOp (initSys 1 1 1 true)).s.inflight.length = 1 ∧
    (ops.foldl applyOp (initSys 1 1 1 true)).s.timers.len = 1 ∧
    (ops.foldl applyOp (initSys 1 1 1 true)).s.poisoned = false := by
  decide

/-- the clock jumps by `2^36` ms before the dispatch is polled for the first time -/
def c16LateOps : List COp :=
  [.call 0 18446744073709551615 ⟨1, .given 1, true⟩ 7, .pollCall 0, .advance (2 ^ 36 * nsPerMs), .pollDispatch]

set_option maxRecDepth 100000 in
/-- **The bound on the clock cannot simply be dropped (model-level witness).**  The `DelayQueue` range check is
relative to the wheel's `elapsed`, which only a poll of the queue advances.  If `2^36` ms pass before the dispatch
polls for the first time, the first `insert_request` computes `when = now_ms + clamp_ms > 2^36 - 1` with
`elapsed = 0` and hits `DelayQueue::insert: invalid deadline` — clamp or no clamp.  (`Prim/DelayQ.lean` follows
tokio-util's `when - elapsed > MAX_DURATION` check; reaching this needs a process that does not poll its dispatch
for more than two years, so it is a statement about the model's range of validity rather than a practical defect.) -/
theorem C16_client_late_panic_witness :
    CEv.obs (.panic (.dispatch 0) "DelayQueue::insert: invalid deadline") ∈ trace (initSys 1 1 1 true) c16LateOps ∧
    ¬ advSum c16LateOps < 2 ^ 35 * nsPerMs := by decide

end TarpcModel.Client

import TarpcModel.Lemmas.ServerTrace
/-!
# C12 — the per-channel request limit (`MaxRequests`)

Property theorems only.  `limitedPollNextLegacy` is `MaxRequests::poll_next` as it is in the code
(`Gen.throttleAfterRead = false`): the count is tested *before* the inner channel is polled.
`limitedPollNextFixed` is a variant that decides after the read; the "never over" theorems hold for
both (they only assume `s.limit = some L`).
-/
namespace TarpcModel.Server

/-- whether a channel poll produced a request -/
def SPoll.isYield {α : Type} : SPoll α → Bool
  | .some _ => true
  | _ => false

/-! ### mechanism -/

/-- **C12 mechanism: the throttle reply.**  In `MaxRequests::poll_next`, a request read while
`inflight.length ≥ limit` (tested before the inner poll, sink ready) is tracked at that moment (it
was just inserted), and is answered through `start_send` with exactly `Err(throttleKindIdx)`: that
`start_send` reaches the transport (it is the newest observation) and untracks the id; if the
transport accepts it the request's execution is marked `gone` and the loop continues, otherwise the
poll ends with the write error.  The request is not returned by this iteration. -/
theorem C12_throttle_reply (limit fuel : Nat) (s : St) (now : Nat) (s1 s2 : St) (ex : Exec)
    (hat : s.inflight.length ≥ limit) (hr : tReady s = (s1, .ready))
    (hb : basePollNext (baseFuel s1) s1 now = (s2, .some ex)) :
    ∃ key rem due ok,
      findEntry s2 ex.id = some { id := ex.id, timerKey := key, rid := ex.rid, remainder := rem, dueAt := due }
      ∧ (baseStartSend s2 ex.id (.err throttleKindIdx)).2 = some ok
      ∧ (baseStartSend s2 ex.id (.err throttleKindIdx)).1.obs.head?
          = some (.tSend (tid s2) (.response ex.id (.err throttleKindIdx)) ok)
      ∧ findEntry (baseStartSend s2 ex.id (.err throttleKindIdx)).1 ex.id = none
      ∧ limitedPollNextLegacy limit (fuel + 1) s now =
          (if ok then
            limitedPollNextLegacy limit fuel
              (limitedPollNextLegacy.markThrottled (baseStartSend s2 ex.id (.err throttleKindIdx)).1 ex.rid) now
           else ((baseStartSend s2 ex.id (.err throttleKindIdx)).1, .err .write))
      ∧ (∀ x ∈ (limitedPollNextLegacy.markThrottled (baseStartSend s2 ex.id (.err throttleKindIdx)).1 ex.rid).execs,
            x.rid = ex.rid → x.phase = .gone) := by
  obtain ⟨s0, _, hst⟩ := basePollNext_some _ _ _ _ _ hb
  obtain ⟨key, rem, due, hk⟩ := hst.findEntry
  have hmech : ∃ ok, (baseStartSend s2 ex.id (.err throttleKindIdx)).2 = some ok
      ∧ (baseStartSend s2 ex.id (.err throttleKindIdx)).1.obs.head?
          = some (.tSend (tid s2) (.response ex.id (.err throttleKindIdx)) ok)
      ∧ findEntry (baseStartSend s2 ex.id (.err throttleKindIdx)).1 ex.id = none := by
    rcases baseStartSend_spec s2 ex.id (.err throttleKindIdx) with ⟨hn, _⟩ | ⟨e, ok, _, h2, h3, _, h4, _⟩
    · rw [hk] at hn; cases hn
    · exact ⟨ok, h2, h3, h4⟩
  obtain ⟨ok, h2, h3, h4⟩ := hmech
  refine ⟨key, rem, due, ok, hk, h2, h3, h4, ?_, ?_⟩
  · rw [limitedPollNextLegacy]
    simp only [hat, ↓reduceIte, hr, hb]
    revert h2
    generalize baseStartSend s2 ex.id (Res.err throttleKindIdx) = p
    obtain ⟨s3, o⟩ := p
    intro h2
    simp only at h2
    subst h2
    cases ok <;> rfl
  · intro x hx hrid
    rw [markThrottled_eq] at hx
    simp only [updExec, List.mem_map] at hx
    obtain ⟨y, _, rfl⟩ := hx
    by_cases hy : y.rid = ex.rid
    · simp [hy]
    · simp [hy] at hrid

/-- **C12 mechanism: what is handed out is a freshly created execution.**  If a poll of the request
stream yields execution `rid`, that execution did not exist when the poll began — in particular it
is none of the executions throttled (marked `gone`) before, whose `rid`s are all below
`s.execs.length`; executions are never removed or renumbered. -/
theorem C12_yield_is_fresh (fuel : Nat) (s : St) (now : Nat) (s' : St) (rid : Nat)
    (h : requestsPollNext fuel s now = (s', .item rid)) : s.execs.length ≤ rid ∧ rid < s'.execs.length :=
  (requestsPollNext_item fuel s now s' rid h).2

/-- … and within one `MaxRequests::poll_next`: after throttling `ex` the loop can only return a
later execution. -/
theorem C12_throttled_never_yielded (limit fuel : Nat) (s3 : St) (now : Nat) (ex : Exec) (s' : St) (ex' : Exec)
    (hex : ex.rid < s3.execs.length)
    (h : limitedPollNextLegacy limit fuel (limitedPollNextLegacy.markThrottled s3 ex.rid) now = (s', .some ex')) :
    ex.rid < ex'.rid := by
  have := (limitedPollNextLegacy_some _ _ _ _ _ _ h).1.fresh
  simp only [markThrottled_eq, updExec, List.length_map] at this
  omega

/-! ### never over the limit -/

/-- **C12 (state form): never over.**  Whenever `Requests::poll_next` hands out a request under
`limit = some L`, at most `L` requests are tracked afterwards (the new one included unless an
already queued response answered it in the same poll), from *any* state. -/
theorem C12_never_over (fuel : Nat) (s : St) (now : Nat) (s' : St) (rid L : Nat) (hL : s.limit = some L)
    (h : requestsPollNext fuel s now = (s', .item rid)) : s'.inflight.length ≤ L :=
  ((requestsPollNext_item fuel s now s' rid h).1 L hL).1

/-- the same for the limiter alone, both variants: what `MaxRequests::poll_next` returns never takes
the table above the limit, and the returned request is in the table -/
theorem C12_never_over_channel (s : St) (now : Nat) (s' : St) (ex : Exec) (L : Nat) (hL : s.limit = some L)
    (h : channelPollNext s now = (s', .some ex)) : 1 ≤ s'.inflight.length ∧ s'.inflight.length ≤ L :=
  ⟨(channelPollNext_some s now s' ex h).1.pos, (channelPollNext_some s now s' ex h).2 L hL⟩

/-- **C12: with `L = 0` nothing is ever yielded.** -/
theorem C12_zero_never_yields (fuel : Nat) (s : St) (now : Nat) (h0 : s.limit = some 0) (rid : Nat) :
    (requestsPollNext fuel s now).2 ≠ .item rid := by
  intro h
  have := ((requestsPollNext_item fuel s now (requestsPollNext fuel s now).1 rid (by rw [← h])).1 0 h0).2
  omega

/-- **C12 (trace form): never over.**  In every trace, a `counts` observation that follows a
`yielded` within the same op shows at most `L` tracked requests. -/
theorem C12_never_over_trace (L respCap tcap : Nat) (coupled : Bool) (ops : List SOp)
    (l1 l2 l3 : List SEv) (r id d : Nat) (tr : Trace) (k a b : Nat)
    (hno : ∀ o, SEv.op o ∉ l2)
    (h : trace (initSys (some L) respCap tcap coupled) ops
          = l1 ++ SEv.obs (.yielded r id d tr) :: (l2 ++ SEv.obs (.counts (.server k) a b) :: l3)) :
    a ≤ L := by
  have hok := trace_gok (some L) respCap tcap coupled ops
  have h' : trace (initSys (some L) respCap tcap coupled) ops
      = (l1 ++ SEv.obs (.yielded r id d tr) :: l2) ++ SEv.obs (.counts (.server k) a b) :: l3 := by
    rw [h]; simp
  rw [h'] at hok
  have h2 := hok.at_split.limit
  have hy : (traceGhost (some L) {} (l1 ++ SEv.obs (.yielded r id d tr) :: l2)).yieldedNow = true := by
    rw [traceGhost_append]
    show (traceGhost (some L) (gev (some L) (traceGhost (some L) {} l1) (SEv.obs (.yielded r id d tr))) l2).yieldedNow = true
    exact traceGhost_yielded_persist _ _ _ (by simp [gev, gstep]) hno
  simp only [gev, gstep, hy, Bool.and_eq_true, Bool.not_true, Bool.false_or, decide_eq_true_eq] at h2
  exact h2.2

/-! ### refused only at the limit — what holds, and what does not -/

/-- **C12 (partial): a throttle reply is only written by a limiter iteration that began at the
limit.**  Below the limit `MaxRequests::poll_next` *is* the inner `poll_next`, which never writes
to the transport (`sends` counts `start_send` calls in the observations). -/
theorem C12_refused_at_limit_partial (limit fuel : Nat) (s : St) (now : Nat) (hlt : s.inflight.length < limit) :
    limitedPollNextLegacy limit (fuel + 1) s now = basePollNext (baseFuel s) s now
    ∧ ∀ L g0 f, (gh L g0 (limitedPollNextLegacy limit f s now).1.obs).sends = (gh L g0 s.obs).sends := by
  have h1 : limitedPollNextLegacy limit (fuel + 1) s now = basePollNext (baseFuel s) s now := by
    rw [limitedPollNextLegacy]
    simp [Nat.not_le.mpr hlt]
  refine ⟨h1, ?_⟩
  intro L g0 f
  cases f with
  | zero => simp [limitedPollNextLegacy]
  | succ f =>
    have h2 : limitedPollNextLegacy limit (f + 1) s now = basePollNext (baseFuel s) s now := by
      rw [limitedPollNextLegacy]
      simp [Nat.not_le.mpr hlt]
    rw [h2]
    exact rel_basePollNext sendsRel _ _ _ L g0

/-- The full claim — "a request is refused only if `L` other requests were tracked when it was
read" — stated for one iteration of the limiter: at the limit, sink ready, the inner poll yields a
request ⇒ the table (which includes the new request) holds more than `limit` entries.  **This is
false for the code as it is** (`C12_refusedOnlyAtLimit_false`): the count is tested before the inner
poll, which may first process cancellations / expirations. -/
def C12RefusedOnlyAtLimitStatement : Prop :=
  ∀ (limit : Nat) (s : St) (now : Nat), s.inflight.length ≥ limit → (tReady s).2 = .ready →
    (basePollNext (baseFuel (tReady s).1) (tReady s).1 now).2.isYield = true →
    (basePollNext (baseFuel (tReady s).1) (tReady s).1 now).1.inflight.length ≥ limit + 1

def witnessTrace : Trace := ⟨7, .given 1, true⟩

/-- the state of the witness: limit 1, request 1 tracked, `Cancel 1` and `Request 2` inbound -/
def witnessState : St :=
  (run (initSys (some 1) 1 4 true)
    [.injectReq 1 5000000 witnessTrace 0, .pollServer, .injectCancel 1 witnessTrace,
     .injectReq 2 5000000 witnessTrace 0]).s

/-- **C12 over-throttle witness (finding).**  With `L = 1`, request 1 tracked and
`[Cancel 1, Request 2]` inbound, one `pollServer` reads the cancellation (nothing is in flight any
more), reads request 2 — and refuses it with the throttle error; the poll ends with 0 requests
tracked. -/
theorem C12_overthrottle_witness :
    (trace (initSys (some 1) 1 4 true)
      [.injectReq 1 5000000 witnessTrace 0, .pollServer, .injectCancel 1 witnessTrace,
       .injectReq 2 5000000 witnessTrace 0, .pollServer]).drop 11
      = [.obs (.tReady (.server 0) .ready),
         .obs (.tNext (.server 0) (.item (.cancel 1 witnessTrace))),
         .obs (.wake (.server 0)),      -- the emptying `deadlines.remove` wakes the waker the queue stored
         .obs (.tNext (.server 0) (.item (.request 2 5000000 witnessTrace 0))),
         .obs (.tSend (.server 0) (.response 2 (.err throttleKindIdx)) true),
         .obs (.tNext (.server 0) .pending),
         .obs (.tReady (.server 0) .ready),
         .obs (.tFlush (.server 0) .ready),
         .obs (.ret (.server 0) .pending),
         .obs (.counts (.server 0) 0 0)] := by
  decide

/-- … hence the full "refused only at the limit" statement does not hold for the code as it is. -/
theorem C12_refusedOnlyAtLimit_false : ¬ C12RefusedOnlyAtLimitStatement := by
  intro h
  have := h 1 witnessState 0 (by decide) (by decide) (by decide)
  revert this
  decide

/-- the hypotheses of `C12_never_over_trace` are satisfiable: limit 1, a request is handed out and
the `counts` that follows shows 1 -/
example :
    (trace (initSys (some 1) 1 4 true) [.injectReq 1 5000000 witnessTrace 0, .pollServer]).drop 5
      = [.obs (.yielded 0 1 5000000 ⟨7, .fresh 0, true⟩), .obs (.ret (.server 0) .readyItem),
         .obs (.counts (.server 0) 1 1)] := by
  decide

end TarpcModel.Server

import TarpcModel.Lemmas.ClientFlowSink
/-
C09 (client half): transport failures are contained and reported with the right tag.

* `run` returns `Err(a)` immediately after the transport call that failed, and `a` is that call's activity
  (`poll_ready ↦ Ready`, `poll_flush ↦ Flush`, `poll_close ↦ Close`, `poll_next ↦ Read`, the `start_send` of a
  *cancel* message ↦ `Write`); the dispatch stores exactly this tag and reports exactly the stored tag.
* a failing `start_send` of a *request* does not end the dispatch: it completes that one call with
  `RpcError::Send` and leaves everything else alone.
-/
namespace TarpcModel.Client
open Flow

/-- **C09, error tag (inside `run`).**  `run` returns `Err(a)` right after the failing transport call: the most
recent transport observation is that call's, and it failed with the activity `a`. -/
theorem C09_run_error_tag (fuel : Nat) (s : St) (now : Nat) (a : Activity) (h : (run fuel s now).2 = .err a) :
    ∃ o, ((run fuel s now).1.obs.filter isT).head? = some o ∧ errObs a o = true :=
  run_errTagged fuel s now a h

/-- **C09, error tag (where it is stored).**  A poll that starts without a terminal error and ends with one (`a`)
made, as its last transport call, the call that failed, and `a` is the activity of that call. -/
theorem C09_error_tag (s : St) (now : Nat) (a : Activity) (ht : s.termErr = none)
    (h : (pollDispatchCore s now).1.termErr = some a) : ErrTagged (pollDispatchCore s now).1 a := by
  revert h
  have hrun : ∀ s1 r, run (runFuel s) s now = (s1, r) → ¬ s1.termErr = some a := by
    intro s1 r h1
    have hr := run_termErr (runFuel s) s now; rw [h1] at hr
    show ¬ s1.termErr = some a
    rw [hr, ht]; simp
  refine pollDispatchCore_cases (motive := fun p => p.1.termErr = some a → ErrTagged p.1 a) s now ?_ ?_ ?_ ?_ ?_
  · intro a' _ _ h' _ _; rw [ht] at h'; cases h'
  · intro s1 _ h1 h; exact absurd h (hrun _ _ h1)
  · intro s1 _ h1 h; exact absurd h (hrun _ _ h1)
  · intro s1 _ h1 h; exact absurd h (hrun s1 _ h1)
  · intro s1 a' s2 fin _ h1 h2 h
    have hA := shutDown_frameA { s1 with termErr := some a' } a'; rw [h2] at hA
    have ha : a' = a := by
      have := hA.termErr; rw [h] at this; cases this; rfl
    subst ha
    have hr := run_errTagged (runFuel s) s now a'; rw [h1] at hr
    obtain ⟨o, ho, he⟩ := hr rfl
    exact ⟨o, LastT.of_frameA hA ho, he⟩

/-- **C09, error tag (what is reported).**  The dispatch completes with `Err(a)` only with the stored terminal
error, which a poll never changes once set. -/
theorem C09_reports_stored_tag (s : St) (now : Nat) (a : Activity) :
    ((pollDispatchCore s now).2 = .readyErr a → (pollDispatchCore s now).1.termErr = some a) ∧
    (s.termErr = some a → (pollDispatchCore s now).1.termErr = some a) := by
  refine pollDispatchCore_cases (motive := fun p => (p.2 = .readyErr a → p.1.termErr = some a) ∧
    (s.termErr = some a → p.1.termErr = some a)) s now ?_ ?_ ?_ ?_ ?_
  · intro a' s1 fin ht h1
    have hA := shutDown_frameA s a'; rw [h1] at hA
    refine ⟨fun h => ?_, fun h => by rw [hA.termErr]; exact h⟩
    cases fin <;> simp at h
    subst h; rw [hA.termErr]; exact ht
  · intro s1 ht _; exact ⟨by simp, fun h => by rw [ht] at h; cases h⟩
  · intro s1 ht _; exact ⟨by simp, fun h => by rw [ht] at h; cases h⟩
  · intro s1 ht _; exact ⟨by simp, fun h => by rw [ht] at h; cases h⟩
  · intro s1 a' s2 fin ht _ h2
    have hA := shutDown_frameA { s1 with termErr := some a' } a'; rw [h2] at hA
    refine ⟨fun h => ?_, fun h => by rw [ht] at h; cases h⟩
    cases fin <;> simp at h
    subst h; rw [hA.termErr]

/-- **C09, a failing request write is local.**  When `start_send` of a request fails, `poll_write_request` still
returns `Ready(Some(Ok))` (the dispatch goes on), the in-flight table is as before the request was taken, no
panic site is hit, the terminal error is untouched, every other call is untouched, and exactly the call that
issued the request finds `RpcError::Send` in its oneshot. -/
theorem C09_send_failure_local {s s1 s2 s3 : St} {now : Nat} {r : DReq}
    (h1 : pollNextRequest s = (s1, .some r)) (h2 : insertRequest s1 now r = some s2)
    (hp : s2.poisoned = false)
    (h3 : tSend s2 (.request r.id r.ctx.deadline r.ctx.trace r.body) = (s3, false)) :
    pollWriteRequest s now = ((completeRequest s3 r.id .send).1, .some ()) ∧
    (completeRequest s3 r.id .send).1.inflight = s1.inflight ∧
    (completeRequest s3 r.id .send).1.poisoned = false ∧
    (completeRequest s3 r.id .send).1.termErr = s.termErr ∧
    (completeRequest s3 r.id .send).1.calls.filter (·.cid != r.cid) = s1.calls.filter (·.cid != r.cid) ∧
    (getCall (completeRequest s3 r.id .send).1 r.cid).map (·.os.val) = some (some .send) := by
  obtain ⟨hfe, q, key, w, hq, hs2⟩ := insertRequest_ok h2 hp
  -- the successful insert, field by field (the self-wake only touches `dWoken` and the observations)
  have h2in : s2.inflight = s1.inflight ++ [{ id := r.id, cid := r.cid, ctx := r.ctx, timerKey := key, remainder := (r.ctx.deadline - now) - clampTimeout (r.ctx.deadline - now), dueAt := now + clampTimeout (r.ctx.deadline - now) }] := by
    rw [hs2]; split <;> simp
  have h2ti : s2.timers = q := by rw [hs2]; split <;> simp
  have h2ca : s2.calls = s1.calls := by rw [hs2]; split <;> simp
  have h2te : s2.termErr = s1.termErr := by rw [hs2]; split <;> simp
  -- `tSend` leaves the tables alone
  have e3 : s3 = (tSend s2 (.request r.id r.ctx.deadline r.ctx.trace r.body)).1 := by rw [h3]
  have hin : s3.inflight = s1.inflight ++ [{ id := r.id, cid := r.cid, ctx := r.ctx, timerKey := key, remainder := (r.ctx.deadline - now) - clampTimeout (r.ctx.deadline - now), dueAt := now + clampTimeout (r.ctx.deadline - now) }] := by
    rw [e3, tSend_inflight, h2in]
  have hti : s3.timers = q := by rw [e3, tSend_timers, h2ti]
  have hca : s3.calls = s1.calls := by rw [e3, tSend_calls, h2ca]
  have hpo : s3.poisoned = false := by rw [e3, tSend_poisoned]; exact hp
  have hte : s3.termErr = s.termErr := by
    rw [e3, tSend_termErr, h2te]
    have := (pollNextRequest_frameP s).termErr; rw [h1] at this; exact this
  -- the entry just inserted is the one `complete_request` finds
  have hfind : findEntry s3 r.id = some { id := r.id, cid := r.cid, ctx := r.ctx, timerKey := key, remainder := (r.ctx.deadline - now) - clampTimeout (r.ctx.deadline - now), dueAt := now + clampTimeout (r.ctx.deadline - now) } := by
    unfold findEntry at hfe ⊢
    rw [hin, List.find?_append, hfe]; simp
  have hfil : s3.inflight.filter (·.id != r.id) = s1.inflight := by
    unfold findEntry at hfe
    rw [hin, List.filter_append, filter_ne_of_find_none hfe]; simp
  -- its timer key is valid
  obtain ⟨q', wk, hrm⟩ : ∃ q' wk, q.remove key = some (q', wk) := by
    have := DelayQ_insert_has_key hq
    unfold DelayQ.remove; rw [if_pos this]; exact ⟨_, _, rfl⟩
  -- `complete_request` = remove the entry, disarm the timer (possibly a self-wake), send `Send`
  obtain ⟨sx, hcr, hxin, hxpo, hxte, hxca⟩ : ∃ sx, (completeRequest s3 r.id .send).1 = osSend sx r.cid .send ∧
      sx.inflight = s1.inflight ∧ sx.poisoned = s3.poisoned ∧ sx.termErr = s3.termErr ∧ sx.calls = s3.calls := by
    refine ⟨removeTimer { s3 with inflight := s3.inflight.filter (·.id != r.id) } key, ?_, ?_, ?_, ?_, ?_⟩
    · unfold completeRequest; rw [hfind]
    · unfold removeTimer; simp only [hti, hrm, hfil]; split <;> simp
    · unfold removeTimer; simp only [hti, hrm]; split <;> simp
    · unfold removeTimer; simp only [hti, hrm]; split <;> simp
    · unfold removeTimer; simp only [hti, hrm]; split <;> simp
  -- the call is there and its receiver is open
  have hopen := pollNextRequest_open h1
  obtain ⟨c, hgc, hrx⟩ : ∃ c, getCall s1 r.cid = some c ∧ c.os.rxClosed = false := by
    unfold osIsClosed at hopen
    split at hopen
    · exact ⟨_, ‹_›, hopen⟩
    · cases hopen
  have hgc3 : getCall sx r.cid = some c := by
    unfold getCall at hgc ⊢; rw [hxca, hca]; exact hgc
  refine ⟨?_, ?_, ?_, ?_, ?_, ?_⟩
  · refine pollWriteRequest_cases (motive := fun p => p = ((completeRequest s3 r.id .send).1, PW.some ())) s now
      ?_ ?_ ?_ ?_
    · intro s1' r' h1' hns; rw [h1] at h1'; cases h1'; simp [PW.isSome] at hns
    · intro s1' r' s2' h1' h2' hp'; rw [h1] at h1'; cases h1'; rw [h2] at h2'; cases h2'; rw [hp] at hp'; cases hp'
    · intro s1' r' s2' s3' h1' h2' _ h3'
      rw [h1] at h1'; cases h1'; rw [h2] at h2'; cases h2'; rw [h3] at h3'; cases h3'
    · intro s1' r' s2' s3' h1' h2' _ h3'
      rw [h1] at h1'; cases h1'; rw [h2] at h2'; cases h2'; rw [h3] at h3'; cases h3'; rfl
  · rw [hcr, osSend_inflight, hxin]
  · rw [hcr, osSend_poisoned, hxpo]; exact hpo
  · rw [hcr, osSend_termErr, hxte]; exact hte
  · rw [hcr, osSend_filter_ne, hxca, hca]
  · rw [hcr]; exact osSend_val .send hgc3 hrx

/-! ### instances -/

def c09Trace : Trace := { traceId := 1, span := .given 0, sampled := false }

/-- two calls; the first request's `start_send` fails, the second is written; then the calls are polled -/
def c09SendFailOps : List COp :=
  [.call 0 1000000000 c09Trace 1, .call 0 1000000000 c09Trace 2, .pollCall 0, .pollCall 1, .fault .send,
   .pollDispatch, .pollCall 0, .pollCall 1]

/-- Non-trivial instance of `C09_send_failure_local`: the first call resolves with `RpcError::Send`, the second
request is in flight, the dispatch has no terminal error and is not poisoned. -/
example : ((c09SendFailOps.foldl applyOp (initSys 2 2 4 true)).s.calls.map (·.outcome)) = [some .send, none] ∧
    (c09SendFailOps.foldl applyOp (initSys 2 2 4 true)).s.inflight.length = 1 ∧
    (c09SendFailOps.foldl applyOp (initSys 2 2 4 true)).s.termErr = none ∧
    (c09SendFailOps.foldl applyOp (initSys 2 2 4 true)).s.poisoned = false := by decide

/-- a request is written, then `poll_flush` fails -/
def c09FlushFailOps : List COp :=
  [.call 0 1000000000 c09Trace 1, .pollCall 0, .fault .flush, .pollDispatch, .pollCall 0]

/-- Non-trivial instance of `C09_error_tag`: the failing `poll_flush` gives the terminal error `Flush`, the
dispatch completes with `Err(Flush)` and the call resolves with `RpcError::Channel(Flush)`. -/
example : (c09FlushFailOps.foldl applyOp (initSys 1 1 1 true)).s.termErr = some .flush ∧
    (c09FlushFailOps.foldl applyOp (initSys 1 1 1 true)).s.done = some (.readyErr .flush) ∧
    ((c09FlushFailOps.foldl applyOp (initSys 1 1 1 true)).s.calls.map (·.outcome)) = [some (.channel .flush)] := by
  decide

end TarpcModel.Client

import TarpcModel.Props.C02Account
import TarpcModel.Lemmas.ClientParkQ
/-!
# C02 — the dispatch's parking discipline (the `park` clause of `C02WakeInv`)

`C02_dispatch_parking`: in every reachable state, an alive dispatch (not dropped, not done, not panicked, no terminal
error) that has **not been woken since its last poll** is parked where the next piece of work will wake it:

* the request queue is empty and the dispatch's waker is registered on it (or the queue has no sender left, or it is
  closed) — a push wakes it (`C02_request_wakes_dispatch`); or
* the in-flight table is full — `poll_next_request` returns `Pending` without touching the queue; the next request is
  taken after a completion, a cancellation or an expiry, each of which makes `run` loop again; or
* the sink is not ready and holds the dispatch's waker — readiness returning wakes it
  (`C02_writability_wakes_dispatch`, `C02_flushability_wakes_dispatch`).

This needs no hypothesis on the script (`Lemmas/ClientParkQ.lean`, `reach_pk`).  With the clock bound of the C16
theorems ("the dispatch has not panicked") it gives the `park` clause of `C02WakeInv` (`C02_dispatch_parked`), so
`C02NoStuckStatement'` is reduced to the five clauses about the call futures (`C02_no_stuck_of_call_wake_inv`).
-/
namespace TarpcModel.Client

/-- **A parked dispatch is registered where its next work comes from.** -/
theorem C02_dispatch_parking (m b c : Nat) (coupled : Bool) (ops : List COp) :
    let s := (ops.foldl applyOp (initSys m b c coupled)).s
    s.dDropped = false → s.done = none → s.poisoned = false → s.termErr = none → s.dWoken = false →
      (s.pq = [] ∧ (s.pqRxWaker = true ∨ senders s = 0 ∨ s.pqClosed = true)) ∨
      s.inflight.length ≥ s.maxInFlight ∨
      (s.t.isReadyNow = false ∧ s.t.writeWaker = true) :=
  reach_pk m b c coupled ops

/-- **The `park` clause of `C02WakeInv`**: a dispatch that is not woken does not sit on a queued request unless its
in-flight table is full or the sink is not ready. -/
theorem C02_dispatch_parked (m b c : Nat) (coupled : Bool) (ops : List COp) (hT : advSum ops < 2 ^ 35 * nsPerMs) :
    let s := (ops.foldl applyOp (initSys m b c coupled)).s
    s.dDropped = false → s.done = none → s.dWoken = false → s.termErr = none → s.pq ≠ [] →
      s.inflight.length ≥ s.maxInFlight ∨ s.t.isReadyNow = false := by
  intro s dd dn wk te hq
  have hp : s.poisoned = false := (C16_client_never_poisoned m b c coupled ops hT ops (List.prefix_refl _)).1
  rcases reach_pk m b c coupled ops dd dn hp te wk with h | h | h
  · exact absurd h.1 hq
  · exact Or.inl h
  · exact Or.inr h.1

/-- the clauses of `C02WakeInv` about the call futures and the channel -/
structure C02CallWakeInv (s : St) : Prop where
  np : ∀ cl ∈ s.calls, cl.phase = .notPolled → cl.woken = true
  rs : ∀ cl ∈ s.calls, cl.phase = .reserving → cl.woken = false → cl.cid ∈ s.pqWaiters
  aw : ∀ cl ∈ s.calls, cl.phase = .awaiting → cl.woken = false →
    cl.os.rxClosed = false ∧ cl.os.val = none ∧ cl.os.txDropped = false
  gone : (s.dDropped = true ∨ s.done.isSome = true) → s.pqWaiters = [] ∧ s.pq = []
  full : s.pqWaiters ≠ [] → (∀ cl ∈ s.calls, callLive cl = true → cl.woken = false) → s.pq ≠ []

/-- **C02, the global statement, reduced to the call side of the wake-up discipline**: the dispatch's own parking
discipline is proved (`C02_dispatch_parked`). -/
theorem C02_no_stuck_of_call_wake_inv
    (hW : ∀ (m b c : Nat) (coupled : Bool) (ops : List COp), 1 ≤ m → 1 ≤ b → 1 ≤ c → advSum ops < 2 ^ 35 * nsPerMs →
      C02CallWakeInv (ops.foldl applyOp (initSys m b c coupled)).s) : C02NoStuckStatement' :=
  C02_no_stuck_of_wake_inv (fun m b c coupled ops hm hb hc hT =>
    have h := hW m b c coupled ops hm hb hc hT
    ⟨h.np, h.rs, h.aw, h.gone, h.full, C02_dispatch_parked m b c coupled ops hT⟩)

/-- the three ways of being parked, on concrete scripts: registered on the empty queue; behind a full table; on a
sink that is not ready -/
example :
    let ops := [COp.call 0 1000000000 ⟨1, .given 1, false⟩ 7, .pollCall 0, .pollDispatch, .pollDispatch]
    let s := (ops.foldl applyOp (initSys 2 1 4 true)).s
    s.dWoken = false ∧ s.pq = [] ∧ s.pqRxWaker = true := by
  decide

example :
    let ops := [COp.call 0 1000000000 ⟨1, .given 1, false⟩ 7, .call 0 1000000000 ⟨2, .given 2, false⟩ 8,
      .pollCall 0, .pollDispatch, .pollCall 1]
    let s := (ops.foldl applyOp (initSys 1 1 4 true)).s
    s.dWoken = false ∧ s.pq.length = 1 ∧ s.inflight.length = s.maxInFlight := by
  decide

example :
    let ops := [COp.setReady false, .call 0 1000000000 ⟨1, .given 1, false⟩ 7, .pollCall 0, .pollDispatch]
    let s := (ops.foldl applyOp (initSys 1 1 4 false)).s
    s.dWoken = false ∧ s.pq.length = 1 ∧ s.t.isReadyNow = false ∧ s.t.writeWaker = true := by
  decide

end TarpcModel.Client

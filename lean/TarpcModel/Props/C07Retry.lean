import TarpcModel.Props.C20
/-!
# C07 — a nested call retried by the `Retry` stub never outlives the caller's deadline

Property theorems only.  `Retry::call(ctx, req)` (model: `Stubs.retryLoop`) is the one place between a
handler and its nested call where tarpc itself re-sends a request later than the handler asked for it.  The
deadline is an absolute instant inside `ctx`; the loop hands the same `ctx` to every attempt, so time spent in
earlier attempts only ever shortens what is left.  The same statement is checked on the real stub by the
`c20retry` family (monitor `Stubs.monRt`, rule tagged `[C07]`).
-/
namespace TarpcModel.Stubs

/-- **C07 (retry, no stretching).**  Every attempt of `Retry::call` — for every policy and every sequence of
backend results — carries the caller's deadline itself: not later (the retry cannot outlive the caller) and
not earlier. -/
theorem C07_retry_never_outlives_caller {Req Res : Type} (policy : Res → Nat → Bool) (ctx : RtCtx) (req : Req)
    (rs : List Res) :
    ∀ a ∈ (retryCall policy ctx req rs).1, a.ctx.deadline = ctx.deadline := by
  intro a ha
  rw [((C20_retry_same_context policy ctx req rs).1 a ha).1]

/-- **C07 (retry, op level, with time passing).**  In the op-level model, where each backend answer takes a
scripted amount of virtual time, an attempt recorded at time `t` still carries the deadline `now₀ + d` fixed
when the call started at `now₀`; so what is left of the caller's budget at that attempt is
`(now₀ + d) - t`, never a fresh `d`. -/
theorem C07_retry_deadline_fixed (s : RtSt) (q d tid span : Nat) (smp : Bool) :
    ∀ rec ∈ attemptRecords (rtStep s (.call q d tid span smp)).2, rec.2.2.deadline = s.now + d := by
  intro rec h
  rw [C20_retry_trace_same_context s q d tid span smp rec h]

/-- Non-vacuity: two attempts 150 ms apart, both with the caller's deadline (1 µs after the start). -/
example :
    attemptRecords (rtStep { policy := { kind := 1, max := 3 }, results := [(.err 2, 150000000), (.ok 1, 0)] }
        (.call 7 1000 5 6 true)).2 =
      [(1, 0, ⟨1000, 5, 6, true⟩), (2, 150000000, ⟨1000, 5, 6, true⟩)] := by
  decide

end TarpcModel.Stubs

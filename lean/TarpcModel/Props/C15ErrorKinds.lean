import TarpcModel.Props.C15Codec
/-!
# C15 — the 18 portable error kinds round-trip exactly (bincode)

Stated for the **generated** tables and serialized integer types (`Gen/ErrorKindTable.lean`, produced
from `tarpc/src/util/serde.rs`), with no hypothesis.  While the write table's literals are untyped
(`ekSerTy = "i32"`, zigzag-encoded) and the reader reads a `u32`, this file does **not** build — see
`Props/C15Witness.lean` for the failure as a theorem.  It builds once the source writes a `u32`.
-/
namespace TarpcModel.Bincode
open TarpcModel.Gen

/-- **C15: every portable kind arrives as itself.** -/
theorem C15_error_kinds_bincode : ∀ k ∈ portableKinds, decodeKind (encodeKind k) = some k := by
  decide

/-- Hence every kind whatsoever arrives as itself if portable and as `Other` if not. -/
theorem C15_error_kinds_total (k : String) :
    decodeKind (encodeKind k) = some (if k ∈ portableKinds then k else "Other") := by
  by_cases h : k ∈ portableKinds
  · simp only [h, ↓reduceIte]; exact C15_error_kinds_bincode k h
  · simp only [h, ↓reduceIte]; exact (C15_other_kinds_degrade k h).2.2

/-- **C15 (server → client), unconditional**: every valid `Response` is read back with its id, body and
detail exact and its error kind exact if portable, `Other` if not. -/
theorem C15_bincode_roundtrip_response_exact {T : Type} {encT : T → Bytes} {decT : Parser T}
    {PT : T → Prop} (hT : BodyCodec encT decT PT) (r : Response T) (hr : r.Valid PT) :
    decodeResponse decT (encResponse encT r) =
      some (match r.message with
        | .ok _ => r
        | .err e => r.withKind (if e.kind ∈ portableKinds then e.kind else "Other")) := by
  cases hm : r.message with
  | ok t =>
    have := C15_bincode_roundtrip_response hT r hr "" (by intro e h; rw [hm] at h; cases h)
    simpa [Response.withKind, hm] using this
  | err e =>
    exact C15_bincode_roundtrip_response hT r hr _
      (by intro e' h; rw [hm] at h; cases h; exact C15_error_kinds_total e.kind)

/-- In particular a response carrying a portable kind is delivered intact. -/
theorem C15_bincode_roundtrip_response_portable {T : Type} {encT : T → Bytes} {decT : Parser T}
    {PT : T → Prop} (hT : BodyCodec encT decT PT) (id : Nat) (e : ServerError) (hid : id < 2 ^ 64)
    (hd : strValid e.detail) (hk : e.kind ∈ portableKinds) :
    decodeResponse decT (encResponse encT { requestId := id, message := .err e }) =
      some { requestId := id, message := .err e } := by
  have := C15_bincode_roundtrip_response_exact hT { requestId := id, message := .err e } ⟨hid, hd⟩
  simpa [Response.withKind, hk] using this

/-- Exact bytes of `Response { request_id: 1, message: Err(PermissionDenied, "x") }` once the kind is
written as a `u32`. -/
example : encResponse encU64 { requestId := 1, message := .err { kind := "PermissionDenied", detail := "x" } } =
    [0x01, 0x01, 0x01, 0x01, 0x78] := by decide

end TarpcModel.Bincode

import TarpcModel.Lemmas.DelayQReach
/-!
# C05 / C06 — the timer wheel (`DelayQueue`) is complete: entries are not yielded late

Property theorems only.  `Prim/DelayQ.lean` emulates tokio-util's `DelayQueue` (hashed hierarchical timer wheel).
`Lemmas/DelayQFacts.lean` has the one-sided result (*never early*: `pollExpired_not_early`); this file has the other
side, on which the *not late* clauses of C05 (a call fails with `DeadlineExceeded` no later than …) and C06 (the
server aborts at the deadline) rest.

**Reachability.**  `Reach P ops q now` (`Lemmas/DelayQReach.lean`): `q` and the clock `now` (ns) result from running the
op list `ops` (`insert timeout val`, `remove key`, `poll`, `advance dt`) from the empty queue at clock 0; inserts and
polls happen at the current clock, the clock only grows, each `insert` satisfies the range predicate `P`, each
`remove` is for a present key.

**Range.**  The library's own check (`InRange`: `when - elapsed ≤ 2^36 - 1`, otherwise `insert` panics) is *not*
enough: `C05_delayq_late_witness`.  What is enough is `InRangeStrict`: `when < (elapsed - elapsed % 2^30) + 2^36`
(less than one rotation of the top level after the start of the top-level slot the wheel clock is in).  It is implied
by `when - elapsed ≤ 63·2^30` ms (≈ 2.14 years; `C05_delayq_strict_of_le`) and by `when < 2^36` ms (all deadlines
within ≈ 2.18 years of the queue's creation; `C05_delayq_strict_of_horizon`).

Time conventions are those of `pollExpired_not_early`: an entry `e` is due at clock `now` (ns) iff
`e.whenMs * nsPerMs ≤ now`, where `whenMs` is the deadline rounded up to a millisecond.
-/
namespace TarpcModel.DelayQ

/-- The completeness statement for the range predicate `P`: in every reachable state,
(1) a poll that reports nothing (`pending`/`none`) leaves no due entry in the queue, has stored the waker, and the
registered `Sleep` (`nextFire`) is in the future and not after any remaining deadline;
(2) if some entry is due, the poll yields an entry. -/
def DelayQCompleteFor (P : DelayQ → Nat → Nat → Prop) : Prop :=
  ∀ (ops : List DOp) (q : DelayQ) (now : Nat), Reach P ops q now →
    (∀ q' r, q.pollExpired now = (q', r) → (r = .pending ∨ r = .none) →
      (∀ e ∈ items q', now < e.whenMs * nsPerMs) ∧ q'.waker = true ∧
      (∀ e ∈ items q', ∃ t, nextFire q' = some t ∧ now < t ∧ t ≤ e.whenMs * nsPerMs)) ∧
    ((∃ e ∈ items q, e.whenMs * nsPerMs ≤ now) → ∃ e', (q.pollExpired now).2 = .expired e')

/-- The statement as first asked for: completeness whenever no `insert` panics. **False** — see
`C05_delayq_complete_statement_false`. -/
def DelayQCompleteStatement : Prop := DelayQCompleteFor InRange

/-- **Completeness of the timer wheel.**  For every op list whose inserts are in the strict range, in the state
reached: a poll that reports nothing leaves nothing due, stores the waker and leaves the `Sleep` registered no
later than the earliest remaining deadline; and if something is due, the poll yields an entry.  In particular the
internal loops (`wheelPoll`, `cascade`, `pollIdx`) never run out of their fuel on reachable states. -/
theorem C05_delayq_complete : DelayQCompleteFor InRangeStrict := by
  intro ops q now hr
  obtain ⟨hc, hk, _⟩ := reach_inv hr
  refine ⟨fun q' r h hpn => pollExpired_nothing_due hc h hpn, ?_⟩
  rintro ⟨e, he, hdue⟩
  exact pollExpired_due hc hk he hdue

/-- **Not late.**  Reachable state, poll reports nothing ⇒ no queued entry is due. -/
theorem C05_delayq_not_late (ops : List DOp) (q q' : DelayQ) (now : Nat) (r : PollRes)
    (hr : Reach InRangeStrict ops q now) (h : q.pollExpired now = (q', r)) (hpn : r = .pending ∨ r = .none) :
    ∀ e ∈ items q', now < e.whenMs * nsPerMs :=
  ((C05_delayq_complete ops q now hr).1 q' r h hpn).1

/-- **The wake-up is not late.**  Reachable state, poll reports nothing ⇒ the waker is stored, and at any later
clock `now'` at which some remaining entry is due, `nextFire` has been reached — so `onAdvance` (which wakes the
owner iff `nextFire ≤ now' && waker`) wakes the owner no later than the earliest deadline. -/
theorem C05_delayq_wakeup_not_late (ops : List DOp) (q q' : DelayQ) (now now' : Nat) (r : PollRes)
    (hr : Reach InRangeStrict ops q now) (h : q.pollExpired now = (q', r)) (hpn : r = .pending ∨ r = .none)
    (e : DqEntry) (he : e ∈ items q') (hdue : e.whenMs * nsPerMs ≤ now') :
    ∃ t, nextFire q' = some t ∧ (decide (t ≤ now') && q'.waker) = true := by
  obtain ⟨_, hw, hf⟩ := (C05_delayq_complete ops q now hr).1 q' r h hpn
  obtain ⟨t, ht, _, hle⟩ := hf e he
  exact ⟨t, ht, by simp [hw]; omega⟩

/-- **The `Sleep` is exact enough.**  Reachable state, poll reports nothing and entries remain ⇒ `nextFire` is
`some t` with `now < t ≤ whenMs·10^6` for every remaining entry (not yet fired, not after the earliest deadline). -/
theorem C05_delayq_nextFire_le (ops : List DOp) (q q' : DelayQ) (now : Nat) (r : PollRes)
    (hr : Reach InRangeStrict ops q now) (h : q.pollExpired now = (q', r)) (hpn : r = .pending ∨ r = .none)
    (e : DqEntry) (he : e ∈ items q') : ∃ t, nextFire q' = some t ∧ now < t ∧ t ≤ e.whenMs * nsPerMs :=
  ((C05_delayq_complete ops q now hr).1 q' r h hpn).2.2 e he

/-- **Due ⇒ yielded, and what is yielded is due.**  In a reachable state, the poll yields an entry iff some queued
entry is due; the yielded entry is itself due and was in the queue (it need not be the earliest one). -/
theorem C05_delayq_expired_iff_due (ops : List DOp) (q : DelayQ) (now : Nat)
    (hr : Reach InRangeStrict ops q now) :
    (∃ e', (q.pollExpired now).2 = .expired e') ↔ ∃ e ∈ items q, e.whenMs * nsPerMs ≤ now := by
  obtain ⟨hc, hk, hs⟩ := reach_inv hr
  constructor
  · rintro ⟨e', he'⟩
    have hp : q.pollExpired now = ((q.pollExpired now).1, .expired e') := Prod.ext rfl he'
    have hdue := pollExpired_not_early hp hs
    obtain ⟨e, he, hce⟩ := mem_cores_iff.1 (pollExpired_expired hp hk).1
    have hw : e.whenMs = e'.whenMs := by
      have := congrArg (fun c => c.2.2) hce; simpa [core] using this
    exact ⟨e, he, by rw [hw]; exact hdue⟩
  · rintro ⟨e, he, hdue⟩
    exact pollExpired_due hc hk he hdue

/-- **Repeated polling returns all due entries.**  In a reachable state, polling until the queue reports nothing —
at most `len` times — leaves no due entry; the queue's content (as `(key, value, whenMs)` triples) is exactly
what remains plus what came out; and everything that came out was due. -/
theorem C05_delayq_drain_all_due (ops : List DOp) (q : DelayQ) (now : Nat) (hr : Reach InRangeStrict ops q now) :
    (∀ e ∈ items (drain q.len q now).1, now < e.whenMs * nsPerMs) ∧
    (∀ c, c ∈ q.cores ↔ c ∈ (drain q.len q now).1.cores ∨ c ∈ (drain q.len q now).2.map core) ∧
    (∀ e ∈ items q, e.whenMs * nsPerMs ≤ now → core e ∈ (drain q.len q now).2.map core) := by
  obtain ⟨hc, hk, _⟩ := reach_inv hr
  obtain ⟨_, _, h3, h4⟩ := drain_complete now q.len q hc hk (Nat.le_refl _)
  refine ⟨h3, h4, ?_⟩
  intro e he hdue
  rcases (h4 (core e)).1 (mem_cores_iff.2 ⟨e, he, rfl⟩) with h | h
  · exfalso
    obtain ⟨e', he', hce⟩ := mem_cores_iff.1 h
    have := h3 e' he'
    have hw : e'.whenMs = e.whenMs := by
      have := congrArg (fun c => c.2.2) hce; simpa [core] using this
    rw [hw] at this; omega
  · exact h

/-- The invariant behind all of the above holds in every reachable state: two-sided wheel invariant (`Complete`:
every wheel entry is filed in the slot its deadline hashes to within its level's window relative to `wheelElapsed`,
strictly in the future at levels ≥ 1; the `Sleep` exists iff needed and is not after any wheel entry; the `expired`
stack holds only elapsed entries), distinct keys, and the one-sided invariant with
`wheelElapsed, wheelNow ≤ now`. -/
theorem C05_delayq_invariant (ops : List DOp) (q : DelayQ) (now : Nat) (hr : Reach InRangeStrict ops q now) :
    Complete q ∧ KeysOk q ∧ Sound q now := reach_inv hr

/-- **Fuel adequacy.**  In a reachable state the fuel constants of the emulation are never exhausted: giving
`Wheel::poll` (at any poll time `t`) or the `poll_idx` loop of `pollExpired` any amount `k` of additional fuel does not
change the result, and the inner `cascade` (fuel `entries.length + 1`) empties the slot it is applied to.  The bound
behind it: every round of either loop moves at least one entry one level down, and the potential
`Σ level ≤ 5 · entries.length` (`pot`, `potL_le`) bounds the number of such moves; `wheelFuel = 8 · (entries.length + 1)`. -/
theorem C05_delayq_fuel_adequate (ops : List DOp) (q : DelayQ) (now : Nat) (hr : Reach InRangeStrict ops q now)
    (k t : Nat) :
    wheelPoll (wheelFuel q + k) q t = wheelPoll (wheelFuel q) q t ∧
    pollIdx (wheelFuel { q with waker := true } + 8 + k) { q with waker := true } now =
      pollIdx (wheelFuel { q with waker := true } + 8) { q with waker := true } now ∧
    (∀ ex, nextExpiration q = some ex → ex.level ≠ 0 →
      ∀ x ∈ (cascade (q.entries.length + 1) q ex.level ex.slot).entries, atSlot ex.level ex.slot x = false) := by
  obtain ⟨hc, _, _⟩ := reach_inv hr
  have hs0 : WStrict { q with waker := true } := hc.strict.of_eq rfl rfl
  refine ⟨wheelPoll_fuel_irrel t _ q (hc.strict.loop t) (wheelFuel_ok hc.strict) k,
    pollIdx_fuel_irrel now _ _ hs0 ⟨hc.dok.dsome, hc.dok.dle⟩ (pollFuel_ok hs0) k, ?_⟩
  intro ex _ hl0
  exact cnt_eq_zero (cascade_clears ex.level ex.slot (by omega) _ q
    (Nat.le_trans (cnt_le_len _ _ _) (Nat.le_succ _)))

/-- the strict range implies the library's range: such inserts do not panic -/
theorem C05_delayq_strict_no_panic (q : DelayQ) (now timeout val : Nat) (h : InRangeStrict q now timeout) :
    (q.insert now timeout val).2.1 ≠ .panic := by
  have h' := h.inRange
  unfold InRange whenOf at h'
  unfold insert
  simp only
  split
  · next hp =>
    simp only [Bool.and_eq_true, decide_eq_true_eq] at hp
    omega
  · (repeat' split) <;> simp

/-- deadlines at most `63·2^30` ms (≈ 2.14 years) after the wheel clock are in the strict range -/
theorem C05_delayq_strict_of_le (q : DelayQ) (now timeout : Nat)
    (h : max (ceilMs (now + timeout)) q.wheelElapsed - q.wheelElapsed ≤ 63 * 2 ^ 30) :
    InRangeStrict q now timeout :=
  inRangeStrict_of_le q (by simpa [whenOf] using h)

/-- deadlines before `2^36` ms (≈ 2.18 years after the queue's creation) are in the strict range -/
theorem C05_delayq_strict_of_horizon (q : DelayQ) (now timeout : Nat) (h : ceilMs (now + timeout) < 2 ^ 36) :
    InRangeStrict q now timeout :=
  inRangeStrict_of_horizon q (by simpa using h)

/-- … hence completeness for every op list all of whose deadlines are before `2^36` ms. -/
theorem C05_delayq_complete_of_horizon :
    DelayQCompleteFor (fun _ now timeout => ceilMs (now + timeout) < 2 ^ 36) := by
  intro ops q now hr
  exact C05_delayq_complete ops q now (hr.mono (fun q n t h => C05_delayq_strict_of_horizon q n t h))

/-! ### the finding: an entry that is due but not returned -/

/-- All inserts pass the library's range check (no panic), yet the last poll misses a due entry.  Times in ms since
the queue's creation (`1 ms = 10^6` clock units):

* `t = 0`: `insert(v0, 64 ms)`; advance to `t = 64`; `poll_expired` yields `v0` — the wheel clock (`elapsed`) is now 64,
  i.e. *inside* slot 0 of the top level (slots of `2^30` ms);
* `t = 64`: `insert(v1, 2^36 - 62 ms)` → deadline `2^36 + 2` ms, within the range (`2^36 + 2 - 64 ≤ 2^36 - 1`),
  filed in top-level slot 0 (one rotation ahead);
* `t = 64`: `insert(v2, 2^30 - 57 ms)` → deadline `2^30 + 7` ms, top-level slot 1;
* advance to `t = 2^30 + 7` ms (≈ 12.4 days). -/
def lateWitnessOps : List DOp :=
  [.insert (64 * nsPerMs) 0, .advance (64 * nsPerMs), .poll,
   .insert ((2 ^ 36 - 62) * nsPerMs) 1, .insert ((2 ^ 30 - 57) * nsPerMs) 2, .advance ((2 ^ 30 - 57) * nsPerMs)]

/-- what the witness shows, as a decidable check on the outcome of the run -/
def lateCheck : Option (DelayQ × Nat) → Bool
  | none => false
  | some (q, now) =>
    (q.pollExpired now).2 == .pending &&
    (items q).any (fun e => e.val == 2 && decide (e.whenMs * nsPerMs ≤ now)) &&
    nextFire (q.pollExpired now).1 == some ((2 ^ 36 + 2 ^ 30) * nsPerMs)

/-- **Finding (tokio-util `DelayQueue`, top wheel level).**  After `lateWitnessOps` — every insert within the
library's range — the clock is `2^30 + 7` ms, entry `v2` (deadline `2^30 + 7` ms) is due, but the poll returns
`pending` and re-arms the `Sleep` for `2^36 + 2^30` ms (≈ 2.2 years): `v2` is yielded ≈ 2.2 years late.
Cause: `Level::next_expiration` picks the first occupied slot in rotation order starting at the slot of `elapsed`
*inclusive*; at the top level that slot can hold an entry of the *next* rotation (here `v1`), whose deadline is then
(correctly) computed as one rotation ahead — and taken as the wheel's next expiration although slot 1 (`v2`) comes
`2^36 - 2^30` ms earlier.  `insert`'s range check (`when - elapsed ≤ 2^36 - 1`) accepts such an entry whenever
`elapsed` is not at the start of a top-level slot; `when - (elapsed - elapsed % 2^30) < 2^36` would exclude it.
Replayed on the real tokio-util 0.7.19 (`DelayQueue<u64>`, paused tokio clock, the five calls above): the last
`poll_expired` returns `Pending` with `v2` due, and still `Pending` one day later.  (It needs a timeout of more than
`2^36 - 2^30` ms ≈ 2.14 years beyond the wheel clock in the queue; tarpc clamps its timeouts to one year, so its own
queues stay in the strict range (`C05_delayq_strict_of_le`) as long as the known lag of `elapsed` behind the real
clock stays below ≈ 1.14 years.) -/
theorem C05_delayq_late_witness :
    ∃ q now, Reach InRange lateWitnessOps q now ∧ (q.pollExpired now).2 = .pending ∧
      (∃ e ∈ items q, e.whenMs * nsPerMs ≤ now) ∧
      nextFire (q.pollExpired now).1 = some ((2 ^ 36 + 2 ^ 30) * nsPerMs) := by
  have h : lateCheck (runOps InRange lateWitnessOps) = true := by decide
  cases hrun : runOps InRange lateWitnessOps with
  | none => rw [hrun] at h; cases h
  | some c =>
    obtain ⟨q, now⟩ := c
    rw [hrun] at h
    simp only [lateCheck, Bool.and_eq_true, beq_iff_eq, List.any_eq_true, decide_eq_true_eq] at h
    obtain ⟨⟨h1, e, he, _, hdue⟩, h3⟩ := h
    exact ⟨q, now, reach_of_runOps hrun, h1, ⟨e, he, hdue⟩, h3⟩

/-- **The completeness statement under the library's own range check is false.** -/
theorem C05_delayq_complete_statement_false : ¬ DelayQCompleteStatement := by
  intro hst
  obtain ⟨q, now, hr, hp, hdue, _⟩ := C05_delayq_late_witness
  obtain ⟨e', he'⟩ := (hst lateWitnessOps q now hr).2 hdue
  rw [hp] at he'
  cases he'

/-- The witness run is rejected by the strict range (its second insert is outside). -/
example : runOps InRangeStrict lateWitnessOps = none := by decide

/-! ### the hypotheses are satisfiable: small concrete runs -/

/-- what the poll at the end of a run returns -/
def pollAfter (ops : List DOp) : Option (PollRes × Option Nat) :=
  (runOps InRangeStrict ops).map (fun c => ((c.1.pollExpired c.2).2, nextFire (c.1.pollExpired c.2).1))

/-- level 0: two timers 5 ms and 3 ms, polled at 2 ms: nothing due, the `Sleep` is at 3 ms. -/
example : pollAfter [.insert (5 * nsPerMs) 1, .insert (3 * nsPerMs) 2, .advance (2 * nsPerMs)] =
    some (.pending, some (3 * nsPerMs)) := by decide

/-- … polled at 4 ms: the 3 ms timer comes out; the `Sleep` moves to 5 ms. -/
example : pollAfter [.insert (5 * nsPerMs) 1, .insert (3 * nsPerMs) 2, .advance (4 * nsPerMs)] =
    some (.expired { key := 1, val := 2, whenMs := 3, level := 0, seq := 1 }, some (5 * nsPerMs)) := by decide

/-- cascades: a 5000 ms timer (level 2) polled at 4999.9 ms is pending with the `Sleep` at its exact deadline
(after cascading down to level 0), and comes out at 5000 ms. -/
example : pollAfter [.insert (5000 * nsPerMs) 7, .advance (4999 * nsPerMs + 900000)] =
    some (.pending, some (5000 * nsPerMs)) := by decide

example : pollAfter [.insert (5000 * nsPerMs) 7, .advance (4999 * nsPerMs + 900000), .poll, .advance 100000] =
    some (.expired { key := 0, val := 7, whenMs := 5000, level := 0, seq := 2 }, none) := by decide

/-- lag of the wheel clock: the 70 ms timer comes out at 70 ms while `wheelElapsed` stays at 64; a 10 ms timer is
then inserted (key 2, `Sleep` moved to 80 ms) and removed again (`Sleep` re-armed for 100 ms by `remove`); the poll at
200 ms yields the 100 ms timer. -/
example : pollAfter [.insert (70 * nsPerMs) 1, .insert (100 * nsPerMs) 2, .advance (70 * nsPerMs), .poll,
      .insert (10 * nsPerMs) 3, .remove 2, .advance (130 * nsPerMs)] =
    some (.expired { key := 1, val := 2, whenMs := 100, level := 0, seq := 2 }, none) := by decide

/-- repeated polling: three timers, two of them due at 10 ms; `drain` returns exactly those two. -/
example :
    (runOps InRangeStrict [.insert (10 * nsPerMs) 1, .insert (4000 * nsPerMs) 2, .insert (7 * nsPerMs) 3,
      .advance (10 * nsPerMs)]).map (fun c => ((drain c.1.len c.1 c.2).2.map core, (drain c.1.len c.1 c.2).1.cores)) =
    some ([(2, 3, 7), (0, 1, 10)], [(1, 2, 4000)]) := by decide

end TarpcModel.DelayQ

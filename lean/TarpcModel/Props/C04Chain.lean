import TarpcModel.Lemmas.ChainMon
/-!
# C04 (second sentence) — abandoning the head of a service chain cancels every handler down the chain

"Because an aborted handler's own outstanding calls are dropped, abandoning a call at the head of a
chain of services cancels every unfinished handler down the chain."

Property theorems only; the model is `TarpcModel.Chain` (`Chain.lean`), for every chain depth, with
and without a per-channel request limit, after every op sequence.
-/
namespace TarpcModel.Chain

/-- **C04 (cascade).**  In any reachable state of a chain of any depth, with or without a request
limit: if `abandon c` takes effect (is not answered `noop`), then after the next `run` call `c` is
dead and its hop list is the old one with every running handler dropped — the cancel written at
that hop carrying that hop's request context — and everything else unchanged.  The proof is by
induction over the hops (`cascade_live_eq`) on the invariant that the running handlers of an active
call form a prefix of the chain (`Live`). -/
theorem C04_cascade (depth : Nat) (limit : Option Nat) (ops : List Op) (c : Nat)
    (s : St) (hs : s = (run (init depth limit) ops).1)
    (cl : Call) (hfind : findCall c s.calls = some cl)
    (heff : (step s (.abandon c)).2 = []) :
    ∃ cl', findCall c (step (step s (.abandon c)).1 .run).1.calls = some cl' ∧
      cl'.phase = .dead ∧ cl'.hops = cl.hops.map dropRunning := by
  have hinv : Inv s := hs ▸ run_inv depth limit ops
  have hcl := hinv.calls cl (findCall_some hfind).1
  simp only [step, hfind] at heff ⊢
  cases hph : abandonPhase s cl with
  | none => rw [hph] at heff; simp at heff
  | some ph =>
    simp only []
    have h1 : findCall c (updCall c (fun cl => { cl with phase := ph }) s.calls) =
        some { cl with phase := ph } := by
      rw [findCall_updPhase, hfind]; simp
    obtain ⟨cnt', k', h2⟩ := findCall_runCalls s.depth s.limit
      (countInFlight1 (updCall c (fun cl => { cl with phase := ph }) s.calls)) s.next c _ _ h1
    refine ⟨_, h2, ?_⟩
    simp only [abandonPhase] at hph
    split at hph
    · next hf =>
      injection hph with hph
      subst hph
      refine ⟨by simp [runCall], ?_⟩
      simp only [runCall]
      exact (map_dropRunning_blank (hcl.fresh hf)).symm
    · next hw =>
      split at hph
      · simp at hph
      · injection hph with hph
        subst hph
        exact ⟨by simp [runCall], by simp only [runCall]; exact cascade_live_eq _ _ _ (hcl.live (Or.inl hw))⟩
    · simp at hph

/-- **C04 (cascade), as the property words it:** after `abandon c` followed by `run`, no handler of
call `c` at any hop is running; the handlers that were running are now dropped and the others were
never started. -/
theorem C04_cascade_none_running (depth : Nat) (limit : Option Nat) (ops : List Op) (c : Nat)
    (s : St) (hs : s = (run (init depth limit) ops).1)
    (cl : Call) (hfind : findCall c s.calls = some cl)
    (heff : (step s (.abandon c)).2 = []) :
    ∃ cl', findCall c (step (step s (.abandon c)).1 .run).1.calls = some cl' ∧
      ∀ hp ∈ cl'.hops, hp.h = .dropped ∨ hp.h = .notStarted := by
  obtain ⟨cl', h1, h2, _⟩ := C04_cascade depth limit ops c s hs cl hfind heff
  have hinv : Inv (step (step s (.abandon c)).1 .run).1 :=
    step_inv _ _ (step_inv _ _ (hs ▸ run_inv depth limit ops))
  exact ⟨cl', h1, (hinv.calls cl' (findCall_some h1).1).dead h2⟩

/-- **C04 (cascade), frame.**  Abandoning `c` and running leaves every other call whose chain is
waiting exactly as it was: none of its handlers is dropped, no cancel is written for it. -/
theorem C04_cascade_frame (depth : Nat) (limit : Option Nat) (ops : List Op) (c c' : Nat) (hne : c' ≠ c)
    (s : St) (_hs : s = (run (init depth limit) ops).1)
    (cl' : Call) (hfind : findCall c' s.calls = some cl') (hw : cl'.phase = .waiting) :
    findCall c' (step (step s (.abandon c)).1 .run).1.calls = some cl' := by
  have h1 : findCall c' (step s (.abandon c)).1.calls = some cl' := by
    rw [step_abandon_other s hne, hfind]
  simp only [step] at h1 ⊢
  obtain ⟨cnt', k', h2⟩ := findCall_runCalls _ _ _ _ c' _ _ h1
  rw [h2]
  simp [runCall, hw]

/-- **C04 (cascade), monitor form.**  The monitor of the `chain` family — which rejects a trace in
which, at the end of a `run`, a handler of an abandoned call is still running, or in which a handler
of a call that was not abandoned is dropped — accepts every trace of the model, for every depth,
limit and op sequence.  (The same monitor carries the C18 checks; see `Props/C18Chain.lean`.) -/
theorem C04_chain_monitor_accepts (depth : Nat) (limit : Option Nat) (ops : List Op) :
    (mon depth (runTrace (init depth limit) ops).2).ok = true :=
  (foldl_monPair_coupled _ _ ops (init_inv depth limit) (monInit_coupled depth limit)).ok

/-- Non-vacuity and the shape of the cascade: depth 3, two concurrent calls with different trace
ids; call 0 is stopped at hop 2 and abandoned there (mid-chain): hops 1 and 2 are cancelled and
dropped, hop 3 was never reached; call 1 (at hop 3) is untouched and then finishes. -/
example :
    (run (init 3 none)
      [.start 0 ⟨5, .given 1, true⟩ 1000000000 2, .start 1 ⟨6, .given 2, false⟩ 2000000000 3, .run,
       .abandon 0, .run, .finish 1, .run]).2 =
    [.wireReq 1 0 ⟨5, .fresh 0, true⟩ 1000000000, .handler 1 0 ⟨5, .fresh 1, true⟩ 1000000000,
     .wireReq 2 0 ⟨5, .fresh 2, true⟩ 1000000000, .handler 2 0 ⟨5, .fresh 3, true⟩ 1000000000,
     .wireReq 1 1 ⟨6, .fresh 4, false⟩ 2000000000, .handler 1 1 ⟨6, .fresh 5, false⟩ 2000000000,
     .wireReq 2 1 ⟨6, .fresh 6, false⟩ 2000000000, .handler 2 1 ⟨6, .fresh 7, false⟩ 2000000000,
     .wireReq 3 1 ⟨6, .fresh 8, false⟩ 2000000000, .handler 3 1 ⟨6, .fresh 9, false⟩ 2000000000,
     .wireCancel 1 0 ⟨5, .fresh 0, true⟩, .dropped 1 0, .wireCancel 2 0 ⟨5, .fresh 2, true⟩, .dropped 2 0,
     .completed 3 1, .completed 2 1, .completed 1 1, .outcomeOk 1 2103] := by
  decide

/-- With a limit of one request per channel the second concurrent call is refused at hop 1 and
starts nothing downstream; abandoning the first one cascades as without a limit. -/
example :
    (run (init 2 (some 1))
      [.start 0 ⟨5, .given 1, true⟩ 1000000000 2, .start 1 ⟨6, .given 2, false⟩ 2000000000 2, .run,
       .abandon 0, .run]).2 =
    [.wireReq 1 0 ⟨5, .fresh 0, true⟩ 1000000000, .handler 1 0 ⟨5, .fresh 1, true⟩ 1000000000,
     .wireReq 2 0 ⟨5, .fresh 2, true⟩ 1000000000, .handler 2 0 ⟨5, .fresh 3, true⟩ 1000000000,
     .wireReq 1 1 ⟨6, .fresh 4, false⟩ 2000000000, .outcomeRefused 1,
     .wireCancel 1 0 ⟨5, .fresh 0, true⟩, .dropped 1 0, .wireCancel 2 0 ⟨5, .fresh 2, true⟩, .dropped 2 0] := by
  decide

end TarpcModel.Chain

import TarpcModel.Trace.SpanDeadline
import TarpcModel.Gen.Flags
/-!
# C16, subscriber clause: rendering the deadline into the RPC span never panics

Property theorems only.  `Gen.spanDeadlineChecked` / `Gen.spanDeadlineCapSecs` are regenerated from
`tarpc/src/{util,client,server}.rs` on every run; the theorem is about what the source says now.  The `cli` / `srv`
correspondence families run the real endpoints with a formatting and with an OpenTelemetry subscriber installed
(`sub=1|2`) on deadlines up to 2^63 − 2^33 s away, under `catch_unwind`.
-/
namespace TarpcModel.Span

/-- The rendering as the current source performs it. -/
def spanDeadline (nowUnix remaining : Nat) : Out :=
  spanDeadlineWith Gen.spanDeadlineChecked Gen.spanDeadlineCapSecs nowUnix remaining

/-- **C16 (span field).** Whatever deadline a peer or a local caller supplies (any `remaining`, without bound), at
any wall-clock time, the `rpc.deadline` field is rendered: no panic in the task that creates the
span. -/
theorem C16_span_deadline_never_panics (nowUnix remaining : Nat) :
    ∃ t, spanDeadline nowUnix remaining = .rendered t ∧ t ≤ rfc3339Max := by
  have hc : Gen.spanDeadlineChecked = true := by decide
  have hcap : Gen.spanDeadlineCapSecs ≠ 0 ∧ Gen.spanDeadlineCapSecs ≤ rfc3339Max := by decide
  unfold spanDeadline spanDeadlineWith
  simp only [hc, if_true, if_neg hcap.1]
  refine ⟨_, if_pos ?_, ?_⟩ <;> (split <;> omega)

/-- Deadlines that are representable are rendered exactly (the cap changes nothing up to its own value). -/
theorem C16_span_deadline_exact (nowUnix remaining : Nat) (h : nowUnix + remaining ≤ Gen.spanDeadlineCapSecs) :
    spanDeadline nowUnix remaining = .rendered (nowUnix + remaining) := by
  have hc : Gen.spanDeadlineChecked = true := by decide
  have hcap : Gen.spanDeadlineCapSecs ≠ 0 ∧ Gen.spanDeadlineCapSecs ≤ rfc3339Max := by decide
  have hmax : rfc3339Max ≤ systemTimeMax := by decide
  unfold spanDeadline spanDeadlineWith
  simp only [hc, if_true, if_neg hcap.1]
  have h1 : nowUnix + remaining ≤ systemTimeMax := by omega
  have h2 : min (nowUnix + remaining) Gen.spanDeadlineCapSecs = nowUnix + remaining := by omega
  rw [if_pos h1, h2, if_pos (by omega)]

/-- Why the check and the cap are needed (finding F8): the unchecked, uncapped rendering panics for a deadline
2^38 s away (formatting) and for one 2^63 − 2^30 s away (overflow) at today's wall-clock time; checking the sum
without capping the result still panics in the formatter. -/
theorem C16_span_deadline_witness :
    spanDeadlineWith false 0 1790000000 (2 ^ 38) = .panic "a formatting trait implementation returned an error" ∧
    spanDeadlineWith false 0 1790000000 (2 ^ 63 - 2 ^ 30) = .panic "overflow when adding duration to instant" ∧
    spanDeadlineWith true 0 1790000000 (2 ^ 38) = .panic "a formatting trait implementation returned an error" := by
  decide

end TarpcModel.Span

import TarpcModel.Lemmas.ClientFlowSink
/-
C14 (client half): the request dispatch honours the `Sink` contract of its transport.

The instrumented transport `SimT` records every contract violation by its owner in `t.violations`
(and the model surfaces each as an `Obs.tViolation`).  The theorems quantify over all configurations
and all op scripts.
-/
namespace TarpcModel.Client
open Flow

/-- **C14 (1), write only after readiness.**  In every reachable state the transport has recorded no
`start_send` that was not preceded by `poll_ready → Ready(Ok)`, and no such violation is ever observed. -/
theorem C14_write_only_after_ready (m b c : Nat) (coupled : Bool) (ops : List COp) :
    "send-without-ready" ∉ (ops.foldl applyOp (initSys m b c coupled)).s.t.violations ∧
    ∀ ep, CEv.obs (.tViolation ep "send-without-ready") ∉ trace (initSys m b c coupled) ops := by
  refine ⟨fun hm => ?_, fun ep hm => ?_⟩
  · exact (foldl_applyOp_inv ops (initSys_inv m b c coupled)).base.sv _ hm (by decide)
  · exact trace_no_send_violation ops (initSys_inv m b c coupled) ep _ hm (by decide)

/-- **C14 (2), silent after failure or close.**  The dispatch never writes to the transport after the
transport reported a failure (`poll_ready / poll_flush / poll_close → Err`) nor after `poll_close → Ready(Ok)`. -/
theorem C14_silent_after_failure_or_close (m b c : Nat) (coupled : Bool) (ops : List COp) :
    ("send-after-failure" ∉ (ops.foldl applyOp (initSys m b c coupled)).s.t.violations ∧
     "send-after-close" ∉ (ops.foldl applyOp (initSys m b c coupled)).s.t.violations) ∧
    ∀ ep, CEv.obs (.tViolation ep "send-after-failure") ∉ trace (initSys m b c coupled) ops ∧
          CEv.obs (.tViolation ep "send-after-close") ∉ trace (initSys m b c coupled) ops := by
  have hi := foldl_applyOp_inv ops (initSys_inv m b c coupled)
  refine ⟨⟨fun hm => hi.base.sv _ hm (by decide), fun hm => hi.base.sv _ hm (by decide)⟩, fun ep => ⟨fun hm => ?_, fun hm => ?_⟩⟩
  · exact trace_no_send_violation ops (initSys_inv m b c coupled) ep _ hm (by decide)
  · exact trace_no_send_violation ops (initSys_inv m b c coupled) ep _ hm (by decide)

/-- **C14 (2), strengthened: nothing at all after a failure.**  After the transport reported a failure the
dispatch makes no further call on its sink: neither `poll_ready`, `start_send`, `poll_flush` nor `poll_close`. -/
theorem C14_no_use_after_failure (m b c : Nat) (coupled : Bool) (ops : List COp) (w : String)
    (hw : w ∈ ["ready-after-failure", "send-after-failure", "flush-after-failure", "close-after-failure"]) :
    w ∉ (ops.foldl applyOp (initSys m b c coupled)).s.t.violations ∧
    ∀ ep, CEv.obs (.tViolation ep w) ∉ trace (initSys m b c coupled) ops := by
  have hs : w ∈ sendViols := by
    simp only [List.mem_cons, List.not_mem_nil, or_false] at hw
    rcases hw with rfl | rfl | rfl | rfl <;> decide
  exact ⟨fun hm => (foldl_applyOp_inv ops (initSys_inv m b c coupled)).base.sv _ hm hs,
    fun ep hm => trace_no_send_violation ops (initSys_inv m b c coupled) ep _ hm hs⟩

/-- The full contract: the transport never records any violation.  Beyond `C14_no_violation_partial` this needs
that `poll_ready / poll_flush / poll_close` are not called again after `poll_close → Ready(Ok)`; that is the case
iff the in-flight table is empty whenever both queues report closed, which needs the ownership invariant
relating in-flight entries to live calls / queued cancellations (property C01 / C03 territory) and is not proved
here.  No counterexample is known (none in 180 000 random scripts). -/
def C14NoViolationStatement : Prop :=
  ∀ (m b c : Nat) (coupled : Bool) (ops : List COp), (ops.foldl applyOp (initSys m b c coupled)).s.t.violations = []

/-- What is proved of `C14NoViolationStatement`: six of the nine kinds of violation never occur (all but
`ready-after-close`, `flush-after-close`, `close-after-close`), for either `ensure_writeable` variant. -/
theorem C14_no_violation_partial (el : Bool) (m b c : Nat) (coupled : Bool) (ops : List COp)
    (w : String) (hw : w ∈ sendViols) :
    w ∉ (ops.foldl applyOp (initSysWith el m b c coupled)).s.t.violations ∧
    ∀ ep, CEv.obs (.tViolation ep w) ∉ trace (initSysWith el m b c coupled) ops :=
  ⟨fun hm => (foldl_applyOp_inv ops (initSysWith_inv el m b c coupled)).base.sv _ hm hw,
   fun ep hm => trace_no_send_violation ops (initSysWith_inv el m b c coupled) ep _ hm hw⟩

/-- The mechanism behind (2): once the transport has reported a failure the dispatch has a terminal error,
and from then on a poll only runs the shutdown path, which makes no transport call. -/
theorem C14_failure_is_terminal (m b c : Nat) (coupled : Bool) (ops : List COp) :
    (ops.foldl applyOp (initSys m b c coupled)).s.t.failed = true →
    (ops.foldl applyOp (initSys m b c coupled)).s.termErr.isSome = true :=
  (foldl_applyOp_inv ops (initSys_inv m b c coupled)).ft

theorem C14_terminal_poll_is_silent (s : St) (now : Nat) (a : Activity) (h : s.termErr = some a) :
    (pollDispatchCore s now).1.t = s.t ∧
    (pollDispatchCore s now).1.obs.filter isT = s.obs.filter isT := by
  unfold pollDispatchCore
  simp only [h]
  exact ⟨shutDown_t _ _, shutDown_tObs _ _⟩

/-! ### (4) flush before idle -/

/-- **C14 (4), flush before idle.**  When a dispatch poll goes back to waiting (`Pending`: the future is not done)
in good health (no terminal error, not poisoned by a spin / panic), every message written in this or an earlier
poll has been flushed onto the wire, or a flush is in progress with the dispatch's waker registered. -/
theorem C14_flush_before_idle (s : St) (now : Nat)
    (hrun : (s.dDropped || s.done.isSome || s.poisoned) = false)
    (hd : (pollDispatchKeep s now).done = none) (hp : (pollDispatchKeep s now).poisoned = false)
    (ht : (pollDispatchKeep s now).termErr = none) :
    (pollDispatchKeep s now).t.buffered = [] ∨ (pollDispatchKeep s now).t.writeWaker = true := by
  have hcore := pollDispatchCore_pending_flushed { s with dWoken := false } now
  rw [pollDispatchKeep_eq, if_neg (by simp [hrun])] at hd hp ht ⊢
  rcases hc : pollDispatchCore { s with dWoken := false } now with ⟨s1, r⟩
  rw [hc] at hd hp ht hcore
  simp only at hd hp ht hcore ⊢
  have hr : r = .pending := by
    cases r <;> simp [keepDone] at hd ⊢
  subst hr
  simp only [keepDone] at hd hp ht ⊢
  unfold keepFinish at hp ht ⊢
  split at hp
  · cases hp
  · rename_i hs
    rw [if_neg hs] at ht ⊢
    split at hp
    · rename_i hpo; rw [hpo] at hp; cases hp
    · rename_i hpo
      rw [if_neg hpo] at ht ⊢
      exact hcore rfl ht (by simpa using hpo)

/-- The same for the executor's `pollDispatch` (which only adds dropping a completed future). -/
theorem C14_flush_before_idle' (s : St) (now : Nat)
    (hrun : (s.dDropped || s.done.isSome || s.poisoned) = false)
    (hd : (pollDispatchKeep s now).done = none) (hp : (pollDispatchKeep s now).poisoned = false)
    (ht : (pollDispatchKeep s now).termErr = none) :
    pollDispatch s now = pollDispatchKeep s now ∧
    ((pollDispatch s now).t.buffered = [] ∨ (pollDispatch s now).t.writeWaker = true) := by
  have e : pollDispatch s now = pollDispatchKeep s now := by
    rw [pollDispatch_eq, hd]; rfl
  exact ⟨e, by rw [e]; exact C14_flush_before_idle s now hrun hd hp ht⟩

/-! ### (3) no spin -/

/-- With the fixed `ensure_writeable` (`ensureLoop = false`) that function never reports a spin and observes none. -/
theorem C14_ensureWriteable_no_spin (s : St) (hel : s.ensureLoop = false) :
    (ensureWriteable s).2 ≠ .spin ∧ (ensureWriteable s).1.obs.filter isSpinObs = s.obs.filter isSpinObs := by
  refine ⟨?_, (ensureWriteable_mstep s hel).spin⟩
  unfold ensureWriteable; rw [hel]
  refine ensureOnce_cases (motive := fun p => p.2 ≠ .spin) s ?_ ?_ ?_ ?_ ?_ <;> intros <;> try simp
  rename_i r _ _ _; cases r <;> simp [readyEW]

/-- `run`'s fuel always suffices: `runFuel s = runMeasure s + 4`, where `runMeasure s` (inbound items + 2 × queued
requests + queued cancellations + armed timers) bounds the number of iterations of `run` that loop — every such
iteration consumes at least one unit of it (`run_no_spin`).  (The real loop has no bound; the fuel is a model
device.) -/
theorem C14_run_fuel_suffices (s : St) : runMeasure s < runFuel s := runMeasure_lt_runFuel s

/-- **The loop of `poll_expired` ends by itself.**  `in_flight_requests.poll_expired` loops (`continue`) when it
re-arms a clamped deadline timer; every re-arm takes at least 1 ns off the entry's `deadline_remainder`, so the loop
runs at most `expiredFuel s - 1` = (sum of the remainders) times more than once: giving the model's loop more fuel
than `expiredFuel s` changes nothing — it never ends because the fuel ran out.  Holds in every state. -/
theorem C14_poll_expired_fuel_suffices (s : St) (now fuel : Nat) (h : expiredFuel s ≤ fuel) :
    pollExpiredLoop fuel s now = pollExpired s now :=
  pollExpired_fuel_adequate s now fuel h

/-- **C14 (3), no spin, one poll.**  With the fixed `ensure_writeable`, a dispatch poll started in *any* state
observes no `Obs.spin`. -/
theorem C14_no_spin_poll (s : St) (now : Nat) (hel : s.ensureLoop = false) :
    (pollDispatch s now).obs.filter isSpinObs = s.obs.filter isSpinObs :=
  pollDispatch_no_spin s now hel

/-- The statement asked for: with the current `ensure_writeable`, no reachable dispatch poll observes a spin. -/
def C14NoSpinStatement : Prop :=
  ∀ (m b c : Nat) (coupled : Bool) (ops : List COp) (t : TaskId),
    CEv.obs (.spin t) ∉ trace (initSysWith false m b c coupled) ops

/-- **C14 (3), no spin.**  For all configurations and all op scripts, the fixed `ensure_writeable` never makes the
dispatch spin: no `Obs.spin` occurs in the event trace. -/
theorem C14_no_spin : C14NoSpinStatement :=
  fun m b c coupled ops t => trace_no_spin ops (c := initSysWith false m b c coupled) rfl t

/-- The same for the generated configuration `initSys` (whose `ensure_writeable` variant is the flag
`Gen.clientEnsureLoop` read off the source), as long as that flag says "fixed". -/
theorem C14_no_spin_initSys (hflag : Gen.clientEnsureLoop = false) (m b c : Nat) (coupled : Bool) (ops : List COp)
    (t : TaskId) : CEv.obs (.spin t) ∉ trace (initSys m b c coupled) ops :=
  trace_no_spin ops (c := initSys m b c coupled) hflag t

/-! ### instances, witnesses, findings -/

def c14Trace : Trace := { traceId := 1, span := .given 0, sampled := false }

/-- a request is written, a flush fails, the dispatch is polled again -/
def c14FailOps : List COp :=
  [.call 0 1000000000 c14Trace 1, .pollCall 0, .fault .flush, .pollDispatch, .pollDispatch]

/-- Non-trivial instance of (1), (2): the script writes, fails and is polled again; nothing is violated. -/
example : (c14FailOps.foldl applyOp (initSys 1 1 1 true)).s.t.failed = true ∧
    (c14FailOps.foldl applyOp (initSys 1 1 1 true)).s.t.sentLog.length = 1 ∧
    (c14FailOps.foldl applyOp (initSys 1 1 1 true)).s.t.violations = [] := by decide

/-- one queued call, the transport's readiness (independent of flushing) switched off, one dispatch poll -/
def c14SpinOps : List COp := [.setReady false, .call 0 1000000000 c14Trace 1, .pollCall 0, .pollDispatch]

set_option maxRecDepth 100000 in
/-- **Witness for the defect the fix removed (`ensure_writeable` busy loop).**  With the pre-fix looping
`ensure_writeable`, a transport whose readiness does not depend on flushing (`coupled := false`) and is currently
not ready, and one queued call, a single dispatch poll spins — `poll_ready → Pending`, `poll_flush → Ready`, again
and again, without returning to the executor — and `monC14` rejects the trace. -/
theorem C14_spin_witness :
    CEv.obs (.spin (.dispatch 0)) ∈ trace (initSysWith true 1 1 1 false) c14SpinOps ∧
    (monC14 (trace (initSysWith true 1 1 1 false) c14SpinOps)).ok = false := by decide

set_option maxRecDepth 100000 in
/-- The same script with the fixed `ensure_writeable`: no spin, the monitor accepts. -/
theorem C14_spin_witness_fixed :
    CEv.obs (.spin (.dispatch 0)) ∉ trace (initSysWith false 1 1 1 false) c14SpinOps ∧
    (monC14 (trace (initSysWith false 1 1 1 false) c14SpinOps)).ok = true := by decide

/-- four calls whose deadline has already passed are queued, then the dispatch is polled once -/
def c14FuelOps : List COp :=
  [.call 0 0 c14Trace 1, .call 0 0 c14Trace 2, .call 0 0 c14Trace 3, .call 0 0 c14Trace 4,
   .pollCall 0, .pollCall 1, .pollCall 2, .pollCall 3, .pollDispatch]

set_option maxRecDepth 100000 in
/-- **Former finding, turned around.**  Four queued requests whose deadlines have already passed: `run` needs 4
iterations to write them, 4 more to expire them and one to finish.  The model's earlier `runFuel` (queued requests
counted once: 4 + 4) ran out here and reported a spurious spin; with `runFuel = runMeasure + 4` the poll
terminates normally, as the real (unbounded) loop does: no spin, nothing left in flight, the dispatch is not
poisoned, and `monC14` accepts. -/
theorem C14_run_fuel_witness_fixed :
    CEv.obs (.spin (.dispatch 0)) ∉ trace (initSysWith false 4 4 4 true) c14FuelOps ∧
    (c14FuelOps.foldl applyOp (initSysWith false 4 4 4 true)).s.inflight = [] ∧
    (c14FuelOps.foldl applyOp (initSysWith false 4 4 4 true)).s.poisoned = false ∧
    (monC14 (trace (initSysWith false 4 4 4 true) c14FuelOps)).ok = true := by decide

/-- a request is written but its flush is blocked; its call is dropped; the cancel's `start_send` fails -/
def c14CancelFailOps : List COp :=
  [.call 0 1000000000 c14Trace 1, .call 0 1000000000 c14Trace 2, .pollCall 0, .pollCall 1, .setFlush false,
   .pollDispatch, .dropCall 0 .none, .fault .send, .pollDispatch]

set_option maxRecDepth 100000 in
/-- **Corner case the monitor must accept.**  A *cancel* `start_send` that fails while an earlier write is still
waiting for its flush: the dispatch records the terminal error `Write` and — a request-queue permit being still
out — returns `Pending` from the shutdown path without flushing.  The transport recorded no violation, the real
code has the same control flow (a failed write ends the connection, nothing is flushed any more), and `monC14`
counts a failed cancel write as the end of the connection, so it accepts this trace.  (An earlier version of the
monitor flagged it as "went idle … neither flushed"; that was a false alarm of the monitor and was corrected.) -/
theorem C14_monitor_cancel_write_failure_witness :
    (c14CancelFailOps.foldl applyOp (initSys 1 1 4 true)).s.termErr = some .write ∧
    (c14CancelFailOps.foldl applyOp (initSys 1 1 4 true)).s.t.violations = [] ∧
    (monC14 (trace (initSys 1 1 4 true) c14CancelFailOps)).ok = true := by decide

end TarpcModel.Client

import TarpcModel.Lemmas.ServerTrace
/-!
# C08 (server side) — at most one response per accepted request, none for requests never read

Property theorems only.  `BaseChannel::start_send` is `baseStartSend`, `start_request` is
`startRequest` (`Server/Model.lean`).  The trace theorems quantify over all configurations and all
op lists; they are read off a ghost folded over the trace (`Lemmas/ServerTrace.lean`).
-/
namespace TarpcModel.Server

/-! ### mechanism -/

/-- **C08 mechanism: a response is written only while its id is tracked, and writing it untracks
the id.**  Either the id is untracked and `start_send` changes nothing and writes nothing, or it is
tracked by entry `e`: then exactly one `start_send` reaches the transport (it is the newest
observation), the entry is removed (no entry with that id is left) and — `remove` of its key
succeeding — so is its timer. -/
theorem C08_response_only_if_tracked (s : St) (id : Nat) (res : Res) :
    (findEntry s id = none ∧ baseStartSend s id res = (s, none))
    ∨ (∃ e ok, findEntry s id = some e
        ∧ (baseStartSend s id res).2 = some ok
        ∧ (baseStartSend s id res).1.obs.head? = some (.tSend (tid s) (.response id res) ok)
        ∧ (baseStartSend s id res).1.inflight = s.inflight.filter (·.id != id)
        ∧ findEntry (baseStartSend s id res).1 id = none
        ∧ (∀ q w, s.timers.remove e.timerKey = some (q, w) → (baseStartSend s id res).1.timers = q)) :=
  baseStartSend_spec s id res

/-- … and the number of `start_send` calls `baseStartSend` makes is exactly one if the id is tracked,
zero otherwise (counted by the ghost over the observations). -/
theorem C08_sends_iff_tracked (L : Option Nat) (g0 : Ghost) (s : St) (id : Nat) (res : Res) :
    (gh L g0 (baseStartSend s id res).1.obs).sends
      = (gh L g0 s.obs).sends + (if (findEntry s id).isSome then 1 else 0) := by
  rw [baseStartSend_gh]
  rcases removeRequest_cases s id with ⟨hf, h1⟩ | ⟨e, hf, h1⟩
  · simp [h1, hf]
  · simp [h1, hf, gstep]

/-- on a well-formed table the timer of the answered request is always there to be removed: the
queue loses exactly that key, and nothing panics -/
theorem C08_tracked_timer_removed (s : St) (id : Nat) (res : Res) (e : SEntry) (hw : TableWF s)
    (hf : findEntry s id = some e) :
    (baseStartSend s id res).1.timers.kv = s.timers.kv.filter (·.1 != e.timerKey)
    ∧ (baseStartSend s id res).1.poisoned = s.poisoned := by
  obtain ⟨he, _⟩ := findEntry_some hf
  have hmem : e.kv ∈ s.timers.kv := hw.perm.mem_iff.mp (List.mem_map.mpr ⟨e, he, rfl⟩)
  have hsome : (s.timers.remove e.timerKey).isSome = true := by
    rw [DelayQ.remove_isSome_iff]; exact List.mem_map.mpr ⟨_, hmem, rfl⟩
  obtain ⟨⟨q, w⟩, hq⟩ := Option.isSome_iff_exists.mp hsome
  rcases C08_response_only_if_tracked s id res with ⟨hn, _⟩ | ⟨e', ok, hf', _, _, _, _, ht⟩
  · rw [hn] at hf; cases hf
  · rw [hf] at hf'; cases hf'
    refine ⟨by rw [ht q w hq]; exact (DelayQ.remove_some_spec _ _ _ _ hq).1, ?_⟩
    rcases baseStartSend_cases s id res with ⟨_, h2⟩ | ⟨_, h2⟩ <;> rw [h2] <;>
      rcases removeRequest_cases s id with ⟨hf2, h1⟩ | ⟨e2, hf2, h1⟩ <;> rw [h1] <;>
      simp [removeTimer] <;> (rw [hf] at hf2; cases hf2; simp [hq]; split <;> simp)

/-- **C08 mechanism: a duplicate request id is ignored** — no execution, no timer, nothing changes. -/
theorem C08_duplicate_ignored (s : St) (now id d : Nat) (tr : Trace) (b : Nat) (e : SEntry)
    (h : findEntry s id = some e) : startRequest s now id d tr b = (s, none) := by
  unfold startRequest; simp [h]

/-! ### over all op sequences -/

/-- **C08: no orphan responses.**  In every trace, every response written to the transport answers
a `Request` message with that id read earlier in the same trace. -/
theorem C08_no_orphans (limit : Option Nat) (respCap tcap : Nat) (coupled : Bool) (ops : List SOp)
    (l1 l2 : List SEv) (ep : TaskId) (id : Nat) (res : Res) (ok : Bool)
    (h : trace (initSys limit respCap tcap coupled) ops = l1 ++ SEv.obs (.tSend ep (.response id res) ok) :: l2) :
    ∃ ep' d tr b, SEv.obs (.tNext ep' (.item (.request id d tr b))) ∈ l1 := by
  have hok := trace_gok limit respCap tcap coupled ops
  rw [h] at hok
  have := hok.at_split.orphan
  simp only [gev, gstep, Bool.and_eq_true, List.contains_iff_mem] at this
  rcases mem_reads_traceGhost limit {} l1 id (by simpa using this.2) with h0 | h1
  · cases h0
  · exact h1

/-- **C08: at most one response per acceptance.**  In every trace, between two responses for the
same id a `Request` with that id was read (a request is only accepted — inserted into the table —
when it is read, so: at most one response between two insertions of an id). -/
theorem C08_at_most_one_response (limit : Option Nat) (respCap tcap : Nat) (coupled : Bool) (ops : List SOp)
    (l1 l2 l3 : List SEv) (ep1 ep2 : TaskId) (id : Nat) (r1 r2 : Res) (ok1 ok2 : Bool)
    (h : trace (initSys limit respCap tcap coupled) ops
          = l1 ++ SEv.obs (.tSend ep1 (.response id r1) ok1) :: (l2 ++ SEv.obs (.tSend ep2 (.response id r2) ok2) :: l3)) :
    ∃ ep d tr b, SEv.obs (.tNext ep (.item (.request id d tr b))) ∈ l2 := by
  have hok := trace_gok limit respCap tcap coupled ops
  have h' : trace (initSys limit respCap tcap coupled) ops
      = (l1 ++ SEv.obs (.tSend ep1 (.response id r1) ok1) :: l2) ++ SEv.obs (.tSend ep2 (.response id r2) ok2) :: l3 := by
    rw [h]; simp
  rw [h'] at hok
  have h2 := hok.at_split.once
  simp only [gev, gstep, Bool.and_eq_true, Bool.not_eq_true'] at h2
  -- after the first response the id is marked answered; it is unmarked at the second
  apply Classical.byContradiction
  intro hno
  have hmem : id ∈ (traceGhost limit {} (l1 ++ SEv.obs (.tSend ep1 (.response id r1) ok1) :: l2)).sent := by
    rw [traceGhost_append]
    show id ∈ (traceGhost limit (gev limit (traceGhost limit {} l1) (SEv.obs (.tSend ep1 (.response id r1) ok1))) l2).sent
    apply traceGhost_sent_persist
    · simp [gev, gstep]
    · intro ep d tr b hm
      exact hno ⟨ep, d, tr, b, hm⟩
  have := h2.2
  simp [hmem] at this

/-! ### monitor sub-check (gold) -/

/-- the first clause of the send branch of `checkC08`, stand-alone: a response for an id that was
never read on this channel -/
def checkC08NoOrphan (b : Book) (_ : Unit) : SEv → Unit × Option String
  | .obs (.tSend _ (.response id _) _) =>
      if !(b.reqReads.any (·.1 == id)) then ((), some s!"response for id {id}, which was never read on this channel")
      else ((), none)
  | _ => ((), none)

/-- **C08 monitor sub-check accepted** on every trace of the model. -/
theorem C08_checkNoOrphan_accepts (limit : Option Nat) (respCap tcap : Nat) (coupled : Bool) (ops : List SOp) :
    (Mon.run limit checkC08NoOrphan () (trace (initSys limit respCap tcap coupled) ops)).ok = true := by
  unfold Mon.ok Mon.run
  rw [Mon.sim limit checkC08NoOrphan ReadsKnown (readsKnown_step limit) _ _ _ {} rfl
    (by intro x hx; cases hx) (trace_gok limit respCap tcap coupled ops)]
  · rfl
  · intro b g st e hr hok
    cases e with
    | op o => rfl
    | obs o =>
      cases o with
      | tSend ep m ok =>
        cases m with
        | response id res =>
          have := hok.orphan
          simp only [gev, gstep, Bool.and_eq_true, List.contains_iff_mem] at this
          have hk := hr id (by simpa using this.2)
          simp only [bookOf, checkC08NoOrphan, hk]
          rfl
        | _ => rfl
      | _ => rfl

/-- the hypotheses are satisfiable: a script in which a request is read, handed out, finished and
answered — the trace contains a response, preceded by the read of its request -/
example :
    (trace (initSys none 1 4 true)
      [.injectReq 1 5000000 ⟨7, .given 1, true⟩ 0, .pollServer, .finish 0 (.ok 3), .pollExec 0, .pollServer]).filter
        (fun e => match e with
          | .obs (.tSend _ _ _) => true
          | .obs (.tNext _ (.item _)) => true
          | _ => false)
      = [.obs (.tNext (.server 0) (.item (.request 1 5000000 ⟨7, .given 1, true⟩ 0))),
         .obs (.tSend (.server 0) (.response 1 (.ok 3)) true)] := by
  decide

end TarpcModel.Server

import TarpcModel.Lemmas.ServerParkQ
/-!
# C02 (server) — nothing is stuck

`C02ServerNoStuckStatement` (`Props/C02Server.lean`) as written is **false** (`C02ServerNoStuckStatement_false`): with a
request limit, the `MaxRequests` limiter at its limit returns `Pending` from `poll_ready → Pending` *without flushing*
and relies on the sink to wake it when the write pump's own flush makes room; a sink that does not wake its owner for the
owner's own flush (`selfWake false`: a staging sink) leaves the stream task parked with an unread request and a ready
transport (the script of `C02S_limiter_needs_self_wake_witness`, here with a limit ≥ 1 as the statement demands).

`C02S_no_stuck : C02ServerNoStuckStatement'` is the statement with the missing hypothesis: **no request limit, or a
script that never switches the sink's self-wake off**.  Then, from any reachable state, once `settle` has polled
everything that is woken, no response is left queued and no inbound item unread with the sink ready.  No clock bound is
needed (`stuck` does not judge a panicked task).

The proof is the invariant `SPI` of `Lemmas/ServerParkQ.lean` (`reach_spk`): an alive stream task that has not been
woken since its last poll is parked on a sink that is not ready (holding its write waker), or registered both on the
empty response queue and on the empty inbound queue (or the read side has ended).
-/
namespace TarpcModel.Server
open Flow

/-- the global statement with the hypothesis it needs -/
def C02ServerNoStuckStatement' : Prop :=
  ∀ (limit : Option Nat) (respCap tcap : Nat) (coupled : Bool) (ops : List SOp),
    (limit = none ∨ SelfWakeOn ops) →
    (settle (ops.foldl applyOp (initSys limit respCap tcap coupled))).2 = []

/-- `settle` only polls: the state it stops in is reachable by a script of polls -/
theorem settleLoop_reach (fuel : Nat) (c : Sys) :
    ∃ ops', settleLoop fuel c = ops'.foldl applyOp c ∧ SelfWakeOn ops' := by
  induction fuel generalizing c with
  | zero => exact ⟨[], rfl, fun _ h => by cases h⟩
  | succ fuel ih =>
    unfold settleLoop
    split
    · obtain ⟨ops', h1, h2⟩ := ih { c with s := pollServer c.s c.now }
      refine ⟨.pollServer :: ops', by rw [h1]; rfl, ?_⟩
      intro op hop
      rcases List.mem_cons.mp hop with e | e
      · rw [e]; simp
      · exact h2 op e
    · split
      · rename_i v _
        obtain ⟨ops', h1, h2⟩ := ih { c with s := pollExec c.s v c.now }
        refine ⟨.pollExec v :: ops', by rw [h1]; rfl, ?_⟩
        intro op hop
        rcases List.mem_cons.mp hop with e | e
        · rw [e]; simp
        · exact h2 op e
      · exact ⟨[], rfl, fun _ h => by cases h⟩

/-- **C02 (server), the global statement**: after `settle`, no queued response and no unread inbound item is left with
the sink ready — for a server without a request limit, or a sink that keeps waking its owner. -/
theorem C02S_no_stuck : C02ServerNoStuckStatement' := by
  intro limit respCap tcap coupled ops henv
  unfold settle
  simp only
  split
  · rfl
  · rename_i hq
    simp only [Bool.or_eq_true, not_or, Bool.not_eq_true] at hq
    obtain ⟨hrun, _⟩ := hq
    obtain ⟨ops', hreach, hsw'⟩ := settleLoop_reach 400 (ops.foldl applyOp (initSys limit respCap tcap coupled))
    have hfold : settleLoop 400 (ops.foldl applyOp (initSys limit respCap tcap coupled)) =
        (ops ++ ops').foldl applyOp (initSys limit respCap tcap coupled) := by
      rw [hreach, List.foldl_append]
    have henv' : limit = none ∨ SelfWakeOn (ops ++ ops') := by
      rcases henv with e | e
      · exact Or.inl e
      · right
        intro op hop
        rcases List.mem_append.mp hop with x | x
        · exact e op x
        · exact hsw' op x
    have hI := reach_spk limit respCap tcap coupled (ops ++ ops') henv'
    rw [hfold] at hrun ⊢
    generalize ((ops ++ ops').foldl applyOp (initSys limit respCap tcap coupled)).s = s at hrun hI ⊢
    unfold stuck
    split
    · rfl
    · rename_i hc
      simp only [Bool.or_eq_true, not_or, Bool.not_eq_true, Bool.not_eq_eq_eq_not, Bool.not_true,
        Option.isSome_eq_false_iff, Option.isNone_iff_eq_none] at hc
      obtain ⟨⟨⟨⟨hd, hdn⟩, hp⟩, hr⟩, hf⟩ := hc
      have hr' : s.t.isReadyNow = true := by simpa using hr
      have hwk : s.woken = false := by
        unfold serverRunnable at hrun
        rw [hd, hdn, hp] at hrun
        simpa using hrun
      rcases hI hd hdn hp hwk with x | ⟨x, y⟩
      · rw [x.1] at hr'; cases hr'
      · rw [x.1]
        rcases y with ⟨y1, _⟩ | y
        · rw [y1]; rfl
        · rw [y]; simp

/-- the stall script with a request limit of 1: one request is being served; three more arrive; the sink does not wake
its owner for the owner's own flush -/
def limiterStallOps : List SOp :=
  [.selfWake false, .injectReq 1 1000000000 ⟨0, .given 0, false⟩ 0, .pollServer,
   .injectReq 2 1000000000 ⟨0, .given 0, false⟩ 0, .injectReq 3 1000000000 ⟨0, .given 0, false⟩ 0,
   .injectReq 4 1000000000 ⟨0, .given 0, false⟩ 0, .pollServer]

theorem limiterStallOps_stuck :
    (settle (limiterStallOps.foldl applyOp (initSys (some 1) 1 2 true))).2 = ["inbound-unread=1"] := by
  decide

/-- **The statement as first written is false**: the limiter relies on the sink's self-wake. -/
theorem C02ServerNoStuckStatement_false : ¬ C02ServerNoStuckStatement := by
  intro h
  have := h (some 1) 1 2 true limiterStallOps (by decide) (by decide) (by intro l hl; cases hl; decide)
  rw [limiterStallOps_stuck] at this
  cases this

/-- the witness violates the new hypothesis, as it must; the same script with a self-waking sink is fine -/
example : ¬ SelfWakeOn limiterStallOps := fun h => h (.selfWake false) (by simp [limiterStallOps]) rfl

example : (settle ((limiterStallOps.drop 1).foldl applyOp (initSys (some 1) 1 2 true))).2 = [] := by decide

end TarpcModel.Server

import TarpcModel.Props.C02Park
import TarpcModel.Lemmas.ClientWake
/-!
# C02 — nobody is stuck

`C02_no_stuck : C02NoStuckStatement'`: on the client model, after any script that keeps the clock below 2^35 ms
(the hypothesis under which the dispatch does not panic, `C16_client_never_poisoned`; without it the statement is false,
`C02NoStuckStatement_false`), once `settle` has polled everything that is woken, **no live call future is left without
an excuse**: every call that is still pending is waiting for a response to a request that has been written, or the
dispatch is parked behind a full in-flight table / a sink that is not ready / a terminal error with requests queued.

The proof: `C02_no_stuck_of_wake_inv` (`Props/C02Account.lean`) reduces the statement to the six clauses of
`C02WakeInv`;

* `park` is `C02_dispatch_parked` (`Props/C02Park.lean`, from `reach_pk`);
* `np`, `rs`, `aw`, `full` and the wait-queue half of `gone` come from the invariant `WkI` of
  `Lemmas/ClientWake.lean` (`reach_wk`): a future that was never polled is woken; a future waiting for a permit is in
  the wait queue or has been woken with the permit in hand; a future waiting for its response that is not woken has
  its waker registered on an open, empty oneshot whose sender is alive; permits add up
  (`pqAvail + |pq| + |pqAssigned| = bufCap`), nobody waits while a permit is available, every permit handed over belongs
  to a woken future;
* the queue half of `gone` is `CqI.dd` (`reach_cq`) together with `reach_dn`: a dispatch whose `poll` returned `Ready`
  has been dropped.
-/
namespace TarpcModel.Client

/-- **The call side of the wake-up discipline holds in every reachable state** (clock below 2^35 ms). -/
theorem C02_call_wake_inv (m b c : Nat) (coupled : Bool) (ops : List COp) (hb : 1 ≤ b)
    (hT : advSum ops < 2 ^ 35 * nsPerMs) : C02CallWakeInv (ops.foldl applyOp (initSys m b c coupled)).s := by
  have hw := reach_wk m b c coupled ops hb
  have hq := reach_cq m b c coupled ops
  have hd := reach_dn m b c coupled ops
  have hp : (ops.foldl applyOp (initSys m b c coupled)).s.poisoned = false :=
    (C16_client_never_poisoned m b c coupled ops hT ops (List.prefix_refl _)).1
  generalize (ops.foldl applyOp (initSys m b c coupled)).s = s at hw hq hd hp
  have hdd : (s.dDropped = true ∨ s.done.isSome = true) → s.dDropped = true := by
    intro h
    rcases h with h | h
    · exact h
    · rcases hd h with x | x
      · exact x
      · rw [hp] at x; cases x
  refine ⟨?_, ?_, ?_, ?_, ?_⟩
  · intro cl hcl hph
    exact ((hw.calls cl hcl).1 hph).1
  · intro cl hcl hph hwk
    rcases ((hw.calls cl hcl).2.1 hph (by simp)).2 with x | ⟨x, _⟩
    · exact x
    · rw [hwk] at x; cases x
  · intro cl hcl hph hwk
    obtain ⟨a, b'⟩ := (hw.calls cl hcl).2.2 hph (by simp)
    obtain ⟨_, b2, b3⟩ := b' hwk
    exact ⟨a, b2, b3⟩
  · intro h
    have hdr := hdd h
    refine ⟨?_, (hq.dd hdr).2⟩
    cases hwt : s.pqWaiters with
    | nil => rfl
    | cons w r =>
      have := (hw.p1 (by rw [hwt]; simp)).2
      rw [hw.dc hdr] at this; cases this
  · intro hne hall hpq
    obtain ⟨h1, h2⟩ := hw.p1 hne
    have h3 := hw.p2 h2
    rw [h1, hpq] at h3
    have hbc := hw.bc
    cases has : s.pqAssigned with
    | nil => rw [has] at h3; simp at h3; omega
    | cons w r =>
      obtain ⟨cl, hcl, _, e2, e3⟩ := hw.asg w (by rw [has]; simp)
      have := hall cl hcl (by simp [callLive, e2])
      rw [e3] at this; cases this

/-- **C02, the global statement**: after `settle`, no live call future is stuck (clock below 2^35 ms). -/
theorem C02_no_stuck : C02NoStuckStatement' :=
  C02_no_stuck_of_call_wake_inv (fun m b c coupled ops _ hb _ hT => C02_call_wake_inv m b c coupled ops hb hT)

/-- the permit accounting on a concrete script: capacity 2, one request queued, one permit handed to a waiter that
has not been polled since (woken), one caller still waiting -/
example :
    let ops := [COp.call 0 1000000000 ⟨1, .given 1, false⟩ 7, .call 0 1000000000 ⟨2, .given 2, false⟩ 8,
      .call 0 1000000000 ⟨3, .given 3, false⟩ 9, .call 0 1000000000 ⟨4, .given 4, false⟩ 10,
      .pollCall 0, .pollCall 1, .pollCall 2, .pollCall 3, .pollDispatch]
    let s := (ops.foldl applyOp (initSys 1 2 4 true)).s
    s.pqAvail + s.pq.length + s.pqAssigned.length = s.bufCap ∧ s.pqAssigned = [2] ∧ s.pqWaiters = [3] ∧
    s.calls.map (·.woken) = [false, false, true, false] := by
  decide

end TarpcModel.Client

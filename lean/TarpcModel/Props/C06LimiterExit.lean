import TarpcModel.Monitors.Server
import TarpcModel.Server.Run
/-!
# C06 / C04 (server side) — the limiter's early exit is taken at the limit only

Property examples (the general theorem is in `Props/C06LimiterExitMon.lean`).  `MaxRequests::poll_next` returns on `poll_ready → Pending`
*without polling the inner channel* only while the channel is at its limit (finding F7: cancellations and expirations
stay unprocessed meanwhile; the monitors mark such polls `stalled` and judge them by their own clauses).  The monitors
recognise the exit by its shape — a top-level poll of the request stream in which `poll_ready → Pending` is followed at
once by the write pump's own `poll_ready` — and used to take the shape alone for "at its limit".  Now `Book.step` checks
the count the poll began with (`lastCounts`: what the previous channel poll reported; requests in flight change inside
channel polls only): at or above the limit the poll is `stalled` as before; below it the book sets `belowLimitStall`,
and `checkC06Stall` rejects the trace at the poll's `ret` with a message of its own (not the known finding's).

The general theorem — the clause never fires on a trace of the model, for every configuration and script — is
`C06S_limiter_exit_accepts` in `Props/C06LimiterExitMon.lean` (proof: `Lemmas/ServerStallWalk.lean`); the examples below
exercise the clause on hand-written event lists and on scripts with the limiter at and below its limit.
-/
namespace TarpcModel.Server
open TarpcModel

/-- The new clause is not vacuous: a top-level poll that takes the limiter's early exit (`poll_ready → Pending`, then
the write pump's `poll_ready`) although the previous poll reported 0 of 2 requests in flight is rejected, with the new
message. -/
example :
    (monC06Stall (some 2)
      [.op .pollServer, .obs (.tReady (.server 0) .pending), .obs (.tReady (.server 0) .pending),
       .obs (.tFlush (.server 0) .pending), .obs (.ret (.server 0) .pending), .obs (.counts (.server 0) 0 0)]).bad =
    some "limiter returned on poll_ready → Pending without polling the inner channel although only 0 of 2 requests were in flight" := by
  decide

/-- … while the same exit taken at the limit (the previous poll reported 2 of 2 in flight) is a `stalled` poll as
before, and accepted by this clause. -/
example :
    (monC06Stall (some 2)
      [.op .pollServer, .obs (.ret (.server 0) .readyItem), .obs (.counts (.server 0) 2 2),
       .op .pollServer, .obs (.tReady (.server 0) .pending), .obs (.tReady (.server 0) .pending),
       .obs (.tFlush (.server 0) .pending), .obs (.ret (.server 0) .pending), .obs (.counts (.server 0) 2 2)]).ok = true := by
  decide

/-- … and without a limiter the shape means nothing. -/
example :
    (monC06Stall none
      [.op .pollServer, .obs (.tReady (.server 0) .pending), .obs (.tReady (.server 0) .pending),
       .obs (.tFlush (.server 0) .pending), .obs (.ret (.server 0) .pending), .obs (.counts (.server 0) 0 0)]).ok = true := by
  decide

set_option maxRecDepth 100000 in
/-- On the model: limit 1, one request in flight, the sink not ready, a second request waiting — the limiter takes the
early exit in two polls (at its limit); limit 2, sink not ready from the start — the limiter never takes it (the request
is read and yielded).  `monC06Stall` accepts both traces; in the first the transport is read once (by the first poll) and
`poll_ready` is `Pending` six times (the two stalled polls). -/
example :
    let tr : Trace := ⟨0, .given 0, false⟩
    let opsAt : List SOp :=
      [.injectReq 1 50000000 tr 0, .pollServer, .setReady false, .injectReq 2 60000000 tr 0, .pollServer, .pollServer]
    let opsBelow : List SOp := [.setReady false, .injectReq 1 50000000 tr 0, .pollServer, .pollServer]
    (monC06Stall (some 1) (trace (initSys (some 1) 1 8 false) opsAt)).ok = true ∧
    (monC06Stall (some 2) (trace (initSys (some 2) 1 8 false) opsBelow)).ok = true ∧
    ((trace (initSys (some 1) 1 8 false) opsAt).filter (fun e => match e with
        | .obs (.tNext _ _) => true | _ => false)).length = 1 ∧
    ((trace (initSys (some 1) 1 8 false) opsAt).filter (fun e => match e with
        | .obs (.tReady _ .pending) => true | _ => false)).length = 6 := by
  decide

end TarpcModel.Server

import TarpcModel.Lemmas.ClientTop
import TarpcModel.Lemmas.ClientMech
/-!
# C18 (client side) — the trace context follows the request

Property theorems only.  The model is `TarpcModel.Client` (`Client/Model.lean`, `Client/Run.lean`), the monitor is
`monC18` (`Monitors/Client.lean`), the same decidable predicate the check evaluates on the implementation's
trace.  State-level statements are phrased over `view s` (`Lemmas/ClientIds.lean`): `(view s).get cid` is the
record of call `cid` (its context, phase, request id, child trace context, oneshot state, outcome),
`(view s).sentLog` is the transport's ghost log of accepted writes, `(view s).inflight` the in-flight table.

The monitor identifies a request with its call through the request *body* (the harness makes bodies unique) and
expects callers to pass span ids of their own; both are hypotheses of the acceptance theorem and the two
`example`s at the end show that each is needed.
-/
namespace TarpcModel.Client

/-- **C18 (monitor form).**  For every configuration and every op sequence whose calls have pairwise distinct
bodies and caller-chosen (`given`) span ids, `monC18` accepts the model's trace: every request carries the
caller's trace id and sampling decision under a fresh span id of its own, and every `Cancel` carries the trace
context of the `Request` with the same id. -/
theorem C18_monitor_accepts (m b c : Nat) (coupled : Bool) (ops : List COp)
    (hbodies : (callBodies ops).Nodup) (hspans : ∀ op ∈ ops, SpanOk op) :
    (monC18 (trace (initSys m b c coupled) ops)).ok = true :=
  (combined_ok (combined_accepts m b c coupled ops hbodies hspans)).1

/-- **C18 (wire form).**  In every reachable state, a written `Request id` carries the child context of the one
call that owns `id`: the caller's trace id and sampling flag, and the span id `fresh id` drawn at the first poll
of that call — so two requests never share a span id, and none reuses its caller's. -/
theorem C18_request_carries_child_context (m b c : Nat) (coupled : Bool) (ops : List COp)
    (s : St) (hs : s = (ops.foldl applyOp (initSys m b c coupled)).s)
    (id dl : Nat) (tr : Trace) (body : Nat) (h : Msg.request id dl tr body ∈ (view s).sentLog) :
    ∃ cid cv, (view s).get cid = some cv ∧ cv.id = id ∧ cv.body = body ∧ cv.ctx.deadline = dl ∧
      tr = cv.trace ∧ tr.traceId = cv.ctx.trace.traceId ∧ tr.sampled = cv.ctx.trace.sampled ∧ tr.span = .fresh id := by
  subst hs
  have hi := reach_inv m b c coupled ops
  obtain ⟨i, cv, hg, hen, hid, htr, hb, hd⟩ := hi.reqCall id dl tr body h
  have ht := hi.tr i cv hg hen.polled
  refine ⟨i, cv, hg, hid, hb.symm, hd.symm, htr, ?_, ?_, ?_⟩ <;> rw [htr, ht] <;> simp [hid]

/-- **C18: a `Cancel` reuses the request's context.**  In every reachable state, a `Cancel id` on the wire
carries exactly the trace context of the `Request id` on the wire. -/
theorem C18_cancel_reuses_ctx (m b c : Nat) (coupled : Bool) (ops : List COp)
    (s : St) (hs : s = (ops.foldl applyOp (initSys m b c coupled)).s)
    (id dl : Nat) (tr tr' : Trace) (body : Nat)
    (hc : Msg.cancel id tr ∈ (view s).sentLog) (hr : Msg.request id dl tr' body ∈ (view s).sentLog) : tr = tr' := by
  subst hs
  have hi := reach_inv m b c coupled ops
  obtain ⟨i, cv, hg, hen, hid, htr, _, _⟩ := hi.reqCall id dl tr' body hr
  obtain ⟨_, _, j, cv', hg', hp', hid', htr', _⟩ := hi.canCall id tr hc
  have : i = j := hi.idInj i j cv cv' hg hg' hen.polled hp' (by omega)
  subst this
  rw [hg] at hg'; injection hg' with hg'; subst hg'
  rw [htr, htr']

/-- **C18 (mechanism).**  The context stored in an in-flight entry is the one its `Request` was written with
(`pollWriteRequest` inserts `r.ctx` and writes `r.ctx`), and `pollWriteCancel` (next theorem) writes the stored
context back. -/
theorem C18_entry_ctx_is_request_ctx (m b c : Nat) (coupled : Bool) (ops : List COp)
    (s : St) (hs : s = (ops.foldl applyOp (initSys m b c coupled)).s)
    (e : Entry) (he : e ∈ (view s).inflight) (dl : Nat) (tr : Trace) (body : Nat)
    (hr : Msg.request e.id dl tr body ∈ (view s).sentLog) : tr = e.ctx.trace ∧ dl = e.ctx.deadline := by
  subst hs
  have hi := reach_inv m b c coupled ops
  obtain ⟨i, cv, hg, hen, hid, htr, _, hd⟩ := hi.reqCall e.id dl tr body hr
  obtain ⟨cv', hg', hen', hid', hctx, _⟩ := hi.inf e he
  have : i = e.cid := hi.idInj i e.cid cv cv' hg hg' hen.polled hen'.polled (by omega)
  subst this
  rw [hg] at hg'; injection hg' with hg'; subst hg'
  rw [hctx]; exact ⟨htr, hd⟩

/-- **C18 (mechanism): `pollWriteCancel` writes the stored context.**  One call of `pollWriteCancel` either
writes nothing, or writes `Cancel e.id e.ctx.trace` for an entry `e` that was in flight, and removes it. -/
theorem C18_cancel_writes_stored_ctx (s : St) :
    (pollWriteCancel s).1.t.sentLog = s.t.sentLog ∨
    ∃ e, findEntry s e.id = some e ∧
      (pollWriteCancel s).1.t.sentLog = s.t.sentLog ++ [Msg.cancel e.id e.ctx.trace] ∧
      findEntry (pollWriteCancel s).1 e.id = none :=
  pollWriteCancel_spec s

/-! ### the hypotheses are needed, and satisfiable -/

/-- Two calls with the same body: the monitor attributes the second request to the first call and rejects. -/
example :
    (monC18 (trace (initSys 4 4 4 true)
      [.call 0 1000000000 ⟨7, .given 1, true⟩ 5, .call 0 1000000000 ⟨9, .given 2, false⟩ 5,
       .pollCall 0, .pollCall 1, .pollDispatch, .pollDispatch])).ok = false := by decide

/-- A caller that passes a span id of the form the code under test draws itself (`fresh 0`). -/
example :
    (monC18 (trace (initSys 4 4 4 true)
      [.call 0 1000000000 ⟨7, .fresh 0, true⟩ 5, .pollCall 0, .pollDispatch])).ok = false := by decide

/-- Non-vacuity: a request and its cancel are written, with the same (child) context. -/
example :
    ([COp.call 0 1000000000 ⟨7, .given 1, true⟩ 5, .pollCall 0, .pollDispatch, .dropCall 0 .none, .pollDispatch].foldl
        applyOp (initSys 4 4 4 true)).s.t.sentLog =
      [.request 0 1000000000 ⟨7, .fresh 0, true⟩ 5, .cancel 0 ⟨7, .fresh 0, true⟩] := by decide

end TarpcModel.Client

import TarpcModel.Lemmas.C13
/-!
# C13 — Per-key channel limit is never exceeded nor over-applied

Property theorems only.  The model is `TarpcModel.CPK` (`Limits/ChannelsPerKey.lean`), the
monitor `TarpcModel.CPK.mon` (`Monitors/C13.lean`) is the same decidable predicate that the
check evaluates on the implementation's observation stream.
-/
namespace TarpcModel.CPK

/-- **C13 (monitor form).**  For every limit `n ≥ 1` and every finite sequence of arrivals, closes,
listener polls and listener end, the monitor accepts the model's trace: after every yield at most
`n` live channels share the key, and every shed happens with `n` alive. -/
theorem C13_monitor_accepts (n : Nat) (hn : 1 ≤ n) (ops : List Op) :
    (mon n (run (initCurrent n) ops).2).ok = true :=
  (run_good ops (initCurrent_good hn)).ok

/-- **C13 (state form): never exceeded.**  In every reachable state, every key has at most `n`
live yielded channels. -/
theorem C13_never_exceeded (n : Nat) (hn : 1 ≤ n) (ops : List Op) (k : Nat) :
    aliveForKey k (run (initCurrent n) ops).1.chans ≤ n := by
  have g := run_good ops (initCurrent_good hn)
  have := g.inv.e k
  rw [g.lim] at this
  exact this

/-- **C13: shed only when full** (one-step form, any reachable state): if polling the listener
sheds an arrival with key `k`, then `n` channels with key `k` were alive at that moment. -/
theorem C13_shed_only_when_full (n : Nat) (hn : 1 ≤ n) (ops : List Op) (k : Nat)
    (s : St) (hs : s = (run (initCurrent n) ops).1) :
    (increment s k).2 = none → n ≤ aliveForKey k s.chans := by
  intro h
  subst hs
  generalize hs' : (run (initCurrent n) ops).1 = s at *
  have g : Good n s _ := hs' ▸ run_good ops (initCurrent_good hn)
  unfold increment at h
  cases hl : lookup k s.keyCounts with
  | none => rw [hl] at h; simp at h
  | some t =>
    rw [hl] at h
    have hsc := strongCount_eq_alive g.inv hl
    have := g.lim
    by_cases hfull : strongCount t s.chans ≥ s.limit
    · omega
    · simp only [hfull, ↓reduceIte] at h
      split at h <;> simp at h

/-- **C13: a close frees capacity.**  In any reachable state, once fewer than `n` channels with key
`k` are alive, the next arrival with key `k` is admitted (so capacity released by a close is never
lost, whatever notifications are still queued). -/
theorem C13_close_frees (n : Nat) (hn : 1 ≤ n) (ops : List Op) (k : Nat)
    (s : St) (hs : s = (run (initCurrent n) ops).1) :
    aliveForKey k s.chans < n → (increment s k).2 ≠ none := by
  intro hlt h
  have := C13_shed_only_when_full n hn ops k s hs h
  omega

/-- The defect the `fix:` commit repairs, as a theorem about the pre-fix variant of the model
(`guardStale := false`): with `n = 1`, channel A(key 7) closes, B(7) arrives, one poll admits B
and then consumes A's stale notification (erasing B's entry); C(7) is then admitted while B is
alive — two live channels for a limit of one.  The monitor rejects that trace. -/
theorem C13_stale_notification_witness :
    let ops := [Op.arrive 7, .poll, .close 0, .arrive 7, .poll, .arrive 7, .poll]
    (mon 1 (run (init 1 false) ops).2).ok = false ∧
    aliveForKey 7 (run (init 1 false) ops).1.chans = 2 := by
  decide

/-- The same history on the current (fixed) model is accepted: C is shed. -/
example :
    let ops := [Op.arrive 7, .poll, .close 0, .arrive 7, .poll, .arrive 7, .poll]
    (mon 1 (run (init 1) ops).2).ok = true ∧
    (run (init 1) ops).2 =
      [.arrived 0 7, .yielded 0 7, .closed 0, .arrived 1 7, .yielded 1 7, .arrived 2 7,
       .shed 2 7, .pending] := by
  decide

/-- Non-vacuity: a reachable state with a full key, a shed, and a later admission after a close. -/
example :
    (run (init 2) [.arrive 1, .arrive 1, .arrive 1, .poll, .poll, .poll, .close 0, .arrive 1, .poll]).2 =
      [.arrived 0 1, .arrived 1 1, .arrived 2 1, .yielded 0 1, .yielded 1 1, .shed 2 1, .pending,
       .closed 0, .arrived 3 1, .yielded 3 1] := by
  decide

end TarpcModel.CPK

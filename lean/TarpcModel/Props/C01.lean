import TarpcModel.Lemmas.ClientTop
import TarpcModel.Lemmas.ClientMech
/-!
# C01 — a response reaches exactly the call that asked

Property theorems only.  Model: `TarpcModel.Client`; monitor: `monC01` (`Monitors/Client.lean`).  State-level
statements are phrased over `view s` (`Lemmas/ClientIds.lean`): `(view s).get cid` is the record of call `cid`,
`CallV.polled` says the call has been polled at least once (it owns a request id), `CallV.enq` that its request
was handed to the request queue.
-/
namespace TarpcModel.Client

/-! ### mechanism -/

/-- **C01: a response with an unknown id is a no-op.**  `complete_request` for an id that is not in flight
returns `false` and the state is untouched. -/
theorem C01_unknown_id_is_noop (s : St) (id : Nat) (o : Outcome) (h : findEntry s id = none) :
    completeRequest s id o = (s, false) :=
  completeRequest_unknown s id o h

/-- **C01: ... discarded without disturbing any other call.**  When the read pump takes a `response id res` whose
id is not in flight off the transport, nothing changes but the transport's inbound queue and the observation log:
no oneshot, no in-flight entry, no timer, no queue. -/
theorem C01_unknown_response_discarded (s : St) (id : Nat) (res : Res) (rest : List Inb)
    (hf : s.readFused = false) (hfault : s.t.faultNext = false)
    (hin : s.t.inbound = .msg (.response id res) :: rest) (hun : findEntry s id = none) :
    (pumpRead s).1 =
      { s with t := { s.t with inbound := rest }, obs := .tNext (tid s) (.item (.response id res)) :: s.obs } :=
  pumpRead_unknown_id s id res rest hf hfault hin hun

/-- **C01: completing a request touches its own call only.**  `complete_request id` for an in-flight id removes
exactly the entries with that id, leaves the request queue, the cancellation queue and the transport alone, and
every call other than the one recorded in the entry (`e.cid`) keeps its record — phase, oneshot, outcome —
unchanged (`OtherCallsSame`). -/
theorem C01_complete_targets_own_call (s : St) (id : Nat) (e : Entry) (hf : findEntry s id = some e) (o : Outcome) :
    (completeRequest s id o).2 = true ∧
    (completeRequest s id o).1.inflight = s.inflight.filter (·.id != id) ∧
    (completeRequest s id o).1.pq = s.pq ∧ (completeRequest s id o).1.cq = s.cq ∧
    (completeRequest s id o).1.t = s.t ∧
    OtherCallsSame e.cid s (completeRequest s id o).1 :=
  completeRequest_targets hf o

/-! ### request ids, over all op sequences -/

/-- **C01: request ids are unique.**  In every reachable state, two polled calls with the same request id are the
same call, and every id handed out is below the counter. -/
theorem C01_request_ids_distinct (m b c : Nat) (coupled : Bool) (ops : List COp)
    (s : St) (hs : s = (ops.foldl applyOp (initSys m b c coupled)).s)
    (i j : Nat) (ci cj : CallV) (hi : (view s).get i = some ci) (hj : (view s).get j = some cj)
    (pi : ci.polled) (pj : cj.polled) :
    ci.id < s.nextId ∧ (ci.id = cj.id → i = j) := by
  subst hs
  have h := reach_inv m b c coupled ops
  exact ⟨h.idLt i ci hi pi, h.idInj i j ci cj hi hj pi pj⟩

/-- **C01: every tracked id belongs to exactly one call.**  In every reachable state, each queued request and
each in-flight entry carries the `cid` and the request id of one call whose request was enqueued and whose
oneshot holds no value yet; the queued ids are pairwise distinct, so are the in-flight ids, and no id is both
queued and in flight. -/
theorem C01_tracked_ids_owned (m b c : Nat) (coupled : Bool) (ops : List COp)
    (s : St) (hs : s = (ops.foldl applyOp (initSys m b c coupled)).s) :
    (∀ r ∈ s.pq, ∃ cv, (view s).get r.cid = some cv ∧ cv.enq ∧ cv.id = r.id ∧ cv.val = none) ∧
    (∀ e ∈ s.inflight, ∃ cv, (view s).get e.cid = some cv ∧ cv.enq ∧ cv.id = e.id ∧ cv.val = none) ∧
    (s.pq.map (·.id)).Nodup ∧ (s.inflight.map (·.id)).Nodup ∧
    (∀ r ∈ s.pq, ∀ e ∈ s.inflight, r.id ≠ e.id) := by
  subst hs
  have h := reach_inv m b c coupled ops
  refine ⟨fun r hr => ?_, fun e he => ?_, h.pqNodup, h.infNodup, h.disj⟩
  · obtain ⟨cv, a1, a2, a3, _, _, a6, _⟩ := h.pq r hr
    exact ⟨cv, a1, a2, a3, a6⟩
  · obtain ⟨cv, a1, a2, a3, _, a5, _⟩ := h.inf e he
    exact ⟨cv, a1, a2, a3, a5⟩

/-! ### the monitor -/

/-- **C01 (monitor form).**  For every configuration and every op sequence (calls with pairwise distinct bodies,
which is how the monitor tells requests apart, and caller-chosen span ids), `monC01` accepts the model's trace:
whenever a call resolves with `Ok` / a server error, its request had been written, a `Response` with that request's
id and exactly that result had been read after the request was written, and no other call was resolved from a
response with that id. -/
theorem C01_monitor_accepts (m b c : Nat) (coupled : Bool) (ops : List COp)
    (hbodies : (callBodies ops).Nodup) (hspans : ∀ op ∈ ops, SpanOk op) :
    (monC01 (trace (initSys m b c coupled) ops)).ok = true :=
  (combined_ok (combined_accepts m b c coupled ops hbodies hspans)).2.1

set_option maxRecDepth 20000 in
/-- Non-vacuity: a call is resolved from the response carrying its id; a response with a foreign id (17) that
arrives first is discarded; the monitor accepts and has recorded the id as used. -/
example :
    let ops := [COp.call 0 1000000000 ⟨7, .given 1, true⟩ 5, .pollCall 0, .pollDispatch, .injectResp 17 (.ok 1),
      .injectResp 0 (.ok 42), .pollDispatch, .pollCall 0]
    (monC01 (trace (initSys 4 4 4 true) ops)).ok = true ∧
    (monC01 (trace (initSys 4 4 4 true) ops)).st = [0] ∧
    ((ops.foldl applyOp (initSys 4 4 4 true)).s.calls.map (·.outcome)) = [some (.ok 42)] := by decide

end TarpcModel.Client

import TarpcModel.Lemmas.ServerTable
/-!
# C10 (server side) — the request stream ends only when the connection is drained

Property theorems only (model `TarpcModel.Server`; lemmas in `Lemmas/ServerFlow.lean`).
-/
namespace TarpcModel.Server
open TarpcModel TarpcModel.Server.Flow

/-- **C10 (server).**  From any state (in particular every reachable one, for every configuration),
`Requests::poll_next` ends the stream (`None`) only if the inbound side reported end-of-stream
(`readFused`), no request is in flight any more and the last `poll_flush` completed (nothing is left
buffered in the sink). -/
theorem C10_server_ends_only_when_drained (s : St) (now fuel : Nat) (s' : St)
    (h : requestsPollNext fuel s now = (s', .none)) :
    s'.readFused = true ∧ s'.inflight = [] ∧ s'.t.buffered = [] := by
  have := (requestsPollNext_spec now fuel s).2
  rw [h] at this
  exact this rfl

/-- The same at the level of the application's poll: when a poll of the request stream records the end
of the stream (`done = some readyNone`), the resulting state has seen end-of-stream on the inbound
side, tracks no request and no timer entry, and has flushed everything it wrote. -/
theorem C10_server_done_means_drained (limit : Option Nat) (respCap tcap : Nat) (coupled : Bool)
    (ops : List SOp) (c : Sys) (hc : c = ops.foldl applyOp (initSys limit respCap tcap coupled))
    (hlive : c.s.done = none) (hend : (pollServerKeep c.s c.now).done = some .readyNone) :
    (pollServerKeep c.s c.now).readFused = true ∧ (pollServerKeep c.s c.now).inflight = [] ∧
    (pollServerKeep c.s c.now).t.buffered = [] ∧ (pollServerKeep c.s c.now).timers.len = 0 := by
  by_cases hl : (c.s.dropped || c.s.done.isSome || c.s.poisoned) = true
  · rw [pollServerKeep_dead _ _ hl] at hend
    simp only [emit_done, hlive] at hend
    cases hend
  · have hl' : (c.s.dropped || c.s.done.isSome || c.s.poisoned) = false := by simpa using hl
    rcases pollServerKeep_cases c.s c.now hl' with ⟨_, hd, _⟩ | ⟨hp, heq⟩
    · rw [hd] at hend; cases hend
    · rw [heq] at hend ⊢
      rw [pskFinish_done, pskRet_done] at hend
      have hspec := (requestsPollNext_spec c.now (pollFuel { c.s with woken := false }) { c.s with woken := false }).2
      have hinv := (sinv_closed true c.now).requestsPollNext (pollFuel { c.s with woken := false }) { c.s with woken := false }
        ((sinv_closed true c.now).inert _ _ (by constructor <;> rfl) (hc ▸ sinv_reach true limit respCap tcap coupled ops))
      have hdd := (dd_closed c.s.done c.s.dropped c.now).requestsPollNext (pollFuel { c.s with woken := false })
        { c.s with woken := false } ⟨rfl, rfl⟩
      generalize requestsPollNext (pollFuel { c.s with woken := false }) { c.s with woken := false } c.now = p at *
      rcases p with ⟨s1, r⟩
      have hfr := pskRet_frame s1 r
      have hr : r = .none := by
        cases r with
        | none => rfl
        | err a => simp at hend
        | _ =>
          simp only at hend hdd
          rw [hdd.1, hlive] at hend
          cases hend
      subst hr
      obtain ⟨h1, h2, h3⟩ := hspec rfl
      simp only at h1 h2 h3 hfr
      refine ⟨?_, ?_, ?_, ?_⟩
      · show (pskRet s1 .none).1.readFused = true; rw [hfr.2.2.1]; exact h1
      · show (pskRet s1 .none).1.inflight = []; rw [hfr.2.2.2.1]; exact h2
      · show (pskRet s1 .none).1.t.buffered = []; rw [hfr.2.2.2.2.1]; exact h3
      · show (pskRet s1 .none).1.timers.len = 0
        rw [hfr.2.2.2.2.2, DelayQ.len_eq]
        -- no tracked entry ⇒ no timer (the table / timer bijection)
        have hb := hinv.t.bwd
        simp only at hb
        cases hall : s1.timers.items with
        | nil => rfl
        | cons e es =>
          have : DelayQ.core e ∈ s1.timers.cores := by
            unfold DelayQ.cores; rw [hall]; simp
          obtain ⟨en, hen, _⟩ := hb _ this
          rw [h2] at hen; cases hen

/-- Non-vacuity: end-of-stream with nothing in flight ends the request stream… -/
example :
    (stepOp ([SOp.eof].foldl applyOp (initSys none 1 1 true)) .pollServer).2 =
      [.tNext (.server 0) .eof, .tReady (.server 0) .ready, .tFlush (.server 0) .ready,
       .ret (.server 0) .readyNone, .counts (.server 0) 0 0] := by
  decide

/-- … whereas with a request still in flight the stream stays `Pending` after end-of-stream, and ends
once the handler's response has been written and flushed. -/
example :
    let c := [SOp.injectReq 1 1000000000 ⟨0, .given 0, false⟩ 0, .pollServer, .eof, .pollServer].foldl applyOp
      (initSys none 1 1 true)
    c.s.done = none ∧ c.s.readFused = true ∧ c.s.inflight.length = 1 ∧
    ([SOp.finish 0 (.ok 7), .pollExec 0, .pollServer].foldl applyOp c).s.done = some .readyNone ∧
    ([SOp.finish 0 (.ok 7), .pollExec 0, .pollServer].foldl applyOp c).s.t.wire = [.response 1 (.ok 7)] := by
  decide

end TarpcModel.Server

import TarpcModel.Lemmas.ServerTable
/-!
# C14 (server side) — the server honours the transport (`Sink`) contract

Property theorems only.  Model: `TarpcModel.Server` (`Server/Model.lean`, ops in `Server/Run.lean`);
the instrumented transport `SimT` (`Sim/Transport.lean`) records contract violations by its owner in
`t.violations`.  Lemmas: `Lemmas/ServerFlow.lean`.
-/
namespace TarpcModel.Server
open TarpcModel TarpcModel.Server.Flow

/-- **C14 (server): never `start_send` without a preceding `poll_ready → Ready`.**  In every reachable
state of every configuration the transport has recorded no `send-without-ready` violation: the write
pump sends only right after `ensure_writeable` returned ready, and the `MaxRequests` limiter sends its
throttle reply only after its own `poll_ready → Ready` with nothing but the inner channel's
`poll_next` (which leaves the sink alone) in between; each further throttle reply in the same poll
is preceded by a fresh `poll_ready`. -/
theorem C14_server_send_after_ready (limit : Option Nat) (respCap tcap : Nat) (coupled : Bool) (ops : List SOp) :
    "send-without-ready" ∉ (ops.foldl applyOp (initSys limit respCap tcap coupled)).s.t.violations :=
  W_reach (initSys limit respCap tcap coupled) (by unfold W SimT.NoSWR; simp [initSys, init]) rfl ops

/-- **C14 (server): no busy loop.**  With the current `ensure_writeable` (one retry, no loop) no
operation ever exhausts the fuel of a model loop: no `Obs.spin` is recorded in any reachable state… -/
theorem C14_server_no_spin (limit : Option Nat) (respCap tcap : Nat) (coupled : Bool) (ops : List SOp) :
    ∀ t, Obs.spin t ∉ (ops.foldl applyOp (initSys limit respCap tcap coupled)).s.obs := by
  intro t ht
  have := ns_reach limit respCap tcap coupled ops
  unfold hasSpin at this
  rw [List.any_eq_false] at this
  exact absurd rfl (this _ ht)

/-- … nor emitted in any trace. -/
theorem C14_server_no_spin_trace (limit : Option Nat) (respCap tcap : Nat) (coupled : Bool) (ops : List SOp) :
    ∀ t, SEv.obs (Obs.spin t) ∉ trace (initSys limit respCap tcap coupled) ops := by
  have key : ∀ (ops : List SOp) (c : Sys), c.s.throttleAfterRead = false → c.s.ensureLoop = false →
      ∀ t, SEv.obs (Obs.spin t) ∉ trace c ops := by
    intro ops
    induction ops with
    | nil => intro c _ _ t h; cases h
    | cons op ops ih =>
      intro c hcfg hel t h
      have hc := cfg_reach { c with s := { c.s with obs := [] } } [op]
      have hns := NS_applyOp { c with s := { c.s with obs := [] } } op (by unfold NS; rfl) hcfg hel
      have ht : trace c (op :: ops) = SEv.op op :: ((stepOp c op).2.map SEv.obs ++ trace (stepOp c op).1 ops) := rfl
      rw [ht] at h
      simp only [List.mem_cons, List.mem_append, List.mem_map] at h
      rcases h with h | ⟨o, ho, h⟩ | h
      · cases h
      · cases h
        unfold NS hasSpin at hns
        rw [List.any_eq_false] at hns
        exact absurd rfl (hns _ (List.mem_reverse.mp ho))
      · exact ih (stepOp c op).1 (hc.2.2.2.trans hcfg) (hc.2.2.1.trans hel) t h
  exact key ops _ rfl rfl

/-- The loop that was removed from `ensure_writeable` (model flag `ensureLoop := true`): on a
transport whose readiness is independent of flushing (`coupled = false`) and currently closed, with a
response queued, one poll of the request stream retries `poll_ready` / `poll_flush` until the model's
spin limit — a busy loop inside a single `poll_next`. -/
theorem C14_server_spin_witness :
    hasSpin ([SOp.injectReq 1 1000000000 ⟨0, .given 0, false⟩ 0, .pollServer, .finish 0 (.ok 0), .pollExec 0,
        .setReady false, .pollServer].foldl applyOp
      { s := { (init 0 none 1 1 false) with ensureLoop := true } }).s.obs = true := by
  decide

/-- The same script on the current model: the poll returns `Pending` after one retry. -/
example :
    (stepOp ([SOp.injectReq 1 1000000000 ⟨0, .given 0, false⟩ 0, .pollServer, .finish 0 (.ok 0), .pollExec 0,
        .setReady false].foldl applyOp (initSys none 1 1 false)) .pollServer).2 =
      [.tNext (.server 0) .pending, .tReady (.server 0) .pending, .tFlush (.server 0) .ready,
       .tReady (.server 0) .pending, .tFlush (.server 0) .ready, .ret (.server 0) .pending,
       .counts (.server 0) 1 1] := by
  decide

/-- **C14 (server): flush before idle.**  Whenever `Requests::poll_next` (any fuel, from any state — in
particular every reachable one) returns `Pending` or ends the stream, everything it wrote has been
flushed (`buffered = []`) or a flush is pending and the transport holds the task's waker — whether or
not a transport failure occurred on the way. -/
theorem C14_server_flush_before_idle (s : St) (now fuel : Nat) (s' : St) (r : ReqPoll)
    (h : requestsPollNext fuel s now = (s', r)) (hr : r = .pending ∨ r = .none) :
    s'.t.buffered ≠ [] → s'.t.writeWaker = true := by
  intro hb
  have := (requestsPollNext_spec now fuel s).1
  rw [h] at this
  rcases this hr with h1 | h1
  · exact absurd h1 hb
  · exact h1

/-- Non-vacuity: a poll that writes a response onto a socket-like transport whose flush is blocked
goes idle with the response buffered and the waker registered. -/
example :
    let c := [SOp.injectReq 1 1000000000 ⟨0, .given 0, false⟩ 0, .pollServer, .finish 0 (.ok 0), .pollExec 0,
        .setFlush false, .pollServer].foldl applyOp (initSys none 1 2 true)
    c.s.t.buffered = [.response 1 (.ok 0)] ∧ c.s.t.writeWaker = true ∧ c.s.t.violations = [] := by
  decide

end TarpcModel.Server

import TarpcModel.Lemmas.C15Json
import TarpcModel.Lemmas.C15JsonOptional
import TarpcModel.Lemmas.C15Bincode
/-!
# C15 (value level, JSON) — shipped transports deliver messages intact

Property theorems only.  Model: `Wire/Json.lean` — the text layer (`render` = `serde_json`'s compact
writer, `parse` = its reader's grammar) and the schema layer (`toJson` / `fromJson` of tarpc's protocol
types as `serde` derive generates them), composed into the codec of
`tokio_serde::formats::Json`: `encode… = render ∘ toJson`, `decode… = fromJson ∘ parseDoc`.

Nothing here is partial: the text-level round trip is proved for **every** `Json` value (arbitrary
nesting, arbitrary Unicode strings and keys, every natural number), with the weakest side condition
(`numEnd`: a number literal must not be followed by a byte that would continue it).
What is *not* a theorem: that `parse` accepts exactly what `serde_json` accepts on malformed input — that
is the correspondence run of family `c15json`.
-/
namespace TarpcModel.Json
open TarpcModel.Bincode (Bytes strBytes Duration TraceContext Context Request ClientMessage ServerError
  RespBody Response portableKinds kindNum lookupSer_of_not_mem Outcome)
open TarpcModel.Gen

/-! ## Text layer -/

/-- **Text-level round trip, in front of any following bytes.**  For every JSON value `v` — any nesting,
any strings — the parser reads back exactly `v` from `render v ++ rest` and stops exactly at `rest`,
provided that, *if `v` is a number literal*, `rest` does not start with a byte that continues a number
(digit, `.`, `e`, `E`).  (Fuel is the parser's own: `parse` supplies the input length.) -/
theorem C15_json_text_roundtrip (v : Json) (rest : Bytes)
    (h : isNumTok v = true → numEnd rest = true) : parse (render v ++ rest) = some (v, rest) :=
  parseVal_render v rest _ (Nat.lt_succ_self _) h

/-- The side condition is vacuous for everything but bare numbers… -/
theorem C15_json_text_roundtrip_composite (v : Json) (rest : Bytes) (h : isNumTok v = false) :
    parse (render v ++ rest) = some (v, rest) :=
  C15_json_text_roundtrip v rest (by simp [h])

/-- …and for every value at the end of the input, or before a structural byte or whitespace. -/
theorem C15_json_text_roundtrip_end (v : Json) : parse (render v) = some (v, []) := by
  have := C15_json_text_roundtrip v [] (fun _ => rfl)
  simpa using this

/-- As a whole document (`from_reader` + `end()`). -/
theorem C15_json_text_roundtrip_doc (v : Json) : parseDoc (render v) = some v := parseDoc_render v

/-- Insignificant whitespace (space, `\n`, `\t`, `\r`) before and after a document is ignored. -/
theorem C15_json_text_whitespace (v : Json) (ws₁ ws₂ : Bytes) (h₁ : allWs ws₁) (h₂ : allWs ws₂) :
    parseDoc (ws₁ ++ render v ++ ws₂) = some v := parseDoc_ws v ws₁ ws₂ h₁ h₂

/-- The side condition cannot be dropped: `1` followed by `2` reads as `12`. -/
example : parse (render (.num 1) ++ [0x32]) = some (.num 12, []) := by rfl

/-- Corollary: the writer is injective — distinct values have distinct texts. -/
theorem C15_json_render_injective (v w : Json) (h : render v = render w) : v = w := by
  have hv := parseDoc_render v
  rw [h, parseDoc_render w] at hv
  exact (Option.some.inj hv).symm

/-- Corollary: no text of a non-number value is a proper prefix of another text (self-delimiting). -/
theorem C15_json_prefix_free (v w : Json) (r₁ r₂ : Bytes) (hv : isNumTok v = false)
    (hw : isNumTok w = false) (h : render v ++ r₁ = render w ++ r₂) : v = w ∧ r₁ = r₂ := by
  have e₁ := C15_json_text_roundtrip_composite v r₁ hv
  have e₂ := C15_json_text_roundtrip_composite w r₂ hw
  rw [h, e₂] at e₁
  simp at e₁
  exact ⟨e₁.1.symm, e₁.2.symm⟩

/-! ## Messages -/

section
variable {T : Type} {encT : T → Json} {decT : Json → Option T} {PT : T → Prop}

/-- **C15 (client → server), JSON.**  Every `ClientMessage` — any `u64` request id, any deadline
duration with `nanos < 10^9`, any 128-bit trace id, any span id, either sampling decision, any body
the body codec round-trips — is read back exactly from its encoding. -/
theorem C15_json_roundtrip_client_generic (hT : BodyCodec encT decT PT) (m : ClientMessage T)
    (hm : m.Valid PT) : decodeClientMessage decT (encodeClientMessage encT m) = some m := by
  simp [decodeClientMessage, encodeClientMessage, parseDoc_render, clientMessage_roundtrip hT m hm]

/-- **C15 (server → client), JSON.**  Every `Response` is read back exactly, except that the kind `k` of
an error arrives as whatever `kindBack k` is (`k'`); ids, bodies and details are exact. -/
theorem C15_json_roundtrip_response_generic (hT : BodyCodec encT decT PT) (r : Response T)
    (hr : ValidResponse PT r) (k' : String)
    (hk : ∀ e, r.message = .err e → kindBack e.kind = some k') :
    decodeResponse decT (encodeResponse encT r) = some (r.withKind k') := by
  simp [decodeResponse, encodeResponse, parseDoc_render, response_roundtrip hT r hr k' hk]

/-- …also when the peer's writer surrounds the document with whitespace (e.g. a trailing newline). -/
theorem C15_json_roundtrip_client_whitespace (hT : BodyCodec encT decT PT) (m : ClientMessage T)
    (hm : m.Valid PT) (ws₁ ws₂ : Bytes) (h₁ : allWs ws₁) (h₂ : allWs ws₂) :
    decodeClientMessage decT (ws₁ ++ encodeClientMessage encT m ++ ws₂) = some m := by
  have := parseDoc_ws (clientMessageToJson encT m) ws₁ ws₂ h₁ h₂
  simp only [List.append_assoc] at this
  simp [decodeClientMessage, encodeClientMessage, this, clientMessage_roundtrip hT m hm]

/-- The reader as the harness observes it (value / error / panic) returns the message for every valid
message whose deadline is representable as an `Instant`; cancels always are. -/
theorem C15_json_read_client_message (hT : BodyCodec encT decT PT) (m : ClientMessage T)
    (hm : m.Valid PT) (hd : ∀ r, m = .request r → r.context.deadline.secs < 2 ^ 63) :
    readClientMessage decT (encodeClientMessage encT m) = .value m := by
  have hdec := C15_json_roundtrip_client_generic hT m hm
  cases m with
  | request r =>
    have := hd r rfl
    simp only [readClientMessage, hdec, TarpcModel.Bincode.instantAddPanics]
    simp
    omega
  | cancel t id => simp only [readClientMessage, hdec]

end

/-- `String` bodies: a JSON string; every `String` round-trips (no length limit in this codec). -/
theorem C15_json_body_string : BodyCodec encStrBody decStrBody (fun _ => True) :=
  fun _ _ => rfl

/-- **C15, JSON, `ClientMessage<String>`** (the instance the driver and the harness run). -/
theorem C15_json_roundtrip_client (m : ClientMessage String) (hm : m.Valid (fun _ => True)) :
    decodeJson (encodeJson m) = some m :=
  C15_json_roundtrip_client_generic C15_json_body_string m hm

/-! ## Peers that omit optional members, order members differently, or add whitespace

These are the documents the `dec-must` ops of family `c15json` feed to the real reader (monitor rule
"a well-formed message a peer may send was not understood"). -/

/-- **C15 (optional members): a cancellation without trace context is understood.**  For every request id,
the document `{"Cancel":{"request_id":<id>}}` — alone or surrounded by insignificant whitespace — is read as
the cancellation of `id` with `trace::Context::default()`. -/
theorem C15_json_cancel_without_trace_context (id : Nat) (hid : id < 2 ^ 64) (ws₁ ws₂ : Bytes)
    (h₁ : allWs ws₁) (h₂ : allWs ws₂) :
    decodeJson (ws₁ ++ render (.obj [("Cancel", .obj [("request_id", .num id)])]) ++ ws₂)
      = some (.cancel defaultTrace id) := by
  have hp := parseDoc_ws (.obj [("Cancel", .obj [("request_id", .num id)])]) ws₁ ws₂ h₁ h₂
  simp only [List.append_assoc] at hp
  simp [decodeJson, decodeClientMessage, hp, clientMessageFromJson, cancelFromJson, req, opt, lookupAll,
    mkCancel, uintFromJson, hid]

/-- **C15 (optional members): a request without deadline gets the documented default.**  For every trace
context, id and body, a request whose context has no `deadline` member is read as that request with the
10-second default deadline. -/
theorem C15_json_request_without_deadline (t : TraceContext) (ht : t.Valid) (id : Nat) (hid : id < 2 ^ 64)
    (body : String) (ws₁ ws₂ : Bytes) (h₁ : allWs ws₁) (h₂ : allWs ws₂) :
    decodeJson (ws₁ ++ render (.obj [("Request", .obj [("context", .obj [("trace_context", traceToJson t)]),
        ("id", .num id), ("message", .str body)])]) ++ ws₂)
      = some (.request { context := { deadline := defaultDeadline, trace := t }, id := id, message := body }) := by
  have hp := parseDoc_ws (.obj [("Request", .obj [("context", .obj [("trace_context", traceToJson t)]),
        ("id", .num id), ("message", .str body)])]) ws₁ ws₂ h₁ h₂
  simp only [List.append_assoc] at hp
  simp [decodeJson, decodeClientMessage, hp, clientMessageFromJson, requestFromJson, contextFromJson, req, opt,
    lookupAll, mkRequest, mkContext, uintFromJson, hid, trace_roundtrip t ht, decStrBody, strFromJson]

/-- **C15 (member order).**  A peer may write the members of the message structs in any order: every
permutation of a cancellation's members, and every permutation of a request's members together with every
permutation (and optional omission of `deadline`, covered above) of its context's members, is read as the
same message. -/
theorem C15_json_member_order (m : ClientMessage String) (hm : m.Valid (fun _ => True)) :
    (∀ t id kvs, m = .cancel t id →
      kvs.Perm [("trace_context", traceToJson t), ("request_id", .num id)] →
      decodeJson (render (.obj [("Cancel", .obj kvs)])) = some m) ∧
    (∀ r kvs ckvs, m = .request r →
      ckvs.Perm [("deadline", durationToJson r.context.deadline), ("trace_context", traceToJson r.context.trace)] →
      kvs.Perm [("context", .obj ckvs), ("id", .num r.id), ("message", .str r.message)] →
      decodeJson (render (.obj [("Request", .obj kvs)])) = some m) := by
  constructor
  · rintro t id kvs rfl hk
    simp only [decodeJson, decodeClientMessage, parseDoc_render, Option.bind_some, clientMessageFromJson,
      cancelFromJson]
    rw [opt_perm _ hk, req_perm _ hk]
    simp [req, opt, lookupAll, mkCancel, trace_roundtrip _ hm.1, uintFromJson, hm.2]
  · rintro r kvs ckvs rfl hc hk
    obtain ⟨h1, h2, _⟩ := hm
    simp only [decodeJson, decodeClientMessage, parseDoc_render, Option.bind_some, clientMessageFromJson,
      requestFromJson]
    rw [req_perm _ hk, req_perm _ hk, req_perm _ hk]
    have hctx : contextFromJson (.obj ckvs) = some r.context := by
      simp only [contextFromJson]
      rw [opt_perm _ hc, req_perm _ hc]
      simp [req, opt, lookupAll, mkContext, duration_roundtrip _ h1.1, trace_roundtrip _ h1.2]
    simp [req, lookupAll, mkRequest, hctx, uintFromJson, h2, decStrBody, strFromJson]

/-! ## Error kinds -/

/-- **Every portable kind arrives as itself** (for the generated tables, whatever integer type the
writer uses: JSON writes the same digits for `1u32` and `1i32`). -/
theorem C15_error_kinds_json : ∀ k ∈ portableKinds, kindBack k = some k := by decide

/-- **Other kinds degrade to the generic kind.** -/
theorem C15_json_other_kinds_degrade (k : String) (hk : k ∉ portableKinds) :
    kindBack k = some "Other" := by
  have h1 : kindNum k = ekSerDefault := lookupSer_of_not_mem k _ _ hk
  simp only [kindBack, kindToJson, h1]
  decide

theorem C15_json_kinds_total (k : String) :
    kindBack k = some (if k ∈ portableKinds then k else "Other") := by
  by_cases h : k ∈ portableKinds
  · simp only [h, ↓reduceIte]; exact C15_error_kinds_json k h
  · simp only [h, ↓reduceIte]; exact C15_json_other_kinds_degrade k h

/-- **C15, JSON, `Response<String>`, unconditional**: id, body and detail exact; the error kind exact if
portable, `Other` if not. -/
theorem C15_json_roundtrip_response (r : Response String) (hr : r.requestId < 2 ^ 64) :
    decodeJsonResponse (encodeJsonResponse r) =
      some (match r.message with
        | .ok _ => r
        | .err e => r.withKind (if e.kind ∈ portableKinds then e.kind else "Other")) := by
  have hv : ValidResponse (fun _ : String => True) r := ⟨hr, fun _ _ => trivial⟩
  cases hm : r.message with
  | ok t =>
    have := C15_json_roundtrip_response_generic C15_json_body_string r hv ""
      (by intro e h; rw [hm] at h; cases h)
    simpa [TarpcModel.Bincode.Response.withKind, hm, decodeJsonResponse, encodeJsonResponse] using this
  | err e =>
    exact C15_json_roundtrip_response_generic C15_json_body_string r hv _
      (by intro e' h; rw [hm] at h; cases h; exact C15_json_kinds_total e.kind)

/-- In particular a response carrying a portable kind is delivered intact. -/
theorem C15_json_roundtrip_response_portable (id : Nat) (e : ServerError) (hid : id < 2 ^ 64)
    (hk : e.kind ∈ portableKinds) :
    decodeJsonResponse (encodeJsonResponse { requestId := id, message := .err e }) =
      some { requestId := id, message := .err e } := by
  have := C15_json_roundtrip_response { requestId := id, message := .err e } hid
  simpa [TarpcModel.Bincode.Response.withKind, hk] using this

/-- **C15, JSON, both directions** in one statement. -/
theorem C15_json_roundtrip :
    (∀ m : ClientMessage String, m.Valid (fun _ => True) → decodeJson (encodeJson m) = some m) ∧
    (∀ r : Response String, r.requestId < 2 ^ 64 →
      decodeJsonResponse (encodeJsonResponse r) =
        some (match r.message with
          | .ok _ => r
          | .err e => r.withKind (if e.kind ∈ portableKinds then e.kind else "Other"))) :=
  ⟨C15_json_roundtrip_client, C15_json_roundtrip_response⟩

/-! ## Non-vacuity: concrete messages, their exact bytes (as produced by the real crate), and what the
reader accepts beyond the writer's output (each line is also in the harness's fixed suite) -/

/-- A request whose body needs every kind of treatment: two-byte UTF-8, `\"`, `\\`, `\n`, a `\u00xx`
control, `/` (not escaped) and a four-byte code point (verbatim). -/
def exampleRequest : ClientMessage String := .request
  { context := { deadline := { secs := 5, nanos := 7 },
                 trace := { traceId := 0x0102030405060708090a0b0c0d0e0f10, spanId := 300,
                            sampled := false } },
    id := 251, message := "hé\"\\\n\x01/🦀" }

def exampleRequestText : String :=
  "{\"Request\":{\"context\":{\"deadline\":{\"secs\":5,\"nanos\":7},\"trace_context\":{\"trace_id\":[16,15,14,13,12,11,10,9,8,7,6,5,4,3,2,1],\"span_id\":300,\"sampling_decision\":\"Unsampled\"}},\"id\":251,\"message\":\"hé\\\"\\\\\\n\\u0001/🦀\"}}"

set_option maxRecDepth 100000 in
example : encodeJson exampleRequest = strBytes exampleRequestText ∧
    decodeJson (strBytes exampleRequestText) = some exampleRequest := by decide

set_option maxRecDepth 100000 in
/-- The same message as another writer might send it: members reordered, whitespace, the defaulted
`deadline` … present here; `\u` escapes (a surrogate pair for the crab, upper-case hex), `\/`; an
unknown member whose value no typed reader would take (a float, an unpaired surrogate). -/
example : decodeJson (strBytes
    " { \"Request\" : {\"message\":\"h\\u00E9\\\"\\\\\\n\\u0001\\/\\ud83e\\udd80\", \"x\":[1.5e3,\"\\ud800\",{}],\n\"id\":251,\"context\":{\"trace_context\":{\"sampling_decision\":{\"Unsampled\":null},\"span_id\":300,\"trace_id\":[16,15,14,13,12,11,10,9,8,7,6,5,4,3,2,1]},\"deadline\":{\"nanos\":7,\"secs\":5}}}}\r\n")
    = some exampleRequest := by decide

set_option maxRecDepth 100000 in
/-- Omitted `#[serde(default)]` members: the deadline becomes `ten_seconds_from_now()`, a cancel's trace context
the all-zero unsampled one.  Structs may also come as arrays. -/
example :
    decodeJson (strBytes "{\"Cancel\":{\"request_id\":7}}") =
      some (.cancel { traceId := 0, spanId := 0, sampled := false } 7) ∧
    decodeJson (strBytes "{\"Request\":{\"context\":{\"trace_context\":[[1,0,0,0,0,0,0,0,0,0,0,0,0,0,0,0],2,\"Sampled\"]},\"id\":3,\"message\":\"\"}}") =
      some (.request { context := { deadline := defaultDeadline,
                                    trace := { traceId := 1, spanId := 2, sampled := true } },
                       id := 3, message := "" }) ∧
    decodeJson (strBytes "{\"Cancel\":[[[1,0,0,0,0,0,0,0,0,0,0,0,0,0,0,0],2,\"Sampled\"],7]}") =
      some (.cancel { traceId := 1, spanId := 2, sampled := true } 7) := by decide

set_option maxRecDepth 100000 in
/-- What the reader rejects: a repeated member, an id of `2^64`, a float where an integer is due, a
trailing comma, a second variant, trailing text, an unpaired surrogate or invalid UTF-8 in a *typed*
string (the same in a skipped member is fine), 15 trace-id bytes, an unknown `Duration` member. -/
example :
    decodeJson (strBytes "{\"Cancel\":{\"request_id\":7,\"request_id\":7}}") = none ∧
    decodeJson (strBytes "{\"Cancel\":{\"request_id\":18446744073709551616}}") = none ∧
    decodeJson (strBytes "{\"Cancel\":{\"request_id\":18446744073709551615}}") =
      some (.cancel { traceId := 0, spanId := 0, sampled := false } (2 ^ 64 - 1)) ∧
    decodeJson (strBytes "{\"Cancel\":{\"request_id\":7.0}}") = none ∧
    decodeJson (strBytes "{\"Cancel\":{\"request_id\":-0}}") = none ∧
    decodeJson (strBytes "{\"Cancel\":{\"request_id\":07}}") = none ∧
    decodeJson (strBytes "{\"Cancel\":{\"request_id\":7,}}") = none ∧
    decodeJson (strBytes "{\"Cancel\":{\"request_id\":7},\"x\":1}") = none ∧
    decodeJson (strBytes "{\"Cancel\":{\"request_id\":7}} x") = none ∧
    decodeJson (strBytes "\"Cancel\"") = none ∧
    decodeJson (strBytes "{\"Cancel\":{\"request_id\":7,\"x\":\"\\ud800\"}}") =
      some (.cancel { traceId := 0, spanId := 0, sampled := false } 7) ∧
    decodeJson (strBytes "{\"Cancel\":{\"request_id\":7,\"\\ud800\":0}}") = none ∧
    decodeJson (strBytes "{\"Cancel\":{\"request_id\":7,\"x\":\"" ++ [0xff] ++ strBytes "\"}}") =
      some (.cancel { traceId := 0, spanId := 0, sampled := false } 7) ∧
    decodeJson (strBytes "{\"Cancel\":{\"request_id\":7,\"" ++ [0xff] ++ strBytes "\":0}}") = none ∧
    decodeJson (strBytes "{\"Cancel\":{\"request_id\":7,\"trace_context\":{\"trace_id\":[1,0,0,0,0,0,0,0,0,0,0,0,0,0,0],\"span_id\":2,\"sampling_decision\":\"Sampled\"}}}") = none ∧
    decodeJson (strBytes "{\"Request\":{\"context\":{\"deadline\":{\"secs\":1,\"nanos\":2,\"x\":0},\"trace_context\":[[1,0,0,0,0,0,0,0,0,0,0,0,0,0,0,0],2,\"Sampled\"]},\"id\":3,\"message\":\"\"}}") = none := by
  decide

set_option maxRecDepth 100000 in
/-- Responses: exact bytes, a portable kind (`PermissionDenied` = 1), a non-portable one
(`OutOfMemory` is written as 16 and arrives as `Other`), a number outside the read table. -/
example :
    encodeJsonResponse { requestId := 1, message := .err { kind := "PermissionDenied", detail := "x" } } =
      strBytes "{\"request_id\":1,\"message\":{\"Err\":{\"kind\":1,\"detail\":\"x\"}}}" ∧
    encodeJsonResponse { requestId := 2 ^ 64 - 1, message := .ok "é" } =
      strBytes "{\"request_id\":18446744073709551615,\"message\":{\"Ok\":\"é\"}}" ∧
    decodeJsonResponse (encodeJsonResponse { requestId := 1, message := .err { kind := "OutOfMemory", detail := "" } }) =
      some { requestId := 1, message := .err { kind := "Other", detail := "" } } ∧
    decodeJsonResponse (strBytes "[1,{\"Err\":[4294967295,\"d\"]}]") =
      some { requestId := 1, message := .err { kind := "Other", detail := "d" } } ∧
    decodeJsonResponse (strBytes "{\"request_id\":1,\"message\":{\"Err\":{\"kind\":4294967296,\"detail\":\"d\"}}}") = none ∧
    decodeJsonResponse (strBytes "{\"request_id\":1,\"message\":\"Ok\"}") = none := by decide

/-- Serde's `Duration` reader normalises `nanos ≥ 10^9` and rejects a `secs` overflow. -/
example : durationFromJson (.obj [("nanos", .num 4294967295), ("secs", .num 1)]) =
      some { secs := 5, nanos := 294967295 } ∧
    durationFromJson (.obj [("secs", .num (2 ^ 64 - 1)), ("nanos", .num 1000000000)]) = none := by decide

/-- There are 18 portable kinds, `Other` among them, and e.g. `OutOfMemory` is not. -/
example : portableKinds.length = 18 ∧ "Other" ∈ portableKinds ∧ "OutOfMemory" ∉ portableKinds := by
  decide

/-- The validity hypothesis is satisfiable at every boundary (and this message is covered). -/
example : (ClientMessage.request (T := String)
      { context := { deadline := { secs := 2 ^ 64 - 1, nanos := 999999999 },
                     trace := { traceId := 2 ^ 128 - 1, spanId := 2 ^ 64 - 1, sampled := true } },
        id := 2 ^ 64 - 1, message := "\x00\uffff" }).Valid (fun _ => True) := by
  refine ⟨⟨⟨by decide, by decide⟩, ⟨by decide, by decide⟩⟩, by decide, trivial⟩

set_option maxRecDepth 100000 in
/-- A request whose deadline does not fit an `Instant` is read as a far-future deadline while the
source saturates (`Gen.deadlineSaturates`), never as garbage. -/
example : readClientMessage decStrBody (strBytes
    "{\"Request\":{\"context\":{\"deadline\":{\"secs\":9223372036854775808,\"nanos\":0},\"trace_context\":[[1,0,0,0,0,0,0,0,0,0,0,0,0,0,0,0],2,\"Sampled\"]},\"id\":3,\"message\":\"\"}}")
    = (if deadlineSaturates then
        .value (.request { context := { deadline := { secs := deadlineFarFutureSecs, nanos := 0 },
                                        trace := { traceId := 1, spanId := 2, sampled := true } },
                           id := 3, message := "" })
       else .panic) := by decide

end TarpcModel.Json

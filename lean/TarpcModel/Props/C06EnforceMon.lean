import TarpcModel.Lemmas.ServerTab3
import TarpcModel.Props.C16Server
/-!
# C06 (server side) — the "deadline enforced" clauses of the run-time monitor `monC06` accept the traces of the model

Property theorems only.  `Props/C06ServerMon.lean` has the never-early clause of `checkC06` (`checkC06Early`) for every
configuration and script.  The other two clauses (`checkC06Rest`, `Lemmas/ServerMon06.lean`) are the *enforced*
direction:

* `handler r polled t` although a non-stalled poll of the request stream went idle at or after the tick of `r`'s timer
  (`expiredSeen`, set by `Book.sweep`; the tick is `ceil_ms (max deadline yieldedAt)`);
* a response transmitted for a request whose expiry the monitor had seen in that way.

**Scripts quantified over** (each hypothesis is explicit in the theorems):

* `limit = none` — no `MaxRequests` limiter (finding F7: with the limiter at its limit and the sink not ready the channel
  is not polled at all; the monitors mark such polls `stalled` and have their own clause `checkC06Stall` for them);
* `advSum ops < 2^35 ms` — the clock bound under which the timer wheel is complete (`Props/C06NotLate.lean`;
  beyond it `monC06` does reject a trace of the model: `C06_wheel_lag_witness`);
* `DistinctIds ops` — the requests the script injects carry pairwise distinct ids.  This hypothesis cannot be dropped:
  `C06S_reuse_after_expiry_witness`.  (`checkC06`'s own exemption, `reusedAfterAbort`, covers a re-use after a `Cancel`,
  an abandonment or an abort that the handler noticed — not this one.)

The proof (`Lemmas/ServerTab1.lean` … `ServerTab3.lean`) couples the book with the model a second time (`Tab.X`, on top of
`Mon06.K`): every live, unaborted execution is tracked; the ids waiting in the guard-cancellation queue and in the
response queue belong to finished executions; the exact due time of a tracked request's timer is not after
`max deadline yieldedAt`; an execution whose expiry the monitor has seen is tracked no more.  The last clause is
established at an idle poll from the completeness of the timer wheel (`requestsPollNext_idle_timers`).
-/
namespace TarpcModel.Server
open TarpcModel TarpcModel.Server.Flow TarpcModel.Server.Mon06 TarpcModel.Server.Tab

/-- the monitor with the two "deadline enforced" clauses of `checkC06` only -/
def monC06Rest (limit : Option Nat) (evs : List SEv) : Mon Unit := Mon.run limit checkC06Rest () evs

/-- **C06 (server), monitor form, enforced.**  Without a limiter, for every script over all ops whose total advanced
time is below `2^35` ms and whose injected requests carry pairwise distinct ids — whatever deadlines the requests
carry, with cancellations, abandoned executions, transport faults — the two "deadline enforced" clauses of the C06
monitor never fire on the model's trace: once a poll of the request stream has gone idle at or after the tick of a
request's timer, its handler is never polled again and no response for it is transmitted. -/
theorem C06S_enforcement_accepts (respCap tcap : Nat) (coupled : Bool) (ops : List SOp)
    (hT : advSum ops < 2 ^ 35 * nsPerMs) (hd : DistinctIds ops) :
    (monC06Rest none (trace (initSys none respCap tcap coupled) ops)).ok = true := by
  unfold Mon.ok monC06Rest
  rw [c06_rest_accepts C16_server_flags respCap tcap coupled ops hT hd]; rfl

/-- **C06 (server), the whole monitor.**  Under the same hypotheses `monC06` — all three clauses of `checkC06` —
accepts the model's trace. -/
theorem C06S_monitor_accepts (respCap tcap : Nat) (coupled : Bool) (ops : List SOp)
    (hT : advSum ops < 2 ^ 35 * nsPerMs) (hd : DistinctIds ops) :
    (monC06 none (trace (initSys none respCap tcap coupled) ops)).ok = true := by
  unfold Mon.ok
  rw [c06_accepts C16_server_flags respCap tcap coupled ops hT hd]; rfl

/-- what `DistinctIds` says, unfolded -/
theorem C06S_distinctIds_iff (ops : List SOp) : DistinctIds ops ↔ (reqIds ops).Nodup := Iff.rfl

/-- a request id re-used after the first request with it had expired, while that request's response was still queued -/
def c06ReuseOps : List SOp :=
  [.injectReq 1 5000000 ⟨7, .given 0, true⟩ 0, .pollServer, .finish 0 (.ok 0), .pollExec 0, .advance 6000000,
   .injectReq 1 20000000 ⟨7, .given 0, true⟩ 0, .pollServer, .advance 20000000, .pollServer, .pollExec 1]

set_option maxRecDepth 100000 in
/-- **The hypothesis `DistinctIds` cannot be dropped** (no limiter, no fault, 26 ms of virtual time): request 1 (deadline
5 ms) completes, its response waits in the response queue; at 6 ms one poll of the request stream expires its table
entry, reads a second request with the same id (deadline 20 ms), starts it — and then writes the *first* request's
response, which (`BaseChannel::start_send`) removes the table entry of the id: the second request is tracked no more,
its deadline is never enforced, and `monC06` rightly reports its handler still running at 26 ms. -/
theorem C06S_reuse_after_expiry_witness :
    (monC06 none (trace (initSys none 1 8 false) c06ReuseOps)).ok = false ∧ ¬ DistinctIds c06ReuseOps ∧
    advSum c06ReuseOps < 2 ^ 35 * nsPerMs := by
  refine ⟨by decide, by decide, by decide⟩

/-- Non-vacuity: an idle poll past the tick marks the request (`expiredSeen`); the `poll-exec` that follows reports
the handler dropped, not polled, and the monitor accepts. -/
example :
    let ops : List SOp :=
      [.injectReq 1 1000000 ⟨0, .given 0, false⟩ 0, .pollServer, .pollExec 0, .advance 5000000, .pollServer, .pollExec 0]
    (monC06 none (trace (initSys none 1 1 true) ops)).ok = true ∧ DistinctIds ops ∧
    SEv.obs (.handler 0 .dropped 5000000) ∈ trace (initSys none 1 1 true) ops := by
  decide

/-- The clauses are not vacuous: a handler polled after an idle poll past its tick is rejected. -/
example :
    (monC06Rest none
      [.op .pollServer, .obs (.yielded 0 1 1000000 ⟨0, .fresh 0, false⟩), .obs (.ret (.server 0) .readyItem),
       .op (.advance 5000000), .op .pollServer, .obs (.ret (.server 0) .pending), .op (.pollExec 0),
       .obs (.handler 0 .polled 5000000)]).ok = false := by
  decide

end TarpcModel.Server

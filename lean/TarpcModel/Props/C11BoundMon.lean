import TarpcModel.Lemmas.ServerTab8
import TarpcModel.Props.C11ServerMon
import TarpcModel.Props.C11TableMon
/-!
# C11 (server side) — the bound clause, the table clauses and the whole run-time monitor `monC11`

Property theorems only.  `Props/C11ServerMon.lean` has the counting clauses of `checkC11` for every configuration and
script, `Props/C11TableMon.lean` the stalled-limiter / idle-channel clauses (`checkC11Idle`).  Here: the remaining clause
`checkC11Bound` — *never more requests in flight than the monitor's table lists* (transport not failed), judged at the end
of **every** poll of the request stream, idle or not — and with it `checkC11Rest` (`C11S_table_accepts`) and the whole
monitor (`C11S_monitor_accepts`).

Hypotheses (the same as for the idle clause, explicit in the statements):

* `limit = none` (finding F7 / F2: with a limiter the monitor's stalled-poll reasoning and the limiter's over-throttling
  are C12 territory);
* `advSum ops < 2^35 ms` (below this clock bound the timer wheel is complete: every due timer is found);
* `DistinctIds ops`: the injected requests carry pairwise distinct ids (used by the proof — the model removes table
  entries by id, the monitor by execution; no counter-example with re-used ids is known for these clauses);
* `NearOps ops`: every injected deadline lies within the clamp horizon (`≤ clampNs`), so that no timer is re-armed.  It
  cannot be dropped: `C11S_rearm_rejected` (the script of `C11S_rearm_witness`) — the whole monitor rejects a trace of
  the model.

What the clause needs, beyond the earlier couplings:

* **the order in which the timer wheel yields due timers** (`Lemmas/DelayQOrder.lean`): `DelayQ.pollExpired_min` — what
  `poll_expired` returns has the earliest tick of the queue (`wheelPoll_min` for the wheel; the `expired` stack only holds
  entries whose tick is the wheel clock, `StackEq`, an invariant of every reachable queue: `sq_closed`).  Hence the
  channel's `poll_expired` expires the tracked request with the earliest tick (`pollExpired_minS`), which is what the
  monitor's `sweepOne` ("the due entry with the smallest tick, if unique", `sweepOne_min`) assumes at every transport read;
* a fourth coupling `Tab.Z` (`Lemmas/ServerTab6.lean`; walked through one poll in `ServerTab7.lean`, over scripts in
  `ServerTab8.lean`): every tracked request that has been handed out is in the book's table; the book's abandonment order
  is, position by position, the channel's queue of guard cancellations (the head taken by the channel in the current
  iteration of its loop is the head the book removes at the iteration's read); once the read side has ended the book sees
  no more reads and claims nothing about the order;
* a failing write pump (`poll_ready` / `start_send` / `poll_flush`) is recorded by the book (`failed_of_shape`,
  `NZ_pumpWrite`): the request it drops is tracked without ever having been yielded, and the clause is off.
-/
namespace TarpcModel.Server
open TarpcModel TarpcModel.Server.Flow TarpcModel.Server.Mon06 TarpcModel.Server.Mon11 TarpcModel.Server.Tab

/-- the monitor with the bound clause of `checkC11` only -/
def monC11Bound (limit : Option Nat) (evs : List SEv) : Mon Unit := Mon.run limit checkC11Bound () evs

/-- the monitor with the table clauses of `checkC11` (bound, stalled limiter, idle channel) -/
def monC11Rest (limit : Option Nat) (evs : List SEv) : Mon Unit := Mon.run limit checkC11Rest () evs

/-- **C11 (server), monitor form, the bound.**  Without a limiter, for every script over all ops whose total advanced
time is below `2^35` ms, whose injected requests carry pairwise distinct ids and deadlines within the clamp horizon —
with cancellations, abandoned executions, expirations, transport faults — the bound clause of the C11 monitor never
fires on the model's trace: at the end of every poll of the request stream, the channel reports no more requests in
flight than the monitor's table of yielded requests lists (the table from which the monitor has removed, at every
transport read, the abandoned execution at the head of its order and the due execution with the earliest tick). -/
theorem C11S_bound_accepts (respCap tcap : Nat) (coupled : Bool) (ops : List SOp)
    (hT : advSum ops < 2 ^ 35 * nsPerMs) (hd : DistinctIds ops) (hnear : NearOps ops) :
    (monC11Bound none (trace (initSys none respCap tcap coupled) ops)).ok = true := by
  unfold Mon.ok monC11Bound
  rw [c11_bound_accepts C16_server_flags respCap tcap coupled ops hT hd hnear]; rfl

/-- **C11 (server), monitor form, all table clauses** (`checkC11Rest`: bound, stalled limiter, idle channel), under
the same hypotheses. -/
theorem C11S_table_accepts (respCap tcap : Nat) (coupled : Bool) (ops : List SOp)
    (hT : advSum ops < 2 ^ 35 * nsPerMs) (hd : DistinctIds ops) (hnear : NearOps ops) :
    (monC11Rest none (trace (initSys none respCap tcap coupled) ops)).ok = true := by
  unfold Mon.ok monC11Rest
  rw [c11_rest_accepts C16_server_flags respCap tcap coupled ops hT hd hnear]; rfl

/-- **C11 (server), the whole run-time monitor accepts every trace of the model** — no limiter, clock below `2^35` ms,
pairwise distinct request ids, deadlines within the clamp horizon; every op, every fault. -/
theorem C11S_monitor_accepts (respCap tcap : Nat) (coupled : Bool) (ops : List SOp)
    (hT : advSum ops < 2 ^ 35 * nsPerMs) (hd : DistinctIds ops) (hnear : NearOps ops) :
    (monC11 none (trace (initSys none respCap tcap coupled) ops)).ok = true := by
  have hc := C11S_monitor_accepts_counts none respCap tcap coupled ops
  have hc' : (monC11Counts none (trace (initSys none respCap tcap coupled) ops)).bad = none := by
    unfold Mon.ok at hc
    cases hb : (monC11Counts none (trace (initSys none respCap tcap coupled) ops)).bad with
    | none => rfl
    | some w => rw [hb] at hc; cases hc
  unfold Mon.ok
  rw [c11_accepts C16_server_flags respCap tcap coupled ops hT hd hnear hc']; rfl

set_option maxRecDepth 100000 in
/-- **The hypothesis `NearOps` cannot be dropped** for the whole monitor either: on the script of `C11S_rearm_witness`
(one request whose deadline lies half a millisecond beyond the clamp, the re-arm poll 0.7 ms late) `monC11` and
`monC11Rest` reject the model's trace, while the bound clause alone accepts it. -/
theorem C11S_rearm_rejected :
    (monC11 none (trace (initSys none 1 8 false) c11RearmOps)).ok = false ∧
    (monC11Rest none (trace (initSys none 1 8 false) c11RearmOps)).ok = false ∧
    (monC11Bound none (trace (initSys none 1 8 false) c11RearmOps)).ok = true := by
  decide

set_option maxRecDepth 100000 in
/-- Non-vacuity: two requests are yielded; the execution of the first is dropped by the application (its guard queues a
cancellation), the clock passes the second one's deadline, a third request arrives: one poll of the request stream
processes the guard cancellation, expires the second request, reads and yields the third — it does not go idle, and
reports 1 in flight; the monitor's table (after `sweepOne` at that read) lists exactly that one.  The bound clause judges
every `counts` observation and accepts, and so does the whole monitor. -/
example :
    let ops : List SOp :=
      [.injectReq 1 5000000 ⟨0, .given 0, false⟩ 0, .pollServer, .injectReq 2 6000000 ⟨0, .given 0, false⟩ 0, .pollServer,
       .dropExec 0, .advance 10000000, .injectReq 3 90000000 ⟨0, .given 0, false⟩ 0, .pollServer]
    (monC11Bound none (trace (initSys none 1 8 false) ops)).ok = true ∧
    (monC11 none (trace (initSys none 1 8 false) ops)).ok = true ∧
    SEv.obs (.counts (.server 0) 2 2) ∈ trace (initSys none 1 8 false) ops ∧
    SEv.obs (.counts (.server 0) 1 1) ∈ trace (initSys none 1 8 false) ops ∧
    SEv.obs (.ret (.server 0) .readyItem) ∈ trace (initSys none 1 8 false) ops := by
  decide

/-- The clause is not vacuous: a poll that reports more requests in flight than the table lists is rejected. -/
example :
    (monC11Bound none
      [.op .pollServer, .obs (.yielded 0 1 5000000 ⟨0, .fresh 0, false⟩), .obs (.ret (.server 0) .readyItem),
       .obs (.counts (.server 0) 2 2)]).ok = false := by
  decide

end TarpcModel.Server

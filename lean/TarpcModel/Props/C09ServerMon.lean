import TarpcModel.Lemmas.ServerMon14
import TarpcModel.Props.C16Server
/-!
# C09 (server side) — the run-time monitor `monC09` accepts every trace of the server model

Property theorems only.  `monC09` (`Monitors/Server.lean`, `checkC09`) remembers the first transport failure of
the current op (`poll_ready` / `poll_flush` / `poll_next → Err`, a failed `start_send`) and demands that the poll
of the request stream reports exactly it (`Ready(Some(Err))` with the matching tag), reports nothing when nothing
failed, and that nothing panics.

Its last clause ("panic") is true of the model only while the clock is below `2^35` ms (finding F9,
`C16_server_late_panic_witness`): `checkC09np` (`Lemmas/ServerMon14.lean`) is `checkC09` with that clause
removed; it accepts every trace; the removed clause is the only difference (`C09S_check_eq_np`), so `monC09`
itself accepts every trace without a panic — in particular every script below the bound of `C16_server_no_panic`.
-/
namespace TarpcModel.Server
open TarpcModel TarpcModel.Server.Flow TarpcModel.Server.FlowMon

/-- **C09 (server), monitor form, all clauses but "panic".**  For every configuration and every script over all
ops the failure-reporting clauses of the C09 monitor accept the model's trace: an error item carries the tag of
the transport call that failed in that poll, and a poll in which a transport call failed does not end otherwise
than by `Pending` or that error item. -/
theorem C09S_monitor_accepts_np (limit : Option Nat) (respCap tcap : Nat) (coupled : Bool) (ops : List SOp) :
    (monC09np limit (trace (initSys limit respCap tcap coupled) ops)).ok = true := by
  have h := (sim9_run limit (trace (initSys limit respCap tcap coupled) ops)).bad
    (flow_accepts limit respCap tcap coupled ops).2.1
  unfold Mon.ok
  rw [h]; rfl

/-- the clause removed from `checkC09` is the only difference: on every event but a `panic` observation the two
checks agree (and on a `panic` observation `checkC09` fires, `checkC09np` does not) -/
theorem C09S_check_eq_np (b : Book) (exp : C09St) (e : SEv) (h : ∀ t site, e ≠ .obs (.panic t site)) :
    checkC09np b exp e = checkC09 b exp e := by
  unfold checkC09np
  split
  · next t site => exact absurd rfl (h t site)
  · rfl

/-- … hence on a trace without `panic` observations `monC09` and `monC09np` are the same run -/
theorem C09S_mon_eq_np (limit : Option Nat) (evs : List SEv) (h : ∀ t site, SEv.obs (.panic t site) ∉ evs) :
    monC09 limit evs = monC09np limit evs := by
  unfold monC09 monC09np Mon.run
  generalize ({ st := none, book := { limit := limit } } : Mon C09St) = m
  induction evs generalizing m with
  | nil => rfl
  | cons e evs ih =>
    simp only [List.foldl_cons]
    have he : Mon.step checkC09 m e = Mon.step checkC09np m e := by
      have h1 : ∀ b st, checkC09np b st e = checkC09 b st e := fun b st =>
        C09S_check_eq_np b st e (fun t site heq => h t site (heq ▸ List.mem_cons_self ..))
      rw [mon_step_def, mon_step_def, h1]
    rw [he]
    exact ih (fun t site hm => h t site (List.mem_cons_of_mem _ hm)) _

/-- **C09 (server), monitor form.**  For every configuration and every script whose total advanced time is below
`2^35` ms (the bound of `C16_server_no_panic`; it cannot be dropped, see below) the C09 monitor — all clauses —
accepts the model's trace. -/
theorem C09S_monitor_accepts (limit : Option Nat) (respCap tcap : Nat) (coupled : Bool) (ops : List SOp)
    (hT : advSum ops < 2 ^ 35 * nsPerMs) :
    (monC09 limit (trace (initSys limit respCap tcap coupled) ops)).ok = true := by
  rw [C09S_mon_eq_np limit _ (C16_server_no_panic limit respCap tcap coupled ops hT).1]
  exact C09S_monitor_accepts_np limit respCap tcap coupled ops

/-- … more generally: on every trace of the model that contains no `panic` observation. -/
theorem C09S_monitor_accepts_of_no_panic (limit : Option Nat) (respCap tcap : Nat) (coupled : Bool) (ops : List SOp)
    (h : ∀ t site, SEv.obs (.panic t site) ∉ trace (initSys limit respCap tcap coupled) ops) :
    (monC09 limit (trace (initSys limit respCap tcap coupled) ops)).ok = true := by
  rw [C09S_mon_eq_np limit _ h]
  exact C09S_monitor_accepts_np limit respCap tcap coupled ops

set_option maxRecDepth 100000 in
/-- **The "panic" clause does fire on a trace of the model** (finding F9, the script of
`C16_server_late_panic_witness`: the clock jumps by `2^36` ms before the first request is read, and
`DelayQueue::insert` panics): `monC09` rejects that trace, `monC09np` accepts it.  The alarm is genuine — the
script replays on the real code with the same outcome. -/
theorem C09S_monitor_panic_witness :
    (monC09 none (trace (initSys none 1 2 true) c16LateOps)).ok = false ∧
    (monC09np none (trace (initSys none 1 2 true) c16LateOps)).ok = true := by decide

/-- Non-vacuity: the monitor runs over traces in which each kind of transport call fails (a read fault; a
`poll_ready` fault on the third call; a flush fault; a write fault while a response is being sent; a write fault
on a throttle reply of the limiter) and accepts them. -/
example :
    (monC09 none (trace (initSys none 1 1 true) [.fault .next, .pollServer])).ok = true ∧
    (monC09 none (trace (initSys none 1 1 true) [.fault .ready, .faultSkip 2, .pollServer, .pollServer, .pollServer])).ok = true ∧
    (monC09 none (trace (initSys none 1 1 true) [.fault .flush, .pollServer])).ok = true ∧
    (monC09 none (trace (initSys none 1 1 true)
      [.injectReq 1 1000000000 ⟨0, .given 0, false⟩ 0, .pollServer, .finish 0 (.ok 0), .pollExec 0, .fault .send,
       .pollServer])).ok = true ∧
    (monC09 (some 1) (trace (initSys (some 1) 1 1 true)
      [.injectReq 1 1000000000 ⟨0, .given 0, false⟩ 0, .pollServer, .injectReq 2 1000000000 ⟨0, .given 0, false⟩ 0,
       .fault .send, .pollServer])).ok = true := by
  decide

/-- … and the final state of the monitor shows the failure it tracked in the last op. -/
example :
    (monC09 none (trace (initSys none 1 1 true)
      [.injectReq 1 1000000000 ⟨0, .given 0, false⟩ 0, .pollServer, .finish 0 (.ok 0), .pollExec 0, .fault .send,
       .pollServer])).st = some .write := by
  decide

end TarpcModel.Server

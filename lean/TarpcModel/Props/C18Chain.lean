import TarpcModel.Lemmas.ChainNI
/-!
# C18 (service chains) — the trace context follows the request, and only that request

"The trace id and sampling decision a request is transmitted with are what the server handler
observes, what any nested call made with the handler's context carries, and — together with the
request's span id — what that request's cancellation message carries, while each hop gets a fresh
span id.  Absent a tracing subscriber the transmitted trace id is the one the caller supplied, and
concurrent requests never exchange trace contexts."

Property theorems only, about the chain model `TarpcModel.Chain` (`Chain.lean`): chains of any
depth, any number of concurrent calls, with and without a request limit, every op sequence
(cancellation at every point the scripts can reach).  The monitor `mon` (`Monitors/Chain.lean`) is
the decidable predicate the check evaluates on the implementation's trace.
-/
namespace TarpcModel.Chain

/-- **C18 (chain).**  In every reachable state, for every call and every hop of the chain: the
request written at that hop and the context its handler observed carry the trace id and sampling
decision the caller supplied for that call (so does every nested call, which is the next hop's
request). -/
theorem C18_chain (depth : Nat) (limit : Option Nat) (ops : List Op)
    (cl : Call) (hcl : cl ∈ (run (init depth limit) ops).1.calls) (hp : Hop) (hhp : hp ∈ cl.hops) :
    (∀ t, hp.req = some t → t.traceId = cl.ctx.traceId ∧ t.sampled = cl.ctx.sampled) ∧
    (∀ t, hp.seen = some t → t.traceId = cl.ctx.traceId ∧ t.sampled = cl.ctx.sampled) := by
  have h := ((run_inv depth limit ops).calls cl hcl).tr hp hhp
  exact ⟨h.req, h.seen⟩

/-- **C18: `cl.ctx` is the caller-supplied context.**  Every call in a reachable state was created
by a `start` op of the script carrying exactly the call's id, trace context, deadline and stop. -/
theorem C18_ctx_from_start (depth : Nat) (limit : Option Nat) (ops : List Op)
    (cl : Call) (hcl : cl ∈ (run (init depth limit) ops).1.calls) :
    Op.start cl.id cl.ctx cl.deadline cl.stop ∈ ops := by
  rcases runTrace_sig (init depth limit) ops cl hcl with ⟨cl0, h0, _⟩ | h
  · simp [init] at h0
  · exact h

/-- **C18: each hop gets a fresh span id.**  All spans written or observed for a call (request and
handler, hop by hop) are pairwise distinct random spans, hence different from the caller's span. -/
theorem C18_spans_fresh (depth : Nat) (limit : Option Nat) (ops : List Op)
    (cl : Call) (hcl : cl ∈ (run (init depth limit) ops).1.calls) :
    (chainSpans cl.hops).Nodup ∧ (∀ sp ∈ chainSpans cl.hops, isFresh sp = true ∧ sp ≠ cl.ctx.span) ∧
    givenSpan cl.ctx.span = true := by
  have h := (run_inv depth limit ops).calls cl hcl
  refine ⟨h.nodup, ?_, h.given⟩
  intro sp hm
  obtain ⟨j, _, e⟩ := h.below sp hm
  subst e
  refine ⟨rfl, ?_⟩
  intro e
  have := h.given
  rw [← e] at this
  simp [givenSpan] at this

/-- **C18: request and cancel agree.**  The cancel written at hop `i` for a call carries exactly the
trace context (trace id, span id, sampling decision) of the request written at hop `i` for it. -/
theorem C18_request_cancel_agree (depth : Nat) (limit : Option Nat) (ops : List Op)
    (cl : Call) (hcl : cl ∈ (run (init depth limit) ops).1.calls) (hp : Hop) (hhp : hp ∈ cl.hops)
    (t : Trace) (ht : hp.cancel = some t) : hp.req = some t :=
  (((run_inv depth limit ops).calls cl hcl).tr hp hhp).cancel t ht

/-- **C18: concurrent requests never exchange trace contexts (non-interference).**  Replace, in
every `start` op of every call other than `c`, the trace id and sampling decision by arbitrary
other values (`A c'`, `B c'`): call `c`'s record in the final state — every request, observed
context and cancel at every hop — is unchanged, and so is every observation line about `c`. -/
theorem C18_no_exchange (depth : Nat) (limit : Option Nat) (ops : List Op) (c : Nat)
    (A : Nat → Nat) (B : Nat → Bool) :
    findCall c (run (init depth limit) (ops.map (retagOp c A B))).1.calls =
      findCall c (run (init depth limit) ops).1.calls ∧
    (run (init depth limit) (ops.map (retagOp c A B))).2.filter (fun o => o.call == some c) =
      (run (init depth limit) ops).2.filter (fun o => o.call == some c) := by
  have h := runTrace_retag c A B (init depth limit) ops
  rw [retagSt_init] at h
  simp only [run, h]
  refine ⟨findCall_retag_self c A B _, ?_⟩
  have hflat : ∀ tr : List (Op × List Obs),
      (tr.map (fun p => (retagOp c A B p.1, p.2.map (retagObs c A B)))).flatMap (·.2) =
        (tr.flatMap (·.2)).map (retagObs c A B) := by
    intro tr
    induction tr with
    | nil => rfl
    | cons p ps ih => simp [List.flatMap_cons, ih]
  rw [hflat, filter_retagObs_self]

/-- … and the other calls change only by that replacement: the whole run commutes with it. -/
theorem C18_no_exchange_run (depth : Nat) (limit : Option Nat) (ops : List Op) (c : Nat)
    (A : Nat → Nat) (B : Nat → Bool) :
    (run (init depth limit) (ops.map (retagOp c A B))).1 = retagSt c A B (run (init depth limit) ops).1 := by
  have h := runTrace_retag c A B (init depth limit) ops
  rw [retagSt_init] at h
  simp only [run, h]

/-- **C04 + C18 (monitor form).**  For every depth, limit and op sequence the monitor accepts the
model's trace: every request and handler line carries its call's caller-supplied trace id, sampling
decision and deadline and a span never seen before in the trace; every cancel line carries exactly
its hop's request context and is written only for an abandoned call; handlers are dropped only for
abandoned calls; and at the end of every `run` no handler of an abandoned call is running. -/
theorem chain_monitor_accepts (depth : Nat) (limit : Option Nat) (ops : List Op) :
    (mon depth (runTrace (init depth limit) ops).2).ok = true :=
  (foldl_monPair_coupled _ _ ops (init_inv depth limit) (monInit_coupled depth limit)).ok

/-- Non-vacuity: depth 3, two concurrent calls with different trace ids and sampling decisions,
call 0 abandoned mid-chain (at hop 2).  Its cancels repeat its requests' contexts; call 1's lines
carry call 1's trace id throughout; every span is new. -/
example :
    (run (init 3 none)
      [.start 0 ⟨5, .given 1, true⟩ 1000000000 2, .start 1 ⟨6, .given 2, false⟩ 2000000000 3, .run,
       .abandon 0, .run]).2 =
    [.wireReq 1 0 ⟨5, .fresh 0, true⟩ 1000000000, .handler 1 0 ⟨5, .fresh 1, true⟩ 1000000000,
     .wireReq 2 0 ⟨5, .fresh 2, true⟩ 1000000000, .handler 2 0 ⟨5, .fresh 3, true⟩ 1000000000,
     .wireReq 1 1 ⟨6, .fresh 4, false⟩ 2000000000, .handler 1 1 ⟨6, .fresh 5, false⟩ 2000000000,
     .wireReq 2 1 ⟨6, .fresh 6, false⟩ 2000000000, .handler 2 1 ⟨6, .fresh 7, false⟩ 2000000000,
     .wireReq 3 1 ⟨6, .fresh 8, false⟩ 2000000000, .handler 3 1 ⟨6, .fresh 9, false⟩ 2000000000,
     .wireCancel 1 0 ⟨5, .fresh 0, true⟩, .dropped 1 0, .wireCancel 2 0 ⟨5, .fresh 2, true⟩, .dropped 2 0] := by
  decide

/-- The monitor is not vacuous: it rejects a trace whose cancel carries another trace id, one whose
handler observed another call's trace id, and one in which an abandoned call's handler survives. -/
example :
    (mon 1 [(.start 0 ⟨5, .given 1, true⟩ 1000 1, []),
            (.run, [.wireReq 1 0 ⟨5, .fresh 0, true⟩ 1000, .handler 1 0 ⟨5, .fresh 1, true⟩ 1000]),
            (.abandon 0, []),
            (.run, [.wireCancel 1 0 ⟨6, .fresh 0, true⟩, .dropped 1 0])]).ok = false ∧
    (mon 1 [(.start 0 ⟨5, .given 1, true⟩ 1000 1, []), (.start 1 ⟨6, .given 1, true⟩ 1000 1, []),
            (.run, [.wireReq 1 0 ⟨5, .fresh 0, true⟩ 1000, .handler 1 0 ⟨6, .fresh 1, true⟩ 1000])]).ok = false ∧
    (mon 1 [(.start 0 ⟨5, .given 1, true⟩ 1000 1, []),
            (.run, [.wireReq 1 0 ⟨5, .fresh 0, true⟩ 1000, .handler 1 0 ⟨5, .fresh 1, true⟩ 1000]),
            (.abandon 0, []),
            (.run, [.wireCancel 1 0 ⟨5, .fresh 0, true⟩])]).ok = false ∧
    (mon 1 [(.start 0 ⟨5, .given 1, true⟩ 1000 1, []),
            (.run, [.wireReq 1 0 ⟨5, .fresh 0, true⟩ 1000, .handler 1 0 ⟨5, .fresh 1, true⟩ 1000]),
            (.abandon 0, []),
            (.run, [.wireCancel 1 0 ⟨5, .fresh 0, true⟩, .dropped 1 0])]).ok = true := by
  decide

end TarpcModel.Chain

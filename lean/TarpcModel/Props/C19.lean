import TarpcModel.Lemmas.C19
/-!
# C19 — Request hooks run in order and short-circuit correctly

Property theorems only.  The model is `TarpcModel.Hooks` (`Hooks.lean`): `eval s c q` is
`Serve::serve` of the wrapper stack `s` (built from `HookThenServe`, `ServeThenHook`,
`HookThenServeThenHook`, `BeforeRequestCons/Nil`) on context `c` and request `q`; it returns every
hook / handler invocation in order (with the context, request and response it saw) and the response.
All statements are for every stack (any depth, any nesting order), every hook script (any failing
position, any context / response edit), every context and request.

Vocabulary: `runList hs c q` is a cons-list of before-hooks used as one hook; `applyEdits hs c` is `c`
after the context edits of `hs` in order; `allPass hs` says no hook of `hs` fails; `thenL`/`chain`/
`serving` model `BeforeRequestList::then`, `before().then(..)…` and `serving`.
-/
namespace TarpcModel.Hooks

/-! ## before-hooks run in order, each seeing its predecessors' context edits -/

/-- **C19 (list order).**  In a chained list `pre ++ h :: post` whose hooks `pre` all pass, hook `h` is
invoked exactly after the `|pre|` invocations of `pre` (which are the run of `pre` alone, all passing
before-events) and sees the context as edited by every hook of `pre`, in order.  Applied to every
split of the list this fixes the whole order left to right. -/
theorem C19_list_order (pre post : List Hook) (h : Hook) (c : Ctx) (q : Req) (hpre : allPass pre) :
    ∃ evPost, (runList (pre ++ h :: post) c q).1 =
        (runList pre c q).1 ++ .before h.tag (applyEdits pre c) q h.fail :: evPost ∧
      (runList pre c q).1.length = pre.length ∧
      (∀ e ∈ (runList pre c q).1, e.isBeforeOk = true) := by
  have hp := runList_allPass pre c q hpre
  by_cases hf : h.fail = true
  · exact ⟨[], by rw [runList_first_failure pre post h c q hpre hf, hf], hp.2.1, hp.2.2⟩
  · have hf' : h.fail = false := by simpa using hf
    exact ⟨_, by rw [runList_pass_at pre post h c q hpre hf', hf'], hp.2.1, hp.2.2⟩

/-- **C19 (list order, positional form).**  If hooks `0..i-1` of the list pass, the `i`-th invocation
is hook `i`, seeing the context edited by hooks `0..i-1` in order. -/
theorem C19_list_order_at (hs : List Hook) (c : Ctx) (q : Req) (i : Nat) (hi : i < hs.length)
    (hp : allPass (hs.take i)) :
    (runList hs c q).1[i]? =
      some (.before hs[i].tag (applyEdits (hs.take i) c) q hs[i].fail) := by
  have hd : hs = hs.take i ++ hs[i] :: hs.drop (i + 1) := by simp
  obtain ⟨evPost, h1, h2, _⟩ := C19_list_order (hs.take i) (hs.drop (i + 1)) hs[i] c q hp
  rw [← hd] at h1
  have hlen : (runList (hs.take i) c q).1.length = i := by
    rw [h2, List.length_take]; omega
  rw [h1, List.getElem?_append_right (by omega), hlen]
  simp

/-- **C19 (list, all pass).**  When every hook of the list passes, all of them run (one invocation
each), and what the list wraps is served with the context edited by all of them in order. -/
theorem C19_list_all_pass (hs : List Hook) (s : Serve) (c : Ctx) (q : Req) (hp : allPass hs) :
    eval (.beforeList hs s) c q =
        ((runList hs c q).1 ++ (eval s (applyEdits hs c) q).1, (eval s (applyEdits hs c) q).2) ∧
      (runList hs c q).1.length = hs.length := by
  have h := runList_allPass hs c q hp
  exact ⟨eval_beforeList_ok _ _ _ _ _ h.1, h.2.1⟩

/-- **C19 (order across the whole stack).**  Whatever the nesting of before / list / after /
before-and-after wrappers, the before-invocations of a call are exactly those of the single flat list
of all before-hooks of the stack (outermost wrapper first): same order, each seeing the edits of all
those before it, stopping at the first failure.  The handler is invoked iff that flat list passes —
then exactly once, with the fully edited context and the request unchanged. -/
theorem C19_stack_order (s : Serve) (c : Ctx) (q : Req) :
    (eval s c q).1.filter Event.isBefore = (runList (befores s) c q).1 ∧
    (eval s c q).1.filter Event.isHandler =
      (match (runList (befores s) c q).2 with
       | .ok c' => [.handler (handlerTag s) c' q]
       | .err _ => []) := by
  have h := eval_befores s c q
  refine ⟨h.1, ?_⟩
  rw [h.2]
  cases (runList (befores s) c q).2 <;> rfl

/-! ## the first failing before-hook stops the chain -/

/-- **C19 (first failure stops).**  If `h` is the first failing hook of a chained list, the wrapper's
invocations are those of the hooks before it followed by `h`'s and nothing else: no later hook of
the list, nothing of what the list wraps (in particular not the handler); the wrapper's response is
`h`'s error.  The same for a single before-hook and for the before part of a combined hook. -/
theorem C19_first_failure_stops (pre post : List Hook) (h : Hook) (s : Serve) (c : Ctx) (q : Req)
    (hpre : allPass pre) (hf : h.fail = true) :
    eval (.beforeList (pre ++ h :: post) s) c q =
        ((runList pre c q).1 ++ [.before h.tag (applyEdits pre c) q true], .err h.tag) ∧
    eval (.before h s) c q = ([.before h.tag c q true], .err h.tag) ∧
    eval (.both h s) c q = ([.before h.tag c q true], .err h.tag) := by
  refine ⟨?_, eval_before_fail _ _ _ _ hf, eval_both_fail _ _ _ _ hf⟩
  have h1 := runList_first_failure pre post h c q hpre hf
  rw [eval_beforeList_err _ _ _ _ h.tag (by rw [h1]), h1]

/-- **C19 (a failure stops everything inside, any stack).**  The invocations of any call have the form
`passing before-hooks*, then exactly one of {handler, failing before-hook}, then after-hooks only`.
So once a before-hook fails no other before-hook runs and the handler is not invoked; its error is
what the next after-hook outside sees, or — with no after-hook outside — the response of the call. -/
theorem C19_failure_shape (s : Serve) (c : Ctx) (q : Req) :
    ∃ bs m as, (eval s c q).1 = bs ++ m :: as ∧
      (∀ e ∈ bs, e.isBeforeOk = true) ∧ (∀ e ∈ as, e.isAfter = true) ∧
      ((∃ t c' q', m = .handler t c' q') ∨
       (∃ t c' q', m = .before t c' q' true ∧
          ((as = [] ∧ (eval s c q).2 = .err t) ∨ (∃ t' c'' as', as = .after t' c'' (.err t) :: as')))) :=
  eval_shape s c q

/-- **C19 (handler not invoked).**  If some before-hook of the call failed, there is no handler
invocation in it, whatever the stack. -/
theorem C19_failure_no_handler (s : Serve) (c : Ctx) (q : Req) (t : Nat) (c' : Ctx) (q' : Req)
    (hm : Event.before t c' q' true ∈ (eval s c q).1) :
    (eval s c q).1.filter Event.isHandler = [] := by
  obtain ⟨bs, m, as, he, hb, ha, hx⟩ := eval_shape s c q
  rw [he] at hm ⊢
  have hbs : bs.filter Event.isHandler = [] := by
    rw [List.filter_eq_nil_iff]; intro e hee
    have := hb e hee
    cases e <;> simp_all [Event.isBeforeOk]
  have has : as.filter Event.isHandler = [] := by
    rw [List.filter_eq_nil_iff]; intro e hee
    have := ha e hee
    cases e with
    | handler t1 c1 q1 => simp at this
    | before t1 c1 q1 f1 => simp
    | after t1 c1 r1 => simp
  rcases hx with ⟨t0, c0, q0, rfl⟩ | ⟨t0, c0, q0, rfl, _⟩
  · rcases List.mem_append.mp hm with h1 | h1
    · have := hb _ h1; simp [Event.isBeforeOk] at this
    · rcases List.mem_cons.mp h1 with h2 | h2
      · cases h2
      · have := ha _ h2; simp at this
  · simp [List.filter_append, hbs, has]

/-- Wrappers without an after part hand the inner response through unchanged (so a failing hook's
error travels outwards until an after-hook edits it). -/
theorem C19_before_passes_result_through (h : Hook) (hs : List Hook) (s : Serve) (c : Ctx) (q : Req)
    (hf : h.fail = false) (hp : allPass hs) :
    (eval (.before h s) c q).2 = (eval s (h.edit.apply c) q).2 ∧
    (eval (.beforeList hs s) c q).2 = (eval s (applyEdits hs c) q).2 := by
  rw [eval_before_pass _ _ _ _ hf, (C19_list_all_pass hs s c q hp).1]
  exact ⟨rfl, rfl⟩

/-! ## after-hooks -/

/-- **C19 (after once).**  An after wrapper's invocations are all invocations of what it wraps followed
by exactly one invocation of its hook (the after-count grows by one); the hook sees the result of
what it wraps — whatever that is — and the wrapper's response is what the hook left. -/
theorem C19_after_once (s : Serve) (h : Hook) (c : Ctx) (q : Req) :
    (eval (.after s h) c q).1 = (eval s c q).1 ++ [.after h.tag c (eval s c q).2] ∧
    (eval (.after s h) c q).2 = h.redit.apply (eval s c q).2 ∧
    afterCount (eval (.after s h) c q).1 = afterCount (eval s c q).1 + 1 := by
  rw [eval_after]
  refine ⟨rfl, rfl, ?_⟩
  simp [afterCount, List.filter_append, List.filter_cons]

/-- **C19 (after sees an inner before-hook's error).**  An after-hook around a failing before-hook
(single, combined or in a list): the after-hook runs once, right after the failing hook, sees that
hook's error, and its edit of the result is the response. -/
theorem C19_after_sees_inner_error (b h : Hook) (s : Serve) (c : Ctx) (q : Req) (hf : b.fail = true) :
    eval (.after (.before b s) h) c q =
      ([.before b.tag c q true, .after h.tag c (.err b.tag)], h.redit.apply (.err b.tag)) ∧
    eval (.after (.both b s) h) c q =
      ([.before b.tag c q true, .after h.tag c (.err b.tag)], h.redit.apply (.err b.tag)) ∧
    eval (.after (.beforeList [b] s) h) c q =
      ([.before b.tag c q true, .after h.tag c (.err b.tag)], h.redit.apply (.err b.tag)) := by
  rw [eval_after, eval_after, eval_after, eval_before_fail _ _ _ _ hf, eval_both_fail _ _ _ _ hf,
    eval_beforeList_cons, eval_before_fail _ _ _ _ hf]
  exact ⟨rfl, rfl, rfl⟩

/-- **C19 (plain after-hook sees its caller's context).**  `Context` is `Copy` and `ServeThenHook`
passes a copy inwards: the hook of an after wrapper sees the context the wrapper was called with, not
the edits made by before-hooks inside it — while those edits do reach the handler. -/
theorem C19_plain_after_sees_callers_ctx (s : Serve) (h b : Hook) (t : Nat) (r : Res) (c : Ctx) (q : Req) :
    (eval (.after s h) c q).1.getLast? = some (.after h.tag c (eval s c q).2) ∧
    (b.fail = false →
      eval (.after (.before b (.leaf t r)) h) c q =
        ([.before b.tag c q false, .handler t (b.edit.apply c) q, .after h.tag c r], h.redit.apply r)) := by
  constructor
  · rw [eval_after]; simp
  · intro hf
    rw [eval_after, eval_before_pass _ _ _ _ hf, eval_leaf]
    rfl

/-- **C19 (before-and-after).**  If the before part fails, the after part is skipped (no after
invocation of this wrapper, nothing inside runs, the error is the response); otherwise the inner
serve and the after part both get the context produced by the before part, the after part runs last,
sees the inner result, and what it leaves is the response. -/
theorem C19_both (h : Hook) (s : Serve) (c : Ctx) (q : Req) :
    (h.fail = true → eval (.both h s) c q = ([.before h.tag c q true], .err h.tag)) ∧
    (h.fail = false →
      eval (.both h s) c q =
        (.before h.tag c q false ::
            ((eval s (h.edit.apply c) q).1 ++
              [.after h.tag (h.edit.apply c) (eval s (h.edit.apply c) q).2]),
          h.redit.apply (eval s (h.edit.apply c) q).2)) ∧
    ((∃ c' r, (eval (.both h s) c q).1.getLast? = some (.after h.tag c' r)) ↔ h.fail = false) := by
  refine ⟨eval_both_fail _ _ _ _, eval_both_pass _ _ _ _, ?_⟩
  by_cases hf : h.fail = true
  · rw [eval_both_fail _ _ _ _ hf]; simp [hf]
  · have hf' : h.fail = false := by simpa using hf
    rw [eval_both_pass _ _ _ _ hf']
    simp [hf', List.getLast?_cons]

/-- **C19 (combined hook = before wrapper inside an after wrapper, up to the context shown).**  A
passing combined hook behaves like `inner.before(h).after(h)` except that its after part is shown the
context edited by its own before part. -/
theorem C19_both_vs_nested (h : Hook) (s : Serve) (c : Ctx) (q : Req) (hf : h.fail = false) :
    (eval (.both h s) c q).2 = (eval (.after (.before h s) h) c q).2 ∧
    (eval (.both h s) c q).1.dropLast = (eval (.after (.before h s) h) c q).1.dropLast ∧
    (eval (.both h s) c q).1.getLast? =
      some (.after h.tag (h.edit.apply c) (eval s (h.edit.apply c) q).2) ∧
    (eval (.after (.before h s) h) c q).1.getLast? =
      some (.after h.tag c (eval s (h.edit.apply c) q).2) := by
  rw [eval_both_pass _ _ _ _ hf, eval_after, eval_before_pass _ _ _ _ hf]
  refine ⟨rfl, ?_, ?_, ?_⟩
  · simp only [← List.cons_append, List.dropLast_concat]
  · simp [List.getLast?_cons]
  · simp [List.getLast?_cons]

/-- An after part's edit of its `&mut Context` is invisible: replacing every hook's after-context
edit by anything else changes neither the invocations (and what they see) nor the response. -/
theorem C19_after_ctx_edit_unobservable (f : Hook → CtxEdit) (s : Serve) (c : Ctx) (q : Req) :
    eval (setAedits f s) c q = eval s c q :=
  eval_setAedits f s c q

/-! ## `then` and `serving` -/

/-- **C19 (`then` / `serving`).**  `then` appends at the end; `before().then(h1)…then(hn)` is the list
`[h1..hn]`; serving `l.then(h)` around `s` is serving `l` around (`h` before `s`); serving `l1 ++ l2` is
serving `l1` around (serving `l2` around `s`); a one-element list is a plain before wrapper; the empty
list is the serve itself; and `serving` agrees with `serve.before(list)`. -/
theorem C19_then_assoc (l l1 l2 hs : List Hook) (h : Hook) (s : Serve) (c : Ctx) (q : Req) :
    thenL l h = l ++ [h] ∧
    chain hs = hs ∧
    eval (serving (thenL l h) s) c q = eval (serving l (.before h s)) c q ∧
    eval (serving (l1 ++ l2) s) c q = eval (serving l1 (serving l2 s)) c q ∧
    eval (serving [h] s) c q = eval (.before h s) c q ∧
    serving [] s = s ∧
    eval (serving hs s) c q = eval (.beforeList hs s) c q := by
  refine ⟨thenL_eq_append l h, chain_eq hs, ?_, ?_, ?_, rfl, eval_serving hs s c q⟩
  · rw [thenL_eq_append, eval_serving, eval_serving, eval_beforeList_append]
    have : ∀ c, eval (.beforeList [h] s) c q = eval (.before h s) c q := by
      intro c; rw [eval_beforeList_cons]
      by_cases hf : h.fail = true
      · rw [eval_before_fail _ _ _ _ hf, eval_before_fail _ _ _ _ hf]
      · have hf' : h.fail = false := by simpa using hf
        rw [eval_before_pass _ _ _ _ hf', eval_before_pass _ _ _ _ hf', eval_beforeList_nil]
    cases hr : (runList l c q).2 with
    | err e => rw [eval_beforeList_err _ _ _ _ e hr, eval_beforeList_err _ _ _ _ e hr]
    | ok c' => rw [eval_beforeList_ok _ _ _ c' _ hr, eval_beforeList_ok _ _ _ c' _ hr, this]
  · rw [eval_serving, eval_serving, eval_beforeList_append]
    cases hr : (runList l1 c q).2 with
    | err e => rw [eval_beforeList_err _ _ _ _ e hr, eval_beforeList_err _ _ _ _ e hr]
    | ok c' => rw [eval_beforeList_ok _ _ _ c' _ hr, eval_beforeList_ok _ _ _ c' _ hr, eval_serving]
  · rw [eval_serving, eval_beforeList_cons]
    by_cases hf : h.fail = true
    · rw [eval_before_fail _ _ _ _ hf, eval_before_fail _ _ _ _ hf]
    · have hf' : h.fail = false := by simpa using hf
      rw [eval_before_pass _ _ _ _ hf', eval_before_pass _ _ _ _ hf', eval_beforeList_nil]

/-! ## the monitor -/

/-- **C19 (monitor form).**  The monitor that the check runs on the implementation's trace
(`shapeOk` and `conforms` per call) accepts the model's observations of every sequence of calls. -/
theorem C19_monitor_accepts (calls : List (Serve × Ctx × Req)) :
    monVerdictOk (mon (callsObs calls)) = true := by
  have key : ∀ m : MonSt, m.ok = true → m.cur = none → m.evs = [] →
      (callsObs calls).foldl monStep m = m := by
    induction calls with
    | nil => intros; rfl
    | cons x xs ih =>
      intro m h1 h2 h3
      simp only [callsObs, List.foldl_append]
      rw [mon_callObs m h1 h2 h3, ih m h1 h2 h3]
  unfold mon
  rw [key {} rfl rfl rfl]
  rfl

/-- **C19 (the monitor is exact).**  `conforms` accepts a sequence of invocations and a response for
a stack iff they are exactly the model's: the per-wrapper reading of the property (order, context
seen, result seen, short-circuit, response) determines the behaviour completely. -/
theorem C19_conforms_iff (s : Serve) (c : Ctx) (q : Req) (evs : List Event) (r : Res) :
    conforms s c q evs r = true ↔ eval s c q = (evs, r) := by
  constructor
  · exact conforms_sound s c q evs r
  · intro h
    have := conforms_eval s c q
    rw [h] at this
    exact this

/-! ## non-vacuity: concrete stacks -/

/-- The three-deep stack of the design note: after-hook 1 around failing before-hook 2 around
before-hook 3 around the handler.  Only hook 2 and then hook 1 run; hook 1 sees `Err(hook 2)`. -/
example :
    eval (.after (.before { tag := 2, fail := true } (.before { tag := 3 } (.leaf 9 (.ok 1)))) { tag := 1 })
        5 7 =
      ([.before 2 5 7 true, .after 1 5 (.err 2)], .err 2) := by
  decide

/-- Context threading through a list and a combined hook, the `Copy` subtlety of the plain after-hook
(sees 10, the handler sees 10+1+2+4), and response edits: the inner after-hook replaces `ok 0` by
`err 50`, the combined hook sees that and replaces it by `ok 8`, the outer one keeps it. -/
example :
    eval (.after
            (.beforeList [{ tag := 1, edit := .add 1 }, { tag := 2, edit := .add 2 }]
              (.both { tag := 3, edit := .add 4, redit := .ok 8 }
                (.after (.leaf 9 (.ok 0)) { tag := 4, redit := .err 50 })))
            { tag := 5 })
        10 0 =
      ([.before 1 10 0 false, .before 2 11 0 false, .before 3 13 0 false, .handler 9 17 0,
        .after 4 17 (.ok 0), .after 3 17 (.err 50), .after 5 10 (.ok 8)], .ok 8) := by
  decide

/-- A failure in the middle of a list under a combined hook: hooks 2 (passes), 3 (fails) run, hook 4
and the handler do not, the combined hook 1 sees `err 3` with the context its before part made. -/
example :
    eval (.both { tag := 1, edit := .set 100, redit := .keep }
            (serving (chain [{ tag := 2, edit := .add 1 }, { tag := 3, fail := true }, { tag := 4 }])
              (.leaf 9 (.ok 0))))
        0 6 =
      ([.before 1 0 6 false, .before 2 100 6 false, .before 3 101 6 true, .after 1 100 (.err 3)],
        .err 3) := by
  decide

/-- The monitor rejects a trace in which the handler ran although a before-hook failed, and one in
which an after-hook is shown the inner hooks' context instead of its caller's. -/
example :
    shapeOk [.before 2 5 7 true, .handler 9 5 7, .after 1 5 (.ok 1)] (.ok 1) = false ∧
    conforms (.after (.before { tag := 2, edit := .add 1 } (.leaf 9 (.ok 1))) { tag := 1 }) 5 7
      [.before 2 5 7 false, .handler 9 6 7, .after 1 6 (.ok 1)] (.ok 1) = false ∧
    conforms (.after (.before { tag := 2, edit := .add 1 } (.leaf 9 (.ok 1))) { tag := 1 }) 5 7
      [.before 2 5 7 false, .handler 9 6 7, .after 1 5 (.ok 1)] (.ok 1) = true := by
  decide

end TarpcModel.Hooks

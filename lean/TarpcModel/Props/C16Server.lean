import TarpcModel.Lemmas.ServerPanic
/-!
# C16 (server) — the server channel never panics

Property theorems only.  The server model has three panicking sites (`Server/Model.lean`):
`DelayQueue::remove` with an unknown key (`removeTimer`) and the range check of `DelayQueue::insert` (a
timer more than `2^36 - 1` ms ahead of the wheel) in `start_request` and in the re-arm of `poll_expired`
(`rearm`).  The first is unreachable outright (the table / timer bijection of `Lemmas/ServerTable.lean`;
`C09_server_no_other_panic`).  The other two are unreachable because both arm a clamped timeout
(`clampTimeout`, `Gen.serverTimerClampSecs` seconds) at the current clock: for a clock below `2^35` ms
`when - wheelElapsed ≤ ceilMs (now + clamp) ≤ now_ms + clamp_ms + 1 ≤ 2^36 - 1` whatever deadline the peer
sends (`insert_panic_late`; the argument does not need the wheel's `elapsed` to have advanced).

The scripts quantified over are all op lists whose total advanced virtual time `advSum ops` (the sum of
their `advance` amounts — the clock starts at 0 and only `advance` moves it) is below `2^35` ms ≈ 397
days.  The bound cannot be dropped: the `DelayQueue` range is relative to the wheel's `elapsed`, which
only an expiring timer moves (`C16_server_late_panic_witness`, finding F9).
-/
namespace TarpcModel.Server
open TarpcModel TarpcModel.Server.Flow

/-- The one fact about the generated constants the theorems below rest on (re-checked by `decide`
whenever `Gen/Flags.lean` is regenerated): the server clamps its deadline timers and the clamp fits the
`DelayQueue` range with `2^35` ms to spare (`clamp_ms + 2^35 + 1 ≤ 2^36 - 1`). -/
theorem C16_server_flags :
    Gen.serverTimerClampSecs ≠ 0 ∧ Gen.serverTimerClampSecs * 1000 + 2 ^ 35 + 1 ≤ delayQMaxMs := by decide

/-- **C16 (server), no panic.**  For every configuration and every script whose total advanced time is
below `2^35` ms, whatever deadlines the requests carry: no `Obs.panic` occurs in the event trace, and none
is on record in the state the script ends in.  (Strengthens `C09_server_no_other_panic`.) -/
theorem C16_server_no_panic (limit : Option Nat) (respCap tcap : Nat) (coupled : Bool) (ops : List SOp)
    (hT : advSum ops < 2 ^ 35 * nsPerMs) :
    (∀ t site, SEv.obs (.panic t site) ∉ trace (initSys limit respCap tcap coupled) ops) ∧
    (∀ t site, Obs.panic t site ∉ (ops.foldl applyOp (initSys limit respCap tcap coupled)).s.obs) := by
  refine ⟨fun t site => trace_no_panic C16_server_flags limit respCap tcap coupled ops hT t site, ?_⟩
  intro t site hm
  have := (reach_panic_ok limit respCap tcap coupled ops t site hm).2 C16_server_flags
  exact absurd hT (Nat.not_lt.mpr this)

/-- **C16 (server), monitor form.**  The C16 monitor of the `srv` family (`Monitors/NoPanic.lean`:
`firstPanic`, the first `Obs.panic` among the observations) finds nothing in the model's trace, for
every configuration and every script whose total advanced time is below `2^35` ms; likewise the `c16`
field of the driver's `SrvMon` (`Driver/Srv.lean`), which is `c16Step` folded over the trace, stays
`none`. -/
theorem C16_server_monitor_accepts (limit : Option Nat) (respCap tcap : Nat) (coupled : Bool) (ops : List SOp)
    (hT : advSum ops < 2 ^ 35 * nsPerMs) :
    firstPanic (obsOf (trace (initSys limit respCap tcap coupled) ops)) = none ∧
    (trace (initSys limit respCap tcap coupled) ops).foldl c16Step none = none :=
  ⟨firstPanic_none_of (C16_server_no_panic limit respCap tcap coupled ops hT).1,
   c16Step_foldl_none_of (C16_server_no_panic limit respCap tcap coupled ops hT).1⟩

/-- … and in every state the script passes through (every prefix of the script). -/
theorem C16_server_never_panicked (limit : Option Nat) (respCap tcap : Nat) (coupled : Bool) (ops : List SOp)
    (hT : advSum ops < 2 ^ 35 * nsPerMs) (pre : List SOp) (hpre : pre <+: ops) :
    ∀ t site, Obs.panic t site ∉ (pre.foldl applyOp (initSys limit respCap tcap coupled)).s.obs :=
  (C16_server_no_panic limit respCap tcap coupled pre (Nat.lt_of_le_of_lt (advSum_prefix_le hpre) hT)).2

/-- The same with the fact about the generated constants as a hypothesis (so that the statement survives
a regenerated `Gen/Flags.lean` even if `C16_server_flags` then fails). -/
theorem C16_server_no_panic_of (hclamp : ClampFits)
    (limit : Option Nat) (respCap tcap : Nat) (coupled : Bool) (ops : List SOp) (hT : advSum ops < 2 ^ 35 * nsPerMs) :
    ∀ t site, SEv.obs (.panic t site) ∉ trace (initSys limit respCap tcap coupled) ops :=
  fun t site => trace_no_panic hclamp limit respCap tcap coupled ops hT t site

/-- At any time: a panic observation — in the trace or on record in the state — can only be the
`DelayQueue::insert` range check, and only at or after `2^35` ms. -/
theorem C16_server_panic_only_late (limit : Option Nat) (respCap tcap : Nat) (coupled : Bool) (ops : List SOp)
    (t : TaskId) (site : String)
    (h : SEv.obs (.panic t site) ∈ trace (initSys limit respCap tcap coupled) ops ∨
      Obs.panic t site ∈ (ops.foldl applyOp (initSys limit respCap tcap coupled)).s.obs) :
    site = "DelayQueue::insert: invalid deadline" ∧ 2 ^ 35 * nsPerMs ≤ advSum ops := by
  rcases h with h | h
  · have := trace_panic_ok ops (initSys limit respCap tcap coupled) false
      (sinv_init false limit respCap tcap coupled) t site h
    have h0 : (initSys limit respCap tcap coupled).now = 0 := rfl
    rw [h0, Nat.zero_add] at this
    exact ⟨this.1, this.2 C16_server_flags⟩
  · have := reach_panic_ok limit respCap tcap coupled ops t site h
    exact ⟨this.1, this.2 C16_server_flags⟩

/-! ### non-vacuity -/

/-- A request with the largest deadline the wire format can carry (`u64::MAX` ns after the epoch), far
beyond the `DelayQueue`'s range (`2^36` ms ≈ 6.9e16 ns), and one `2^36` ms + 1 ns away (the script that
used to poison the channel: `C09_server_range_panic_witness`): both are tracked, their timers are armed
(with the clamped timeout), nothing panics. -/
theorem C16_server_far_deadline_ok :
    let ops := [SOp.injectReq 1 18446744073709551615 ⟨0, .given 0, false⟩ 0, .pollServer,
      .injectReq 2 (2 ^ 36 * 1000000 + 1) ⟨0, .given 0, false⟩ 0, .pollServer, .advance 1000000, .pollServer]
    advSum ops < 2 ^ 35 * nsPerMs ∧
    (ops.foldl applyOp (initSys none 1 1 true)).s.inflight.length = 2 ∧
    (ops.foldl applyOp (initSys none 1 1 true)).s.timers.len = 2 ∧
    (ops.foldl applyOp (initSys none 1 1 true)).s.poisoned = false ∧
    (ops.foldl applyOp (initSys none 1 1 true)).s.obs.all (fun o => match o with | .panic _ _ => false | _ => true) = true := by
  decide

/-- the clock jumps by `2^36` ms before the first request is read (`corpus/C16/idle-wheel-lag-server.txt`) -/
def c16LateOps : List SOp :=
  [.advance (2 ^ 36 * nsPerMs), .injectReq 1 (2 ^ 36 * nsPerMs + 10000000) ⟨0, .given 0, false⟩ 0, .pollServer]

set_option maxRecDepth 100000 in
/-- **The bound on the clock cannot simply be dropped (model-level witness; finding F9).**  The
`DelayQueue` range check is relative to the wheel's `elapsed`, which only an expiring timer advances.
If `2^36` ms pass before the channel reads its first request, `start_request` computes
`when = now_ms + timeout_ms > 2^36 - 1` with `elapsed = 0` and hits `DelayQueue::insert: invalid
deadline` although the request's deadline is only 10 ms away — clamp or no clamp.  The script replays
on the real code with the same outcome. -/
theorem C16_server_late_panic_witness :
    SEv.obs (.panic (.server 0) "DelayQueue::insert: invalid deadline") ∈ trace (initSys none 1 2 true) c16LateOps ∧
    ¬ advSum c16LateOps < 2 ^ 35 * nsPerMs := by decide

end TarpcModel.Server

import TarpcModel.Lemmas.ClientOwedMon
import TarpcModel.Props.C03
/-!
# C03, third clause — a cancel is owed after a writable dispatch poll

The third clause of `checkC03` judges a top-level dispatch poll that returns `Pending`, during which no
`poll_ready → Pending` was observed and before which the transport never failed: every abandoned call whose request
was transmitted and has not ended has its `Cancel` on the wire.

An earlier version of the monitor also judged polls that *complete* with `Ready(Ok)` after the last sender went away
(`checkC03Old`).  That arm is **false** on the model (`C03_full_statement_readyOk_false`): `run` returns `Ready(Ok)`
on `(Poll::Ready(None), _)` after a *single* `pump_write`, which writes at most one `Cancel`; when the peer closes the
read half while two cancellations are queued, the second one is never written.  The peer has closed — the connection
is lost and no cancel is owed — so the arm was dropped from the monitor (completions after the last handle went away
are covered by C10: every queued cancel is written before `poll_close`).

`C03_cancel_owed : C03FullStatement` — `monC03`, all three clauses, accepts every trace of the model (scripts with
pairwise distinct call bodies and caller-chosen span ids).  The proof (`Lemmas/ClientOwedMon.lean`) carries along
the trace, next to the coupling of `Lemmas/ClientTop.lean`: (i) the invariant `CqI` (`Lemmas/ClientCq.lean`: an entry's
call is awaiting it, or its id is in the cancellation queue), (ii) `Tracked`: a request written successfully, neither
answered nor cancelled nor expired — with no transport failure observed and the dispatch alive — is in the in-flight
table (`Lemmas/ClientTrack.lean`), (iii) a terminal error of the dispatch was preceded by an observed failure; and
at the `ret` of a top-level poll it uses that `run → Pending` has drained the cancellation queue unless a
`poll_ready → Pending` was observed (`Lemmas/ClientDrain.lean`).

State-level results, for every reachable state:

* `C03_cancellation_queued` — every in-flight entry belongs to a call that is still awaiting its response, or its
  request id is in the cancellation queue (the invariant `CqI`, `Lemmas/ClientCq.lean`);
* `C03_cancel_owed_state` — after a top-level dispatch poll that returned `Pending` (no terminal error, no panic)
  during which no `poll_ready → Pending` was observed, the cancellation queue is empty and every request still
  tracked belongs to a call that is awaiting it: nothing is tracked any more for an abandoned call.  (Each entry that
  left the table through the cancellation queue had its `Cancel` written: `C03_cancel_only_if_tracked`.)
-/
namespace TarpcModel.Client

/-! ### the arm for completed polls fails -/

/-- `checkC03` as it was: the third clause also judged a poll that completes with `Ready(Ok)` once no sender is left -/
def checkC03Old (b : Book) (u : Unit) : CEv → Unit × Option String
  | .obs (.ret (.dispatch _) r) =>
      if b.topPoll && !b.pollReadyP && !b.failed && (r == .pending || (r == .readyOk && b.senders == 0)) then
        let owed := b.calls.filter fun ci =>
          ci.dropped && match b.sendOfBody ci.body with
            | some sd => !reqEnded b sd && !(b.cancels.any (·.1 == sd.id))
            | none => false
        match owed with
        | ci :: _ => ((), some s!"abandoned call {ci.cid}: request transmitted, not ended, yet no cancel after a writable dispatch poll")
        | [] => ((), none)
      else ((), none)
  | e => checkC03 b u e

def monC03Old (evs : List CEv) : Mon Unit := Mon.run checkC03Old () evs

/-- two transmitted calls, both abandoned, the last handle dropped, the peer closes, one dispatch poll -/
def c03EofOps : List COp :=
  [.call 0 1000000000 ⟨1, .given 1, true⟩ 1, .call 0 1000000000 ⟨2, .given 2, true⟩ 2, .pollCall 0, .pollCall 1,
   .pollDispatch, .dropCall 0 .none, .dropCall 1 .none, .dropHandle 0, .eof, .pollDispatch]

set_option maxRecDepth 100000 in
/-- The last poll reads `eof`, writes `Cancel 0`, and completes with `Ready(Ok)`; `Cancel 1` is never written. -/
theorem c03EofOps_trace :
    (c03EofOps.foldl applyOp (initSys 4 4 4 true)).s.t.sentLog.length = 3 ∧
    (c03EofOps.foldl applyOp (initSys 4 4 4 true)).s.done = some .readyOk ∧
    (monC03Old (trace (initSys 4 4 4 true) c03EofOps)).ok = false := by decide

/-- **The `Ready(Ok)` arm of the old third clause is false** (scripts with pairwise distinct bodies and caller-chosen
span ids, as in `C03FullStatement`). -/
theorem C03_full_statement_readyOk_false :
    ¬ ∀ (m b c : Nat) (coupled : Bool) (ops : List COp), (callBodies ops).Nodup → (∀ op ∈ ops, SpanOk op) →
      (monC03Old (trace (initSys m b c coupled) ops)).ok = true := by
  intro h
  have h1 : (callBodies c03EofOps).Nodup := by decide
  have h2 : ∀ op ∈ c03EofOps, SpanOk op := by
    intro op hop
    simp only [c03EofOps, List.mem_cons, List.not_mem_nil, or_false] at hop
    rcases hop with rfl | rfl | rfl | rfl | rfl | rfl | rfl | rfl | rfl | rfl <;>
      first | exact ⟨_, rfl⟩ | trivial
  have := h 4 4 4 true c03EofOps h1 h2
  rw [c03EofOps_trace.2.2] at this
  cases this

/-! ### the monitor, all three clauses -/

/-- **C03, all three clauses (monitor form).**  For every configuration and every op sequence (calls with pairwise
distinct bodies and caller-chosen span ids) `monC03` accepts the model's trace; in particular (third clause) at the
end of every top-level dispatch poll that returns `Pending`, during which no `poll_ready → Pending` was observed and
before which the transport never reported a failure, every abandoned call whose request was written successfully and
has not ended (no response read, deadline not reached) has its `Cancel` on the wire. -/
theorem C03_cancel_owed : C03FullStatement :=
  fun m b c coupled ops hb hsp => monC03_accepts m b c coupled ops hb hsp

/-! ### what holds in every state: polls that return `Pending` -/

/-- **C03: an abandoned call's tracked request is queued for cancellation.**  In every reachable state every
in-flight entry either has its request id in the cancellation queue, or belongs to a call future that is still
awaiting the response (phase `awaiting`, oneshot sender alive). -/
theorem C03_cancellation_queued (m b c : Nat) (coupled : Bool) (ops : List COp)
    (s : St) (hs : s = (ops.foldl applyOp (initSys m b c coupled)).s) :
    ∀ e ∈ s.inflight, e.id ∈ s.cq ∨
      ∃ cl ∈ s.calls, cl.cid = e.cid ∧ cl.phase = .awaiting ∧ cl.os.txDropped = false := by
  subst hs
  intro e he
  rcases (reach_cq m b c coupled ops).ent e he with h | ⟨⟨rx, hm⟩, _⟩
  · exact Or.inl h
  · obtain ⟨cl, hcl, hc⟩ := mem_cores hm
    simp only [ccore, Prod.mk.injEq] at hc
    exact Or.inr ⟨cl, hcl, hc.1, hc.2.1, hc.2.2.1⟩

/-- … and a dropped dispatch tracks nothing. -/
theorem C03_dropped_dispatch_tracks_nothing (m b c : Nat) (coupled : Bool) (ops : List COp)
    (s : St) (hs : s = (ops.foldl applyOp (initSys m b c coupled)).s) (hd : s.dDropped = true) :
    s.inflight = [] ∧ s.pq = [] := by
  subst hs; exact (reach_cq m b c coupled ops).dd hd

theorem reach_cq_clr (m b c : Nat) (coupled : Bool) (ops : List COp) (op : COp) :
    Inv none (view (applyOp (clr (ops.foldl applyOp (initSys m b c coupled))) op).s) ∧
    CqI none (applyOp (clr (ops.foldl applyOp (initSys m b c coupled))) op).s := by
  have hi := reach_inv m b c coupled ops
  have hq := reach_cq m b c coupled ops
  have hi' : Inv none (view (clr (ops.foldl applyOp (initSys m b c coupled))).s) := by
    have : view (clr (ops.foldl applyOp (initSys m b c coupled))).s
        = { view (ops.foldl applyOp (initSys m b c coupled)).s with rel := [] } := by simp [clr, view]
    rw [this]; exact hi.of_rel []
  have hq' : CqI none (clr (ops.foldl applyOp (initSys m b c coupled))).s :=
    hq.qc (QCq.of_calls rfl rfl rfl rfl rfl rfl rfl)
  exact ⟨applyOp_inv hi' op, applyOp_cq hi' hq' op⟩

/-- **C03, third clause (state form), for polls that return `Pending`.**  Take any reachable state in which the
dispatch is alive and run one top-level `poll-dispatch` (`stepOp`: the op with its observations).  If the poll
returned `Pending` (the dispatch is not done afterwards), ended without terminal error and without a panic, and no
`poll_ready → Pending` was observed during it, then afterwards the cancellation queue is empty and every request still
in flight belongs to a call future that is still awaiting it.  In particular no request of an abandoned (dropped)
call is tracked any more: its entry was taken out by `cancel_request`, whose `Cancel` write is
`C03_cancel_only_if_tracked`. -/
theorem C03_cancel_owed_state (m b c : Nat) (coupled : Bool) (ops : List COp)
    (c0 : Sys) (hc0 : c0 = ops.foldl applyOp (initSys m b c coupled))
    (halive : (c0.s.dDropped || c0.s.done.isSome || c0.s.poisoned) = false)
    (hpending : (stepOp c0 .pollDispatch).1.s.done = none)
    (hnoerr : (stepOp c0 .pollDispatch).1.s.termErr = none)
    (hnopanic : (stepOp c0 .pollDispatch).1.s.poisoned = false)
    (hwritable : ∀ ep, Obs.tReady ep .pending ∉ (stepOp c0 .pollDispatch).2) :
    (stepOp c0 .pollDispatch).1.s.cq = [] ∧
    ∀ e ∈ (stepOp c0 .pollDispatch).1.s.inflight,
      ∃ cl ∈ (stepOp c0 .pollDispatch).1.s.calls, cl.cid = e.cid ∧ cl.phase = .awaiting ∧ cl.os.txDropped = false := by
  subst hc0
  rw [stepOp_fst] at hpending hnoerr hnopanic ⊢
  rw [stepOp_snd] at hwritable
  obtain ⟨_, hq⟩ := reach_cq_clr m b c coupled ops .pollDispatch
  generalize hcc : clr (ops.foldl applyOp (initSys m b c coupled)) = cc at *
  have hobs : cc.s.obs = [] := by rw [← hcc]; rfl
  have ha : (cc.s.dDropped || cc.s.done.isSome || cc.s.poisoned) = false := by rw [← hcc]; exact halive
  change (pollDispatch cc.s cc.now).done = none at hpending
  change (pollDispatch cc.s cc.now).termErr = none at hnoerr
  change (pollDispatch cc.s cc.now).poisoned = false at hnopanic
  change CqI none (pollDispatch cc.s cc.now) at hq
  change ∀ ep, Obs.tReady ep .pending ∉ (pollDispatch cc.s cc.now).obs.reverse at hwritable
  show (pollDispatch cc.s cc.now).cq = [] ∧ ∀ e ∈ (pollDispatch cc.s cc.now).inflight,
    ∃ cl ∈ (pollDispatch cc.s cc.now).calls, cl.cid = e.cid ∧ cl.phase = .awaiting ∧ cl.os.txDropped = false
  have hcq : (pollDispatch cc.s cc.now).cq = [] := by
    rcases pollDispatch_drained ha hnopanic hpending hnoerr with ⟨o, ho, hp⟩ | h
    · exfalso
      have hm : o ∈ (pollDispatch cc.s cc.now).obs := (List.mem_filter.mp ho).1
      cases o with
      | tReady ep r =>
        cases r with
        | pending => exact hwritable ep (List.mem_reverse.mpr hm)
        | _ => simp [readyP] at hp
      | _ => simp [readyP] at hp
    · exact h
  refine ⟨hcq, ?_⟩
  intro e he
  rcases hq.ent e he with h | ⟨⟨rx, hm⟩, _⟩
  · rw [hcq] at h; cases h
  · obtain ⟨cl, hcl, hc⟩ := mem_cores hm
    simp only [ccore, Prod.mk.injEq] at hc
    exact ⟨cl, hcl, hc.1, hc.2.1, hc.2.2.1⟩

/-! ### non-vacuity -/

/-- The hypotheses of `C03_cancel_owed_state` hold for the poll that follows an abandonment; the `Cancel` is on the wire. -/
example :
    let ops := [COp.call 0 1000000000 ⟨7, .given 1, true⟩ 5, .pollCall 0, .pollDispatch, .dropCall 0 .none]
    let c0 := ops.foldl applyOp (initSys 4 4 4 true)
    c0.s.cq = [0] ∧ c0.s.inflight.map (·.id) = [0] ∧
    (c0.s.dDropped || c0.s.done.isSome || c0.s.poisoned) = false ∧
    (stepOp c0 .pollDispatch).1.s.done = none ∧ (stepOp c0 .pollDispatch).1.s.termErr = none ∧
    (stepOp c0 .pollDispatch).1.s.poisoned = false ∧
    (stepOp c0 .pollDispatch).2.all (fun o => match o with | .tReady _ .pending => false | _ => true) = true ∧
    (stepOp c0 .pollDispatch).1.s.cq = [] ∧ (stepOp c0 .pollDispatch).1.s.inflight = [] ∧
    (stepOp c0 .pollDispatch).1.s.t.sentLog =
      [.request 0 1000000000 ⟨7, .fresh 0, true⟩ 5, .cancel 0 ⟨7, .fresh 0, true⟩] := by
  decide

/-- `monC03` (all clauses) accepts the script with the abandoned call; the third clause is exercised at the last `ret`. -/
example :
    (monC03 (trace (initSys 4 4 4 true)
      [COp.call 0 1000000000 ⟨7, .given 1, true⟩ 5, .pollCall 0, .pollDispatch, .dropCall 0 .none, .pollDispatch])).ok = true ∧
    CEv.obs (.ret (.dispatch 0) .pending) ∈ trace (initSys 4 4 4 true)
      [COp.call 0 1000000000 ⟨7, .given 1, true⟩ 5, .pollCall 0, .pollDispatch, .dropCall 0 .none, .pollDispatch] := by
  decide

end TarpcModel.Client

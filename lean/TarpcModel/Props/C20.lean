import TarpcModel.Lemmas.C20
/-!
# C20 — Load-balancing and retry stubs keep their dispatch promises

Property theorems only.  The model is `TarpcModel.Stubs` (`Stubs.lean`); the monitors `monLb` / `monRt`
(`Monitors/C20.lean`) are the same decidable predicates that the check evaluates on the observation
streams of the real `RoundRobin`, `ConsistentHash` and `Retry` stubs.

Hypotheses that mirror the statement's quantifier or a machine bound, and are said so:
* `1 ≤ n` — "non-empty backends".  With `n = 0` the real code panics (remainder by zero) at the first poll
  of the first call; recorded by `C20_empty_backends_panic_witness`, not claimed as a defect.
* `N < 2^64` — the `AtomicUsize` cursor has not wrapped.  `C20_rr_wraparound_witness` shows the hypothesis
  is needed (for `n` not a power of two the call that wraps repeats a backend).
-/
namespace TarpcModel.Stubs

/-! ## Round robin -/

/-- **C20 (round robin, exact counts).**  For `n ≥ 1` backends and `N < 2^64` calls (tickets `0 … N-1` from
the cursor's `fetch_add`), backend `j` receives exactly `N / n + (if j < N % n then 1 else 0)` calls. -/
theorem C20_rr_balanced (n N j : Nat) (hn : 1 ≤ n) (hN : N < 2 ^ 64) (hj : j < n) :
    (rrCalls (RR.init n) N).2.count (some j) = N / n + (if j < N % n then 1 else 0) := by
  have h := (rrCalls_spec n hn N 0 (by simpa [W] using hN)).1
  rw [show ({ n := n, next := 0 } : RR) = RR.init n from rfl] at h
  rw [h, count_map_some, ← List.range_eq_range', count_range_mod n N j hn hj]

/-- **C20 (round robin, every prefix).**  After every prefix of the calls, the per-backend counts differ by
at most one. -/
theorem C20_rr_prefix_spread (n N M j₁ j₂ : Nat) (hn : 1 ≤ n) (hN : N < 2 ^ 64)
    (hj₁ : j₁ < n) (hj₂ : j₂ < n) :
    ((rrCalls (RR.init n) N).2.take M).count (some j₁)
      ≤ ((rrCalls (RR.init n) N).2.take M).count (some j₂) + 1 := by
  have h := (rrCalls_spec n hn N 0 (by simpa [W] using hN)).1
  rw [show ({ n := n, next := 0 } : RR) = RR.init n from rfl] at h
  have ht : (rrCalls (RR.init n) N).2.take M = ((List.range (min M N)).map (· % n)).map some := by
    rw [h, ← List.range_eq_range', ← List.map_take, ← List.map_take, List.take_range]
  rw [ht, count_map_some, count_map_some, count_range_mod n _ j₁ hn hj₁, count_range_mod n _ j₂ hn hj₂]
  split <;> split <;> omega

/-- **C20 (round robin, concurrent issue).**  Calls are first-polled in some order `order` (a list of call
ids); each first poll takes one ticket atomically.  Every call is sent to exactly one backend, and backend
`j`'s count is the same closed form — it depends on how many calls were polled, not on the order. -/
theorem C20_rr_dispatch_counts (n j : Nat) (order : List Nat) (hn : 1 ≤ n) (hN : order.length < 2 ^ 64)
    (hj : j < n) :
    (rrDispatch (RR.init n) order).2.map (·.1) = order ∧
    ((rrDispatch (RR.init n) order).2.map (·.2)).count (some j)
      = order.length / n + (if j < order.length % n then 1 else 0) := by
  obtain ⟨h1, h2, _⟩ := rrDispatch_backends (RR.init n) order
  exact ⟨h2, by rw [h1, C20_rr_balanced n _ j hn hN hj]⟩

/-- **C20 (round robin, interleaving independence).**  For any two first-poll orders of the same calls
(one a permutation of the other) every backend receives the same number of calls. -/
theorem C20_rr_interleaving (n j : Nat) (order₁ order₂ : List Nat) (hp : order₁.Perm order₂) :
    ((rrDispatch (RR.init n) order₁).2.map (·.2)).count (some j)
      = ((rrDispatch (RR.init n) order₂).2.map (·.2)).count (some j) := by
  rw [(rrDispatch_backends (RR.init n) order₁).1, (rrDispatch_backends (RR.init n) order₂).1, hp.length_eq]

/-- **C20 (round robin, op level).**  In every interleaving of call creations, first polls and drops of
unpolled futures (fewer than `2^64` operations), the `k`-th first poll is served by backend `k % n`: the
backends recorded by the mocks are `0 % n, 1 % n, …, (K-1) % n` where `K` is the number of first polls. -/
theorem C20_rr_any_interleaving (n : Nat) (hn : 1 ≤ n) (ops : List LbOp) (hlen : ops.length < 2 ^ 64) :
    ∃ K, K ≤ ops.length ∧
      pickedBackends (lbRun (lbInit .rr n) ops).2 = (List.range K).map (· % n) := by
  obtain ⟨K, hK, _, hp⟩ := lbRun_rr_picked ops (lbInit .rr n) rfl hn (by simpa [lbInit, RR.init, W] using hlen)
  exact ⟨K, hK, by rw [hp, List.range_eq_range']; rfl⟩

/-! ## Consistent hash -/

/-- **C20 (consistent hash).**  For `n ≥ 1` backends, any hasher (any function `hash` of the request) and
any requests: the chosen index exists and is `< n`, and equal requests get equal indices. -/
theorem C20_hash_valid_stable {Req : Type} (hash : Req → Nat) (n : Nat) (hn : 1 ≤ n) (r₁ r₂ : Req) :
    (∃ i, chIndex hash n r₁ = some i ∧ i < n) ∧
    (r₁ = r₂ → chIndex hash n r₁ = chIndex hash n r₂) := by
  have hn0 : ¬ n = 0 := by omega
  refine ⟨⟨hash r₁ % n, by simp [chIndex, hn0], Nat.mod_lt _ (by omega)⟩, ?_⟩
  rintro rfl; rfl

/-- **C20 (consistent hash, op level).**  In every run of the op-level model with the harness hasher, every
mock-backend record `picked id b req` has `b = hash req % n` (so `b < n`, and `b` is a function of the
request alone — whatever the interleaving). -/
theorem C20_hash_trace (n seed : Nat) (hn : 1 ≤ n) (ops : List LbOp) (id b req : Nat)
    (h : LbObs.picked id b req ∈ (lbRun (lbInit .hash n seed) ops).2) :
    b = verifHash seed req % n ∧ b < n := by
  have := lbRun_hash_picked ops (lbInit .hash n seed) rfl id b req h
  simp only [lbInit, RR.init] at this
  exact ⟨this.1, by have := Nat.mod_lt (verifHash seed req) (show n > 0 by omega); omega⟩

/-- **C20 (consistent hash, the pick is stateless).**  The index computed by `ConsistentHash::call` is a function
of (hasher, request, number of backends) only: whatever the mock backends have been told to answer
(`results`), whatever calls are outstanding, the pick is `hash req % n`. -/
theorem C20_hash_pick_pure (s : LbSt) (hk : s.kind = .hash) (results pending : List (Nat × Nat)) (req : Nat) :
    (pickBackend { s with results := results, pending := pending } req).2
      = chIndex (verifHash s.hseed) s.rr.n req := by
  simp [pickBackend, hk]

/-- **C20 (consistent hash, statelessness across histories).**  Take any two histories of one stub
configuration (`n ≥ 1` backends, hasher seed) — arbitrary interleavings of call creations, first polls,
drops and `set-result` ops that make backends answer `Ok`, `Shutdown`, `DeadlineExceeded` or `Server`
errors at any point.  Whenever a request `req` is dispatched in either of them, it reaches the same valid
backend: nothing a backend returned earlier moves a request elsewhere. -/
theorem C20_hash_stateless (n seed : Nat) (hn : 1 ≤ n) (ops₁ ops₂ : List LbOp) (id₁ id₂ b₁ b₂ req : Nat)
    (h₁ : LbObs.picked id₁ b₁ req ∈ (lbRun (lbInit .hash n seed) ops₁).2)
    (h₂ : LbObs.picked id₂ b₂ req ∈ (lbRun (lbInit .hash n seed) ops₂).2) :
    b₁ = b₂ ∧ b₁ < n := by
  have e₁ := C20_hash_trace n seed hn ops₁ id₁ b₁ req h₁
  have e₂ := C20_hash_trace n seed hn ops₂ id₂ b₂ req h₂
  exact ⟨by rw [e₁.1, e₂.1], e₁.2⟩

/-- **C20 (load balancing, the caller gets the picked backend's own answer).**  Every dispatch of the op-level
model is followed by the answer of exactly the backend that was picked (the monitor's `answered` rule);
stated as monitor acceptance in `C20_monitor_accepts_lb`.  Here: a `set-result` op never changes a later
pick of the consistent-hash stub. -/
theorem C20_hash_set_result_irrelevant (n seed : Nat) (hn : 1 ≤ n) (ops : List LbOp) (b k : Nat)
    (id₁ id₂ b₁ b₂ req : Nat)
    (h₁ : LbObs.picked id₁ b₁ req ∈ (lbRun (lbInit .hash n seed) ops).2)
    (h₂ : LbObs.picked id₂ b₂ req ∈ (lbRun (lbInit .hash n seed) (.setResult b k :: ops)).2) :
    b₁ = b₂ :=
  (C20_hash_stateless n seed hn ops (.setResult b k :: ops) id₁ id₂ b₁ b₂ req h₁ h₂).1

/-! ## Retry -/

/-- **C20 (retry).**  Let the backend answer `rs[0], rs[1], …`, let `k` be the index of the first answer the
policy declines to retry (it accepts `rs[j]` at attempt `j+1` for all `j < k`, declines `rs[k] = r` at
attempt `k+1`).  Then `Retry::call` returns `r` unchanged; the policy was passed attempt numbers
`1, 2, …, k+1` in this order, together with the results `rs[0..k]` in order; it answered "retry" `k` times
and then "stop"; and every attempt gave the backend the identical request. -/
theorem C20_retry {Ctx Req Res : Type} (policy : Res → Nat → Bool) (ctx : Ctx) (req : Req) (rs : List Res)
    (k : Nat) (r : Res)
    (hk : rs[k]? = some r)
    (hretry : ∀ j rj, j < k → rs[j]? = some rj → policy rj (j + 1) = true)
    (hstop : policy r (k + 1) = false) :
    (retryCall policy ctx req rs).2 = some r ∧
    (retryCall policy ctx req rs).1.map (·.attempt) = List.range' 1 (k + 1) ∧
    (retryCall policy ctx req rs).1.map (·.result) = rs.take (k + 1) ∧
    (retryCall policy ctx req rs).1.map (·.retried) = List.replicate k true ++ [false] ∧
    (∀ a ∈ (retryCall policy ctx req rs).1, a.req = req) :=
  retryLoop_spec policy ctx req rs 1 k r hk
    (fun j rj hj hrj => by rw [Nat.add_comm]; exact hretry j rj hj hrj)
    (by rw [Nat.add_comm]; exact hstop)

/-- **C20 (retry, policy never declines).**  If the policy asks for a retry after every scripted answer,
the call does not return (the stub keeps re-issuing for as long as the backend answers); the policy saw
attempts `1 … |rs|` with exactly the backend's answers. -/
theorem C20_retry_never_declines {Ctx Req Res : Type} (policy : Res → Nat → Bool) (ctx : Ctx) (req : Req)
    (rs : List Res) (hretry : ∀ j rj, rs[j]? = some rj → policy rj (j + 1) = true) :
    (retryCall policy ctx req rs).2 = none ∧
    (retryCall policy ctx req rs).1.map (·.attempt) = List.range' 1 rs.length ∧
    (retryCall policy ctx req rs).1.map (·.result) = rs :=
  retryLoop_never policy ctx req rs 1 (fun j rj hrj => by rw [Nat.add_comm]; exact hretry j rj hrj)

/-- **C20 / C07 (retry, same context at every attempt).**  Unconditionally — for every policy, every result
sequence (of whatever kind: `Ok`, `Server`, `Shutdown`, `DeadlineExceeded`, `Send` … are all just values of
`Res`), whether or not the call ever returns — every attempt hands the backend exactly the caller's context
(same deadline, same trace context) and the caller's request, and the attempts are numbered 1, 2, 3, …
without gaps or repetitions.  (For C07: the deadline of a retried nested call is the caller's own, so it
never outlives it.) -/
theorem C20_retry_same_context {Ctx Req Res : Type} (policy : Res → Nat → Bool) (ctx : Ctx) (req : Req)
    (rs : List Res) :
    (∀ a ∈ (retryCall policy ctx req rs).1, a.ctx = ctx ∧ a.req = req) ∧
    (retryCall policy ctx req rs).1.map (·.attempt) = List.range' 1 (retryCall policy ctx req rs).1.length :=
  retryLoop_same policy ctx req rs 1

/-- **C20 / C07 (retry, op level).**  In the op-level model — scripted backend answers that each take an
arbitrary amount of virtual time, any policy table — every context the mock backend records during
`Retry::call(ctx, req)` (completed attempts and the one that never answers) is the caller's `ctx`: the
deadline is still `now₀ + d` where `now₀` is the time the call started, however late the attempt is made. -/
theorem C20_retry_trace_same_context (s : RtSt) (q d tid span : Nat) (smp : Bool) :
    ∀ rec ∈ attemptRecords (rtStep s (.call q d tid span smp)).2,
      rec.2.2 = { deadline := s.now + d, traceId := tid, spanId := span, sampled := smp } := by
  intro rec h
  simp only [rtStep, retryCall, attemptRecords_append, List.mem_append] at h
  rcases h with (h | h) | h
  · simp [attemptRecords] at h
  · exact flatObs_records _ _ _ _
      (fun a ha => ((retryLoop_same s.policy.eval _ q (s.results.map (·.1)) 1).1 a ha).1) rec h
  · cases hout : (retryLoop s.policy.eval
        ({ deadline := s.now + d, traceId := tid, spanId := span, sampled := smp } : RtCtx) q 1
        (s.results.map (·.1))).2 with
    | none => rw [hout] at h; simp [callTail, attemptRecords] at h; rw [h]
    | some r => rw [hout] at h; simp [callTail, attemptRecords] at h

/-! ## Monitor acceptance (the monitors run on the implementation's traces accept every model trace) -/

/-- **C20 (monitor form, load balancing).**  For either stub kind, every `n ≥ 1`, hasher seed and every
interleaving of creations / first polls / drops (fewer than `2^64` ops), the monitor accepts the model's
trace: only valid backends, requests unchanged and dispatched once, round-robin counts within one of each
other after every pick, equal requests to equal backends for consistent hash. -/
theorem C20_monitor_accepts_lb (kind : Kind) (n seed : Nat) (hn : 1 ≤ n) (ops : List LbOp)
    (hlen : ops.length < 2 ^ 64) :
    (monLb kind n (lbRun (lbInit kind n seed) ops).2).ok = true :=
  (lbRun_good hn ops (lbInit_good kind n seed) (by simpa [lbInit, RR.init, W] using hlen)).ok

/-- **C20 (monitor form, retry).**  From any policy/backend-script state and for every sequence of
`result` (any of `Ok` / error / `Send`, any delay) / `decide` / `call` (any deadline and trace context) ops
the monitor accepts the model's trace: attempts numbered 1, 2, 3, …, the same request and the caller's
context (deadline, trace context) every time, a return exactly when the policy declines, with the result
it declined. -/
theorem C20_monitor_accepts_retry (s : RtSt) (ops : List RtOp) :
    (monRt (rtRun s ops).2).accepts = true := by
  have g := rtRun_good ops s (m := {}) ⟨rfl, rfl⟩
  simp [RtMon.accepts, monRt, g.1, g.2]

/-! ## Recorded, not claimed -/

/-- Empty backend list (outside C20's quantifier): the first poll of the first call panics in both
load balancers (`next % 0`, `hash % 0`). -/
theorem C20_empty_backends_panic_witness :
    (RR.init 0).pick.2 = none ∧ chIndex (verifHash 7) 0 5 = none ∧
    (lbRun (lbInit .rr 0) [.call 5, .poll 0]).2 = [.created 0 5, .panicked 0] ∧
    (lbRun (lbInit .hash 0 7) [.call 5, .poll 0]).2 = [.created 0 5, .panicked 0] := by
  decide

/-- Why `N < 2^64` is a hypothesis: when the cursor wraps from `2^64 - 1` to `0` with three backends,
backend 0 is picked twice in a row. -/
theorem C20_rr_wraparound_witness :
    (rrCalls { n := 3, next := 2 ^ 64 - 1 } 2).2 = [some 0, some 0] := by
  decide

/-! ## Non-vacuity -/

/-- Seven concurrent calls over three backends, first-polled out of creation order, one future dropped
unpolled: picks go 0,1,2,0,1,2 by poll order and the monitor accepts. -/
example :
    (lbRun (lbInit .rr 3) [.call 10, .call 11, .call 12, .call 13, .call 14, .call 15, .call 16,
        .poll 3, .poll 0, .drop 5, .poll 6, .poll 1, .poll 5, .poll 2, .poll 4]).2 =
      [.created 0 10, .created 1 11, .created 2 12, .created 3 13, .created 4 14, .created 5 15,
       .created 6 16, .picked 3 0 13, .answered 3 0, .picked 0 1 10, .answered 0 0, .dropped 5,
       .picked 6 2 16, .answered 6 0, .picked 1 0 11, .answered 1 0, .noop,
       .picked 2 1 12, .answered 2 0, .picked 4 2 14, .answered 4 0] ∧
    (monLb .rr 3 (lbRun (lbInit .rr 3) [.call 10, .call 11, .call 12, .call 13, .call 14, .call 15,
        .call 16, .poll 3, .poll 0, .drop 5, .poll 6, .poll 1, .poll 5, .poll 2, .poll 4]).2).ok = true := by
  decide

/-- The round-robin monitor rejects an unbalanced stream, a wrong request and an invalid backend. -/
example :
    (monLb .rr 2 [.created 0 1, .created 1 1, .picked 0 0 1, .picked 1 0 1]).ok = false ∧
    (monLb .rr 2 [.created 0 1, .picked 0 0 2]).ok = false ∧
    (monLb .rr 2 [.created 0 1, .picked 0 2 1]).ok = false := by
  decide

/-- The consistent-hash monitor rejects equal requests sent to different backends. -/
example :
    (monLb .hash 3 [.created 0 9, .created 1 9, .picked 0 1 9, .picked 1 2 9]).ok = false ∧
    (monLb .hash 3 [.created 0 9, .created 1 9, .picked 0 1 9, .picked 1 1 9]).ok = true := by
  decide

/-- A backend that reports `Shutdown` keeps its requests: for every hasher seed, request 4 goes to the backend
`b` its hash designates before and after `b` starts answering `Shutdown`, and the caller sees `b`'s answers. -/
example (seed b : Nat) (hb : verifHash seed 4 % 3 = b) :
    (lbRun (lbInit .hash 3 seed) [.call 4, .poll 0, .setResult b 1, .call 4, .poll 1]).2 =
      [.created 0 4, .picked 0 b 4, .answered 0 0, .resultSet b 1,
       .created 1 4, .picked 1 b 4, .answered 1 1] := by
  have h : b < 3 := by rw [← hb]; exact Nat.mod_lt _ (by omega)
  simp [lbRun, lbStep, lbInit, RR.init, lookup, erase, pickBackend, chIndex, resultOf, h, hb]

/-- The consistent-hash monitor rejects a stream in which request 4 moves from backend 1 to backend 2 after
backend 1 answered `Shutdown`, and one in which the caller does not get the picked backend's answer. -/
example :
    (monLb .hash 3 [.created 0 4, .picked 0 1 4, .answered 0 0, .resultSet 1 1, .created 1 4, .picked 1 1 4,
        .answered 1 1]).ok = true ∧
    (monLb .hash 3 [.created 0 4, .picked 0 1 4, .answered 0 0, .resultSet 1 1, .created 1 4, .picked 1 2 4,
        .answered 1 0]).ok = false ∧
    (monLb .hash 3 [.created 0 4, .resultSet 1 1, .picked 0 1 4, .answered 0 0]).ok = false := by
  decide

set_option maxRecDepth 100000 in
/-- A retry episode with two retries (one after a `Send` error) whose backend answers take 150 ms and
1 ns, and one where the backend stops answering; the hypotheses of `C20_retry` are satisfiable with `k = 2`. -/
example :
    (rtRun (rtInit 1 5) [.result (.send 2) 150000000, .result (.err 3) 1, .result (.ok 9) 0,
        .call 7 1000 5 6 true, .call 8 0 0 0 false]).2 =
      [.start 7 0 ⟨1000, 5, 6, true⟩,
       .backend 7, .attempt 1 0 ⟨1000, 5, 6, true⟩, .policy 1 (.send 2) true,
       .backend 7, .attempt 2 150000000 ⟨1000, 5, 6, true⟩, .policy 2 (.err 3) true,
       .backend 7, .attempt 3 150000001 ⟨1000, 5, 6, true⟩, .policy 3 (.ok 9) false, .ret (.ok 9),
       .start 8 150000001 ⟨150000001, 0, 0, false⟩, .backend 8, .attempt 1 150000001 ⟨150000001, 0, 0, false⟩,
       .stuck] ∧
    (retryCall (rtInit 1 5).policy.eval () 7 [.send 2, .err 3, .ok 9]).2 = some (.ok 9) := by
  decide

set_option maxRecDepth 100000 in
/-- The retry monitor rejects a changed request, a wrong attempt number (also: an attempt number repeated
after a `Send` error), an altered return value, a return while the policy asked for a retry, a changed
trace context, and a retry whose deadline was moved (tagged C07). -/
example :
    (monRt [.start 7 0 ⟨9, 1, 2, true⟩, .backend 8]).accepts = false ∧
    (monRt [.start 7 0 ⟨9, 1, 2, true⟩, .backend 7, .attempt 1 0 ⟨9, 1, 2, true⟩, .policy 2 (.ok 1) false,
        .ret (.ok 1)]).accepts = false ∧
    (monRt [.start 7 0 ⟨9, 1, 2, true⟩, .backend 7, .attempt 1 0 ⟨9, 1, 2, true⟩, .policy 1 (.send 0) true,
        .backend 7, .attempt 2 0 ⟨9, 1, 2, true⟩, .policy 1 (.ok 1) false, .ret (.ok 1)]).verdict =
      some "[C20] policy was passed attempt number 1, expected 2" ∧
    (monRt [.start 7 0 ⟨9, 1, 2, true⟩, .backend 7, .attempt 1 0 ⟨9, 1, 2, true⟩, .policy 1 (.ok 1) false,
        .ret (.ok 2)]).accepts = false ∧
    (monRt [.start 7 0 ⟨9, 1, 2, true⟩, .backend 7, .attempt 1 0 ⟨9, 1, 2, true⟩, .policy 1 (.err 1) true,
        .ret (.err 1)]).accepts = false ∧
    (monRt [.start 7 0 ⟨9, 1, 2, true⟩, .backend 7, .attempt 1 0 ⟨9, 1, 3, true⟩, .policy 1 (.ok 1) false,
        .ret (.ok 1)]).accepts = false ∧
    (monRt [.start 7 0 ⟨9, 1, 2, true⟩, .backend 7, .attempt 1 0 ⟨9, 1, 2, true⟩, .policy 1 (.err 1) true,
        .backend 7, .attempt 2 5 ⟨14, 1, 2, true⟩, .policy 2 (.ok 1) false, .ret (.ok 1)]).verdict =
      some ("[C07] attempt 2 of a retried call (issued at 5 ns) carries deadline 14 ns, the caller's deadline " ++
        "is 9 ns: the retry may outlive the caller by 5 ns") ∧
    (monRt [.start 7 0 ⟨9, 1, 2, true⟩, .backend 7, .attempt 1 0 ⟨9, 1, 2, true⟩, .policy 1 (.ok 1) false,
        .ret (.ok 1)]).verdict = none := by
  decide

end TarpcModel.Stubs

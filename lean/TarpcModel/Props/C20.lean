import TarpcModel.Lemmas.C20
/-!
# C20 — Load-balancing and retry stubs keep their dispatch promises

Property theorems only.  The model is `TarpcModel.Stubs` (`Stubs.lean`); the monitors `monLb` / `monRt`
(`Monitors/C20.lean`) are the same decidable predicates that the check evaluates on the observation
streams of the real `RoundRobin`, `ConsistentHash` and `Retry` stubs.

Hypotheses that mirror the statement's quantifier or a machine bound, and are said so:
* `1 ≤ n` — "non-empty backends".  With `n = 0` the real code panics (remainder by zero) at the first poll
  of the first call; recorded by `C20_empty_backends_panic_witness`, not claimed as a defect.
* `N < 2^64` — the `AtomicUsize` cursor has not wrapped.  `C20_rr_wraparound_witness` shows the hypothesis
  is needed (for `n` not a power of two the call that wraps repeats a backend).
-/
namespace TarpcModel.Stubs

/-! ## Round robin -/

/-- **C20 (round robin, exact counts).**  For `n ≥ 1` backends and `N < 2^64` calls (tickets `0 … N-1` from
the cursor's `fetch_add`), backend `j` receives exactly `N / n + (if j < N % n then 1 else 0)` calls. -/
theorem C20_rr_balanced (n N j : Nat) (hn : 1 ≤ n) (hN : N < 2 ^ 64) (hj : j < n) :
    (rrCalls (RR.init n) N).2.count (some j) = N / n + (if j < N % n then 1 else 0) := by
  have h := (rrCalls_spec n hn N 0 (by simpa [W] using hN)).1
  rw [show ({ n := n, next := 0 } : RR) = RR.init n from rfl] at h
  rw [h, count_map_some, ← List.range_eq_range', count_range_mod n N j hn hj]

/-- **C20 (round robin, every prefix).**  After every prefix of the calls, the per-backend counts differ by
at most one. -/
theorem C20_rr_prefix_spread (n N M j₁ j₂ : Nat) (hn : 1 ≤ n) (hN : N < 2 ^ 64)
    (hj₁ : j₁ < n) (hj₂ : j₂ < n) :
    ((rrCalls (RR.init n) N).2.take M).count (some j₁)
      ≤ ((rrCalls (RR.init n) N).2.take M).count (some j₂) + 1 := by
  have h := (rrCalls_spec n hn N 0 (by simpa [W] using hN)).1
  rw [show ({ n := n, next := 0 } : RR) = RR.init n from rfl] at h
  have ht : (rrCalls (RR.init n) N).2.take M = ((List.range (min M N)).map (· % n)).map some := by
    rw [h, ← List.range_eq_range', ← List.map_take, ← List.map_take, List.take_range]
  rw [ht, count_map_some, count_map_some, count_range_mod n _ j₁ hn hj₁, count_range_mod n _ j₂ hn hj₂]
  split <;> split <;> omega

/-- **C20 (round robin, concurrent issue).**  Calls are first-polled in some order `order` (a list of call
ids); each first poll takes one ticket atomically.  Every call is sent to exactly one backend, and backend
`j`'s count is the same closed form — it depends on how many calls were polled, not on the order. -/
theorem C20_rr_dispatch_counts (n j : Nat) (order : List Nat) (hn : 1 ≤ n) (hN : order.length < 2 ^ 64)
    (hj : j < n) :
    (rrDispatch (RR.init n) order).2.map (·.1) = order ∧
    ((rrDispatch (RR.init n) order).2.map (·.2)).count (some j)
      = order.length / n + (if j < order.length % n then 1 else 0) := by
  obtain ⟨h1, h2, _⟩ := rrDispatch_backends (RR.init n) order
  exact ⟨h2, by rw [h1, C20_rr_balanced n _ j hn hN hj]⟩

/-- **C20 (round robin, interleaving independence).**  For any two first-poll orders of the same calls
(one a permutation of the other) every backend receives the same number of calls. -/
theorem C20_rr_interleaving (n j : Nat) (order₁ order₂ : List Nat) (hp : order₁.Perm order₂) :
    ((rrDispatch (RR.init n) order₁).2.map (·.2)).count (some j)
      = ((rrDispatch (RR.init n) order₂).2.map (·.2)).count (some j) := by
  rw [(rrDispatch_backends (RR.init n) order₁).1, (rrDispatch_backends (RR.init n) order₂).1, hp.length_eq]

/-- **C20 (round robin, op level).**  In every interleaving of call creations, first polls and drops of
unpolled futures (fewer than `2^64` operations), the `k`-th first poll is served by backend `k % n`: the
backends recorded by the mocks are `0 % n, 1 % n, …, (K-1) % n` where `K` is the number of first polls. -/
theorem C20_rr_any_interleaving (n : Nat) (hn : 1 ≤ n) (ops : List LbOp) (hlen : ops.length < 2 ^ 64) :
    ∃ K, K ≤ ops.length ∧
      pickedBackends (lbRun (lbInit .rr n) ops).2 = (List.range K).map (· % n) := by
  obtain ⟨K, hK, _, hp⟩ := lbRun_rr_picked ops (lbInit .rr n) rfl hn (by simpa [lbInit, RR.init, W] using hlen)
  exact ⟨K, hK, by rw [hp, List.range_eq_range']; rfl⟩

/-! ## Consistent hash -/

/-- **C20 (consistent hash).**  For `n ≥ 1` backends, any hasher (any function `hash` of the request) and
any requests: the chosen index exists and is `< n`, and equal requests get equal indices. -/
theorem C20_hash_valid_stable {Req : Type} (hash : Req → Nat) (n : Nat) (hn : 1 ≤ n) (r₁ r₂ : Req) :
    (∃ i, chIndex hash n r₁ = some i ∧ i < n) ∧
    (r₁ = r₂ → chIndex hash n r₁ = chIndex hash n r₂) := by
  have hn0 : ¬ n = 0 := by omega
  refine ⟨⟨hash r₁ % n, by simp [chIndex, hn0], Nat.mod_lt _ (by omega)⟩, ?_⟩
  rintro rfl; rfl

/-- **C20 (consistent hash, op level).**  In every run of the op-level model with the harness hasher, every
mock-backend record `picked id b req` has `b = hash req % n` (so `b < n`, and `b` is a function of the
request alone — whatever the interleaving). -/
theorem C20_hash_trace (n seed : Nat) (hn : 1 ≤ n) (ops : List LbOp) (id b req : Nat)
    (h : LbObs.picked id b req ∈ (lbRun (lbInit .hash n seed) ops).2) :
    b = verifHash seed req % n ∧ b < n := by
  have := lbRun_hash_picked ops (lbInit .hash n seed) rfl id b req h
  simp only [lbInit, RR.init] at this
  exact ⟨this.1, by have := Nat.mod_lt (verifHash seed req) (show n > 0 by omega); omega⟩

/-! ## Retry -/

/-- **C20 (retry).**  Let the backend answer `rs[0], rs[1], …`, let `k` be the index of the first answer the
policy declines to retry (it accepts `rs[j]` at attempt `j+1` for all `j < k`, declines `rs[k] = r` at
attempt `k+1`).  Then `Retry::call` returns `r` unchanged; the policy was passed attempt numbers
`1, 2, …, k+1` in this order, together with the results `rs[0..k]` in order; it answered "retry" `k` times
and then "stop"; and every attempt gave the backend the identical request. -/
theorem C20_retry {Req Res : Type} (policy : Res → Nat → Bool) (req : Req) (rs : List Res) (k : Nat) (r : Res)
    (hk : rs[k]? = some r)
    (hretry : ∀ j rj, j < k → rs[j]? = some rj → policy rj (j + 1) = true)
    (hstop : policy r (k + 1) = false) :
    (retryCall policy req rs).2 = some r ∧
    (retryCall policy req rs).1.map (·.attempt) = List.range' 1 (k + 1) ∧
    (retryCall policy req rs).1.map (·.result) = rs.take (k + 1) ∧
    (retryCall policy req rs).1.map (·.retried) = List.replicate k true ++ [false] ∧
    (∀ a ∈ (retryCall policy req rs).1, a.req = req) :=
  retryLoop_spec policy req rs 1 k r hk
    (fun j rj hj hrj => by rw [Nat.add_comm]; exact hretry j rj hj hrj)
    (by rw [Nat.add_comm]; exact hstop)

/-- **C20 (retry, policy never declines).**  If the policy asks for a retry after every scripted answer,
the call does not return (the stub keeps re-issuing for as long as the backend answers); the policy saw
attempts `1 … |rs|` with exactly the backend's answers. -/
theorem C20_retry_never_declines {Req Res : Type} (policy : Res → Nat → Bool) (req : Req) (rs : List Res)
    (hretry : ∀ j rj, rs[j]? = some rj → policy rj (j + 1) = true) :
    (retryCall policy req rs).2 = none ∧
    (retryCall policy req rs).1.map (·.attempt) = List.range' 1 rs.length ∧
    (retryCall policy req rs).1.map (·.result) = rs :=
  retryLoop_never policy req rs 1 (fun j rj hrj => by rw [Nat.add_comm]; exact hretry j rj hrj)

/-! ## Monitor acceptance (the monitors run on the implementation's traces accept every model trace) -/

/-- **C20 (monitor form, load balancing).**  For either stub kind, every `n ≥ 1`, hasher seed and every
interleaving of creations / first polls / drops (fewer than `2^64` ops), the monitor accepts the model's
trace: only valid backends, requests unchanged and dispatched once, round-robin counts within one of each
other after every pick, equal requests to equal backends for consistent hash. -/
theorem C20_monitor_accepts_lb (kind : Kind) (n seed : Nat) (hn : 1 ≤ n) (ops : List LbOp)
    (hlen : ops.length < 2 ^ 64) :
    (monLb kind n (lbRun (lbInit kind n seed) ops).2).ok = true :=
  (lbRun_good hn ops (lbInit_good kind n seed) (by simpa [lbInit, RR.init, W] using hlen)).ok

/-- **C20 (monitor form, retry).**  From any policy/backend-script state and for every sequence of
`result` / `decide` / `call` ops the monitor accepts the model's trace: attempts numbered 1, 2, 3, …,
the same request every time, a return exactly when the policy declines, with the result it declined. -/
theorem C20_monitor_accepts_retry (s : RtSt) (ops : List RtOp) :
    (monRt (rtRun s ops).2).accepts = true := by
  have g := rtRun_good ops s (m := {}) ⟨rfl, rfl⟩
  simp [RtMon.accepts, monRt, g.1, g.2]

/-! ## Recorded, not claimed -/

/-- Empty backend list (outside C20's quantifier): the first poll of the first call panics in both
load balancers (`next % 0`, `hash % 0`). -/
theorem C20_empty_backends_panic_witness :
    (RR.init 0).pick.2 = none ∧ chIndex (verifHash 7) 0 5 = none ∧
    (lbRun (lbInit .rr 0) [.call 5, .poll 0]).2 = [.created 0 5, .panicked 0] ∧
    (lbRun (lbInit .hash 0 7) [.call 5, .poll 0]).2 = [.created 0 5, .panicked 0] := by
  decide

/-- Why `N < 2^64` is a hypothesis: when the cursor wraps from `2^64 - 1` to `0` with three backends,
backend 0 is picked twice in a row. -/
theorem C20_rr_wraparound_witness :
    (rrCalls { n := 3, next := 2 ^ 64 - 1 } 2).2 = [some 0, some 0] := by
  decide

/-! ## Non-vacuity -/

/-- Seven concurrent calls over three backends, first-polled out of creation order, one future dropped
unpolled: picks go 0,1,2,0,1,2 by poll order and the monitor accepts. -/
example :
    (lbRun (lbInit .rr 3) [.call 10, .call 11, .call 12, .call 13, .call 14, .call 15, .call 16,
        .poll 3, .poll 0, .drop 5, .poll 6, .poll 1, .poll 5, .poll 2, .poll 4]).2 =
      [.created 0 10, .created 1 11, .created 2 12, .created 3 13, .created 4 14, .created 5 15,
       .created 6 16, .picked 3 0 13, .picked 0 1 10, .dropped 5, .picked 6 2 16, .picked 1 0 11, .noop,
       .picked 2 1 12, .picked 4 2 14] ∧
    (monLb .rr 3 (lbRun (lbInit .rr 3) [.call 10, .call 11, .call 12, .call 13, .call 14, .call 15,
        .call 16, .poll 3, .poll 0, .drop 5, .poll 6, .poll 1, .poll 5, .poll 2, .poll 4]).2).ok = true := by
  decide

/-- The round-robin monitor rejects an unbalanced stream, a wrong request and an invalid backend. -/
example :
    (monLb .rr 2 [.created 0 1, .created 1 1, .picked 0 0 1, .picked 1 0 1]).ok = false ∧
    (monLb .rr 2 [.created 0 1, .picked 0 0 2]).ok = false ∧
    (monLb .rr 2 [.created 0 1, .picked 0 2 1]).ok = false := by
  decide

/-- The consistent-hash monitor rejects equal requests sent to different backends. -/
example :
    (monLb .hash 3 [.created 0 9, .created 1 9, .picked 0 1 9, .picked 1 2 9]).ok = false ∧
    (monLb .hash 3 [.created 0 9, .created 1 9, .picked 0 1 9, .picked 1 1 9]).ok = true := by
  decide

/-- A retry episode with two retries, and one where the backend stops answering; the hypotheses of
`C20_retry` are satisfiable with `k = 2`. -/
example :
    (rtRun (rtInit 1 5) [.result (.err 2), .result (.err 3), .result (.ok 9), .call 7, .call 8]).2 =
      [.start 7, .backend 7, .policy 1 (.err 2) true, .backend 7, .policy 2 (.err 3) true, .backend 7,
       .policy 3 (.ok 9) false, .ret (.ok 9), .start 8, .backend 8, .stuck] ∧
    (retryCall (rtInit 1 5).policy.eval 7 [.err 2, .err 3, .ok 9]).2 = some (.ok 9) := by
  decide

/-- The retry monitor rejects a changed request, a wrong attempt number, an altered return value and a
return while the policy asked for a retry. -/
example :
    (monRt [.start 7, .backend 8]).accepts = false ∧
    (monRt [.start 7, .backend 7, .policy 2 (.ok 1) false, .ret (.ok 1)]).accepts = false ∧
    (monRt [.start 7, .backend 7, .policy 1 (.ok 1) false, .ret (.ok 2)]).accepts = false ∧
    (monRt [.start 7, .backend 7, .policy 1 (.err 1) true, .ret (.err 1)]).accepts = false ∧
    (monRt [.start 7, .backend 7, .policy 1 (.ok 1) false, .ret (.ok 1)]).accepts = true := by
  decide

end TarpcModel.Stubs

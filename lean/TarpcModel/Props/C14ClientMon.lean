import TarpcModel.Lemmas.ClientMon14
import TarpcModel.Props.C14Client
import TarpcModel.Props.C16Client
/-!
# C14 (client side) — the run-time monitor `monC14` on traces of the client model: the write clauses

Property theorems only.  `Props/C14Client.lean` has the state-level half (the instrumented transport records none of
the violations `sendViols`; flush before idle; no spin).  Here the **monitor form** of the write clauses of `checkC14`
(`checkC14Obs`, `.tSend`): *no write after the transport reported a failure, none after the close, none without a
preceding `poll_ready → Ready`* — for every configuration, every script over all ops (calls, polls, drops — including
the dispatch polls a `drop-call` runs at the guard's yield points —, injections, faults of every kind, readiness
switches), no bound on the clock (`C14C_write_clauses_accept`).

How: the monitor's state is a fold over the transport observations; its fields `gotReady`, `closed`, `failed` are,
at every point of every poll, the fields of the same name of the instrumented transport `SimT` (`M14.Cpl`).  That needs
the closure principle `Flow.TRel` / `Flow.applyOp_trel` (`Lemmas/ClientTRel.lean`): the dispatch does nothing to its
transport but the five calls `poll_ready`, `start_send`, `poll_flush`, `poll_close`, `poll_next`, and emits transport
observations nowhere else — so any relation kept by transport-free steps and by those calls is kept by every op.  A
write the monitor would object to is one at which `SimT` records `send-after-failure`, `send-after-close` or
`send-without-ready` (`M14.startSend_bad_viol`); the log only grows, and in every reachable state it is free of them
(`Flow.Inv`, `C14_no_violation_partial`).

Also here, from trace-level theorems that existed: the spin clause of `checkC14` (`C14C_spin_clause_accepts`, from
`C14_no_spin`) and the panic clause of `checkC09` (`C09C_panic_clause_accepts`, clock below `2^35` ms, from
`C16_client_no_panic`).

The remaining clauses of `checkC14` (`poll_ready` retried more than four times without returning to the executor; going
idle with written items neither flushed nor being flushed — `C14_flush_before_idle` is the state-level statement) are
not in monitor form yet; `C14C_write_clause` says
that wherever the sub-monitor is silent at a write, so is `checkC14` (same state: `C14C_write_state`).
-/
namespace TarpcModel.Client
open M14

/-- the monitor with the write clauses of `checkC14` only -/
def monC14Write (evs : List CEv) : Mon C14St := Mon.run checkC14Write {} evs

/-- **C14 (client), monitor form, the write clauses.**  On every trace of the client model the dispatch writes to its
transport only after `poll_ready → Ready`, never after the transport reported a failure and never after the close: the
write clauses of the C14 monitor never fire. -/
theorem C14C_write_clauses_accept (m bufCap tcap : Nat) (coupled : Bool) (ops : List COp) :
    (monC14Write (trace (initSys m bufCap tcap coupled) ops)).ok = true := by
  unfold Mon.ok monC14Write
  rw [c14_write_accepts m bufCap tcap coupled ops]; rfl

/-- The sub-monitor has the state of `checkC14` … -/
theorem C14C_write_state (b : Book) (s : C14St) (e : CEv) : (checkC14Write b s e).1 = (checkC14 b s e).1 := by
  cases e <;> rfl

/-- … and its verdict at a write is `checkC14`'s: whenever `checkC14` objects to a `start_send`, so does the
sub-monitor; hence (`C14C_write_clauses_accept`) `checkC14` objects to no write of the model. -/
theorem C14C_write_clause (b : Book) (s : C14St) (ep : TaskId) (msg : Msg) (ok : Bool)
    (h : (checkC14Write b s (.obs (.tSend ep msg ok))).2 = none) : (checkC14 b s (.obs (.tSend ep msg ok))).2 = none := by
  have hb : (s.failed || s.closed || !s.gotReady) = false := by
    cases hc : (s.failed || s.closed || !s.gotReady) with
    | false => rfl
    | true =>
      have hbs : badSend s (.tSend ep msg ok) = true := hc
      have : (checkC14Write b s (.obs (.tSend ep msg ok))).2 =
          some "write after a reported failure, after the close, or without a preceding poll_ready → Ready" := by
        show (if badSend s (.tSend ep msg ok) = true then _ else none) = _
        rw [if_pos hbs]
      rw [this] at h; cases h
  simp only [Bool.or_eq_false_iff, Bool.not_eq_false'] at hb
  obtain ⟨⟨h1, h2⟩, h3⟩ := hb
  simp [checkC14, checkC14Obs, h1, h2, h3]

set_option maxRecDepth 100000 in
/-- Non-vacuity: the sub-monitor rejects a write without readiness and a write after a reported failure, and judges the
writes of a model trace with a request, a cancellation and a failing flush. -/
example :
    (monC14Write [.op .pollDispatch, .obs (.tSend (.dispatch 0) (.cancel 1 ⟨0, .given 0, false⟩) true)]).ok = false ∧
    (monC14Write [.op .pollDispatch, .obs (.tFlush (.dispatch 0) .err), .obs (.tReady (.dispatch 0) .ready),
      .obs (.tSend (.dispatch 0) (.cancel 1 ⟨0, .given 0, false⟩) true)]).ok = false ∧
    (monC14Write (trace (initSys 2 2 2 true)
      [.call 0 5000000 ⟨1, .given 1, true⟩ 7, .pollCall 0, .pollDispatch, .dropCall 0 .none, .fault .flush,
       .pollDispatch, .pollDispatch])).ok = true := by
  decide


/-! ### the spin clause of `checkC14`, the panic clause of `checkC09` -/

/-- the spin clause of `checkC14` alone (the state is `checkC14`'s) -/
def checkC14Spin (b : Book) (s : C14St) (e : CEv) : C14St × Option String :=
  ((checkC14 b s e).1, match e with
    | .obs (.spin _) => some "busy loop: poll_ready/poll_flush retried without returning to the executor"
    | _ => none)

def monC14Spin (evs : List CEv) : Mon C14St := Mon.run checkC14Spin {} evs

/-- **C14 (client), monitor form, the spin clause**: never fires on a trace of the model (no `Obs.spin` is ever
observed, `C14_no_spin`). -/
theorem C14C_spin_clause_accepts (m bufCap tcap : Nat) (coupled : Bool) (ops : List COp) :
    (monC14Spin (trace (initSys m bufCap tcap coupled) ops)).ok = true := by
  have h : (Mon.run checkC14Spin {} (trace (initSys m bufCap tcap coupled) ops)).bad = none := by
    refine mon_accepts_of_splits checkC14Spin { st := {} } _ rfl ?_
    intro pre e post he st _
    cases e with
    | op o => rfl
    | obs o =>
      cases o with
      | spin t =>
        exfalso
        have hel : (initSys m bufCap tcap coupled).s.ensureLoop = false := by
          show Gen.clientEnsureLoop = false; decide
        refine Flow.trace_no_spin ops hel t ?_
        rw [he]; exact List.mem_append_right _ (List.mem_cons_self ..)
      | _ => rfl
  unfold Mon.ok monC14Spin
  rw [h]; rfl

/-- the panic clause of `checkC09` alone (the state is `checkC09`'s) -/
def checkC09Panic (b : Book) (s : C09St) (e : CEv) : C09St × Option String :=
  ((checkC09 b s e).1, match e with
    | .obs (.panic _ site) => some s!"panic: {site}"
    | _ => none)

def monC09Panic (evs : List CEv) : Mon C09St := Mon.run checkC09Panic none evs

/-- **C09 (client), monitor form, the panic clause**: never fires on a trace of the model whose total advanced time is
below `2^35` ms (`C16_client_no_panic`; beyond the bound it does: `C16_client_late_panic_witness`). -/
theorem C09C_panic_clause_accepts (m bufCap tcap : Nat) (coupled : Bool) (ops : List COp)
    (hT : advSum ops < 2 ^ 35 * nsPerMs) :
    (monC09Panic (trace (initSys m bufCap tcap coupled) ops)).ok = true := by
  have h : (Mon.run checkC09Panic none (trace (initSys m bufCap tcap coupled) ops)).bad = none := by
    refine mon_accepts_of_splits checkC09Panic { st := none } _ rfl ?_
    intro pre e post he st _
    cases e with
    | op o => rfl
    | obs o =>
      cases o with
      | panic t site =>
        exfalso
        refine (C16_client_no_panic m bufCap tcap coupled ops hT).1 t site ?_
        rw [he]; exact List.mem_append_right _ (List.mem_cons_self ..)
      | _ => rfl
  unfold Mon.ok monC09Panic
  rw [h]; rfl

end TarpcModel.Client

import TarpcModel.Macro.StubMatch
/-!
# C16, caller side of a generated client: no response of the peer panics the stub

Property theorems only.  `Gen.stubMismatchIsError` is regenerated from `plugins/src/lib.rs` on every run; the
`c16stub` correspondence family runs the real generated client against a peer that answers with every variant.
-/
namespace TarpcModel.Stub

/-- **C16 (generated stub).** For every method and every well-formed answer of the peer — its own variant, any
other method's variant, a server error — the stub returns; it never panics the caller's task. -/
theorem C16_stub_never_panics (called : Nat) (a : Answer) : stubResult called a ≠ .panic := by
  have h : Gen.stubMismatchIsError = true := by decide
  unfold stubResult stubResultWith
  cases a <;> simp [h] <;> split <;> simp

/-- The stub yields the value exactly for the method's own variant, and an error otherwise: a response is never
mistaken for another method's. -/
theorem C16_stub_ok_iff (called : Nat) (a : Answer) : stubResult called a = .ok ↔ a = .variantOf called := by
  have h : Gen.stubMismatchIsError = true := by decide
  unfold stubResult stubResultWith
  cases a with
  | serverError k => simp
  | variantOf m => by_cases hm : m = called <;> simp [hm, h]

/-- Finding F11 as a theorem: with `unreachable!()` in the fallback arm (the code before the repair), a response
of method 1 to a call of method 0 panics. -/
theorem C16_stub_mismatch_witness : stubResultWith false 0 (.variantOf 1) = .panic := by decide

example : stubResult 0 (.variantOf 1) = .err "InvalidData" := by decide

end TarpcModel.Stub

import TarpcModel.Lemmas.ServerTable
/-!
# C06 (server side) — request deadlines are enforced, never early

Property theorems only.  Model: `TarpcModel.Server` (`Server/Model.lean`), timers: the
`tokio_util::time::DelayQueue` emulation `Prim/DelayQ.lean`.  Lemmas: `Lemmas/DelayQFacts.lean`
(never-early for the hashed timer wheel), `Lemmas/ServerTable.lean` (table / timer / execution
invariant `SInv`), `Lemmas/ServerFlow.lean`.
-/
namespace TarpcModel.Server
open TarpcModel TarpcModel.Server.Flow

/-- **C06 (a): never early — up to the timer clamp.**  In every reachable state of every
configuration, an execution whose abort flag is set has a reason: a `Cancel` for its request id was
read from the transport (`cancelSeen`: an `Obs.tNext _ (.item (.cancel id _))` was observed), the
request stream was dropped, the clock has reached the request's deadline — or the *clamp fired*:
the request was read at clock `t0` (`StartedAt`: the op of the script that created the execution ran
at `t0`) with a deadline more than `MAX_DEADLINE_TIMEOUT` (`clampNs`, `Gen.serverTimerClampSecs`
seconds — one year) beyond `t0`, so that its timer was armed with the clamped timeout, and that
timeout has run out (`Clamped t0 deadline now`: the source clamps, `t0 + clampNs < deadline` and
`t0 + clampNs ≤ now`).  In that last case `InFlightRequests::poll_expired` aborts the handler although
`now < deadline` may hold: the accepted price of not panicking on far-away deadlines.

For every other request the expiry path never aborts a handler before its deadline: the timer is armed
for `max (ceil_ms (now + clampTimeout (deadline - now))) wheel.elapsed`, which is `≥ deadline` unless
the clamp applies, and the timer wheel never yields an entry before its tick
(`DelayQ.pollExpired_not_early`). -/
theorem C06_never_early (limit : Option Nat) (respCap tcap : Nat) (coupled : Bool) (ops : List SOp)
    (c : Sys) (hc : c = ops.foldl applyOp (initSys limit respCap tcap coupled)) :
    ∀ e ∈ c.s.execs, e.aborted = true →
      cancelSeen e.id c.s.obs ∨ c.s.dropped = true ∨ e.deadline ≤ c.now ∨
      ∃ t0, StartedAt (initSys limit respCap tcap coupled) ops e.rid t0 ∧ Clamped t0 e.deadline c.now := by
  subst hc
  intro e he ha
  obtain ⟨born, hinv, hlink⟩ := sinv_reach true limit respCap tcap coupled ops
  have hns := ns_reach limit respCap tcap coupled ops
  rcases hinv.why rfl e he ha with h | h | h | h | h
  · rw [hns] at h; cases h
  · exact Or.inl h
  · exact Or.inr (Or.inl h)
  · exact Or.inr (Or.inr (Or.inl h))
  · exact Or.inr (Or.inr (Or.inr ⟨born e.rid, hlink e.rid (hinv.t.execRid e he), h⟩))

/-- **C06 (a) for deadlines within the clamp: never early, outright.**  If the request's deadline was
at most `clampNs` (one year) away when the request was read — at whatever clock `t0` that was — an
aborted execution has one of the three classical reasons; in particular the deadline has passed unless a
`Cancel` was read or the stream was dropped. -/
theorem C06_never_early_within_clamp (limit : Option Nat) (respCap tcap : Nat) (coupled : Bool) (ops : List SOp)
    (c : Sys) (hc : c = ops.foldl applyOp (initSys limit respCap tcap coupled)) (e : Exec) (he : e ∈ c.s.execs)
    (hnear : ∀ t0, StartedAt (initSys limit respCap tcap coupled) ops e.rid t0 → e.deadline ≤ t0 + clampNs)
    (ha : e.aborted = true) :
    cancelSeen e.id c.s.obs ∨ c.s.dropped = true ∨ e.deadline ≤ c.now := by
  rcases C06_never_early limit respCap tcap coupled ops c hc e he ha with h | h | h | ⟨t0, hs, hcl⟩
  · exact Or.inl h
  · exact Or.inr (Or.inl h)
  · exact Or.inr (Or.inr h)
  · exact absurd (hnear t0 hs) (Nat.not_le.mpr hcl.2.1)

/-- … and if the source does not clamp at all (`Gen.serverTimerClampSecs = 0`) the clamp disjunct is
empty. -/
theorem C06_never_early_unclamped (hno : Gen.serverTimerClampSecs = 0)
    (limit : Option Nat) (respCap tcap : Nat) (coupled : Bool) (ops : List SOp)
    (c : Sys) (hc : c = ops.foldl applyOp (initSys limit respCap tcap coupled)) :
    ∀ e ∈ c.s.execs, e.aborted = true → cancelSeen e.id c.s.obs ∨ c.s.dropped = true ∨ e.deadline ≤ c.now := by
  intro e he ha
  rcases C06_never_early limit respCap tcap coupled ops c hc e he ha with h | h | h | ⟨t0, hs, hcl⟩
  · exact Or.inl h
  · exact Or.inr (Or.inl h)
  · exact Or.inr (Or.inr h)
  · exact absurd hno hcl.1

/-- **C06 (a), observation form.**  From any reachable state, if polling execution `vid` at the current
clock reports `handler vid dropped t` (the `Abortable` wrapper found the abort flag set and dropped
the handler), then `t` is the current clock and the abort has a reason: a `Cancel` for the request's id
was read, the request stream was dropped, `t ≥ deadline` — or the clamp fired (see `C06_never_early`). -/
theorem C06_never_early_obs (limit : Option Nat) (respCap tcap : Nat) (coupled : Bool) (ops : List SOp)
    (c : Sys) (hc : c = ops.foldl applyOp (initSys limit respCap tcap coupled)) (vid v t : Nat)
    (h : Obs.handler v .dropped t ∈ (pollExec c.s vid c.now).obs) (hnew : Obs.handler v .dropped t ∉ c.s.obs) :
    v = vid ∧ t = c.now ∧ ∃ e, getExecVis c.s vid = some e ∧
      (cancelSeen e.id c.s.obs ∨ c.s.dropped = true ∨ e.deadline ≤ t ∨
        ∃ t0, StartedAt (initSys limit respCap tcap coupled) ops e.rid t0 ∧ Clamped t0 e.deadline t) := by
  rcases pollExec_dropped_obs c.s vid c.now v t h with h' | ⟨hv, ht, e, hg, hab, hmem⟩
  · exact absurd h' hnew
  · exact ⟨hv, ht, e, hg, ht ▸ C06_never_early limit respCap tcap coupled ops c hc e hmem hab⟩

/-- The one-step form for the expiry path alone: from a reachable state, every execution that
`poll_expired` at the current clock newly aborts has `deadline ≤ now` — or its timer was armed with the
clamped timeout at the clock `born rid` at which the script created it, and the clamp has run out. -/
theorem C06_expiry_never_early (limit : Option Nat) (respCap tcap : Nat) (coupled : Bool) (ops : List SOp)
    (c : Sys) (hc : c = ops.foldl applyOp (initSys limit respCap tcap coupled)) :
    ∃ born : Nat → Nat,
      (∀ rid, rid < c.s.execs.length → StartedAt (initSys limit respCap tcap coupled) ops rid (born rid)) ∧
      (ExecsAb none c.s.execs (pollExpired c.s c.now).1.execs ∨
       ∃ r, ExecsAb (some r) c.s.execs (pollExpired c.s c.now).1.execs ∧
        ∀ ex ∈ c.s.execs, ex.rid = r → ex.deadline ≤ c.now ∨ Clamped (born ex.rid) ex.deadline c.now) := by
  subst hc
  obtain ⟨born, hinv, hlink⟩ := sinv_reach true limit respCap tcap coupled ops
  exact ⟨born, hlink, hinv.t.expire_ab⟩

/-- **C06 (b): an expiry touches nothing else.**  In any state, `poll_expired` either leaves the
in-flight table and all executions alone, or it reports an expiration, removes exactly the table
entries with the expired id and changes only executions with the rid of the entry it found (whose
`rid` it keeps and whose `aborted` flag it never clears). -/
theorem C06_others_unaffected (s : St) (now : Nat) :
    ((pollExpired s now).1.inflight = s.inflight ∧ (pollExpired s now).1.execs = s.execs) ∨
    ∃ (e : DqEntry) (en : SEntry), findEntry s e.val = some en ∧ (pollExpired s now).2 = .ready ∧
      (pollExpired s now).1.inflight = s.inflight.filter (·.id != e.val) ∧
      (∀ en' ∈ s.inflight, en'.id ≠ en.id → en' ∈ (pollExpired s now).1.inflight) ∧
      ∃ g, (pollExpired s now).1.execs = s.execs.map g ∧ (∀ x, x.rid ≠ en.rid → g x = x) ∧
        (∀ x, (g x).rid = x.rid) ∧ (∀ x, x.aborted = true → (g x).aborted = true) := by
  rcases pollExpired_touches s now with h | ⟨e, en, hf, hr, hi, g, hg, hm⟩
  · exact Or.inl h
  · refine Or.inr ⟨e, en, hf, hr, hi, ?_, g, hg, hm.other, hm.rid, hm.keep⟩
    intro en' hen' hne
    rw [hi]
    have := (findEntry_some hf).2
    simp only [List.mem_filter, bne_iff_ne, ne_eq]
    exact ⟨hen', fun h => hne (h.trans this.symm)⟩

/-- The full "aborts at the deadline" statement: a channel poll that goes idle (`Pending` / end of
stream) at clock `now` has removed every tracked entry whose timer tick has passed and aborted its
execution. -/
def C06AbortsAtDeadlineStatement : Prop :=
  ∀ (limit : Option Nat) (respCap tcap : Nat) (coupled : Bool) (ops : List SOp) (fuel : Nat),
    let c := ops.foldl applyOp (initSys limit respCap tcap coupled)
    let p := basePollNext fuel c.s c.now
    (p.2 = .pending ∨ p.2 = .none) →
    ∀ en ∈ c.s.inflight, ∀ k ∈ c.s.timers.cores, k.1 = en.timerKey → k.2.2 * nsPerMs ≤ c.now →
      en ∉ p.1.inflight ∧ ∀ ex ∈ p.1.execs, ex.rid = en.rid → ex.aborted = true

/-- **C06 (c), partial.**  What is proved: when the channel's `poll_next` (from any state) goes idle at
clock `now`, the `poll_expired` call of its last iteration did *not* report an expiration — the timer
queue was empty or `DelayQueue::poll_expired(now)` returned `Pending`/`None` — and nothing touched the
table, the timers or the executions afterwards: all expirations the queue is willing to yield at `now`
are drained before the channel goes idle.
Missing for `C06AbortsAtDeadlineStatement`: *completeness* of the timer-wheel emulation (that
`DelayQ.pollExpired q now` yields an entry whenever one with `whenMs * nsPerMs ≤ now` is queued),
which needs the two-sided wheel invariants (slot strictness, `delay` = next expiration, adequacy of
`wheelFuel`); `Lemmas/DelayQFacts.lean` only has the one-sided invariant needed for never-early. -/
theorem C06_aborts_at_deadline_partial (s : St) (now fuel : Nat)
    (h : (basePollNext fuel s now).2 = .pending ∨ (basePollNext fuel s now).2 = .none) :
    ∃ s1, (s1.timers.isEmpty = true ∨ ∀ e, (s1.timers.pollExpired now).2 ≠ .expired e) ∧
      (basePollNext fuel s now).1.timers = (pollExpired s1 now).1.timers ∧
      (basePollNext fuel s now).1.inflight = (pollExpired s1 now).1.inflight ∧
      (basePollNext fuel s now).1.execs = (pollExpired s1 now).1.execs := by
  obtain ⟨s1, h1, h2, h3, h4⟩ := basePollNext_idle now fuel s h
  exact ⟨s1, pollExpired_not_ready h1, h2, h3, h4⟩

/-- **C06 (d): the limiter stall (known finding).**  With `MaxRequests` at its limit (`limit = some 1`)
on a transport whose readiness is independent of flushing and currently closed, a poll of the request
stream at 5 ms — 4 ms past the 1 ms deadline of the one tracked request — returns `Pending` *without*
aborting the handler and without removing the entry: `MaxRequests::poll_next` returns on
`poll_ready → Pending` before polling the inner channel, so expirations (and cancellations) are not
processed until the sink becomes ready. -/
theorem C06_limiter_stall_witness :
    let c := [SOp.injectReq 1 1000000 ⟨0, .given 0, false⟩ 0, .pollServer, .pollExec 0, .setReady false,
      .advance 5000000, .pollServer].foldl applyOp (initSys (some 1) 1 1 false)
    c.now = 5000000 ∧ c.s.execs.map (fun e => (e.deadline, e.aborted)) = [(1000000, false)] ∧
    c.s.inflight = [{ id := 1, timerKey := 0, rid := 0 }] ∧ c.s.done = none ∧ c.s.poisoned = false := by
  decide

/-- The stall in general form: whenever the limiter is at its limit and the sink answers
`poll_ready → Pending`, `MaxRequests::poll_next` returns `Pending` having done nothing but that
`poll_ready` — the inner channel (cancellations, expirations, reads) is not polled. -/
theorem C06_limiter_stall_general (s : St) (l fuel now : Nat) (hl : l ≤ s.inflight.length)
    (hr : (tReady s).2 = .pending) :
    limitedPollNextLegacy l (fuel + 1) s now = ((tReady s).1, .pending) ∧
    (tReady s).1.inflight = s.inflight ∧ (tReady s).1.timers = s.timers ∧ (tReady s).1.execs = s.execs ∧
    (tReady s).1.cancelQ = s.cancelQ := by
  refine ⟨?_, by simp, by simp, by simp, by simp⟩
  unfold limitedPollNextLegacy
  rw [if_pos hl]
  rcases htr : tReady s with ⟨s1, r⟩
  rw [htr] at hr
  simp only at hr
  subst hr
  rfl

/-- The same script without the limiter: the poll at 5 ms aborts the handler and forgets the request
(no `Cancel` was ever read, the stream is not dropped: the abort is the deadline's). -/
example :
    let c := [SOp.injectReq 1 1000000 ⟨0, .given 0, false⟩ 0, .pollServer, .pollExec 0, .setReady false,
      .advance 5000000, .pollServer].foldl applyOp (initSys none 1 1 false)
    c.s.execs.map (fun e => (e.deadline, e.aborted)) = [(1000000, true)] ∧ c.s.inflight = [] ∧
    c.s.obs.all (fun o => match o with | .tNext _ (.item (.cancel _ _)) => false | _ => true) = true ∧
    c.s.dropped = false := by
  decide

/-- **The clamp disjunct is inhabited (model-level witness).**  A request read at clock 0 with a deadline
twice the clamp away: its timer is armed with the clamp (one year); once that has passed, a poll of the request
stream aborts the handler and forgets the request although the deadline is as far ahead again — no `Cancel` was
read and the stream is not dropped.  (`tarpc/src/server/in_flight_requests.rs`: `start_request` arms
`deadline.time_until().min(MAX_DEADLINE_TIMEOUT)`, `poll_expired` aborts whatever expires.) -/
theorem C06_clamp_fires_witness :
    let c := [SOp.injectReq 1 (2 * Gen.serverTimerClampSecs * 1000000000) ⟨0, .given 0, false⟩ 0, .pollServer, .pollExec 0,
      .advance (Gen.serverTimerClampSecs * 1000000000), .pollServer].foldl applyOp (initSys none 1 1 true)
    c.now = Gen.serverTimerClampSecs * 1000000000 ∧
    c.s.execs.map (fun e => (e.deadline, e.aborted)) = [(2 * Gen.serverTimerClampSecs * 1000000000, true)] ∧ c.s.inflight = [] ∧
    c.s.obs.all (fun o => match o with | .tNext _ (.item (.cancel _ _)) => false | _ => true) = true ∧
    c.s.dropped = false ∧ c.s.poisoned = false := by
  decide

end TarpcModel.Server

import TarpcModel.Lemmas.ServerTable
/-!
# C06 (server side) — request deadlines are enforced, never early

Property theorems only.  Model: `TarpcModel.Server` (`Server/Model.lean`), timers: the
`tokio_util::time::DelayQueue` emulation `Prim/DelayQ.lean`.  Lemmas: `Lemmas/DelayQFacts.lean`
(never-early for the hashed timer wheel), `Lemmas/ServerTable.lean` (table / timer / execution
invariant `SInv`), `Lemmas/ServerFlow.lean`.
-/
namespace TarpcModel.Server
open TarpcModel TarpcModel.Server.Flow

/-- **C06 (a): never early.**  In every reachable state of every configuration, an execution whose
abort flag is set has a reason: a `Cancel` for its request id was read from the transport
(`cancelSeen`: an `Obs.tNext _ (.item (.cancel id _))` was observed), the request stream was dropped,
or the clock has reached the request's deadline — whatever the deadline, however far away.
The expiry path (`InFlightRequests::poll_expired`) never aborts a handler before its deadline: the timer
is armed for `max (ceil_ms (now + clampTimeout (deadline - now))) wheel.elapsed`, the part of the time
until the deadline that the clamp (`MAX_DEADLINE_TIMEOUT`) cut off is kept in the entry
(`deadline_remainder`), so that `tick + remainder ≥ deadline` throughout (`TInv.dl`); a timer that fires
while some of the remainder is still left after taking off how late the poll is (`late = now − dueAt`,
measured from the exact due time the entry records, `rest = remainder − late`) is re-armed with (the next clamped part of) the rest (`TInv.rearm`); only a timer
that fires with nothing left (`rest = 0`, hence `deadline ≤ tick + remainder ≤ now`) expires the request,
and the timer wheel never yields an entry before its tick (`DelayQ.pollExpired_not_early`). -/
theorem C06_never_early (limit : Option Nat) (respCap tcap : Nat) (coupled : Bool) (ops : List SOp)
    (c : Sys) (hc : c = ops.foldl applyOp (initSys limit respCap tcap coupled)) :
    ∀ e ∈ c.s.execs, e.aborted = true → cancelSeen e.id c.s.obs ∨ c.s.dropped = true ∨ e.deadline ≤ c.now := by
  subst hc
  intro e he ha
  have hinv := sinv_reach true limit respCap tcap coupled ops
  have hns := ns_reach limit respCap tcap coupled ops
  rcases hinv.why rfl e he ha with h | h
  · rw [hns] at h; cases h
  · exact h

/-- **C06 (a), observation form.**  From any reachable state, if polling execution `vid` at the current
clock reports `handler vid dropped t` (the `Abortable` wrapper found the abort flag set and dropped
the handler), then `t` is the current clock and the abort has a reason: a `Cancel` for the request's id
was read, the request stream was dropped, or `t ≥ deadline`. -/
theorem C06_never_early_obs (limit : Option Nat) (respCap tcap : Nat) (coupled : Bool) (ops : List SOp)
    (c : Sys) (hc : c = ops.foldl applyOp (initSys limit respCap tcap coupled)) (vid v t : Nat)
    (h : Obs.handler v .dropped t ∈ (pollExec c.s vid c.now).obs) (hnew : Obs.handler v .dropped t ∉ c.s.obs) :
    v = vid ∧ t = c.now ∧ ∃ e, getExecVis c.s vid = some e ∧
      (cancelSeen e.id c.s.obs ∨ c.s.dropped = true ∨ e.deadline ≤ t) := by
  rcases pollExec_dropped_obs c.s vid c.now v t h with h' | ⟨hv, ht, e, hg, hab, hmem⟩
  · exact absurd h' hnew
  · exact ⟨hv, ht, e, hg, ht ▸ C06_never_early limit respCap tcap coupled ops c hc e hmem hab⟩

/-- The one-step form for the expiry path alone: from a reachable state, every execution that
`poll_expired` at the current clock newly aborts has `deadline ≤ now`. -/
theorem C06_expiry_never_early (limit : Option Nat) (respCap tcap : Nat) (coupled : Bool) (ops : List SOp)
    (c : Sys) (hc : c = ops.foldl applyOp (initSys limit respCap tcap coupled)) :
    ExecsAb none c.s.execs (pollExpired c.s c.now).1.execs ∨
    ∃ r, ExecsAb (some r) c.s.execs (pollExpired c.s c.now).1.execs ∧
      ∀ ex ∈ c.s.execs, ex.rid = r → ex.deadline ≤ c.now := by
  subst hc
  exact (sinv_reach true limit respCap tcap coupled ops).t.expire_ab

/-- **The deadline invariant behind (a).**  In every reachable state, for every tracked request: the tick
(ms) of its armed timer together with the part of the time until the deadline that has not been armed yet
(`remainder`, ns; nonzero only for deadlines further away than the clamp) reaches the deadline of the
execution it guards. -/
theorem C06_timer_reaches_deadline (limit : Option Nat) (respCap tcap : Nat) (coupled : Bool) (ops : List SOp)
    (c : Sys) (hc : c = ops.foldl applyOp (initSys limit respCap tcap coupled)) :
    ∀ en ∈ c.s.inflight, ∀ k ∈ c.s.timers.cores, k.1 = en.timerKey → ∀ ex ∈ c.s.execs, ex.rid = en.rid →
      ex.deadline ≤ k.2.2 * nsPerMs + en.remainder := by
  subst hc
  intro en hen k hk hkey ex hex hr
  exact ((sinv_reach true limit respCap tcap coupled ops).t.dl en hen k hk hkey ex hex hr).reach

/-- **The deadline invariant, exact form.**  In every reachable state, for every tracked request `en`, its
armed timer (tick `k.2.2`, ms) and the execution `ex` it guards:
* the timer is due at exactly `en.dueAt` (`timer_due`), which the queue rounds up to the millisecond:
  `en.dueAt ≤ tick < en.dueAt + 1 ms`;
* `deadline ≤ en.dueAt + en.remainder` — never early;
* `en.dueAt + en.remainder ≤ max deadline now` — not late: while the deadline lies ahead,
  `dueAt + remainder = deadline` exactly (re-arming does not drift: the lateness of a poll is measured from
  `dueAt`, not from the rounded tick); for a request read after its deadline the timer is due at once.
Hence the request expires at the first poll of the channel (not stalled by the limiter) at or after
`ceilMs deadline`, whatever its deadline and however many times its timer was re-armed. -/
theorem C06_timer_exact (limit : Option Nat) (respCap tcap : Nat) (coupled : Bool) (ops : List SOp)
    (c : Sys) (hc : c = ops.foldl applyOp (initSys limit respCap tcap coupled)) :
    ∀ en ∈ c.s.inflight, ∀ k ∈ c.s.timers.cores, k.1 = en.timerKey → ∀ ex ∈ c.s.execs, ex.rid = en.rid →
      k.2.2 = ceilMs en.dueAt ∧ (en.dueAt ≤ k.2.2 * nsPerMs ∧ k.2.2 * nsPerMs < en.dueAt + nsPerMs) ∧
      ex.deadline ≤ en.dueAt + en.remainder ∧ en.dueAt + en.remainder ≤ max ex.deadline c.now := by
  subst hc
  intro en hen k hk hkey ex hex hr
  have h := (sinv_reach true limit respCap tcap coupled ops).t.dl en hen k hk hkey ex hex hr
  exact ⟨h.tick, h.tick_lt, h.lo, h.hi⟩

/-- **C06 (b): an expiry touches nothing else.**  In any state, `poll_expired` either leaves the tracked
requests (the `(id, rid)` pairs of the in-flight table, in order — a re-arm changes an entry's timer key and
remainder only) and all executions alone and reports no expiration for a tracked id, or it reports an
expiration, removes exactly the table entries with the expired id and changes only executions with the rid
of the entry it found (whose `rid` it keeps and whose `aborted` flag it never clears). -/
theorem C06_others_unaffected (s : St) (now : Nat) :
    ((pollExpired s now).1.inflight.map SEntry.ir = s.inflight.map SEntry.ir ∧ (pollExpired s now).1.execs = s.execs) ∨
    ∃ (id : Nat) (en : SEntry), findEntry s id = some en ∧ (pollExpired s now).2 = .ready ∧
      (pollExpired s now).1.inflight.map SEntry.ir = (s.inflight.filter (·.id != id)).map SEntry.ir ∧
      (∀ en' ∈ s.inflight, en'.id ≠ en.id → en'.ir ∈ (pollExpired s now).1.inflight.map SEntry.ir) ∧
      ∃ g, (pollExpired s now).1.execs = s.execs.map g ∧ (∀ x, x.rid ≠ en.rid → g x = x) ∧
        (∀ x, (g x).rid = x.rid) ∧ (∀ x, x.aborted = true → (g x).aborted = true) := by
  have h := pollExpired_touches s now
  revert h; generalize pollExpired s now = p; intro h
  obtain ⟨s', r⟩ := p
  dsimp only at h ⊢
  cases h with
  | same _ hi he hr => exact Or.inl ⟨hi, he⟩
  | orphan id hi he hf => exact Or.inl ⟨hi, he⟩
  | expired id en hf hi g he hm =>
    refine Or.inr ⟨id, en, hf, rfl, hi, ?_, g, he, hm.other, hm.rid, hm.keep⟩
    intro en' hen' hne
    rw [hi]
    have := (findEntry_some hf).2
    refine List.mem_map.mpr ⟨en', ?_, rfl⟩
    simp only [List.mem_filter, bne_iff_ne, ne_eq]
    exact ⟨hen', fun h => hne (h.trans this.symm)⟩

/-- The full "aborts at the deadline" statement: a channel poll that goes idle (`Pending` / end of
stream) at clock `now` has removed every tracked entry whose timer tick has passed with nothing left to
arm (`remainder = 0`) and aborted its execution. -/
def C06AbortsAtDeadlineStatement : Prop :=
  ∀ (limit : Option Nat) (respCap tcap : Nat) (coupled : Bool) (ops : List SOp) (fuel : Nat),
    let c := ops.foldl applyOp (initSys limit respCap tcap coupled)
    let p := basePollNext fuel c.s c.now
    (p.2 = .pending ∨ p.2 = .none) →
    ∀ en ∈ c.s.inflight, ∀ k ∈ c.s.timers.cores, k.1 = en.timerKey → k.2.2 * nsPerMs ≤ c.now →
      en.remainder = 0 →
      (∀ en' ∈ p.1.inflight, en'.id ≠ en.id) ∧ ∀ ex ∈ p.1.execs, ex.rid = en.rid → ex.aborted = true

/-- **C06 (c), partial.**  What is proved: when the channel's `poll_next` (from any state) goes idle at
clock `now`, the `poll_expired` call of its last iteration did *not* report an expiration — the timer
queue was empty, or the last iteration of `poll_expired`'s own loop, from a state `s2` reached by re-arming
timers only, got `Pending`/`None` from `DelayQueue::poll_expired(now)` (or its `insert` panicked) — and
nothing touched the table, the timers or the executions afterwards: all expirations the queue is willing to
yield at `now` are drained before the channel goes idle.
Missing for `C06AbortsAtDeadlineStatement`: *completeness* of the timer-wheel emulation (that
`DelayQ.pollExpired q now` yields an entry whenever one with `whenMs * nsPerMs ≤ now` is queued),
which needs the two-sided wheel invariants (slot strictness, `delay` = next expiration, adequacy of
`wheelFuel`); `Lemmas/DelayQFacts.lean` only has the one-sided invariant needed for never-early. -/
theorem C06_aborts_at_deadline_partial (s : St) (now fuel : Nat)
    (h : (basePollNext fuel s now).2 = .pending ∨ (basePollNext fuel s now).2 = .none) :
    ∃ s1, (s1.timers.isEmpty = true ∨ ∃ s2, (pollExpired s1 now).1 = (expireStep s2 now).1 ∧
        ((∀ e, (s2.timers.pollExpired now).2 ≠ .expired e) ∨ (expireStep s2 now).1.poisoned = true)) ∧
      (basePollNext fuel s now).1.timers = (pollExpired s1 now).1.timers ∧
      (basePollNext fuel s now).1.inflight = (pollExpired s1 now).1.inflight ∧
      (basePollNext fuel s now).1.execs = (pollExpired s1 now).1.execs := by
  obtain ⟨s1, h1, h2, h3, h4⟩ := basePollNext_idle now fuel s h
  exact ⟨s1, pollExpired_not_ready h1, h2, h3, h4⟩

/-- **The loop of `poll_expired` never runs out of fuel** (from any state): every `continue` re-arms a
timer, which uses up one of the finitely many re-arms the entry's remainder allows (`rearmSteps`); the call
ends in an iteration that returns, and no `spin` is recorded. -/
theorem C06_poll_expired_terminates (s : St) (now : Nat) (hne : s.timers.isEmpty = false) :
    (∃ s2 r, (expireStep s2 now).2 = some r ∧ pollExpired s now = ((expireStep s2 now).1, r)) ∧
    (hasSpin s.obs = false → hasSpin (pollExpired s now).1.obs = false) :=
  ⟨pollExpired_last s now hne, fun h => NS_pollExpired now h⟩

/-- **C06 (d): the limiter stall (known finding).**  With `MaxRequests` at its limit (`limit = some 1`)
on a transport whose readiness is independent of flushing and currently closed, a poll of the request
stream at 5 ms — 4 ms past the 1 ms deadline of the one tracked request — returns `Pending` *without*
aborting the handler and without removing the entry: `MaxRequests::poll_next` returns on
`poll_ready → Pending` before polling the inner channel, so expirations (and cancellations) are not
processed until the sink becomes ready. -/
theorem C06_limiter_stall_witness :
    let c := [SOp.injectReq 1 1000000 ⟨0, .given 0, false⟩ 0, .pollServer, .pollExec 0, .setReady false,
      .advance 5000000, .pollServer].foldl applyOp (initSys (some 1) 1 1 false)
    c.now = 5000000 ∧ c.s.execs.map (fun e => (e.deadline, e.aborted)) = [(1000000, false)] ∧
    c.s.inflight = [{ id := 1, timerKey := 0, rid := 0, dueAt := 1000000 }] ∧ c.s.done = none ∧ c.s.poisoned = false := by
  decide

/-- The stall in general form: whenever the limiter is at its limit and the sink answers
`poll_ready → Pending`, `MaxRequests::poll_next` returns `Pending` having done nothing but that
`poll_ready` — the inner channel (cancellations, expirations, reads) is not polled. -/
theorem C06_limiter_stall_general (s : St) (l fuel now : Nat) (hl : l ≤ s.inflight.length)
    (hr : (tReady s).2 = .pending) :
    limitedPollNextLegacy l (fuel + 1) s now = ((tReady s).1, .pending) ∧
    (tReady s).1.inflight = s.inflight ∧ (tReady s).1.timers = s.timers ∧ (tReady s).1.execs = s.execs ∧
    (tReady s).1.cancelQ = s.cancelQ := by
  refine ⟨?_, by simp, by simp, by simp, by simp⟩
  unfold limitedPollNextLegacy
  rw [if_pos hl]
  rcases htr : tReady s with ⟨s1, r⟩
  rw [htr] at hr
  simp only at hr
  subst hr
  rfl

/-- The same script without the limiter: the poll at 5 ms aborts the handler and forgets the request
(no `Cancel` was ever read, the stream is not dropped: the abort is the deadline's). -/
example :
    let c := [SOp.injectReq 1 1000000 ⟨0, .given 0, false⟩ 0, .pollServer, .pollExec 0, .setReady false,
      .advance 5000000, .pollServer].foldl applyOp (initSys none 1 1 false)
    c.s.execs.map (fun e => (e.deadline, e.aborted)) = [(1000000, true)] ∧ c.s.inflight = [] ∧
    c.s.obs.all (fun o => match o with | .tNext _ (.item (.cancel _ _)) => false | _ => true) = true ∧
    c.s.dropped = false := by
  decide

/-- **Far deadlines are enforced at the deadline (model-level witness).**  A request read at clock 0 with a
deadline twice the clamp away: its timer is armed with the clamp (one year) and re-armed when that fires.
One clamp later — and again one nanosecond before the deadline — the handler is still running and the
request still tracked (`remainder` paid down to 0 by the re-arm); at the deadline a poll of the request
stream aborts the handler and forgets the request.  (`tarpc/src/server/in_flight_requests.rs`:
`start_request` arms `deadline.time_until().min(MAX_DEADLINE_TIMEOUT)` and keeps the rest in
`deadline_remainder`; `poll_expired` re-arms while the remainder is nonzero.  The same script replays on the
real code with the same outcome.) -/
theorem C06_far_deadline_witness :
    let D := 2 * Gen.serverTimerClampSecs * 1000000000
    let ops1 := [SOp.injectReq 1 D ⟨0, .given 0, false⟩ 0, .pollServer, .pollExec 0,
      .advance (Gen.serverTimerClampSecs * 1000000000), .pollServer, .pollExec 0]
    let c1 := ops1.foldl applyOp (initSys none 1 1 true)
    let c2 := [SOp.advance (Gen.serverTimerClampSecs * 1000000000 - 1), .pollServer, .pollExec 0].foldl applyOp c1
    let c3 := [SOp.advance 1, .pollServer, .pollExec 0].foldl applyOp c2
    (c1.s.execs.map (fun e => (e.deadline, e.aborted, e.phase)) = [(D, false, .running)] ∧
      c1.s.inflight = [{ id := 1, timerKey := 1, rid := 0, remainder := 0, dueAt := D }]) ∧
    (c2.now = D - 1 ∧ c2.s.execs.map (fun e => (e.deadline, e.aborted, e.phase)) = [(D, false, .running)] ∧
      c2.s.inflight.length = 1) ∧
    (c3.now = D ∧ c3.s.execs.map (fun e => (e.deadline, e.aborted, e.phase)) = [(D, true, .done)] ∧
      c3.s.inflight = [] ∧ c3.s.timers.len = 0 ∧
      c3.s.obs.all (fun o => match o with | .tNext _ (.item (.cancel _ _)) => false | _ => true) = true ∧
      c3.s.dropped = false ∧ c3.s.poisoned = false) := by
  decide

/-- **A late poll does not push the deadline out (model-level witness).**  A request with a deadline three
clamps away is read at clock 0 (its timer is armed with one clamp, two clamps are kept as `remainder`); the
channel is then not polled until the deadline.  The poll at `3 · clamp` finds the timer two clamps late:
`rest = remainder − late = 0`, so the request expires at that poll — handler aborted, table and timer queue
empty — instead of being re-armed for another full clamp (as the code did before lateness was taken into
account).  (`tarpc/src/server/in_flight_requests.rs`, `poll_expired`:
`late = now.saturating_duration_since(expired.deadline())`, `rest = deadline_remainder.saturating_sub(late)`.) -/
theorem C06_late_poll_witness :
    let C := Gen.serverTimerClampSecs * 1000000000
    let c1 := [SOp.injectReq 1 (3 * C) ⟨0, .given 0, false⟩ 0, .pollServer, .pollExec 0].foldl applyOp
      (initSys none 1 1 true)
    let c2 := [SOp.advance (3 * C), .pollServer, .pollExec 0].foldl applyOp c1
    c1.s.inflight = [{ id := 1, timerKey := 0, rid := 0, remainder := 2 * C, dueAt := C }] ∧
    c2.now = 3 * C ∧ c2.s.execs.map (fun e => (e.deadline, e.aborted, e.phase)) = [(3 * C, true, .done)] ∧
    c2.s.inflight = [] ∧ c2.s.timers.len = 0 ∧ c2.s.dropped = false ∧ c2.s.poisoned = false := by
  decide

/-- **Re-arming does not drift (model-level witness).**  A request read at clock 1 ns with a deadline of
one clamp + 10 ms: its timer is due at `1 ns + clamp` (tick: 1 ms later, rounded up), `remainder` is
10 ms − 1 ns.  The poll 1 ns before the deadline finds the first timer fired and re-arms it with the 1 ns that
is left (lateness measured from `dueAt`, not from the rounded tick), due exactly at the deadline; the poll at
the deadline, `clamp + 10 ms`, aborts the handler.  Measuring from the tick — as the code did before — leaves
1 ms − 1 ns unaccounted for and expires the request 1 ms late.  The same script replays on the real code with
the same outcome. -/
theorem C06_no_drift_witness :
    let C := Gen.serverTimerClampSecs * 1000000000
    let D := C + 10000000
    let c1 := [SOp.advance 1, .injectReq 1 D ⟨0, .given 0, false⟩ 0, .pollServer, .pollExec 0].foldl applyOp
      (initSys none 1 1 true)
    let c2 := [SOp.advance (D - 2), .pollServer, .pollExec 0].foldl applyOp c1
    let c3 := [SOp.advance 1, .pollServer, .pollExec 0].foldl applyOp c2
    c1.s.inflight = [{ id := 1, timerKey := 0, rid := 0, remainder := 9999999, dueAt := C + 1 }] ∧
    (c2.now = D - 1 ∧ c2.s.execs.map (fun e => (e.deadline, e.aborted, e.phase)) = [(D, false, .running)] ∧
      c2.s.inflight = [{ id := 1, timerKey := 1, rid := 0, remainder := 0, dueAt := D }]) ∧
    (c3.now = D ∧ c3.s.execs.map (fun e => (e.deadline, e.aborted, e.phase)) = [(D, true, .done)] ∧
      c3.s.inflight = [] ∧ c3.s.timers.len = 0 ∧ c3.s.dropped = false ∧ c3.s.poisoned = false) := by
  decide

end TarpcModel.Server

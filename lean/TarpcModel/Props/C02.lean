import TarpcModel.Lemmas.C02
import TarpcModel.Lemmas.ClientExpire
/-!
# C02 — every call terminates; no wakeup is lost (client side)

The second sentence of the property is a list of local facts: *each event that enables progress wakes
the task that must act on it*.  Each is a theorem about the model function that performs the event
(first block), paired with the *registration* facts: a task that returns `Pending` has registered its
waker with the source it waits for (second block).
The first sentence (no call is still pending when nothing is left that could wake the system) is the
global statement `C02NoStuckStatement`; it is decided on every woken-only trace by the `settle`
operation (model and implementation side by side) and is not yet proved in general.  Two first global
facts are proved as `…_partial` theorems (third block).
-/
namespace TarpcModel.Client

/-! ## Events wake the task that must act on them -/

/-- **Reply arrival, peer close and read errors wake the dispatch**: any inbound item delivered while
the dispatch is parked on the transport's read side (`readWaker`) wakes it. -/
theorem C02_inbound_wakes_dispatch (s : St) (i : Inb) (h : dispatchAlive s) (hw : s.t.readWaker = true) :
    (liftT s (s.t.inject i)).dWoken = true :=
  liftT_woken s _ h hw

/-- **Peer close wakes the dispatch** parked on the read side. -/
theorem C02_eof_wakes_dispatch (s : St) (h : dispatchAlive s) (hw : s.t.readWaker = true) :
    (liftT s s.t.setEof).dWoken = true :=
  liftT_woken s _ h hw

/-- **A new request wakes the dispatch**: pushing onto the request queue while the dispatch is parked
on it. -/
theorem C02_request_wakes_dispatch (s : St) (r : DReq) (h : dispatchAlive s) (hw : s.pqRxWaker = true) :
    (pqPush s r).dWoken = true := by
  unfold pqPush
  simp only [hw, ↓reduceIte]
  exact wakeDispatch_woken _ h.1 h.2

/-- **A cancellation wakes the dispatch**: pushing onto the cancellation queue while the dispatch is
parked on it. -/
theorem C02_cancel_wakes_dispatch (s : St) (id : Nat) (h : dispatchAlive s) (hw : s.cqRxWaker = true) :
    (cqPush s id).dWoken = true := by
  unfold cqPush
  rw [if_neg (by simp [h.1])]
  simp only [hw, ↓reduceIte]
  exact wakeDispatch_woken _ h.1 h.2

/-- **Writability returning wakes the dispatch**: when the dispatch is parked on the sink (`writeWaker`)
and the environment restores readiness (there is room in the buffer), it is woken. -/
theorem C02_writability_wakes_dispatch (s : St) (h : dispatchAlive s) (hw : s.t.writeWaker = true)
    (hcap : s.t.buffered.length < s.t.cap) :
    (liftT s (s.t.setReady true)).dWoken = true := by
  apply liftT_woken s _ h
  simp [SimT.setReady, SimT.wakeIfReady, SimT.isReadyNow, hw, hcap]

/-- **Flushability returning wakes the dispatch**: a socket-like (coupled) transport that becomes
flushable again wakes the dispatch parked on the sink, whether it parked in `poll_ready` or in
`poll_flush`. -/
theorem C02_flushability_wakes_dispatch (s : St) (h : dispatchAlive s) (hw : s.t.writeWaker = true)
    (hc : s.t.coupled = true) :
    (liftT s (s.t.setFlush true)).dWoken = true := by
  apply liftT_woken s _ h
  simp only [SimT.setFlush, SimT.wakeIfReady, hw, hc, Bool.and_self, Bool.or_true, ↓reduceIte]

/-- **A flush completing wakes the task parked on readiness**: a self-waking transport (`selfWake`, the default)
wakes the registered waker whenever readiness is restored, also when the owner's own flush restored it.  (A staging
sink, `selfWake = false`, does not: see `C02_ensureWriteable_repolls` for why the dispatch does not depend on it.) -/
theorem C02_flush_restores_and_wakes (t : SimT) (hw : t.writeWaker = true) (hcap : 0 < t.cap)
    (hc : t.coupled = true ∨ t.readyOpen = true) (hsw : t.selfWake = true) : t.drain.2 = true := by
  rcases hc with hc | hc <;> simp [SimT.drain, SimT.isReadyNow, hw, hc, hcap, hsw]

/-- … and without `selfWake` the owner's own flush leaves the waker registered (an external `setReady` / `setFlush`
still finds it), reporting no wake. -/
theorem C02_flush_without_self_wake (t : SimT) (hsw : t.selfWake = false) :
    t.drain.2 = false ∧ t.drain.1.writeWaker = t.writeWaker := by
  simp [SimT.drain, hsw]

/-- … and that wake reaches the dispatch: `tFlush` turns the transport's report into a wake. -/
theorem C02_own_flush_wakes_dispatch (s : St) (h : dispatchAlive s) (hw : s.t.pollFlush.2.2 = true) :
    (tFlush s).1.dWoken = true := by
  unfold tFlush
  simp only [hw, ↓reduceIte]
  apply wakeDispatch_woken
  · simp only [emit, emitViolations_dDropped]; exact h.1
  · simp only [emit, emitViolations_done]; exact h.2

/-- **The dispatch does not rely on being woken by its own flush** (what a non-self-waking sink needs): in
`ensure_writeable`, when `poll_ready` was `Pending` and the `poll_flush` that followed returned `Ready(Ok)`, the
result is that of a *second* `poll_ready` in the same poll — not `Pending` unconditionally.  So room made by the
dispatch's own flush is noticed at once, without any wake. -/
theorem C02_ensureWriteable_repolls (s s1 s2 : St) (hel : s.ensureLoop = false)
    (h1 : tReady s = (s1, .pending)) (h2 : tFlush s1 = (s2, .ready)) :
    ensureWriteable s = ((tReady s2).1,
      match (tReady s2).2 with
      | .ready => .ready
      | .err => .err .ready
      | .pending => .pending) := by
  unfold ensureWriteable ensureOnce
  simp only [hel, Bool.false_eq_true, ↓reduceIte, h1, h2]
  cases h3 : (tReady s2).2 <;> rcases h4 : tReady s2 with ⟨s3, r3⟩ <;> rw [h4] at h3 <;> simp only at h3 <;>
    subst h3 <;> rfl

/-- **A reply (or any completion) wakes the caller**: sending on a call's oneshot while the caller is
parked on it (`rxWaker`) wakes that call, and the value is there for it to read. -/
theorem C02_completion_wakes_caller (s : St) (cid : Nat) (o : Outcome) (c : Call)
    (hg : getCall s cid = some c) (hl : callLive c = true) (hopen : c.os.rxClosed = false)
    (hw : c.os.rxWaker = true) :
    (getCall (osSend s cid o) cid).map (·.woken) = some true ∧
    (getCall (osSend s cid o) cid).map (·.os.val) = some (some o) := by
  rw [getCall_osSend_self s cid o c hg hopen]
  simp [sentC, hw, hl]

/-- **The dispatch going away wakes the caller**: dropping the oneshot's sender while the caller is parked
on it wakes that call (it then resolves with `Shutdown`). -/
theorem C02_sender_drop_wakes_caller (s : St) (cid : Nat) (c : Call)
    (hg : getCall s cid = some c) (hl : callLive c = true) (hv : c.os.val = none) (ht : c.os.txDropped = false)
    (hw : c.os.rxWaker = true) :
    (getCall (osDropTx s cid) cid).map (·.woken) = some true := by
  rw [getCall_osDropTx_self s cid c hg]
  simp [dropTxC, hv, ht, hw, hl]

/-- **Capacity returning wakes the blocked caller**: a permit released while callers wait is handed to
the oldest waiter, which is woken and owns the slot. -/
theorem C02_capacity_wakes_waiter (s : St) (w : Nat) (rest : List Nat) (c : Call)
    (hq : s.pqWaiters = w :: rest) (hg : getCall s w = some c) (hl : callLive c = true) :
    (getCall (pqRelease s) w).map (·.woken) = some true ∧ w ∈ (pqRelease s).pqAssigned := by
  unfold pqRelease
  simp only [hq]
  have hg' : getCall { s with pqWaiters := rest, pqAssigned := s.pqAssigned ++ [w] } w = some c := hg
  exact ⟨wakeCall_woken _ w c hg' hl, by simp⟩

/-- **Closing the request queue wakes every blocked caller** (they then fail with `Shutdown`). -/
theorem C02_close_wakes_all_waiters (s : St) :
    ∀ w ∈ s.pqWaiters, ∀ c, getCall s w = some c → callLive c = true →
      (getCall (pqClose s) w).map (·.woken) = some true := by
  intro w hw c hg hl
  unfold pqClose
  exact (foldl_wakeCall_wakes s.pqWaiters { s with pqClosed := true, pqWaiters := [] } w hw ⟨c, hg, hl⟩).map_woken

/-- Waking one call never un-wakes another: a woken live call stays woken through `wakeCall` of any
call. -/
theorem C02_wake_is_monotone (s : St) (x cid : Nat) (c : Call) (hg : getCall s cid = some c)
    (hl : callLive c = true) (hw : c.woken = true) :
    (getCall (wakeCall s x) cid).map (·.woken) = some true :=
  (wakeCall_wokenLive_mono s x cid ⟨c, hg, hl, hw⟩).map_woken

/-- **The last handle dropped / the last call gone wakes the dispatch** parked on either queue (both
queues then report `closed`). -/
theorem C02_last_sender_gone_wakes_dispatch (s : St) (h : dispatchAlive s) (hs : senders s = 0)
    (hw : s.pqRxWaker = true ∨ s.cqRxWaker = true) :
    (afterCallGone s).dWoken = true := by
  unfold afterCallGone
  simp only [hs, beq_self_eq_true, ↓reduceIte]
  by_cases hp : s.pqRxWaker = true
  · simp only [hp, ↓reduceIte]
    have h1 : (wakeDispatch { s with pqRxWaker := false }).dWoken = true := wakeDispatch_woken _ h.1 h.2
    split
    · exact wakeDispatch_dWoken_mono _ h1
    · exact h1
  · have hc : s.cqRxWaker = true := by
      rcases hw with hw | hw
      · exact absurd hw hp
      · exact hw
    simp only [hp, Bool.false_eq_true, ↓reduceIte, hc]
    exact wakeDispatch_woken _ h.1 h.2

/-- The same through the handle-drop operation. -/
theorem C02_last_handle_dropped_wakes_dispatch (s : St) (hnd : Nat) (h : dispatchAlive s)
    (hm : s.handles.contains hnd = true)
    (hs : senders { s with handles := s.handles.filter (· != hnd) } = 0)
    (hw : s.pqRxWaker = true ∨ s.cqRxWaker = true) :
    (dropHandle s hnd).dWoken = true := by
  unfold dropHandle
  simp only [hm, ↓reduceIte]
  exact C02_last_sender_gone_wakes_dispatch _ h hs hw

/-- **Timer expiry wakes the dispatch**: when the clock reaches the registered `Sleep`'s deadline and the
dispatch is parked on the deadline queue, it is woken. -/
theorem C02_timer_expiry_wakes_dispatch (s : St) (now t : Nat) (h : dispatchAlive s)
    (hf : s.timers.nextFire = some t) (ht : t ≤ now) (hw : s.timers.waker = true) :
    (onAdvance s now).dWoken = true := by
  unfold onAdvance
  simp only [hf, ht, decide_true, hw, Bool.and_self, ↓reduceIte]
  exact wakeDispatch_woken _ h.1 h.2

/-! ## A task that returns `Pending` is registered with what it waits for -/

/-- **A pending caller is registered**: a call that returns `Pending` while waiting for its response has
registered on its oneshot (`rxWaker`). -/
theorem C02_pending_call_is_registered (s : St) (cid : Nat) (now : Nat) (c : Call)
    (hg : getCall s cid = some c) (hv : c.os.val = none) (ht : c.os.txDropped = false) :
    (getCall (pollOneshot s cid now) cid).map (·.os.rxWaker) = some true := by
  unfold pollOneshot
  simp only [hg, hv, ht, Bool.false_eq_true, ↓reduceIte, getCall_emit]
  rw [getCall_updCall _ _ _ ?_, hg]
  · rfl
  · intro _; rfl

/-- **A caller blocked on capacity is queued**: a first poll that finds no permit leaves the call in the
FIFO of waiters (phase `reserving`), from where `pqRelease` / `pqClose` wake it. -/
theorem C02_blocked_call_is_queued (s : St) (cid : Nat) (now : Nat) (c : Call)
    (hg : getCall s cid = some c) (hph : c.phase = .notPolled) (hc : s.pqClosed = false)
    (hd : s.dDropped = false) (ha : s.pqAvail = 0) :
    cid ∈ (pollCall s cid now).pqWaiters ∧
    (getCall (pollCall s cid now) cid).map (·.phase) = some .reserving := by
  unfold pollCall
  simp only [hg, hph]
  rw [if_neg (by simp [hc, hd]), if_neg (by simp [ha])]
  refine ⟨by simp [emit, updCall], ?_⟩
  rw [getCall_emit, getCall_updCall _ _ _ ?_]
  · have : getCall (updCall { s with nextFresh := s.nextFresh + 1, nextId := s.nextId + 1 } cid
        (fun c' => { c' with id := s.nextId, trace := { c.ctx.trace with span := .fresh s.nextFresh }, woken := false })) cid
        = some { c with id := s.nextId, trace := { c.ctx.trace with span := .fresh s.nextFresh }, woken := false } := by
      rw [getCall_updCall _ _ _ ?_]
      · show Option.map _ (getCall s cid) = _
        rw [hg]; rfl
      · intro _; rfl
    show Option.map _ (Option.map _ (getCall (updCall { s with nextFresh := s.nextFresh + 1, nextId := s.nextId + 1 } cid _) cid)) = _
    rw [this]
    rfl
  · intro _; rfl

/-- A queued caller polled again without having been handed a permit stays queued. -/
theorem C02_reserving_stays_queued (s : St) (cid : Nat) (now : Nat) (c : Call)
    (hg : getCall s cid = some c) (hph : c.phase = .reserving) (hc : s.pqClosed = false)
    (hd : s.dDropped = false) (ha : s.pqAssigned.contains cid = false) :
    (pollCall s cid now).pqWaiters = s.pqWaiters := by
  unfold pollCall
  simp only [hg, hph]
  rw [if_neg (by simp [hc, hd, updCall]), if_neg (by simpa [updCall] using ha)]
  rfl

/-- **A parked dispatch is registered on the cancellation queue**. -/
theorem C02_dispatch_registers_on_cancel_queue (s : St) (h : (cqRecv s).2 = .pending) :
    (cqRecv s).1.cqRxWaker = true := by
  unfold cqRecv at h ⊢
  split
  · simp_all
  · split
    · simp_all
    · rfl

/-- **A parked dispatch is registered on the request queue**. -/
theorem C02_dispatch_registers_on_request_queue (s : St) (h : (pqRecv s).2 = .pending) :
    (pqRecv s).1.pqRxWaker = true := by
  unfold pqRecv at h ⊢
  split
  · simp_all
  · split
    · simp_all
    · split
      · simp_all
      · rfl

/-- **A parked reader is registered on the transport's read side**. -/
theorem C02_dispatch_registers_on_read (t : SimT) (h : t.pollNext.2 = .pending) :
    t.pollNext.1.readWaker = true := by
  unfold SimT.pollNext at h ⊢
  simp only at h ⊢
  split
  · simp_all
  · split
    · simp_all
    · simp_all
    · split
      · simp_all
      · rfl

/-- **A writer told `Pending` by `poll_ready` is registered on the sink**. -/
theorem C02_dispatch_registers_on_ready (t : SimT) (h : t.pollReady.2.1 = .pending) :
    t.pollReady.1.writeWaker = true := by
  unfold SimT.pollReady at h ⊢
  simp only at h ⊢
  split
  · simp_all
  · split
    · simp_all
    · rfl

/-- **A writer told `Pending` by `poll_flush` is registered on the sink**. -/
theorem C02_dispatch_registers_on_flush (t : SimT) (h : t.pollFlush.2.1 = .pending) :
    t.pollFlush.1.writeWaker = true := by
  unfold SimT.pollFlush at h ⊢
  simp only at h ⊢
  split
  · simp_all
  · split
    · rfl
    · simp_all

/-- **… and by `poll_close`**. -/
theorem C02_dispatch_registers_on_close (t : SimT) (h : t.pollClose.2.1 = .pending) :
    t.pollClose.1.writeWaker = true := by
  unfold SimT.pollClose at h ⊢
  simp only at h ⊢
  split
  · simp_all
  · split
    · rfl
    · simp_all

/-- **The deadline queue keeps the poller's waker**: `poll_expired` stores it first, whatever it
returns; in particular after `Pending` / `None`. -/
theorem C02_dispatch_registers_on_timers (q : DelayQ) (now : Nat)
    (_h : (q.pollExpired now).2 = .pending ∨ (q.pollExpired now).2 = .none) :
    (q.pollExpired now).1.waker = true :=
  DelayQ.pollExpired_waker q now

/-- One iteration of the dispatch's `poll_expired` that ends the loop without yielding anything — and without a
panic of the re-arming `DelayQueue::insert` — came from a queue poll that returned `Pending` / `None`: the waker is
stored. -/
theorem expireWith_registers {s s' : St} {now : Nat} {r : DelayQ × DelayQ.PollRes} (hw : r.1.waker = true)
    (h : expireWith s now r = .done s' false) (hp : s'.poisoned = false) : s'.timers.waker = true := by
  unfold expireWith at h
  split at h
  · split at h
    · split at h
      · unfold rearm at h
        generalize DelayQ.insert _ now _ _ = ri at h
        obtain ⟨q', res, w⟩ := ri
        cases res with
        | panic =>
          simp only [rearmWith, ExpStep.done.injEq, and_true] at h
          subst h; simp [emit] at hp
        | ok key => simp [rearmWith] at h
      · simp at h
    · simp at h
  · simp only [ExpStep.done.injEq, and_true] at h
    subst h; exact hw

/-- The dispatch's `poll_expired` leaves the waker stored in its deadline queue when nothing expired (and the
re-arming `DelayQueue::insert`, if any, did not panic). -/
theorem C02_pollExpired_registers (s : St) (now : Nat) (h : (pollExpired s now).2 = false)
    (hp : (pollExpired s now).1.poisoned = false) :
    (pollExpired s now).1.timers.waker = true := by
  suffices key : ∀ fuel s, remSum s < fuel → (pollExpiredLoop fuel s now).2 = false →
      (pollExpiredLoop fuel s now).1.poisoned = false → (pollExpiredLoop fuel s now).1.timers.waker = true from
    key _ s (by rw [expiredFuel_eq]; omega) h hp
  intro fuel
  induction fuel with
  | zero => intro s hf; omega
  | succ fuel ih =>
    intro s hf h hp
    cases hstep : expireStep s now with
    | again s' =>
      have hlt := expireWith_again (r := s.timers.pollExpired now) hstep
      simp only [pollExpiredLoop, hstep] at h hp ⊢
      exact ih s' (by omega) h hp
    | done s' b =>
      simp only [pollExpiredLoop, hstep] at h hp ⊢
      subst h
      exact expireWith_registers (DelayQ.pollExpired_waker s.timers now) hstep hp

/-! ## First global facts -/

/-- The global statement (first sentence of C02), in the form the `settle` operation checks: from any
reachable state, once no task is woken, no live call is stuck. -/
def C02NoStuckStatement : Prop :=
  ∀ (m b c : Nat) (coupled : Bool) (ops : List COp), 1 ≤ m → 1 ≤ b → 1 ≤ c →
    (settle (ops.foldl applyOp (initSys m b c coupled))).2 = []

/-- **Terminal fan-out** (partial result towards `C02NoStuckStatement`): when the dispatch is dropped
(or completes, which drops it), every live caller that is parked on its still-empty oneshot
(`rxWaker`) and whose request sits in the request queue or in the in-flight table is woken; it then
resolves with `Shutdown`.  What is missing for the global statement: an invariant saying that every
`awaiting` call's request *is* in one of the two tables (or already answered), over all op sequences. -/
theorem C02_terminal_fanout_partial (s : St) (hd : s.dDropped = false) (hp : s.poisoned = false)
    (cid : Nat) (c : Call) (hg : getCall s cid = some c) (hl : callLive c = true)
    (hv : c.os.val = none) (ht : c.os.txDropped = false) (hw : c.os.rxWaker = true)
    (hm : (∃ r ∈ s.pq, r.cid = cid) ∨ (∃ e ∈ s.inflight, e.cid = cid)) :
    (getCall (dropDispatch s) cid).map (·.woken) = some true := by
  apply dropDispatch_wakes_parked s hd hp cid c hg ⟨hl, Or.inr ⟨hv, ht, hw⟩⟩
  rcases hm with ⟨r, hr, rfl⟩ | ⟨e, he, rfl⟩
  · exact Or.inl (List.mem_map_of_mem hr)
  · exact Or.inr (List.mem_map_of_mem he)

/-- … and a call that was already woken is not un-woken by the dispatch going away. -/
theorem C02_terminal_fanout_keeps_woken (s : St) (hd : s.dDropped = false) (hp : s.poisoned = false)
    (cid : Nat) (c : Call) (hg : getCall s cid = some c) (hl : callLive c = true) (hw : c.woken = true)
    (hm : (∃ r ∈ s.pq, r.cid = cid) ∨ (∃ e ∈ s.inflight, e.cid = cid)) :
    (getCall (dropDispatch s) cid).map (·.woken) = some true := by
  apply dropDispatch_wakes_parked s hd hp cid c hg ⟨hl, Or.inl hw⟩
  rcases hm with ⟨r, hr, rfl⟩ | ⟨e, he, rfl⟩
  · exact Or.inl (List.mem_map_of_mem hr)
  · exact Or.inr (List.mem_map_of_mem he)

/-- **`settle` stops only when nothing is woken** (partial result): unless its fuel ran out
(`settleLoopF` reports the fuel left), the state in which `settle` computes the stuck calls has no
runnable dispatch and no woken live call, and the verdict is exactly `stuckCalls` of that state.
So a `[]` verdict with fuel left really means "quiescent and nobody stuck", not "still busy". -/
theorem C02_settle_quiescent_partial (c : Sys) (hfuel : 0 < (settleLoopF 400 c).2) :
    dispatchRunnable (settle c).1.s = false ∧
    (∀ call ∈ (settle c).1.s.calls, callLive call = true → call.woken = false) ∧
    (settle c).2 = stuckCalls (settle c).1.s := by
  have hq := settleLoopF_quiescent 400 c hfuel
  refine ⟨hq.1, firstWokenCall_none _ hq.2, ?_⟩
  show (if dispatchRunnable (settleLoop 400 c).s || (firstWokenCall (settleLoop 400 c).s).isSome then []
        else stuckCalls (settleLoop 400 c).s) = _
  rw [hq.1, hq.2]
  rfl

/-! ## Non-vacuity -/

/-- A blocked caller (queue of capacity 1 full), the dispatch dequeues, the permit wakes the
waiter, both calls end up transmitted; nothing is stuck — and the settle loop had fuel left. -/
example :
    (settle ([COp.call 0 1000000000 ⟨1, .given 1, false⟩ 7, .call 0 1000000000 ⟨2, .given 2, false⟩ 8,
              .pollCall 0, .pollCall 1].foldl applyOp (initSys 2 1 2 true))).2 = [] := by
  decide

/-- In that script the second caller really is blocked (queued as a waiter, not woken) before the
dispatch runs, and really is handed the permit and woken by the dispatch's dequeue. -/
example :
    let c0 := [COp.call 0 1000000000 ⟨1, .given 1, false⟩ 7, .call 0 1000000000 ⟨2, .given 2, false⟩ 8,
               .pollCall 0, .pollCall 1].foldl applyOp (initSys 2 1 2 true)
    c0.s.pqWaiters = [1] ∧ (getCall c0.s 1).map (·.woken) = some false ∧
    (applyOp c0 .pollDispatch).s.pqAssigned = [1] ∧
    (getCall (applyOp c0 .pollDispatch).s 1).map (·.woken) = some true := by
  decide

/-- The hypotheses of the terminal fan-out theorem are satisfiable: a call awaiting its response, parked
on its oneshot, request in flight, is woken when the dispatch is dropped. -/
example :
    let c0 := [COp.call 0 1000000000 ⟨1, .given 1, false⟩ 7, .pollCall 0, .pollDispatch].foldl applyOp
               (initSys 2 1 2 true)
    (getCall c0.s 0).map (fun c => (callLive c, c.os.rxWaker, c.woken)) = some (true, true, false) ∧
    c0.s.inflight.map (·.cid) = [0] ∧
    (getCall (dropDispatch c0.s) 0).map (·.woken) = some true := by
  decide

/-- a staging sink (no self-wake) with room for one message; two calls; one poll of the dispatch -/
def c02StagingOps : List COp :=
  [.selfWake false, .call 0 1000000000 ⟨1, .given 1, true⟩ 1, .call 0 1000000000 ⟨2, .given 2, true⟩ 2,
   .pollCall 0, .pollCall 1, .pollDispatch]

set_option maxRecDepth 100000 in
/-- **Witness for `C02_ensureWriteable_repolls`.**  On a coupled transport of capacity 1 that does not wake its
owner on the owner's own flush, a single dispatch poll writes *both* requests: after the first write the sink is
full, `poll_ready` is `Pending`, the flush makes room, and the second `poll_ready` in the same poll sees it.  (A
dispatch that returned `Pending` right after the flush would leave the second request queued with nobody to wake
it.)  `settle` then finds no stuck call. -/
theorem C02_staging_sink_witness :
    (c02StagingOps.foldl applyOp (initSys 2 2 1 true)).s.t.selfWake = false ∧
    (c02StagingOps.foldl applyOp (initSys 2 2 1 true)).s.t.sentLog.length = 2 ∧
    (c02StagingOps.foldl applyOp (initSys 2 2 1 true)).s.pq = [] ∧
    (settle (c02StagingOps.foldl applyOp (initSys 2 2 1 true))).2 = [] := by decide

end TarpcModel.Client

import TarpcModel.Lemmas.ServerMon14
/-!
# C10 (server side) — the run-time monitor `monC10` accepts every trace of the server model

Property theorems only.  `monC10` (`Monitors/Server.lean`, `checkC10`) counts the responses written to the sink
since the last completed flush and, when the request stream ends (`Ready(None)`), demands that the inbound side
had ended (an `eof` was read, `Book.eofSeen`) and that nothing written is left unflushed.
-/
namespace TarpcModel.Server
open TarpcModel TarpcModel.Server.FlowMon

/-- **C10 (server), monitor form.**  For every configuration and every script over all ops the C10 monitor
accepts the model's trace: whenever the model ends the request stream, an end-of-stream has been read from the
transport in this or an earlier poll, and the last write-side call before the end was a `poll_flush → Ready`
that covered every response written. -/
theorem C10S_monitor_accepts (limit : Option Nat) (respCap tcap : Nat) (coupled : Bool) (ops : List SOp) :
    (monC10 limit (trace (initSys limit respCap tcap coupled) ops)).ok = true := by
  have h := (sim10_run limit (trace (initSys limit respCap tcap coupled) ops)).bad
    (flow_accepts limit respCap tcap coupled ops).2.2
  unfold Mon.ok
  rw [h]; rfl

/-- Non-vacuity: the monitor runs over a trace in which the stream ends after a response was written and flushed
(its count is back at 0), and over one in which the end of the inbound stream was read an op earlier than the
stream's end. -/
example :
    let m := monC10 none (trace (initSys none 1 1 true)
      [.injectReq 1 1000000000 ⟨0, .given 0, false⟩ 0, .pollServer, .eof, .pollServer, .finish 0 (.ok 7), .pollExec 0,
       .pollServer])
    m.ok = true ∧ m.st = 0 ∧ m.book.streamDone = true ∧ m.book.eofSeen = true ∧ m.book.respWritten = [(1, .ok 7)] := by
  decide

/-- … while a response is written but its flush is blocked the count stays at 1 and the stream does not end. -/
example :
    let m := monC10 none (trace (initSys none 1 2 true)
      [.injectReq 1 1000000000 ⟨0, .given 0, false⟩ 0, .pollServer, .eof, .finish 0 (.ok 7), .pollExec 0,
       .setFlush false, .pollServer])
    m.ok = true ∧ m.st = 1 ∧ m.book.streamDone = false := by
  decide

end TarpcModel.Server

import TarpcModel.Props.C02
import TarpcModel.Props.C16Client
import TarpcModel.Lemmas.ClientAccount
/-!
# C02 — the global statement: what is false, what is missing

`C02NoStuckStatement` (`Props/C02.lean`) as written is **false** on the model (`C02NoStuckStatement_false`): once the
dispatch task has panicked (`poisoned`) it is never polled again, and every call whose request it had not written yet
stays pending for ever with nothing that excuses it.  The only reachable panic is the range check of
`DelayQueue::insert`, which fails once the clock is 2^36 ms past the (idle) timer wheel's `elapsed` — the lag F9.
(In the model a panicked task is *frozen*; the real runtime drops it, which closes the channel and wakes the callers:
the witness is an artefact of the model, not a lost wakeup of tarpc.)  The statement needs the hypothesis under which
the C16 theorems show the dispatch never panics: `advSum ops < 2^35 ms` (`C16_client_never_poisoned`).
`C02NoStuckStatement'` is the statement with that hypothesis; it is proved as `C02_no_stuck` in `Props/C02NoStuck.lean`.

What is proved here towards it is the invariant the previous partial results were missing —
`C02_call_accounted`: in every reachable state every call future that waits has something that can wake it on record:

* an `awaiting` call (receiver open) has its request in the request queue, or an entry in the in-flight table, or its
  oneshot already holds a value, or the oneshot's sender was dropped (or the dispatch has panicked);
* a `reserving` call is in the wait queue of the request channel or has been handed a permit (or the channel is closed,
  in which case `C02_close_wakes_all_waiters` applies; or its `Acquire` is being dropped).

With the clock bound of the C16 theorems the "panicked" alternative disappears (`C02_call_accounted_no_panic`).
Together with `C02_terminal_fanout_partial`, `C02_completion_wakes_caller`, `C02_sender_drop_wakes_caller`,
`C02_capacity_wakes_waiter` this says that whatever the dispatch does next with a waiting call's request reaches the
call; what remains open for `C02NoStuckStatement'` is the dispatch's own parking discipline over a whole `pollDispatch`
(a parked dispatch with work queued is registered on the source that will make the work possible).
-/
namespace TarpcModel.Client

/-- the clock jumps 2^36 ms while the timer wheel is idle; the first request makes `DelayQueue::insert` panic; a second
call is enqueued afterwards -/
def c02PoisonOps : List COp :=
  [.advance (2 ^ 36 * 1000000), .call 0 (2 ^ 36 * 1000000 + 1000000000) ⟨1, .given 1, true⟩ 1, .pollCall 0, .pollDispatch,
   .call 0 (2 ^ 36 * 1000000 + 1000000000) ⟨2, .given 2, true⟩ 2, .pollCall 1]

set_option maxRecDepth 100000 in
/-- The dispatch is poisoned by the panic; both calls are stuck: nothing written, transport writable, table empty,
no terminal error. -/
theorem c02PoisonOps_stuck :
    (c02PoisonOps.foldl applyOp (initSys 4 4 4 true)).s.poisoned = true ∧
    (c02PoisonOps.foldl applyOp (initSys 4 4 4 true)).s.t.sentLog = [] ∧
    (settle (c02PoisonOps.foldl applyOp (initSys 4 4 4 true))).2 = [0, 1] := by decide

/-- **`C02NoStuckStatement` is false** (the dispatch may have panicked). -/
theorem C02NoStuckStatement_false : ¬ C02NoStuckStatement := by
  intro h
  have := h 4 4 4 true c02PoisonOps (by decide) (by decide) (by decide)
  rw [c02PoisonOps_stuck.2.2] at this
  cases this

/-- The global statement with the hypothesis that keeps the dispatch from panicking (the clock stays below
2^35 ms, as in `C16_client_never_poisoned`).  Proved: `C02_no_stuck` (`Props/C02NoStuck.lean`). -/
def C02NoStuckStatement' : Prop :=
  ∀ (m b c : Nat) (coupled : Bool) (ops : List COp), 1 ≤ m → 1 ≤ b → 1 ≤ c → advSum ops < 2 ^ 35 * nsPerMs →
    (settle (ops.foldl applyOp (initSys m b c coupled))).2 = []

/-- the witness violates the new hypothesis, as it must -/
example : ¬ advSum c02PoisonOps < 2 ^ 35 * nsPerMs := by decide

/-! ### every waiting call is accounted for -/

/-- **C02: every waiting call is accounted for**, in every reachable state. -/
theorem C02_call_accounted (m b c : Nat) (coupled : Bool) (ops : List COp)
    (s : St) (hs : s = (ops.foldl applyOp (initSys m b c coupled)).s) :
    (∀ cl ∈ s.calls, cl.phase = .awaiting → cl.os.rxClosed = false →
      (∃ r ∈ s.pq, r.cid = cl.cid) ∨ (∃ e ∈ s.inflight, e.cid = cl.cid) ∨ cl.os.val.isSome = true ∨
        cl.os.txDropped = true ∨ s.poisoned = true) ∧
    (∀ cl ∈ s.calls, cl.phase = .reserving →
      cl.cid ∈ s.pqWaiters ∨ cl.cid ∈ s.pqAssigned ∨ cl.os.txDropped = true ∨ s.pqClosed = true) := by
  subst hs
  have h := reach_acc m b c coupled ops
  constructor
  · intro cl hcl hph hrx
    have hm : (cl.cid, Phase.awaiting, cl.os.txDropped, false, cl.os.val.isSome) ∈
        acores (ops.foldl applyOp (initSys m b c coupled)).s := by
      have := mem_acores_of_mem hcl
      simpa [acore, hph, hrx] using this
    rcases h.acc _ _ _ hm with y | y | y | y | y | y
    · exact Or.inl y
    · exact Or.inr (Or.inl y)
    · exact Or.inr (Or.inr (Or.inl y))
    · exact Or.inr (Or.inr (Or.inr (Or.inl y)))
    · exact Or.inr (Or.inr (Or.inr (Or.inr y)))
    · cases y
  · intro cl hcl hph
    have hm : (cl.cid, Phase.reserving, cl.os.txDropped, cl.os.rxClosed, cl.os.val.isSome) ∈
        acores (ops.foldl applyOp (initSys m b c coupled)).s := by
      have := mem_acores_of_mem hcl
      simpa [acore, hph] using this
    exact h.res _ _ _ _ hm

/-- … and while the clock stays below 2^35 ms the dispatch has not panicked: an `awaiting` call's request is queued,
in flight, answered, or its sender is gone. -/
theorem C02_call_accounted_no_panic (m b c : Nat) (coupled : Bool) (ops : List COp) (hT : advSum ops < 2 ^ 35 * nsPerMs)
    (s : St) (hs : s = (ops.foldl applyOp (initSys m b c coupled)).s) :
    ∀ cl ∈ s.calls, cl.phase = .awaiting → cl.os.rxClosed = false →
      (∃ r ∈ s.pq, r.cid = cl.cid) ∨ (∃ e ∈ s.inflight, e.cid = cl.cid) ∨ cl.os.val.isSome = true ∨
        cl.os.txDropped = true := by
  intro cl hcl hph hrx
  have hp : s.poisoned = false := by
    rw [hs]; exact (C16_client_never_poisoned m b c coupled ops hT ops (List.prefix_refl _)).1
  rcases (C02_call_accounted m b c coupled ops s hs).1 cl hcl hph hrx with y | y | y | y | y
  · exact Or.inl y
  · exact Or.inr (Or.inl y)
  · exact Or.inr (Or.inr (Or.inl y))
  · exact Or.inr (Or.inr (Or.inr y))
  · rw [hp] at y; cases y

/-- the accounting on a concrete script: one request in flight, one still queued behind a full table, one caller
waiting for a permit -/
example :
    let ops := [COp.call 0 1000000000 ⟨1, .given 1, false⟩ 7, .call 0 1000000000 ⟨2, .given 2, false⟩ 8,
      .call 0 1000000000 ⟨3, .given 3, false⟩ 9, .pollCall 0, .pollDispatch, .pollCall 1, .pollCall 2]
    let s := (ops.foldl applyOp (initSys 1 1 4 true)).s
    s.inflight.map (·.cid) = [0] ∧ s.pq.map (·.cid) = [1] ∧ s.pqWaiters = [2] ∧
    s.calls.map (·.phase) = [.awaiting, .awaiting, .reserving] := by
  decide

/-! ### from the accounting to "nobody is stuck": what is still missing, exactly -/

/-- The wake-up discipline of a quiescent state — the part of `C02NoStuckStatement'` that was still open when this file was written (now proved in `Lemmas/ClientWake.lean`, `Lemmas/ClientParkQ.lean`).
`np`, `rs`, `aw`: a call future that is not woken is parked where it will be woken (a fresh future is born woken; a
future waiting for a permit is in the wait queue; a future waiting for its response has an open, empty oneshot whose
sender is alive).  `gone`: a dispatch that was dropped or has completed leaves no waiter and no queued request behind.
`full`: callers wait for permits only while the queue holds requests (permits handed out wake their owner).  `park`:
**a parked dispatch does not sit on a queued request** unless the in-flight table is full or the sink is not ready. -/
structure C02WakeInv (s : St) : Prop where
  np : ∀ cl ∈ s.calls, cl.phase = .notPolled → cl.woken = true
  rs : ∀ cl ∈ s.calls, cl.phase = .reserving → cl.woken = false → cl.cid ∈ s.pqWaiters
  aw : ∀ cl ∈ s.calls, cl.phase = .awaiting → cl.woken = false →
    cl.os.rxClosed = false ∧ cl.os.val = none ∧ cl.os.txDropped = false
  gone : (s.dDropped = true ∨ s.done.isSome = true) → s.pqWaiters = [] ∧ s.pq = []
  full : s.pqWaiters ≠ [] → (∀ cl ∈ s.calls, callLive cl = true → cl.woken = false) → s.pq ≠ []
  park : s.dDropped = false → s.done = none → s.dWoken = false → s.termErr = none → s.pq ≠ [] →
    s.inflight.length ≥ s.maxInFlight ∨ s.t.isReadyNow = false

/-- `settle` only polls: the state it stops in is reachable by a script that does not advance the clock -/
theorem settleLoop_reach (fuel : Nat) (c : Sys) : ∃ ops', settleLoop fuel c = ops'.foldl applyOp c ∧ advSum ops' = 0 := by
  induction fuel generalizing c with
  | zero => exact ⟨[], rfl, rfl⟩
  | succ fuel ih =>
    unfold settleLoop
    split
    · obtain ⟨ops', h1, h2⟩ := ih { c with s := pollDispatch c.s c.now }
      exact ⟨.pollDispatch :: ops', by rw [h1]; rfl, by simp [advSum, opAdv, h2]⟩
    · split
      · rename_i cid _
        obtain ⟨ops', h1, h2⟩ := ih { c with s := pollCall c.s cid c.now }
        exact ⟨.pollCall cid :: ops', by rw [h1]; rfl, by simp [advSum, opAdv, h2]⟩
      · exact ⟨[], rfl, rfl⟩

/-- the request of a tracked call has been written (by body, as `requestWritten` looks it up) -/
theorem requestWritten_of_entry {s : St} (hi : Inv none (view s)) (hp : s.poisoned = false) {cl : Call}
    (hcl : cl ∈ s.calls) {e : Entry} (he : e ∈ s.inflight) (hc : e.cid = cl.cid) : requestWritten s cl = true := by
  have hid : e.id ∈ reqIds s.t.sentLog := hi.infSent hp e he (by simp)
  unfold reqIds at hid
  obtain ⟨msg, hmsg, hm⟩ := List.mem_filterMap.mp hid
  cases msg with
  | request id dl tr body =>
    simp only [Option.some.injEq] at hm
    subst hm
    obtain ⟨i, cv, hgi, henq, hcvid, _, hbody, _⟩ := hi.reqCall _ dl tr body hmsg
    obtain ⟨cv', hgv', henq', hcv'id, _⟩ := hi.inf e he
    have hij : i = e.cid := hi.idInj i e.cid cv cv' hgi hgv' henq.polled henq'.polled (by rw [hcvid, hcv'id])
    subst hij
    rw [hgv'] at hgi; injection hgi with hgi; subst hgi
    have hclv : (view s).get cl.cid = some cl.v := view_getCall_some (getCall_of_mem_inv hi hcl)
    rw [hc, hclv] at hgv'; injection hgv' with hgv'
    unfold requestWritten
    rw [List.any_eq_true]
    refine ⟨_, hmsg, ?_⟩
    simp only [beq_iff_eq]
    rw [hbody, ← hgv']; rfl
  | cancel _ _ => simp at hm
  | response _ _ => simp at hm

/-- **C02, the global statement, reduced to the wake-up discipline**: if every reachable state (clock below 2^35 ms)
satisfies `C02WakeInv`, then after `settle` no call is stuck.  The rest of the argument — every waiting call is
accounted for (`C02_call_accounted_no_panic`), a tracked request has been written, the dispatch has not panicked — is
proved. -/
theorem C02_no_stuck_of_wake_inv
    (hW : ∀ (m b c : Nat) (coupled : Bool) (ops : List COp), 1 ≤ m → 1 ≤ b → 1 ≤ c → advSum ops < 2 ^ 35 * nsPerMs →
      C02WakeInv (ops.foldl applyOp (initSys m b c coupled)).s) : C02NoStuckStatement' := by
  intro m b c coupled ops hm hb hc hT
  unfold settle
  simp only
  split
  · rfl
  · rename_i hq
    simp only [Bool.or_eq_true, not_or, Bool.not_eq_true, Option.isSome_eq_false_iff, Option.isNone_iff_eq_none] at hq
    obtain ⟨hrun, hwok⟩ := hq
    obtain ⟨ops', hreach, hadv⟩ := settleLoop_reach 400 (ops.foldl applyOp (initSys m b c coupled))
    have hfold : settleLoop 400 (ops.foldl applyOp (initSys m b c coupled)) = (ops ++ ops').foldl applyOp (initSys m b c coupled) := by
      rw [hreach, List.foldl_append]
    have hT' : advSum (ops ++ ops') < 2 ^ 35 * nsPerMs := by rw [advSum_append, hadv]; simpa using hT
    rw [hfold] at hrun hwok ⊢
    generalize hs : ((ops ++ ops').foldl applyOp (initSys m b c coupled)).s = s at hrun hwok ⊢
    have hw : C02WakeInv s := hs ▸ hW m b c coupled (ops ++ ops') hm hb hc hT'
    have hi : Inv none (view s) := hs ▸ reach_inv m b c coupled (ops ++ ops')
    have hp : s.poisoned = false := by
      rw [← hs]; exact (C16_client_never_poisoned m b c coupled (ops ++ ops') hT' _ (List.prefix_refl _)).1
    have hacc := C02_call_accounted_no_panic m b c coupled (ops ++ ops') hT' s hs.symm
    have hquiet := firstWokenCall_none s hwok
    -- the dispatch is gone, or parked
    have hdisp : (s.dDropped = true ∨ s.done.isSome = true) ∨ (s.dDropped = false ∧ s.done = none ∧ s.dWoken = false) := by
      unfold dispatchRunnable at hrun
      rw [hp] at hrun
      cases hd : s.dDropped with
      | true => exact Or.inl (Or.inl rfl)
      | false =>
        cases hdn : s.done with
        | some r => exact Or.inl (Or.inr rfl)
        | none =>
          right
          refine ⟨rfl, rfl, ?_⟩
          simpa [hd, hdn] using hrun
    -- a queued request excuses every call (or contradicts a dispatch that is gone)
    have hqueued : s.pq ≠ [] → ∀ cl : Call, excused s cl = true := by
      intro hpq cl
      rcases hdisp with hg | ⟨h1, h2, h3⟩
      · exact absurd (hw.gone hg).2 hpq
      · unfold excused
        cases hte : s.termErr with
        | some a => simp
        | none =>
          rcases hw.park h1 h2 h3 hte hpq with h' | h'
          · simp [h']
          · simp [h']
    unfold stuckCalls
    rw [List.map_eq_nil_iff, List.filter_eq_nil_iff]
    intro cl hcl hbad
    simp only [Bool.and_eq_true, Bool.not_eq_true'] at hbad
    obtain ⟨hlive, hnex⟩ := hbad
    have hnw : cl.woken = false := hquiet cl hcl hlive
    have hex : excused s cl = true := by
      cases hph : cl.phase with
      | notPolled => rw [hw.np cl hcl hph] at hnw; cases hnw
      | reserving =>
        have hwt := hw.rs cl hcl hph hnw
        have hne : s.pqWaiters ≠ [] := fun h => by rw [h] at hwt; cases hwt
        exact hqueued (hw.full hne (fun c' hc' hl => hquiet c' hc' hl)) cl
      | awaiting =>
        obtain ⟨hrx, hv, htx⟩ := hw.aw cl hcl hph hnw
        rcases hacc cl hcl hph hrx with ⟨r, hr, _⟩ | ⟨e, he, hce⟩ | h' | h'
        · exact hqueued (fun h => by rw [h] at hr; cases hr) cl
        · unfold excused
          rw [requestWritten_of_entry hi hp hcl he hce]; simp
        · rw [hv] at h'; cases h'
        · rw [htx] at h'; cases h'
      | resolved => simp [callLive, hph] at hlive
      | dropped => simp [callLive, hph] at hlive
    rw [hex] at hnex; cases hnex

end TarpcModel.Client

import TarpcModel.Props.C02
import TarpcModel.Props.C16Client
/-!
# C02 — the global statement: what is false, what is missing

`C02NoStuckStatement` (`Props/C02.lean`) as written is **false** on the model (`C02NoStuckStatement_false`): once the
dispatch task has panicked (`poisoned`) it is never polled again, and every call whose request it had not written yet
stays pending for ever with nothing that excuses it.  The only reachable panic is the range check of
`DelayQueue::insert`, which fails once the clock is 2^36 ms past the (idle) timer wheel's `elapsed` — the lag F9.
(In the model a panicked task is *frozen*; the real runtime drops it, which closes the channel and wakes the callers:
the witness is an artefact of the model, not a lost wakeup of tarpc.)  The statement needs the hypothesis under which
the C16 theorems show the dispatch never panics: `advSum ops < 2^35 ms` (`C16_client_never_poisoned`).
`C02NoStuckStatement'` is the statement with that hypothesis; it is still unproved.
-/
namespace TarpcModel.Client

/-- the clock jumps 2^36 ms while the timer wheel is idle; the first request makes `DelayQueue::insert` panic; a second
call is enqueued afterwards -/
def c02PoisonOps : List COp :=
  [.advance (2 ^ 36 * 1000000), .call 0 (2 ^ 36 * 1000000 + 1000000000) ⟨1, .given 1, true⟩ 1, .pollCall 0, .pollDispatch,
   .call 0 (2 ^ 36 * 1000000 + 1000000000) ⟨2, .given 2, true⟩ 2, .pollCall 1]

set_option maxRecDepth 100000 in
/-- The dispatch is poisoned by the panic; both calls are stuck: nothing written, transport writable, table empty,
no terminal error. -/
theorem c02PoisonOps_stuck :
    (c02PoisonOps.foldl applyOp (initSys 4 4 4 true)).s.poisoned = true ∧
    (c02PoisonOps.foldl applyOp (initSys 4 4 4 true)).s.t.sentLog = [] ∧
    (settle (c02PoisonOps.foldl applyOp (initSys 4 4 4 true))).2 = [0, 1] := by decide

/-- **`C02NoStuckStatement` is false** (the dispatch may have panicked). -/
theorem C02NoStuckStatement_false : ¬ C02NoStuckStatement := by
  intro h
  have := h 4 4 4 true c02PoisonOps (by decide) (by decide) (by decide)
  rw [c02PoisonOps_stuck.2.2] at this
  cases this

/-- The global statement with the hypothesis that keeps the dispatch from panicking (the clock stays below
2^35 ms, as in `C16_client_never_poisoned`).  Not proved. -/
def C02NoStuckStatement' : Prop :=
  ∀ (m b c : Nat) (coupled : Bool) (ops : List COp), 1 ≤ m → 1 ≤ b → 1 ≤ c → advSum ops < 2 ^ 35 * nsPerMs →
    (settle (ops.foldl applyOp (initSys m b c coupled))).2 = []

/-- the witness violates the new hypothesis, as it must -/
example : ¬ advSum c02PoisonOps < 2 ^ 35 * nsPerMs := by decide

end TarpcModel.Client

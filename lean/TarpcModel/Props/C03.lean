import TarpcModel.Lemmas.ClientTop
import TarpcModel.Lemmas.ClientMech
import TarpcModel.Lemmas.ClientStable
/-!
# C03 — abandoned calls are cancelled on the wire, exactly when needed

Property theorems only.  Model: `TarpcModel.Client`; monitor: `monC03` (`Monitors/Client.lean`).  State-level
statements are phrased over `view s` (`Lemmas/ClientIds.lean`); `reqIds` / `cancelIds` are the ids of the
`Request` / `Cancel` messages in the transport's ghost log `sentLog` of accepted writes.

`s.poisoned` says that the dispatch task panicked (`deadlines.remove: invalid key`, `Request IDs should be unique`,
`DelayQueue::insert: invalid deadline`) or span; the model keeps executing the rest of that poll, which the real
code does not, so the statements that relate the in-flight table to the wire are made for `poisoned = false`.

The monitor theorem covers the first two clauses of `checkC03` (no request after abandonment; preconditions of
every cancel).  The third clause (a cancel is owed after a writable dispatch poll that goes idle) is proved in `Props/C03Full.lean` (`C03_cancel_owed : C03FullStatement`).
-/
namespace TarpcModel.Client

/-! ### mechanism -/

/-- **C03: requests of abandoned calls are skipped.**  The dequeue loop of `poll_next_request` never hands out a
request whose oneshot receiver is closed. -/
theorem C03_skip_closed (fuel : Nat) (s : St) (r : DReq) (h : (nextRequestLoop fuel s).2 = .some r) :
    osIsClosed (nextRequestLoop fuel s).1 r.cid = false :=
  nextRequestLoop_skip_closed fuel s r h

/-- **C03: a `Cancel` is written only for a tracked request, once.**  One call of `pollWriteCancel` either writes
nothing, or writes `Cancel id` for an id that was in the in-flight table, and removes that entry (so a second
`Cancel id` would need a second insertion). -/
theorem C03_cancel_only_if_tracked (s : St) :
    (pollWriteCancel s).1.t.sentLog = s.t.sentLog ∨
    ∃ e, findEntry s e.id = some e ∧
      (pollWriteCancel s).1.t.sentLog = s.t.sentLog ++ [Msg.cancel e.id e.ctx.trace] ∧
      findEntry (pollWriteCancel s).1 e.id = none :=
  pollWriteCancel_spec s

/-! ### the wire, over all op sequences -/

/-- **C03: a request is written at most once**, and never while it is still queued. -/
theorem C03_request_written_at_most_once (m b c : Nat) (coupled : Bool) (ops : List COp)
    (s : St) (hs : s = (ops.foldl applyOp (initSys m b c coupled)).s) :
    (reqIds s.t.sentLog).Nodup ∧ ∀ r ∈ s.pq, r.id ∉ reqIds s.t.sentLog := by
  subst hs
  have h := reach_inv m b c coupled ops
  exact ⟨h.reqNodup, h.pqNotSent⟩

/-- **C03: what is in flight has been written.** -/
theorem C03_in_flight_was_written (m b c : Nat) (coupled : Bool) (ops : List COp)
    (s : St) (hs : s = (ops.foldl applyOp (initSys m b c coupled)).s) (hp : s.poisoned = false) :
    ∀ e ∈ s.inflight, e.id ∈ reqIds s.t.sentLog := by
  subst hs
  have h := reach_inv m b c coupled ops
  exact fun e he => h.infSent hp e he (by simp)

/-- **C03: every `Cancel` on the wire is justified.**  In every reachable state, for a `Cancel id` in the sent log:
`Cancel id` occurs once; the id is no longer in flight; the call that owns the id has closed its receiver and
neither holds nor was resolved from a server reply; and (unless the dispatch panicked) `Request id` was written
earlier. -/
theorem C03_cancel_justified (m b c : Nat) (coupled : Bool) (ops : List COp)
    (s : St) (hs : s = (ops.foldl applyOp (initSys m b c coupled)).s)
    (id : Nat) (tr : Trace) (h : Msg.cancel id tr ∈ s.t.sentLog) :
    (cancelIds s.t.sentLog).Nodup ∧ (∀ e ∈ s.inflight, e.id ≠ id) ∧
    (∃ cid cv, (view s).get cid = some cv ∧ cv.polled ∧ cv.id = id ∧ cv.rxClosed = true ∧
      okLike cv.outcome = false ∧ okLike cv.val = false) ∧
    (s.poisoned = false → id ∈ reqIds s.t.sentLog ∧
      ∀ l1 l2, s.t.sentLog = l1 ++ Msg.cancel id tr :: l2 → id ∈ reqIds l1) := by
  subst hs
  have hi := reach_inv m b c coupled ops
  obtain ⟨a, b', i, cv, hg, hp, hid, _, hrx, ho, hv⟩ := hi.canCall id tr h
  exact ⟨hi.canNodup, b', ⟨i, cv, hg, hp, hid, hrx, ho, hv⟩, fun hp' => ⟨a hp', fun l1 l2 hl => hi.canAfter hp' l1 id tr l2 hl⟩⟩

/-- **C03: the receiver is closed before the cancellation is queued.**  In every reachable state, every id in the
cancellation queue belongs to a polled call whose oneshot receiver is closed (the guard closes first; the
failed-`send` path closes, then queues).  Together with `C03_skip_closed` this is the argument of the source
comment: once the cancellation of an id is queued, `poll_next_request` will not hand that id out any more. -/
theorem C03_receiver_closed_before_cancel (m b c : Nat) (coupled : Bool) (ops : List COp)
    (s : St) (hs : s = (ops.foldl applyOp (initSys m b c coupled)).s) :
    ∀ id ∈ s.cq, ∃ cid cv, (view s).get cid = some cv ∧ cv.polled ∧ cv.id = id ∧ cv.rxClosed = true := by
  subst hs
  exact (reach_inv m b c coupled ops).cq

/-- **C03: a queued request with an open receiver belongs to a call that is still waiting.**  (A dropped or
resolved call has closed its receiver, so its queued request is one of those `C03_skip_closed` skips.) -/
theorem C03_open_receiver_means_waiting (m b c : Nat) (coupled : Bool) (ops : List COp)
    (s : St) (hs : s = (ops.foldl applyOp (initSys m b c coupled)).s) :
    ∀ r ∈ s.pq, ∃ cv, (view s).get r.cid = some cv ∧ cv.id = r.id ∧ (cv.rxClosed = false → cv.phase = .awaiting) := by
  subst hs
  intro r hr
  obtain ⟨cv, a1, _, a3, _, _, _, _, a8⟩ := (reach_inv m b c coupled ops).pq r hr
  exact ⟨cv, a1, a3, a8⟩

/-- **C03: a cancellation that finds nothing is final.**  If, in a reachable state, the cancellation of `id` is
queued (or the owner of `id` has otherwise closed its receiver) while `id` is not in flight — the request
completed, or was never transmitted — then `id` is never inserted into the in-flight table afterwards, whatever
ops follow: the cancellation dequeued without effect is not followed by an insertion it should have removed. -/
theorem C03_no_insertion_after_cancel_without_effect (m b c : Nat) (coupled : Bool) (ops : List COp)
    (c1 : Sys) (hc1 : c1 = ops.foldl applyOp (initSys m b c coupled))
    (id : Nat) (hcq : id ∈ c1.s.cq) (hnot : ∀ e ∈ c1.s.inflight, e.id ≠ id) (ops' : List COp) :
    ∀ e ∈ (ops'.foldl applyOp c1).s.inflight, e.id ≠ id := by
  subst hc1
  have hi := reach_inv m b c coupled ops
  have hst : Stable id none (view (ops.foldl applyOp (initSys m b c coupled)).s) := ⟨hi, hi.cq id hcq, hnot⟩
  exact (foldl_stable ops' hst).2.2

/-! ### the monitor -/

/-- `checkC03ab` (`Lemmas/ClientBook.lean`) is `checkC03` minus its third clause: they agree on every event that
is not the return of a dispatch poll. -/
theorem checkC03ab_eq (b : Book) (u : Unit) (e : CEv) (h : ∀ k r, e ≠ .obs (.ret (.dispatch k) r)) :
    checkC03ab b u e = checkC03 b u e := by
  cases e with
  | op o => rfl
  | obs o =>
    cases o with
    | ret t r => cases t <;> first | rfl | exact absurd rfl (h _ _)
    | _ => rfl

/-- **C03, first two clauses (monitor form).**  For every configuration and every op sequence (calls with pairwise
distinct bodies and caller-chosen span ids), the monitor made of the first two clauses of `checkC03` accepts the
model's trace: no `Request` is written for a call after a completed `drop-call` on it, and every `Cancel id` —
successful or not — follows a successful `Request id`, is the first `Cancel id`, and concerns a call that was not
resolved from a server reply. -/
theorem C03_monitor_accepts_first_two_clauses (m b c : Nat) (coupled : Bool) (ops : List COp)
    (hbodies : (callBodies ops).Nodup) (hspans : ∀ op ∈ ops, SpanOk op) :
    (monC03ab (trace (initSys m b c coupled) ops)).ok = true :=
  (combined_ok (combined_accepts m b c coupled ops hbodies hspans)).2.2

/-- The full property, third clause included (after a top-level dispatch poll during which the transport was
writable throughout, every abandoned call whose request is on the wire and has not ended has its `Cancel` on the
wire).  Not proved here: it needs a progress argument about `run` (the fuel `runFuel` suffices to drain the
cancellation queue) on top of the invariants above. -/
def C03FullStatement : Prop :=
  ∀ (m b c : Nat) (coupled : Bool) (ops : List COp), (callBodies ops).Nodup → (∀ op ∈ ops, SpanOk op) →
    (monC03 (trace (initSys m b c coupled) ops)).ok = true

/-! ### non-vacuity -/

/-- An abandoned call whose request is on the wire gets its `Cancel`; `monC03` (all three clauses) accepts. -/
example :
    ([COp.call 0 1000000000 ⟨7, .given 1, true⟩ 5, .pollCall 0, .pollDispatch, .dropCall 0 .none, .pollDispatch].foldl
        applyOp (initSys 4 4 4 true)).s.t.sentLog =
      [.request 0 1000000000 ⟨7, .fresh 0, true⟩ 5, .cancel 0 ⟨7, .fresh 0, true⟩] ∧
    (monC03 (trace (initSys 4 4 4 true)
      [COp.call 0 1000000000 ⟨7, .given 1, true⟩ 5, .pollCall 0, .pollDispatch, .dropCall 0 .none, .pollDispatch])).ok = true := by
  decide

/-- A call abandoned before the dispatch ran: its request is skipped, nothing at all is written. -/
example :
    ([COp.call 0 1000000000 ⟨7, .given 1, true⟩ 5, .pollCall 0, .dropCall 0 .none, .pollDispatch].foldl
        applyOp (initSys 4 4 4 true)).s.t.sentLog = [] := by
  decide

end TarpcModel.Client

import TarpcModel.Lemmas.C15Bincode
/-!
# C15 (value level, bincode) — shipped transports deliver messages intact

Property theorems only.  Model: `Wire/Varint.lean` (bincode 1.3 varint integer encoding),
`Wire/Bincode.lean` (tarpc's protocol types under `tokio_serde::formats::Bincode`),
`Wire/ErrorKind.lean` (the `io::ErrorKind` tables of `tarpc/src/util/serde.rs`, generated).

Everything here holds whatever integer type the kind is written as: the kind only ever appears as
`decodeKind (encodeKind k)`.  That the 18 portable kinds map to themselves is
`Props/C15ErrorKinds.lean`; that they currently do not is `Props/C15Witness.lean`.
-/
namespace TarpcModel.Bincode
open TarpcModel.Gen

/-! ## Varint integers -/

/-- Every `u64` round-trips, in front of any following bytes. -/
theorem C15_varint_roundtrip_u64 (v : Nat) (h : v < 2 ^ 64) (rest : Bytes) :
    decU64 (encU64 v ++ rest) = some (v, rest) := decU64_encU64 v rest h

theorem C15_varint_roundtrip_u32 (v : Nat) (h : v < 2 ^ 32) (rest : Bytes) :
    decU32 (encU32 v ++ rest) = some (v, rest) := decU32_encU32 v rest h

theorem C15_varint_roundtrip_u16 (v : Nat) (h : v < 2 ^ 16) (rest : Bytes) :
    decU16 (encU16 v ++ rest) = some (v, rest) := decU16_encU16 v rest h

theorem C15_varint_roundtrip_u128 (v : Nat) (h : v < 2 ^ 128) (rest : Bytes) :
    decU128 (encU128 v ++ rest) = some (v, rest) := decVarint128_encVarint128 v rest h

/-- Every `i32` round-trips (zigzag). -/
theorem C15_varint_roundtrip_i32 (i : Int) (h : -(2 ^ 31 : Int) ≤ i ∧ i < (2 ^ 31 : Int))
    (rest : Bytes) : decI32 (encI32 i ++ rest) = some (i, rest) :=
  decSigned_encSigned 32 (by decide) (by decide) i rest h

theorem C15_varint_roundtrip_i16 (i : Int) (h : -(2 ^ 15 : Int) ≤ i ∧ i < (2 ^ 15 : Int))
    (rest : Bytes) : decI16 (encI16 i ++ rest) = some (i, rest) :=
  decSigned_encSigned 16 (by decide) (by decide) i rest h

theorem C15_varint_roundtrip_i64 (i : Int) (h : -(2 ^ 63 : Int) ≤ i ∧ i < (2 ^ 63 : Int))
    (rest : Bytes) : decI64 (encI64 i ++ rest) = some (i, rest) :=
  decSigned_encSigned 64 (by decide) (by decide) i rest h

/-- Zigzag is a bijection between the integers and the naturals. -/
theorem C15_zigzag_bijective (i : Int) (n : Nat) :
    unzigzag (zigzag i) = i ∧ zigzag (unzigzag n) = n :=
  ⟨unzigzag_zigzag i, zigzag_unzigzag n⟩

/-- Whatever a `u64`-range varint read returns fits 64 bits (no reader can smuggle a wider value
into an id or a length). -/
theorem C15_varint_read_in_range (bs : Bytes) (v : Nat) (r : Bytes)
    (h : decU64 bs = some (v, r)) : v < 2 ^ 64 := decVarint_lt h

/-! ### What the reader accepts and rejects (checked against bincode 1.3.3) -/

/-- Non-canonical encodings are accepted: `fb 05 00` reads as `5`. -/
example : decU64 [0xfb, 5, 0] = some (5, []) := by decide
/-- …also with the widest prefix, and for a `u32` target as long as the *value* fits. -/
example : decU32 [0xfd, 5, 0, 0, 0, 0, 0, 0, 0] = some (5, []) := by decide
/-- A `u32` read of a value `≥ 2^32` is an error. -/
example : decU32 [0xfd, 5, 0, 0, 0, 1, 0, 0, 0] = none := by decide
/-- Prefix `254` (u128) is rejected by a `u64` read, `255` always, a short buffer always. -/
example : decU64 (0xfe :: List.replicate 16 0) = none ∧ decU64 [0xff] = none ∧
    decU128 [0xff] = none ∧ decU64 [0xfc, 1, 2, 3] = none ∧ decU64 [] = none := by decide
/-- Boundary encodings. -/
example : encU64 250 = [250] ∧ encU64 251 = [0xfb, 251, 0] ∧ encU64 65535 = [0xfb, 255, 255] ∧
    encU64 65536 = [0xfc, 0, 0, 1, 0] ∧ encU64 (2 ^ 32 - 1) = [0xfc, 255, 255, 255, 255] ∧
    encU64 (2 ^ 32) = [0xfd, 0, 0, 0, 0, 1, 0, 0, 0] ∧
    encU64 (2 ^ 64 - 1) = [0xfd, 255, 255, 255, 255, 255, 255, 255, 255] ∧
    encI32 (-1) = [1] ∧ encI32 1 = [2] ∧ encI32 (-2 ^ 31) = [0xfc, 255, 255, 255, 255] := by decide

/-! ## Body codecs used by the driver / harness -/

/-- `String` bodies: `u64` varint byte length + UTF-8 bytes. -/
theorem C15_body_string : BodyCodec encStr decStr strValid :=
  fun s rest h => decStr_encStr s rest h

/-- `u64` bodies. -/
theorem C15_body_u64 : BodyCodec encU64 decU64 (· < 2 ^ 64) :=
  fun v rest h => decU64_encU64 v rest h

/-! ## Messages -/

section
variable {T : Type} {encT : T → Bytes} {decT : Parser T} {PT : T → Prop}

/-- **C15 (client → server).**  Every `ClientMessage` — any request id, any deadline duration with
`nanos < 10^9`, any 128-bit trace id, any span id, either sampling decision, any body the body codec
round-trips — is read back exactly, from a stream (any bytes may follow) … -/
theorem C15_bincode_roundtrip_client_stream (hT : BodyCodec encT decT PT) (m : ClientMessage T)
    (hm : m.Valid PT) (rest : Bytes) :
    decClientMessage decT (encClientMessage encT m ++ rest) = some (m, rest) :=
  decClientMessage_encClientMessage hT m rest hm

/-- … and as a frame (`RejectTrailing`: the whole buffer is the message). -/
theorem C15_bincode_roundtrip_client (hT : BodyCodec encT decT PT) (m : ClientMessage T)
    (hm : m.Valid PT) : decodeClientMessage decT (encClientMessage encT m) = some m := by
  have := decClientMessage_encClientMessage hT m [] hm
  simp only [List.append_nil] at this
  simp [decodeClientMessage, complete, this]

/-- **C15 (server → client).**  Every `Response` is read back exactly, except that the kind `k` of an
error arrives as whatever `decodeKind (encodeKind k)` is (`k'`); ids, bodies and details are exact. -/
theorem C15_bincode_roundtrip_response_stream (hT : BodyCodec encT decT PT) (r : Response T)
    (hr : r.Valid PT) (k' : String)
    (hk : ∀ e, r.message = .err e → decodeKind (encodeKind e.kind) = some k') (rest : Bytes) :
    decResponse decT (encResponse encT r ++ rest) = some (r.withKind k', rest) := by
  obtain ⟨id, msg⟩ := r
  obtain ⟨h1, h2⟩ := hr
  cases msg with
  | ok t =>
    simp only at h1 h2
    simp [decResponse, encResponse, List.append_assoc, decU64_encU64 id _ h1,
      decU32_encU32 0 _ (by decide), hT _ _ h2, Response.withKind]
  | err e =>
    simp only at h1 h2
    have hk' := hk e rfl
    simp [decResponse, encResponse, List.append_assoc, decU64_encU64 id _ h1,
      decU32_encU32 1 _ (by decide), decServerError_encServerError e k' rest hk' h2,
      Response.withKind]

theorem C15_bincode_roundtrip_response (hT : BodyCodec encT decT PT) (r : Response T)
    (hr : r.Valid PT) (k' : String)
    (hk : ∀ e, r.message = .err e → decodeKind (encodeKind e.kind) = some k') :
    decodeResponse decT (encResponse encT r) = some (r.withKind k') := by
  have := C15_bincode_roundtrip_response_stream hT r hr k' hk []
  simp only [List.append_nil] at this
  simp [decodeResponse, complete, this]

/-- Successful responses need no assumption about kinds at all. -/
theorem C15_bincode_roundtrip_response_ok (hT : BodyCodec encT decT PT) (id : Nat) (t : T)
    (hid : id < 2 ^ 64) (ht : PT t) :
    decodeResponse decT (encResponse encT { requestId := id, message := .ok t }) =
      some { requestId := id, message := .ok t } := by
  have := C15_bincode_roundtrip_response hT { requestId := id, message := .ok t } ⟨hid, ht⟩ ""
    (by intro e h; cases h)
  simpa [Response.withKind] using this

/-- **C15, both directions** in one statement. -/
theorem C15_bincode_roundtrip (hT : BodyCodec encT decT PT) :
    (∀ m : ClientMessage T, m.Valid PT → decodeClientMessage decT (encClientMessage encT m) = some m) ∧
    (∀ (r : Response T) (k' : String), r.Valid PT →
      (∀ e, r.message = .err e → decodeKind (encodeKind e.kind) = some k') →
      decodeResponse decT (encResponse encT r) = some (r.withKind k')) :=
  ⟨fun m hm => C15_bincode_roundtrip_client hT m hm,
   fun r k' hr hk => C15_bincode_roundtrip_response hT r hr k' hk⟩

/-- Prefix-freeness (corollary): a client message's encoding determines the message and where it
ends — no encoding is a proper prefix of another, and encoding is injective. -/
theorem C15_prefix_free_client (hT : BodyCodec encT decT PT) (m₁ m₂ : ClientMessage T)
    (h₁ : m₁.Valid PT) (h₂ : m₂.Valid PT) (r₁ r₂ : Bytes)
    (h : encClientMessage encT m₁ ++ r₁ = encClientMessage encT m₂ ++ r₂) : m₁ = m₂ ∧ r₁ = r₂ := by
  have e₁ := decClientMessage_encClientMessage hT m₁ r₁ h₁
  have e₂ := decClientMessage_encClientMessage hT m₂ r₂ h₂
  rw [h, e₂] at e₁
  simp at e₁
  exact ⟨e₁.1.symm, e₁.2.symm⟩

/-- Same for responses (the kinds are compared after the wire mapping). -/
theorem C15_prefix_free_response (hT : BodyCodec encT decT PT) (a b : Response T)
    (ha : a.Valid PT) (hb : b.Valid PT) (ka kb : String)
    (hka : ∀ e, a.message = .err e → decodeKind (encodeKind e.kind) = some ka)
    (hkb : ∀ e, b.message = .err e → decodeKind (encodeKind e.kind) = some kb) (r₁ r₂ : Bytes)
    (h : encResponse encT a ++ r₁ = encResponse encT b ++ r₂) :
    a.withKind ka = b.withKind kb ∧ r₁ = r₂ := by
  have e₁ := C15_bincode_roundtrip_response_stream hT a ha ka hka r₁
  have e₂ := C15_bincode_roundtrip_response_stream hT b hb kb hkb r₂
  rw [h, e₂] at e₁
  simp at e₁
  exact ⟨e₁.1.symm, e₁.2.symm⟩

/-- The reader as the harness observes it (`readClientMessage`: value / error / panic) returns the
message for every valid message whose deadline is representable as an `Instant`
(`secs < 2^63`); cancels always are. -/
theorem C15_read_client_message (hT : BodyCodec encT decT PT) (m : ClientMessage T)
    (hm : m.Valid PT)
    (hd : ∀ r, m = .request r → r.context.deadline.secs < 2 ^ 63) :
    readClientMessage decT (encClientMessage encT m) = .value m := by
  have hdec := C15_bincode_roundtrip_client hT m hm
  cases m with
  | request r =>
    have hv : r.context.deadline.Valid := hm.1.1
    have hlt := hd r rfl
    simp only [readClientMessage, hdec]
    simp [encClientMessage, encRequest, encContext, List.append_assoc,
      decU32_encU32 0 _ (by decide), decDuration_encDuration _ _ hv, instantAddPanics]
    omega
  | cancel t id =>
    simp only [readClientMessage, hdec]
    simp [encClientMessage, List.append_assoc, decU32_encU32 1 _ (by decide)]

end

/-- Instances the driver runs: `String` and `u64` bodies. -/
theorem C15_bincode_roundtrip_string (m : ClientMessage String) (hm : m.Valid strValid) :
    decodeClientMessage decStr (encClientMessage encStr m) = some m :=
  C15_bincode_roundtrip_client C15_body_string m hm

theorem C15_bincode_roundtrip_u64 (m : ClientMessage Nat) (hm : m.Valid (· < 2 ^ 64)) :
    decodeClientMessage decU64 (encClientMessage encU64 m) = some m :=
  C15_bincode_roundtrip_client C15_body_u64 m hm

/-! ## Error kinds: the part that does not depend on the written integer type -/

/-- **C15: other kinds degrade to the generic kind.**  Every kind without its own arm in the write
table is written exactly like `Other` (the table's default, 16) and is read back as `Other`. -/
theorem C15_other_kinds_degrade (k : String) (hk : k ∉ portableKinds) :
    kindNum k = ekSerDefault ∧ encodeKind k = encodeKind "Other" ∧
      decodeKind (encodeKind k) = some "Other" := by
  have h1 : kindNum k = ekSerDefault := lookupSer_of_not_mem k _ _ hk
  have h2 : kindNum "Other" = ekSerDefault := by decide
  have h3 : encodeKind k = encodeKind "Other" := by
    simp only [encodeKind, encodeKindWith, h1, h2]
  refine ⟨h1, h3, ?_⟩
  rw [h3]
  decide

/-- Read side: every integer without its own arm in the read table is read as the default kind. -/
theorem C15_unknown_numbers_degrade (i : Int) (h : ∀ n ∈ ekDeTable.map (·.1), i ≠ (n : Int)) :
    kindOfNum i = ekDeDefault := by
  unfold kindOfNum
  split
  · rfl
  · next hneg =>
    have key : ∀ (tbl : List (Nat × String)), (∀ n ∈ tbl.map (·.1), i ≠ (n : Int)) →
        lookupDe i.toNat tbl ekDeDefault = ekDeDefault := by
      intro tbl
      induction tbl with
      | nil => intro _; rfl
      | cons p t ih =>
        obtain ⟨n, s⟩ := p
        intro h
        have hn : i ≠ (n : Int) := h n (by simp)
        have : i.toNat ≠ n := by omega
        simp [lookupDe, this]
        exact ih (fun m hm => h m (by simp at hm ⊢; exact Or.inr hm))
    exact key _ h

/-! ## Non-vacuity: concrete messages and their exact bytes (as produced by the real crate) -/

/-- There are 18 portable kinds, `Other` among them, and e.g. `OutOfMemory` is not. -/
example : portableKinds.length = 18 ∧ "Other" ∈ portableKinds ∧ "OutOfMemory" ∉ portableKinds := by
  decide

/-- `ClientMessage::Cancel { trace_context: {0x0102…10, 300, Unsampled}, request_id: 70000 }`. -/
example :
    encClientMessage encU64
      (.cancel { traceId := 0x0102030405060708090a0b0c0d0e0f10, spanId := 300, sampled := false } 70000) =
      [0x01, 0x10, 0x0f, 0x0e, 0x0d, 0x0c, 0x0b, 0x0a, 0x09, 0x08, 0x07, 0x06, 0x05, 0x04, 0x03, 0x02,
       0x01, 0xfb, 0x2c, 0x01, 0x01, 0xfc, 0x70, 0x11, 0x01, 0x00] := by decide

/-- A `u64`-bodied request: deadline 5 s + 7 ns, id 251, body `2^32`; bytes and read-back. -/
def exampleRequest : ClientMessage Nat := .request
  { context := { deadline := { secs := 5, nanos := 7 },
                 trace := { traceId := 1, spanId := 300, sampled := true } },
    id := 251, message := 2 ^ 32 }

example :
    let m := exampleRequest
    encClientMessage encU64 m =
      [0x00, 0x05, 0x07, 1, 0, 0, 0, 0, 0, 0, 0, 0, 0, 0, 0, 0, 0, 0, 0, 0xfb, 0x2c, 0x01, 0x00,
       0xfb, 0xfb, 0x00, 0xfd, 0, 0, 0, 0, 1, 0, 0, 0] ∧
    decodeClientMessage decU64 (encClientMessage encU64 m) = some m ∧
    readClientMessage decU64 (encClientMessage encU64 m ++ [0]) = .error := by decide

/-- A `String`-bodied request (body `"hé"`, trace id `0x0102…10`, Unsampled): the exact bytes the real
crate produces, and the read-back (UTF-8 validated). -/
def exampleStringRequest : ClientMessage String := .request
  { context := { deadline := { secs := 5, nanos := 7 },
                 trace := { traceId := 0x0102030405060708090a0b0c0d0e0f10, spanId := 300,
                            sampled := false } },
    id := 251, message := "hé" }

def exampleStringRequestBytes : Bytes :=
  [0x00, 0x05, 0x07, 0x10, 0x0f, 0x0e, 0x0d, 0x0c, 0x0b, 0x0a, 0x09, 0x08, 0x07, 0x06, 0x05, 0x04, 0x03,
   0x02, 0x01, 0xfb, 0x2c, 0x01, 0x01, 0xfb, 0xfb, 0x00, 0x03, 0x68, 0xc3, 0xa9]

example : encClientMessage encStr exampleStringRequest = exampleStringRequestBytes ∧
    decodeClientMessage decStr exampleStringRequestBytes = some exampleStringRequest := by decide

/-- Invalid UTF-8 and a length running past the buffer are errors. -/
example : decStr [2, 0xff, 0xfe] = none ∧ decStr [0xfd, 255, 255, 255, 255, 255, 255, 255, 255, 1] = none ∧
    decStr [2, 0x68] = none := by decide

/-- The validity hypotheses are satisfiable (and this message is covered by the theorem). -/
example : (ClientMessage.request (T := String)
      { context := { deadline := { secs := 2 ^ 64 - 1, nanos := 999999999 },
                     trace := { traceId := 2 ^ 128 - 1, spanId := 2 ^ 64 - 1, sampled := true } },
        id := 2 ^ 64 - 1, message := "" }).Valid strValid := by
  refine ⟨⟨⟨by decide, by decide⟩, ⟨by decide, by decide⟩⟩, by decide, ?_⟩
  simp [strValid, strBytes]

/-- Serde's `Duration` reader normalises `nanos ≥ 10^9` and rejects a `secs` overflow. -/
example : decDuration [1, 0xfc, 0xff, 0xff, 0xff, 0xff] = some ({ secs := 5, nanos := 294967295 }, []) ∧
    decDuration [0xfd, 255, 255, 255, 255, 255, 255, 255, 255, 0xfc, 0xff, 0xff, 0xff, 0xff] = none := by
  decide

/-- A request whose deadline does not fit an `Instant` is never a panic for the reader as the source
stands now (C16's concern; before the fix the model said `.panic` here and so did the real code). -/
example : readClientMessage decU64
    ([0x00, 0xfd, 0, 0, 0, 0, 0, 0, 0, 0x80, 0] ++ List.replicate 16 0 ++ [0, 1, 0, 0]) ≠
      .panic := by decide

/-- Unknown enum variant indices are errors. -/
example : decodeClientMessage decU64 [2, 0] = none ∧ decodeResponse decU64 [0, 2, 0] = none := by
  decide

/-- An error response with a kind that is written as `0` under every integer type:
`Response { request_id: 1, message: Err(ServerError { kind: NotFound, detail: "x" }) }`. -/
example : encResponse encU64 { requestId := 1, message := .err { kind := "NotFound", detail := "x" } } =
    [0x01, 0x01, 0x00, 0x01, 0x78] := by decide

end TarpcModel.Bincode

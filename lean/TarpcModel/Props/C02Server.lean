import TarpcModel.Lemmas.C02
/-!
# C02 — no wakeup is lost (server side)

Tasks: the request stream (`St.woken`) and one task per execution the application holds
(`Exec.woken`; an execution is a task only once it has been yielded, i.e. has a `vis` number, and
until it completes: `wakeable`).  First block: each event that enables progress wakes the task that
must act on it.  Second block: a task that returns `Pending` is registered with what it waits for.
Third block: the global statement checked by `Server.settle` and a first partial result.
-/
namespace TarpcModel.Server

/-! ## Events wake the task that must act on them -/

/-- **An inbound request / cancel message / read error wakes the stream task** parked on the
transport's read side. -/
theorem C02S_inbound_wakes_server (s : St) (i : Inb) (h : serverAlive s) (hw : s.t.readWaker = true) :
    (liftT s (s.t.inject i)).woken = true :=
  liftT_woken s _ h hw

/-- **Peer close wakes the stream task** parked on the read side. -/
theorem C02S_eof_wakes_server (s : St) (h : serverAlive s) (hw : s.t.readWaker = true) :
    (liftT s s.t.setEof).woken = true :=
  liftT_woken s _ h hw

/-- **Writability returning wakes the stream task** parked on the sink. -/
theorem C02S_writability_wakes_server (s : St) (h : serverAlive s) (hw : s.t.writeWaker = true)
    (hcap : s.t.buffered.length < s.t.cap) :
    (liftT s (s.t.setReady true)).woken = true := by
  apply liftT_woken s _ h
  simp [SimT.setReady, SimT.wakeIfReady, SimT.isReadyNow, hw, hcap]

/-- **Flushability returning wakes the stream task** parked on a socket-like sink. -/
theorem C02S_flushability_wakes_server (s : St) (h : serverAlive s) (hw : s.t.writeWaker = true)
    (hc : s.t.coupled = true) :
    (liftT s (s.t.setFlush true)).woken = true := by
  apply liftT_woken s _ h
  simp only [SimT.setFlush, SimT.wakeIfReady, hw, hc, Bool.and_self, Bool.or_true, ↓reduceIte]

/-- **Timer expiry wakes the stream task** parked on the deadline queue. -/
theorem C02S_timer_expiry_wakes_server (s : St) (now t : Nat) (h : serverAlive s)
    (hf : s.timers.nextFire = some t) (ht : t ≤ now) (hw : s.timers.waker = true) :
    (onAdvance s now).woken = true := by
  unfold onAdvance
  simp only [hf, ht, decide_true, hw, Bool.and_self, ↓reduceIte]
  exact wakeServer_woken _ h.1 h.2

/-- **A queued response wakes the stream task** parked on the response queue, and the response is in
the queue for it to write. -/
theorem C02S_response_wakes_server (s : St) (e : Exec) (res : Res) (now : Nat) (h : serverAlive s)
    (hw : s.rqRxWaker = true) :
    (queueAndFinish s e res now).woken = true ∧ (e.id, res) ∈ (queueAndFinish s e res now).respQ := by
  unfold queueAndFinish
  rw [if_neg (by simp [h.1])]
  simp only [hw, ↓reduceIte]
  constructor
  · show (wakeServer _).woken = true
    exact wakeServer_woken _ h.1 h.2
  · show (e.id, res) ∈ (wakeServer _).respQ
    rw [wakeServer_respQ]
    simp

/-- **A guard cancellation wakes the stream task** parked on the cancellation queue (an execution
dropped or finished without its response having been written). -/
theorem C02S_guard_cancel_wakes_server (s : St) (e : Exec) (h : serverAlive s) (ha : e.guardArmed = true)
    (hw : s.cancelRxWaker = true) :
    (guardDrop s e).woken = true ∧ e.id ∈ (guardDrop s e).cancelQ := by
  unfold guardDrop
  rw [if_pos (by simp [ha, h.1])]
  simp only [hw, ↓reduceIte]
  constructor
  · exact wakeServer_woken _ h.1 h.2
  · rw [wakeServer_cancelQ]; simp

/-- The same for a request dropped by `Requests` itself because the write pump failed. -/
theorem C02S_dropOffered_wakes_server (s : St) (rid id : Nat) (h : serverAlive s)
    (hw : s.cancelRxWaker = true) :
    (dropOffered s rid id).woken = true ∧ id ∈ (dropOffered s rid id).cancelQ := by
  unfold dropOffered
  simp only [updExec_cancelRxWaker, hw, ↓reduceIte]
  constructor
  · exact wakeServer_woken _ h.1 h.2
  · rw [wakeServer_cancelQ]; simp

/-- **A response-queue slot returning wakes the oldest execution waiting for one**, which then owns it. -/
theorem C02S_slot_wakes_waiter (s : St) (w : Nat) (rest : List Nat) (e : Exec)
    (hq : s.rqWaiters = w :: rest) (hg : getExec s w = some e) (hw : wakeable e = true) :
    (getExec (rqRelease s) w).map (·.woken) = some true ∧ w ∈ (rqRelease s).rqAssigned := by
  unfold rqRelease
  simp only [hq]
  have hg' : getExec { s with rqWaiters := rest, rqAssigned := s.rqAssigned ++ [w] } w = some e := hg
  constructor
  · rw [getExec_wakeExec_self _ w e hg' hw]; rfl
  · rw [(wakeExec_execsOnly _ w).rqAssigned]; simp

/-- **An abort (client cancellation, deadline, stream dropped) wakes the execution** parked on its abort
waker, with the abort flag set. -/
theorem C02S_abort_wakes_exec (s : St) (rid : Nat) (e : Exec) (hg : getExec s rid = some e)
    (hl : wakeable e = true) (hw : e.abortWaker = true) :
    (getExec (abortExec s rid) rid).map (·.woken) = some true ∧
    (getExec (abortExec s rid) rid).map (·.aborted) = some true := by
  rw [getExec_abortExec_self s rid e hg]
  simp [abortedE, hw, hl]

/-- **The handler becoming ready wakes its execution** (the script's stand-in for whatever the handler
awaits). -/
theorem C02S_finish_wakes_exec (s : St) (vid : Nat) (res : Res) (e : Exec)
    (hv : getExecVis s vid = some e) (hg : getExec s e.rid = some e) (hl : wakeable e = true)
    (hd : e.hDone = false) (hp : e.phase = .running) :
    (getExec (finishHandler s vid res) e.rid).map (·.woken) = some true := by
  have hlive : execLive e = true := by
    simp only [wakeable, Bool.and_eq_true] at hl; exact hl.1
  unfold finishHandler
  simp only [hv, hlive, hd, Bool.not_true, Bool.or_self, Bool.false_eq_true, ↓reduceIte, hp, beq_self_eq_true]
  have hg' : getExec (updExec s e.rid (fun x => { x with finishCmd := some res })) e.rid
      = some { e with finishCmd := some res } := by
    rw [getExec_updExec _ _ _ ?_, hg]
    · rfl
    · intro _; rfl
  rw [getExec_wakeExec_self _ e.rid _ hg' (by simpa [wakeable, execLive] using hl)]
  rfl

/-- **Dropping the stream wakes every execution waiting for a response-queue slot** (their `send` then
fails and they finish). -/
theorem C02S_drop_wakes_all_waiters (s : St) (hd : s.dropped = false) (hp : s.poisoned = false) :
    ∀ w ∈ s.rqWaiters, ∀ e, getExec s w = some e → wakeable e = true →
      (getExec (dropServer s) w).map (·.woken) = some true := by
  intro w hm e hg hw
  obtain ⟨e', hg', _, hw'⟩ := dropServer_wakes_waiter s hd hp w hm e hg hw
  simp [hg', hw']

/-- **Dropping the stream aborts every execution owning an in-flight entry**, and wakes it if it is
parked on its abort waker. -/
theorem C02S_drop_aborts_all_inflight (s : St) (hd : s.dropped = false) (hp : s.poisoned = false) :
    ∀ en ∈ s.inflight, ∀ e, getExec s en.rid = some e →
      (getExec (dropServer s) en.rid).map (·.aborted) = some true ∧
      (e.abortWaker = true → wakeable e = true → (getExec (dropServer s) en.rid).map (·.woken) = some true) := by
  intro en hm e hg
  obtain ⟨e', hg', _, ha', hw'⟩ := dropServer_aborts_inflight s hd hp en.rid (List.mem_map_of_mem hm) e hg
  refine ⟨by simp [hg', ha'], fun ha hw => ?_⟩
  simp [hg', hw' ha hw]

/-! ## A task that returns `Pending` is registered with what it waits for -/

/-- **An execution whose handler is not finished registers its abort waker** (the `Abortable` wrapper
stores the waker before polling the handler; the handler's own wake source is `finishHandler`). -/
theorem C02S_running_exec_registers (s : St) (vid now : Nat) (e : Exec)
    (hv : getExecVis s vid = some e) (hg : getExec s e.rid = some e) (hl : execLive e = true)
    (ha : e.aborted = false) (hp : e.phase ≠ .sending) (hf : e.finishCmd = none) :
    (getExec (pollExec s vid now) e.rid).map (·.abortWaker) = some true := by
  unfold pollExec
  simp only [hv, hl, Bool.not_true, Bool.false_eq_true, ↓reduceIte, ha, hf]
  rw [getExec_emit, getExec_updExec _ _ _ ?_, getExec_emit, getExec_updExec _ _ _ ?_,
    getExec_updExec _ _ _ ?_, hg]
  · rfl
  all_goals (intro _; rfl)

/-- **An execution that finds the response queue full queues up for a slot and registers its abort
waker**: `rqRelease` (a slot returning) and `dropServer` wake it through the waiter list, an abort
through the abort waker. -/
theorem C02S_blocked_send_registers (s : St) (e e0 : Exec) (res : Res) (now : Nat)
    (hd : s.dropped = false) (hg : getExec s e.rid = some e0)
    (hna : s.rqAssigned.contains e.rid = false)
    (hfull : s.rqWaiters.contains e.rid = true ∨ s.rqAvail = 0) :
    (getExec (trySend s e res now) e.rid).map (·.abortWaker) = some true ∧
    e.rid ∈ (trySend s e res now).rqWaiters := by
  unfold trySend
  simp only [hd, Bool.false_eq_true, ↓reduceIte, hna]
  by_cases hw : s.rqWaiters.contains e.rid = true
  · simp only [hw, ↓reduceIte]
    constructor
    · rw [getExec_emit, getExec_updExec _ _ _ ?_, hg]
      · rfl
      · intro _; rfl
    · show e.rid ∈ s.rqWaiters
      simpa using hw
  · have h0 : s.rqAvail = 0 := by
      rcases hfull with h | h
      · exact absurd h hw
      · exact h
    simp only [hw, Bool.false_eq_true, ↓reduceIte, h0, Nat.lt_irrefl, gt_iff_lt]
    constructor
    · rw [getExec_emit, getExec_updExec _ _ _ ?_]
      · show Option.map _ (Option.map _ (getExec s e.rid)) = _
        rw [hg]; rfl
      · intro _; rfl
    · show e.rid ∈ s.rqWaiters ++ [e.rid]
      simp

/-- The same at the level of one poll of an execution already waiting for a slot (phase `sending`): it
returns `Pending` registered and queued. -/
theorem C02S_sending_exec_registers (s : St) (vid now : Nat) (e : Exec) (res : Res)
    (hv : getExecVis s vid = some e) (hg : getExec s e.rid = some e) (hl : execLive e = true)
    (ha : e.aborted = false) (hp : e.phase = .sending) (hr : e.resp = some res)
    (hd : s.dropped = false) (hna : s.rqAssigned.contains e.rid = false)
    (hfull : s.rqWaiters.contains e.rid = true ∨ s.rqAvail = 0) :
    (getExec (pollExec s vid now) e.rid).map (·.abortWaker) = some true ∧
    e.rid ∈ (pollExec s vid now).rqWaiters := by
  unfold pollExec
  simp only [hv, hl, Bool.not_true, Bool.false_eq_true, ↓reduceIte, ha, hp, hr]
  have hg' : getExec (updExec s e.rid (fun x => { x with woken := false })) e.rid = some { e with woken := false } := by
    rw [getExec_updExec _ _ _ ?_, hg]
    · rfl
    · intro _; rfl
  exact C02S_blocked_send_registers _ e _ res now hd hg' hna hfull

/-- … and of the poll in which the handler finishes and finds the response queue full. -/
theorem C02S_finishing_exec_registers (s : St) (vid now : Nat) (e : Exec) (res : Res)
    (hv : getExecVis s vid = some e) (hg : getExec s e.rid = some e) (hl : execLive e = true)
    (ha : e.aborted = false) (hp : e.phase ≠ .sending) (hf : e.finishCmd = some res)
    (hd : s.dropped = false) (hna : s.rqAssigned.contains e.rid = false)
    (hfull : s.rqWaiters.contains e.rid = true ∨ s.rqAvail = 0) :
    (getExec (pollExec s vid now) e.rid).map (·.abortWaker) = some true ∧
    e.rid ∈ (pollExec s vid now).rqWaiters := by
  unfold pollExec
  simp only [hv, hl, Bool.not_true, Bool.false_eq_true, ↓reduceIte, ha, hf]
  have hg' : ∃ e0, getExec (updExec (emit (emit (updExec (updExec s e.rid (fun x => { x with woken := false })) e.rid
      (fun x => { x with phase := .running })) (.handler vid .polled now)) (.handler vid .completed now)) e.rid
      (fun x => { x with hDone := true, finishCmd := none })) e.rid = some e0 := by
    rw [getExec_updExec _ _ _ ?_, getExec_emit, getExec_emit, getExec_updExec _ _ _ ?_,
      getExec_updExec _ _ _ ?_, hg]
    · exact ⟨_, rfl⟩
    all_goals (intro _; rfl)
  obtain ⟨e0, hg0⟩ := hg'
  refine C02S_blocked_send_registers _ _ e0 res now ?_ ?_ ?_ ?_
  · simp only [updExec_dropped, emit]; exact hd
  · exact hg0
  · simp only [updExec_rqAssigned, emit]; exact hna
  · simp only [updExec_rqWaiters, updExec_rqAvail, emit]; exact hfull

/-- **The stream task registers on the guard-cancellation queue** whenever it finds it empty, and the
registration is still there when `BaseChannel::poll_next` returns. -/
theorem C02S_server_registers_on_cancel_queue (fuel : Nat) (s : St) (now : Nat) (hq : s.cancelQ = []) :
    (basePollNext (fuel + 1) s now).1.cancelRxWaker = true :=
  basePollNext_registers fuel s now hq

/-- **The stream task registers on the response queue** whenever the sink is writable and it finds the
queue empty. -/
theorem C02S_server_registers_on_response_queue (s : St) (rc : Bool) (hq : s.respQ = [])
    (hr : (ensureWriteable s).2 = .ready) :
    (pumpWrite s rc).1.rqRxWaker = true := by
  unfold pumpWrite
  have hk := ensureWriteable_rk s
  revert hr hk
  cases ensureWriteable s with
  | mk s1 r =>
    intro hr hk
    simp only at hr
    subst hr
    simp only
    have hq1 : s1.respQ = [] := hk.1.trans hq
    split
    · rename_i h; rw [hq1] at h; cases h
    · exact (flushArm_rk { s1 with rqRxWaker := true } rc).2

/-- **A parked reader is registered on the transport's read side** (shared with the client:
`SimT.pollNext`), restated for the server's `tNext`. -/
theorem C02S_server_registers_on_read (s : St) (h : (tNext s).2 = .pending) :
    (tNext s).1.t.readWaker = true := by
  unfold tNext at h ⊢
  split
  · simp_all
  · simp only at h ⊢
    have hp : s.t.pollNext.2 = .pending := by
      split at h <;> simp_all
    rw [hp]
    simp only [emit]
    show s.t.pollNext.1.readWaker = true
    unfold SimT.pollNext at hp ⊢
    split
    · simp_all
    · rename_i hf
      simp only [hf] at hp
      simp only at hp ⊢
      generalize s.t.letThrough s.t.faultNext = u at hp ⊢
      split
      · simp_all
      · simp_all
      · split
        · simp_all
        · rfl

/-! ## The global statement and a first partial result -/

/-- The global statement in the form the server's `settle` operation checks: from any reachable state,
once no task is woken, no queued response and no unread inbound item is left with the sink ready. -/
def C02ServerNoStuckStatement : Prop :=
  ∀ (limit : Option Nat) (respCap tcap : Nat) (coupled : Bool) (ops : List SOp),
    1 ≤ respCap → 1 ≤ tcap → (∀ l, limit = some l → 1 ≤ l) →
    (settle (ops.foldl applyOp (initSys limit respCap tcap coupled))).2 = []

/-- **`settle` stops only when nothing is woken** (partial result): unless its fuel ran out, the state in
which `settle` computes what is stuck has no runnable stream task and no woken execution task, and
the verdict is exactly `stuck` of that state. -/
theorem C02S_settle_quiescent_partial (c : Sys) (hfuel : 0 < (settleLoopF 400 c).2) :
    serverRunnable (settle c).1.s = false ∧
    (∀ e ∈ (settle c).1.s.execs, wakeable e = true → e.woken = false) ∧
    (settle c).2 = stuck (settle c).1.s := by
  have hq := settleLoopF_quiescent 400 c hfuel
  refine ⟨hq.1, firstWokenExec_none _ hq.2, ?_⟩
  show (if serverRunnable (settleLoop 400 c).s || (firstWokenExec (settleLoop 400 c).s).isSome then []
        else stuck (settleLoop 400 c).s) = _
  rw [hq.1, hq.2]
  rfl

/-! ## Non-vacuity -/

/-- A request arrives, is yielded and executed; the handler finishes; the execution queues the
response, which wakes the stream task parked on the response queue; `settle` (polling only woken
tasks) lets it write the response: nothing is stuck and the response is on the wire. -/
example :
    let c0 := [SOp.injectReq 5 1000000000 ⟨1, .given 1, false⟩ 7, .pollServer, .pollExec 0, .pollServer,
               .finish 0 (.ok 9)].foldl applyOp (initSys none 1 2 true)
    c0.s.woken = false ∧ c0.s.rqRxWaker = true ∧
    (getExec c0.s 0).map (·.woken) = some true ∧
    (settle c0).2 = [] ∧ (settle c0).1.s.t.sentLog = [.response 5 (.ok 9)] ∧
    0 < (settleLoopF 400 c0).2 := by
  decide

/-- the stall script: the transport does not wake its owner when the owner's own flush makes room
(`selfWake b`), three requests arrive, the request stream is polled once -/
def limiterSelfWakeOps (b : Bool) : List SOp :=
  [.selfWake b, .injectReq 1 1000000000 ⟨0, .given 0, false⟩ 0, .injectReq 2 1000000000 ⟨0, .given 0, false⟩ 0,
   .injectReq 3 1000000000 ⟨0, .given 0, false⟩ 0, .pollServer]

/-- **`MaxRequests` relies on the sink waking it (model-level witness; reported, not repaired).**  With a
request limit (`limit = some 0`: every request is refused with the throttle error), a sink of capacity 2 and a
transport that does *not* wake its owner when the owner's own flush restores readiness (`selfWake false` —
a staging sink): the poll refuses requests 1 and 2 (two replies fill the sink), then
`MaxRequests::poll_next` gets `poll_ready → Pending` and returns `Pending` *without flushing*; the write pump
then flushes (making the sink ready again) and finds nothing to write.  The poll returns `Pending` with the
stream task parked although request 3 is unread and the transport is ready — only the write waker it left
registered at the sink could wake it, and this sink never fires it for the owner's own flush: `settle`
reports the unread inbound item as stuck.  With a self-waking transport (`selfWake true`) the same poll
leaves the task woken and `settle` reads request 3. -/
theorem C02S_limiter_needs_self_wake_witness :
    let c := (limiterSelfWakeOps false).foldl applyOp (initSys (some 0) 1 2 true)
    let c' := (limiterSelfWakeOps true).foldl applyOp (initSys (some 0) 1 2 true)
    (c.s.woken = false ∧ c.s.t.inbound.length = 1 ∧ c.s.t.isReadyNow = true ∧ c.s.t.writeWaker = true ∧
      c.s.done = none ∧ c.s.dropped = false ∧ c.s.poisoned = false ∧ c.s.t.wire.length = 2 ∧
      (settle c).2 = ["inbound-unread=1"]) ∧
    (c'.s.woken = true ∧ (settle c').2 = [] ∧ (settle c').1.s.t.inbound = []) := by
  decide

end TarpcModel.Server

import TarpcModel.Lemmas.ServerTrace
/-!
# C11 (server side) — tracked state is well-formed: the in-flight table and the deadline timers
always agree

Property theorems only.  Model: `Server/Model.lean`; ops and traces: `Server/Run.lean`.
`run c ops` is the state after `ops` (each op starts with an empty observation buffer, exactly as
`trace` computes it).  The invariants (`TableWF`, `ExecWF`) and their preservation proofs are in
`Lemmas/ServerInv.lean` / `Lemmas/ServerTrace.lean`.
-/
namespace TarpcModel.Server

/-- **C11/B: the in-flight table is well-formed after every op sequence**: request ids pairwise
distinct; the entries' `(timerKey, id)` pairs are, as a multiset, exactly the `(key, value)` pairs
of the `DelayQueue` (wheel ++ expired stack); the queue's keys are pairwise distinct and below its
key allocator. -/
theorem C11_table_wellformed (limit : Option Nat) (respCap tcap : Nat) (coupled : Bool) (ops : List SOp) :
    TableWF (run (initSys limit respCap tcap coupled) ops).s :=
  (run_top limit respCap tcap coupled ops).table

/-- **C11/B: as many armed timers as tracked requests**, after every op sequence. -/
theorem C11_timers_eq_inflight (limit : Option Nat) (respCap tcap : Nat) (coupled : Bool) (ops : List SOp) :
    (run (initSys limit respCap tcap coupled) ops).s.timers.len
      = (run (initSys limit respCap tcap coupled) ops).s.inflight.length :=
  (C11_table_wellformed limit respCap tcap coupled ops).len_eq

/-- **C11/B: every entry has its own timer, keyed by `timerKey` and carrying the entry's id; every
timer belongs to an entry.** -/
theorem C11_timer_bijection (limit : Option Nat) (respCap tcap : Nat) (coupled : Bool) (ops : List SOp)
    (s : St) (hs : s = (run (initSys limit respCap tcap coupled) ops).s) :
    (∀ e ∈ s.inflight, (e.timerKey, e.id) ∈ s.timers.kv)
    ∧ (∀ p ∈ s.timers.kv, ∃ e ∈ s.inflight, e.timerKey = p.1 ∧ e.id = p.2)
    ∧ (s.inflight.map (·.timerKey)).Nodup ∧ (s.timers.kv.map (·.1)).Nodup := by
  subst hs
  have h := C11_table_wellformed limit respCap tcap coupled ops
  refine ⟨?_, ?_, h.keyNodup, h.dq.nodup⟩
  · intro e he
    exact h.perm.mem_iff.mp (List.mem_map.mpr ⟨e, he, rfl⟩)
  · intro p hp
    obtain ⟨e, he, rfl⟩ := List.mem_map.mp (h.perm.mem_iff.mpr hp)
    exact ⟨e, he, rfl, rfl⟩

/-- **C11/B: the `counts` observation never shows two different numbers**, in any trace. -/
theorem C11_counts_always_equal (limit : Option Nat) (respCap tcap : Nat) (coupled : Bool) (ops : List SOp)
    (k a b : Nat) (h : SEv.obs (.counts (.server k) a b) ∈ trace (initSys limit respCap tcap coupled) ops) :
    a = b := by
  obtain ⟨l1, l2, hsplit⟩ := List.append_of_mem h
  have hok := trace_gok limit respCap tcap coupled ops
  rw [hsplit] at hok
  have := hok.at_split.counts
  simp only [gev, gstep, Bool.and_eq_true, beq_iff_eq] at this
  exact this.2

/-- **C11/B: entries ↔ executions**: execution `i` has `rid = i`; every entry names an existing
execution with the same request id whose abort flag is clear; no execution owns two entries. -/
theorem C11_execs_wellformed (limit : Option Nat) (respCap tcap : Nat) (coupled : Bool) (ops : List SOp) :
    ExecWF (run (initSys limit respCap tcap coupled) ops).s :=
  (run_top limit respCap tcap coupled ops).execs

/-- … spelled out with `getExec`: the execution an entry names exists, has the entry's request id
and has not been aborted; and an aborted execution owns no entry. -/
theorem C11_entry_owner (limit : Option Nat) (respCap tcap : Nat) (coupled : Bool) (ops : List SOp)
    (s : St) (hs : s = (run (initSys limit respCap tcap coupled) ops).s) :
    (∀ e ∈ s.inflight, ∃ x, getExec s e.rid = some x ∧ x.id = e.id ∧ x.aborted = false)
    ∧ (∀ x ∈ s.execs, x.aborted = true → ∀ e ∈ s.inflight, e.rid ≠ x.rid)
    ∧ (s.inflight.map (·.rid)).Nodup := by
  subst hs
  have h := C11_execs_wellformed limit respCap tcap coupled ops
  generalize (run (initSys limit respCap tcap coupled) ops).s = s at h
  have hnd : (s.execs.map (·.rid)).Nodup := by
    have := h.rids
    simp only [List.map_map] at this
    have h2 : (s.execs.map (·.rid)) = List.range (s.execs.map ekey).length := by
      rw [← this]; rfl
    rw [h2]; exact List.nodup_range
  have key : ∀ e ∈ s.inflight, ∃ x ∈ s.execs, getExec s e.rid = some x ∧ x.id = e.id ∧ x.aborted = false := by
    intro e he
    obtain ⟨x, hx, hk⟩ := List.mem_map.mp (h.owner e he)
    simp only [ekey, Prod.mk.injEq] at hk
    obtain ⟨h1, h2, h3⟩ := hk
    cases hg : getExec s e.rid with
    | none =>
      rw [getExec_none_iff] at hg
      exact absurd h1 (hg x hx)
    | some y =>
      have hy1 : y ∈ s.execs := List.mem_of_find?_eq_some hg
      have hy2 : y.rid = e.rid := by simpa using List.find?_some hg
      have : x = y := eq_of_nodup_map hnd hx hy1 (by rw [h1, hy2])
      subst this
      exact ⟨x, hx, rfl, h2, h3⟩
  refine ⟨fun e he => ?_, ?_, h.ridNodup⟩
  · obtain ⟨x, _, hx⟩ := key e he
    exact ⟨x, hx⟩
  · intro x hx hab e he hr
    obtain ⟨y, hy, hg, _, hya⟩ := key e he
    have hy2 : y.rid = e.rid := by simpa using List.find?_some hg
    have : x = y := eq_of_nodup_map hnd hx hy (by rw [hy2, hr])
    subst this
    rw [hab] at hya; cases hya

/-! ### monitor sub-check (gold): the `inflight ≠ timers` clause of `checkC11` accepts every trace -/

/-- the first clause of `checkC11`, stand-alone (it does not depend on the monitor's approximate table) -/
def checkC11Equal (_ : Book) (_ : Unit) : SEv → Unit × Option String
  | .obs (.counts (.server _) inflight timers) =>
      if inflight != timers then ((), some s!"{inflight} tracked requests but {timers} armed timers")
      else ((), none)
  | _ => ((), none)

/-- **C11 monitor sub-check accepted**: on every trace of the model the `counts` clause
"`inflight` = `timers`" of the C11 monitor never fires. -/
theorem C11_checkEqual_accepts (limit : Option Nat) (respCap tcap : Nat) (coupled : Bool) (ops : List SOp) :
    (Mon.run limit checkC11Equal () (trace (initSys limit respCap tcap coupled) ops)).ok = true := by
  unfold Mon.ok Mon.run
  rw [Mon.foldl_bad_none]
  · rfl
  · rfl
  · intro b st e he
    cases e with
    | op o => rfl
    | obs o =>
      cases o with
      | counts ep a b' =>
        cases ep with
        | server k =>
          have := C11_counts_always_equal limit respCap tcap coupled ops k a b' he
          simp [checkC11Equal, this]
        | _ => rfl
      | _ => rfl

/-- the hypotheses are satisfiable on a concrete script: two requests read and handed out, one
cancelled; the trace contains `counts` observations and they are equal -/
example :
    (trace (initSys none 1 4 true)
      [.injectReq 1 5000000 ⟨7, .given 1, true⟩ 0, .pollServer, .injectReq 2 5000000 ⟨7, .given 2, true⟩ 0,
       .pollServer, .injectCancel 1 ⟨7, .given 1, true⟩, .pollServer]).filter
        (fun e => match e with | .obs (.counts _ _ _) => true | _ => false)
      = [.obs (.counts (.server 0) 1 1), .obs (.counts (.server 0) 2 2), .obs (.counts (.server 0) 1 1)] := by
  decide

end TarpcModel.Server
